package main

import (
	"fmt"
	"sort"
	"strings"

	"golang.org/x/tools/go/ssa"
)

// Second stage of the folded timestamp parser (rules_ptfold.go): with the byte model of cp_bytes.go the
// outcomes say, per accepting or rejecting path, which values every tested byte may have and which table
// of its bytes every computed number is. That decides
//
//   PT-DIGITS  every byte of a numeric field is accepted exactly when it is '0'..'9', and the number handed
//              on is the decimal value of its digits (year = 1000a+100b+10c+d, …);
//   PT-ACCEPT  no rejecting path is consistent with a well-formed timestamp whose fields are in range
//              (month 01-12, day 01-28, hour 00-23, minute and second 00-59, zone 00-23:00-59): the parser
//              refuses nothing that the standard library accepts — range checks that are too tight, or a
//              separator compared with the wrong character, show up here;
//   TZ-SIGN    the zone offset handed to the zone lookup is ±(36000a+3600b+600c+60d) of the zone's own
//              digits, '+' east and '-' west, 'Z' is time.UTC, and the lookup's result is the location of
//              the time that is returned;
//   TS-FRAC    the nanoseconds are Σ digit_i·10^(8-i) over the first nine fraction digits, further digits
//              ignored, for one to twelve digits.
//
// Soundness of the verdicts rests on exactness of the tables (every operation on a byte is applied to all
// of its possible values with Go's own semantics for the operand type) and on the path condition being a
// conjunction of per-byte sets and recorded constraints; a path that branched on anything else (an unknown
// that is not a byte) makes the clause undecided.

type ptForm struct {
	name string
	n    int64
	frac int64 // number of fraction digits, 0: none
	zone byte  // 0: date only, 'Z', '+' (numeric)
}

func (f ptForm) zpos() int64 {
	if f.frac > 0 {
		return 20 + f.frac
	}
	return 19
}

// validBytes: the bytes a well-formed input of this form may have at pos.
func (f ptForm) validBytes(pos int64) cpByteSet {
	digits := cpByteRange('0', '9')
	one := func(c int) cpByteSet { return cpByteRange(c, c) }
	switch pos {
	case 4, 7:
		return one('-')
	case 10:
		return one('T')
	case 13, 16:
		return one(':')
	}
	if pos < 19 {
		return digits
	}
	z := f.zpos()
	if f.frac > 0 {
		if pos == 19 {
			s := one('.')
			s.add(',')
			return s
		}
		if pos < z {
			return digits
		}
	}
	switch {
	case pos == z:
		if f.zone == 'Z' {
			return one('Z')
		}
		s := one('+')
		s.add('-')
		return s
	case pos == z+3:
		return one(':')
	}
	return digits
}

type ptField struct {
	name   string
	pos    []int64
	lo, hi int64 // range of values every implementation must accept
}

func (f ptForm) fields() []ptField {
	fs := []ptField{{"year", []int64{0, 1, 2, 3}, 0, 9999}, {"month", []int64{5, 6}, 1, 12}, {"day", []int64{8, 9}, 1, 28}}
	if f.zone == 0 {
		return fs
	}
	fs = append(fs, ptField{"hour", []int64{11, 12}, 0, 23}, ptField{"minute", []int64{14, 15}, 0, 59}, ptField{"second", []int64{17, 18}, 0, 59})
	if f.zone == '+' {
		z := f.zpos()
		fs = append(fs, ptField{"zone-hours", []int64{z + 1, z + 2}, 0, 23}, ptField{"zone-minutes", []int64{z + 4, z + 5}, 0, 59})
	}
	return fs
}

func posOfID(id string) int64 {
	var p int64 = -1
	fmt.Sscanf(id, "in[%d]", &p)
	return p
}

// decimalOf: is v the number Σ w_i·(in[p_i]-'0') for all digit values of those bytes? Returns "" or what
// is wrong. Bytes with weight 0 may be absent (or present with a table that is constant on the digits).
func decimalOf(o cpOutcome, v cpVal, weights map[int64]int64) string {
	aa, ok := asAff(v)
	if !ok {
		return fmt.Sprintf("is not a sum of functions of input bytes (%T)", v)
	}
	seen := map[int64]bool{}
	rest := aa.Add
	for _, t := range aa.Terms {
		p := posOfID(t.ID)
		w := weights[p]
		seen[p] = true
		var c int64
		first := true
		for b := int64('0'); b <= '9'; b++ {
			d := t.F[b] - w*(b-'0')
			if first {
				c, first = d, false
			} else if d != c {
				if _, expected := weights[p]; !expected {
					return fmt.Sprintf("depends on in[%d], which is not one of its digits", p)
				}
				return fmt.Sprintf("is not %d times the digit at in[%d] (for %q it contributes %d, for %q %d)", w, p, rune(b-1), t.F[b-1], rune(b), t.F[b])
			}
		}
		rest += c
	}
	for p, w := range weights {
		if w != 0 && !seen[p] {
			return fmt.Sprintf("does not depend on the digit at in[%d]", p)
		}
	}
	if rest != 0 {
		return fmt.Sprintf("is off by the constant %d", rest)
	}
	return ""
}

// digitSetsOf: the path accepted exactly '0'..'9' at each of the positions?
func digitSets(o cpOutcome, pos []int64) string {
	digits := cpByteRange('0', '9')
	for _, p := range pos {
		s, ok := o.Bytes[fmt.Sprintf("in[%d]", p)]
		if !ok {
			return fmt.Sprintf("in[%d] is accepted without any test (any byte passes as a digit)", p)
		}
		if s != digits {
			return fmt.Sprintf("in[%d] is accepted for the bytes %s, a digit is '0'-'9'", p, s)
		}
	}
	return ""
}

// rejectsValid: the (rejecting) outcome's path condition is satisfiable by an input of the form whose fields
// are all in range. decided=false: the path branched on something that is not a byte.
func rejectsValid(e *cpEngine, o cpOutcome, f ptForm) (sat bool, decided bool, example string) {
	for k := range o.Decided {
		if strings.HasPrefix(k, "*global:") {
			continue
		}
		return false, false, "the path branches on " + k
	}
	dom := map[int64]cpByteSet{}
	for p := int64(0); p < f.n; p++ {
		d := f.validBytes(p)
		if s, ok := o.Bytes[fmt.Sprintf("in[%d]", p)]; ok {
			d = d.and(s)
		}
		if d.empty() {
			return false, true, ""
		}
		dom[p] = d
	}
	// groups of bytes that must be chosen together: the fields, merged through constraints
	group := map[int64]int{}
	var fields []ptField
	for i, fl := range f.fields() {
		fields = append(fields, fl)
		for _, p := range fl.pos {
			group[p] = i
		}
	}
	next := len(fields)
	find := func(p int64) int {
		if g, ok := group[p]; ok {
			return g
		}
		group[p] = next
		next++
		return group[p]
	}
	for _, c := range o.Constraints {
		g0 := -1
		for _, t := range c.Aff.Terms {
			g := find(posOfID(t.ID))
			if g0 < 0 {
				g0 = g
			} else if g != g0 {
				for p, gg := range group {
					if gg == g {
						group[p] = g0
					}
				}
			}
		}
	}
	members := map[int][]int64{}
	for p, g := range group {
		if p < f.n {
			members[g] = append(members[g], p)
		}
	}
	var gids []int
	for g := range members {
		gids = append(gids, g)
	}
	sort.Ints(gids)
	ex := map[int64]int{}
	for _, g := range gids {
		ps := members[g]
		sort.Slice(ps, func(i, j int) bool { return ps[i] < ps[j] })
		total := 1
		doms := make([][]int, len(ps))
		for i, p := range ps {
			for v := 0; v < 256; v++ {
				if dom[p].has(v) {
					doms[i] = append(doms[i], v)
				}
			}
			total *= len(doms[i])
			if total > 4000000 {
				return false, false, "too many combinations to enumerate"
			}
		}
		idx := make([]int, len(ps))
		found := false
		val := map[int64]int{}
		for {
			for i, p := range ps {
				val[p] = doms[i][idx[i]]
			}
			ok := true
			for _, fl := range fields {
				if _, in := val[fl.pos[0]]; !in || group[fl.pos[0]] != g {
					continue
				}
				var n int64
				for _, p := range fl.pos {
					n = n*10 + int64(val[p]-'0')
				}
				if n < fl.lo || n > fl.hi {
					ok = false
				}
			}
			if ok {
				for _, c := range o.Constraints {
					if group[posOfID(c.Aff.Terms[0].ID)] != g {
						continue
					}
					sum := c.Aff.Add
					for _, t := range c.Aff.Terms {
						sum += t.F[val[posOfID(t.ID)]]
					}
					if cmpHolds(sum, c.Op, c.K, c.Unsigned) != c.Truth {
						ok = false
					}
				}
			}
			if ok {
				found = true
				for p, v := range val {
					ex[p] = v
				}
				break
			}
			j := 0
			for ; j < len(idx); j++ {
				idx[j]++
				if idx[j] < len(doms[j]) {
					break
				}
				idx[j] = 0
			}
			if j == len(idx) {
				break
			}
		}
		if !found {
			return false, true, ""
		}
	}
	// an example input
	b := make([]byte, f.n)
	for p := int64(0); p < f.n; p++ {
		if v, ok := ex[p]; ok {
			b[p] = byte(v)
			continue
		}
		for v := 0; v < 256; v++ {
			if dom[p].has(v) {
				b[p] = byte(v)
				break
			}
		}
	}
	return true, true, string(b)
}

type ptDeep struct {
	ok      bool
	why     string
	problem map[string]string
}

func parseTimeDeep(P *Program, fn *ssa.Function, fold func(n int64) ([]cpOutcome, bool)) *ptDeep {
	pd := &ptDeep{problem: map[string]string{}}
	set := func(k, v string) {
		if old, seen := pd.problem[k]; !seen || old == "" {
			pd.problem[k] = v
		}
	}
	forms := []ptForm{{"date", 10, 0, 0}, {"date-time-Z", 20, 0, 'Z'}, {"date-time-offset", 25, 0, '+'}}
	for k := int64(1); k <= 12; k++ {
		forms = append(forms, ptForm{fmt.Sprintf("fraction-%d-Z", k), 21 + k, k, 'Z'})
	}
	forms = append(forms, ptForm{"fraction-1-offset", 27, 1, '+'}, ptForm{"fraction-9-offset", 35, 9, '+'})
	e := &cpEngine{P: P}
	for _, f := range forms {
		outs, ok := fold(f.n)
		if !ok {
			pd.why = "form " + f.name + ": the fold failed"
			return pd
		}
		acceptKey := "accepts/" + strings.TrimRight(strings.TrimRight(f.name, "0123456789"), "-")
		if f.frac > 0 {
			acceptKey = "accepts/fraction-" + map[byte]string{'Z': "Z", '+': "offset"}[f.zone]
		}
		set(acceptKey, "")
		matched := 0
		for _, o := range outs {
			// only the paths of this form: right fraction separator or none, right zone character
			inForm := true
			for p := int64(0); p < f.n; p++ {
				if s, ok := o.Bytes[fmt.Sprintf("in[%d]", p)]; ok && s.and(f.validBytes(p)).empty() {
					inForm = false
				}
			}
			if !inForm {
				continue
			}
			if o.Failed != "" {
				pd.why = fmt.Sprintf("form %s: a path consistent with a well-formed input is outside the model: %s", f.name, o.Failed)
				return pd
			}
			if o.Panics {
				set(acceptKey, fmt.Sprintf("a path consistent with a well-formed %s input of %d bytes panics", f.name, f.n))
				continue
			}
			if !ptSuccess(o) {
				sat, decided, ex := rejectsValid(e, o, f)
				if !decided {
					pd.why = fmt.Sprintf("form %s: %s", f.name, ex)
					return pd
				}
				if sat {
					var cs []string
					for _, c := range o.Constraints {
						var ps []string
						for _, t := range c.Aff.Terms {
							ps = append(ps, t.ID)
						}
						cs = append(cs, fmt.Sprintf("f(%s) %s %d is %v", strings.Join(ps, ","), c.Op, c.K, c.Truth))
					}
					set(acceptKey, fmt.Sprintf("the well-formed timestamp %q, whose fields are all in range, is rejected (path condition: %s)", ex, strings.Join(cs, "; ")))
				}
				continue
			}
			matched++
			d := ptDateCall(o)
			if d == nil || len(d.Args) != 8 {
				pd.why = "form " + f.name + ": an accepting path does not end in time.Date"
				return pd
			}
			// the numbers
			for _, fl := range f.fields() {
				if strings.HasPrefix(fl.name, "zone-") {
					continue
				}
				k := "digits/" + fl.name
				w := map[int64]int64{}
				m := int64(1)
				for i := len(fl.pos) - 1; i >= 0; i-- {
					w[fl.pos[i]] = m
					m *= 10
				}
				argi := map[string]int{"year": 0, "month": 1, "day": 2, "hour": 3, "minute": 4, "second": 5}[fl.name]
				if pr := digitSets(o, fl.pos); pr != "" {
					set(k, fmt.Sprintf("%s (input of %d bytes): %s", fl.name, f.n, pr))
				} else if pr := decimalOf(o, d.Args[argi], w); pr != "" {
					set(k, fmt.Sprintf("the %s handed to time.Date %s", fl.name, pr))
				} else {
					set(k, "")
				}
			}
			// the fraction
			if f.zone != 0 {
				w := map[int64]int64{}
				var fpos []int64
				m := int64(100000000)
				for i := int64(0); i < f.frac; i++ {
					w[20+i] = m
					m /= 10
					fpos = append(fpos, 20+i)
				}
				if pr := digitSets(o, fpos); pr != "" {
					set("fraction-value", fmt.Sprintf("fraction of %d digits: %s", f.frac, pr))
				} else if pr := decimalOf(o, d.Args[6], w); pr != "" {
					set("fraction-value", fmt.Sprintf("with %d fraction digits the nanoseconds handed to time.Date: the value %s", f.frac, pr))
				} else {
					set("fraction-value", "")
				}
			}
			// the zone
			z := f.zpos()
			switch f.zone {
			case 'Z':
				if u, isU := d.Args[7].(cpUnk); isU && u.ID == "*global:time.UTC" {
					set("zone-Z", "")
				} else {
					set("zone-Z", fmt.Sprintf("a %d-byte input ending in 'Z' is not given time.UTC", f.n))
				}
			case '+':
				var zc *cpCall
				for i := range o.Calls {
					c := &o.Calls[i]
					if c.Callee == "time.Date" || c.Result == nil {
						continue
					}
					if ru, ok := c.Result.(cpUnk); ok {
						if lu, ok := d.Args[7].(cpUnk); ok && lu.ID == ru.ID {
							zc = c
						}
					}
				}
				if zc == nil {
					set("zone-offset", "the location handed to time.Date is not the result of a zone lookup on this path")
					break
				}
				var off cpVal
				for _, a := range zc.Args {
					if isByteSym(a) {
						off = a
					} else if _, isK := a.(cpInt); isK && off == nil {
						off = a
					}
				}
				if off == nil {
					set("zone-offset", "the zone lookup is not given a number computed from the input")
					break
				}
				sign := int64(0)
				if byteIs(o, z, '+') > 0 {
					sign = 1
				} else if byteIs(o, z, '-') > 0 {
					sign = -1
				}
				if sign == 0 {
					set("zone-sign", fmt.Sprintf("a numeric zone is accepted with something other than '+' or '-' in front: %s", o.Bytes[fmt.Sprintf("in[%d]", z)]))
					break
				}
				zp := []int64{z + 1, z + 2, z + 4, z + 5}
				if pr := digitSets(o, zp); pr != "" {
					set("digits/zone", "zone: "+pr)
				} else {
					set("digits/zone", "")
				}
				if byteIs(o, z+3, ':') <= 0 {
					set("zone-offset", fmt.Sprintf("a numeric zone is accepted without in[%d] having been found equal to ':'", z+3))
					break
				}
				w, opp := map[int64]int64{}, map[int64]int64{}
				for p, x := range map[int64]int64{z + 1: 36000, z + 2: 3600, z + 4: 600, z + 5: 60} {
					w[p], opp[p] = sign*x, -sign*x
				}
				zch := map[int64]string{1: "'+'", -1: "'-'"}[sign]
				if pr := decimalOf(o, off, w); pr == "" {
					set("zone-offset", "")
					set("zone-sign", "")
				} else if decimalOf(o, off, opp) == "" {
					set("zone-sign", "a zone that starts with "+zch+" gets the offset of the opposite sign")
				} else {
					set("zone-offset", "for a zone that starts with "+zch+" the offset handed to the zone lookup "+pr)
				}
			}
		}
		if matched == 0 {
			set(acceptKey, fmt.Sprintf("no input of the form %s (%d bytes) is accepted at all", f.name, f.n))
		}
	}
	pd.ok = true
	return pd
}
