package main

import (
	"golang.org/x/tools/go/ssa"
)

// readerFuncs returns the container-reader functions by role: ReadFile, the
// module functions it (transitively) hands its Reader to, the schema lookup,
// and every implementation of decompress.
func readerFuncs(P *Program, s *readFileShape) []*ssa.Function {
	var out []*ssa.Function
	seen := map[*ssa.Function]bool{}
	add := func(f *ssa.Function) {
		if f != nil && !seen[f] {
			seen[f] = true
			out = append(out, f)
		}
	}
	add(s.fn)
	add(s.headerFn)
	add(s.schemaFn)
	// callees receiving a Reader
	for i := 0; i < len(out); i++ {
		for _, cs := range callsIn(out[i]) {
			if cs.Static == nil || !P.isModuleFunc(cs.Static) {
				continue
			}
			for _, p := range cs.Static.Params {
				if s.rParam != nil && p.Type() == s.rParam.Type() {
					add(cs.Static)
				}
			}
		}
	}
	if s.compIface != nil {
		for _, impl := range implementations(P, s.compIface) {
			add(P.Method(impl, "decompress"))
		}
	}
	if f := P.Func(P.Avro, "FileSchema"); f != nil {
		add(f)
	}
	return out
}

var erClauses = map[string]string{
	"ER-CHECK": "every error produced on the path is checked: returned, or compared with nil with the non-nil edge returning a non-nil error",
	"ER-WRAP":  "an error is returned as is or wrapped with %w",
	"ER-STOP":  "after a failure nothing but error formatting happens before the return (no further write)",
}

func init() {
	register("C07",
		"Static rules over ReadFile, the header reader, the schema lookup and the decompressors decide the structural clauses of C07:  io.ErrUnexpectedEOF is never taken for a normal end of input (ER-UEOF). "+
			"magic/schema/codec-table/sync/CRC comparisons dominate every success path (OD-MAGIC, OD-SCHEMA, CT-AGREE, NIL-IFACE, OD-SYNC, OD-CRC), "+
			"every error on the reading path is checked (ER-CHECK), the callback's error is returned unchanged (ER-PASS), the payload buffer has the declared length and flows unchanged through decompress/decode/deliver (OD-LEN, OD-FLOW), "+
			"each block delivers exactly its declared count (OD-LOOP) and reading ends with success only where the input ends at a block boundary (OD-EOF). Not decided: that the comparisons compute the right values for all inputs inside the standard library and snappy (trusted), and value fidelity of the decoded records (C03).",
		func(c *Ctx) {
			s := findReadFile(c.P)
			c.Rule("ANCHORS", "the constructs the rules talk about exist on the current tree", 1)
			if !c.Anchor(s.fn != nil, "avro.ReadFile") {
				return
			}
			c.OKTrivial("avro.ReadFile", c.P.pos(s.fn.Pos()), "resolved")
			ruleODMagic(c, s)
			ruleODMeta(c, s)
			ruleCPDrain(c, s)
			ruleODSchema(c, s)
			ruleCTAgree(c, s)
			ruleODSync(c, s)
			ruleCRCDecompress(c, s, "OD-CRC")
			ruleCPNoDict(c)
			ruleODLenFlow(c, s)
			ruleERPass(c, s)
			ruleODLoop(c, s)
			ruleODEOF(c, s)
			c.Rule("ER-CHECK", erClauses["ER-CHECK"], 20)
			for _, fn := range readerFuncs(c.P, s) {
				erCheck(c, fn, erOpts{allowEOFNil: fn == s.fn || rfEOFDecided(c.P, fn)}, "ER-CHECK", "", "", erClauses)
			}
			c.Note("not decided: correctness of compress/flate, snappy and crc32 themselves; the values of decoded records (C03)")
			ruleERUEOF(c)
			ruleODAccept(c, s)
		})

	register("C08",
		"Static rules over ReadFile decide the case analysis of C08 for the container layer: the only success return is behind errors.Is(err, io.EOF) of the first read of a block iteration (OD-EOF),  io.ErrUnexpectedEOF is never taken for a normal end of input (ER-UEOF). "+
			"the input is consumed only through io.ReadFull and binary.ReadVarint, each error-checked (OD-READFULL, ER-CHECK), and a record is delivered only after its block's payload was read in full, decompressed and decoded without error (OD-DELIVER, OD-LOOP, OD-SYNC for the marker). "+
			"Trusted: binary.ReadVarint returns io.EOF only when no byte was read; io.ReadFull returns an error unless the buffer was filled. Not decided: fidelity of the delivered values (C03).",
		func(c *Ctx) {
			s := findReadFile(c.P)
			c.Rule("ANCHORS", "the constructs the rules talk about exist on the current tree", 1)
			if !c.Anchor(s.fn != nil, "avro.ReadFile") {
				return
			}
			c.OKTrivial("avro.ReadFile", c.P.pos(s.fn.Pos()), "resolved")
			ruleODEOF(c, s)
			ruleODReadFull(c, s)
			ruleODDeliver(c, s)
			ruleODLoop(c, s)
			ruleODSync(c, s)
			ruleODLenFlow(c, s)
			c.Rule("ER-CHECK", erClauses["ER-CHECK"], 10)
			for _, fn := range readerFuncs(c.P, s) {
				erCheck(c, fn, erOpts{allowEOFNil: fn == s.fn || rfEOFDecided(c.P, fn), skipCallee: func(cs *CallSite) bool {
					// C08 is about consuming the input: only the reads matter here
					if cs.Static == nil {
						return true
					}
					q := qualName(cs.Static)
					return !(q == "io.ReadFull" || q == "encoding/binary.ReadVarint" || c.P.isModuleFunc(cs.Static))
				}}, "ER-CHECK", "", "", erClauses)
			}
			c.Assume = append(c.Assume, "encoding/binary.ReadVarint returns io.EOF only if no byte was read; io.ReadFull returns a non-nil error unless len(buf) bytes were read")
			ruleERUEOF(c)
		})
}
