package main

func init() {
	register("C12",
		"Race-freedom by construction, decided from the source: the three shared maps (codec registry, schema registry, timezone cache) are accessed only with their mutex held, exclusively for writes, and never leave the critical section (LK-GUARD, must-hold dataflow); every other package-level variable is a sync primitive or written only during package initialisation (LK-GLOBAL, with a positive fixture); no method of any codec type writes through its receiver, so built codecs are shareable (LK-IMMUT); the bank pool is used only via Get/Put (LK-POOL); stateful compressors are created per reader/writer and never stored in package state (LK-OWN); a bank handed to a callback is no longer referenced by the reader that filled it — extraction always installs a fresh one (OD-BANK); codec construction and schema generation share no package-level container besides the locked registries, so what one goroutine builds cannot depend on what another built (BT-PURE, SG-DET).  What is looked up in a guarded map is never written through (LK-SHARED).  What the zone cache holds for an offset is built from that offset and constants alone, so which goroutine fills it first makes no difference to what any of them reads (TZ-KEY). "+
			"Not decided: result-equivalence under interleaving, races inside third-party packages, and user-side misuse (closing a bank twice).",
		func(c *Ctx) {
			ruleLKGuard(c)
			ruleLKGlobal(c)
			ruleLKImmut(c)
			ruleLKPool(c)
			ruleLKOwn(c)
			ruleODBank(c, findReadFile(c.P))
			ruleBTPure(c)
			ruleSGDet(c)
			ruleALBump(c)
			c.Note("not decided: that each operation produces the result it would produce alone (value-level); races inside the standard library, snappy, json")
			ruleLKShared(c)
			ruleALOwner(c)
			ruleCDPure(c)
			ruleLKReent(c)
			ruleALBuf(c)
			ruleLKPair(c)
			ruleALFinal(c)
			ruleTZKey(c)
		})
}
