package main

// ENC-SAME decided by folding (E-CP) the encoder's constructor with every
// exported module function and the schema generator opaque: the recorded
// calls show which value flows where, however the constructor is split into
// helpers.

import (
	"go/token"
	"go/types"
	"strings"

	"golang.org/x/tools/go/ssa"
)

// encSameByFold returns the problems per clause ("" = fine) and ok=false when
// the fold could not be done (the caller then falls back on the structural
// reading).
func encSameByFold(P *Program, ctor *ssa.Function) (problems map[string]string, ok bool) {
	if ctor == nil || len(ctor.Params) != 3 {
		return nil, false
	}
	args := []cpVal{cpUnk{ID: "arg:w"}, cpUnk{ID: "arg:compression"}, cpUnk{ID: "arg:size"}}
	opaque := func(g *ssa.Function) bool {
		o := g
		if g.Origin() != nil {
			o = g.Origin()
		}
		return token.IsExported(o.Name()) || isSchemaEntry(P, o)
	}
	cpMaxOutcomes = 256
	defer func() { cpMaxOutcomes = 96 }()
	outs, _, fok, _ := cpFoldOpt(P, ctor, args, opaque)
	if !fok {
		return nil, false
	}
	problems = map[string]string{}
	nGood := 0
	unkID := func(v cpVal) string {
		if u, isU := v.(cpUnk); isU {
			return u.ID
		}
		return ""
	}
	for _, o := range outs {
		if o.Panics || len(o.Results) != 2 {
			continue
		}
		if _, isNil := o.Results[1].(cpNil); !isNil {
			continue
		}
		encPtr, isP := o.Results[0].(cpPtr)
		if !isP || encPtr.C == nil {
			return nil, false
		}
		nGood++
		var typ, codec, marshalled, fw, codecSchema, marshalSchema string
		schemas := map[string]bool{}
		schema := ""
		typeArgOK := false
		for _, cl := range o.Calls {
			var g *ssa.Function
			if cl.Instr != nil {
				g = cl.Instr.Common().StaticCallee()
			}
			if g == nil {
				continue
			}
			og := g
			if g.Origin() != nil {
				og = g.Origin()
			}
			res, _ := cl.Result.(cpTuple)
			switch {
			case qualName(g) == "reflect.TypeFor":
				typ = unkID(cl.Result)
				if ta := g.TypeArgs(); len(ta) == 1 {
					if _, isTP := types.Unalias(ta[0]).(*types.TypeParam); isTP {
						typeArgOK = true
					}
				}
			case isSchemaEntry(P, og):
				if len(cl.Args) >= 1 && typ != "" && unkID(cl.Args[0]) == typ && len(res.Vs) == 2 {
					schema = unkID(res.Vs[0])
					schemas[schema] = true
				} else {
					problems["schema-from-T"] = "the schema is not generated from reflect.TypeFor[T]() of the encoder's type parameter"
				}
			case strings.HasSuffix(qualNameShort(og), "Schema).Codec"):
				recv := cl.Args[0]
				if cl.Deref[0] != nil {
					recv = cl.Deref[0]
				}
				if schemas[unkID(recv)] && len(res.Vs) == 2 {
					codec, codecSchema = unkID(res.Vs[0]), unkID(recv)
				} else {
					problems["codec-from-schema"] = "the codec is not built by the Codec method of the schema value generated for T"
				}
				// the value handed to Codec is a T
				if ca := cl.Instr.Common().Args; len(ca) == 2 {
					if _, isTP := types.Unalias(stripChange(ca[1]).Type()).(*types.TypeParam); !isTP {
						problems["codec-from-schema"] = "the codec is built for a value that is not of the encoder's type parameter"
					}
				}
			case strings.HasSuffix(qualNameShort(og), "Schema).Marshal"):
				recv := cl.Args[0]
				if cl.Deref[0] != nil {
					recv = cl.Deref[0]
				}
				if schemas[unkID(recv)] && len(res.Vs) == 2 {
					marshalled, marshalSchema = unkID(res.Vs[0]), unkID(recv)
				} else {
					problems["header-schema"] = "the schema marshalled for the header is not the schema value the codec is built from"
				}
			case og.Name() == "NewFileWriter":
				if marshalled != "" && len(cl.Args) >= 1 && unkID(cl.Args[0]) == marshalled && len(res.Vs) == 2 {
					fw = unkID(res.Vs[0])
				} else {
					problems["header-schema"] = "the file writer is not created from Marshal() of the schema the codec is built from"
				}
			}
		}
		if !typeArgOK || typ == "" {
			problems["schema-from-T"] = "no reflect.TypeFor[T]() of the encoder's type parameter on the success path"
		}
		if schema == "" && problems["schema-from-T"] == "" {
			problems["schema-from-T"] = "no schema generation on the success path"
		}
		if codec == "" && problems["codec-from-schema"] == "" {
			problems["codec-from-schema"] = "no Schema.Codec call on the success path"
		}
		if codecSchema != marshalSchema && problems["header-schema"] == "" {
			problems["header-schema"] = "the schema marshalled for the header is not the schema value the codec is built from (two schema generations)"
		}
		if fw == "" && problems["header-schema"] == "" {
			problems["header-schema"] = "no file writer created from the marshalled schema on the success path"
		}
		// the encoder's fields
		st, isS := encPtr.C.V.(cpStruct)
		if !isS {
			return nil, false
		}
		get := func(role string) string {
			name := encFieldRoles[role]
			if name == "" {
				name = role
			}
			v, _ := cpFieldByName(st, name)
			if iv, isI := v.(cpIface); isI {
				v = iv.V
			}
			return unkID(v)
		}
		if get("codec") != codec || codec == "" || get("fw") != fw || fw == "" || get("w") != "arg:w" {
			problems["encoder-fields"] = "the Encoder returned does not hold the codec built from the schema, the file writer created from it and the caller's writer"
		}
	}
	if nGood == 0 {
		return nil, false
	}
	return problems, true
}
