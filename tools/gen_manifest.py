#!/usr/bin/env python3
"""Regenerates /verif/MANIFEST.json from tools/claims.json (per-property claim
texts) and properties.jsonl. Properties without a claim entry are listed under
not_applicable with the reason given in claims.json["not_applicable"]."""
import json, os, sys
here = os.path.dirname(os.path.dirname(os.path.abspath(__file__)))
props = [json.loads(l) for l in open(os.path.join(here, 'properties.jsonl'))]
claims = json.load(open(os.path.join(here, 'tools', 'claims.json')))
checks = []
na = []
for p in props:
    pid = p['id']
    c = claims['claimed'].get(pid)
    if c is None:
        na.append({"property_id": pid, "reason": claims['not_applicable'].get(pid, "check not yet implemented in this revision (build in progress, see DESIGN.md section 10)")})
        continue
    checks.append({
        "property_id": pid,
        "quick_cmd": "./check %s quick" % pid,
        "thorough_cmd": "./check %s thorough" % pid,
        "evidence_file": "/verif/evidence/%s.json" % pid,
        "replay_cmd_template": "./check %s quick -explain {path}" % pid,
        "engine": "avrocheck",
        "level_claimed": {"category": "other", "text": c['text'], "design_ref": c.get('design_ref', 'DESIGN.md section 5, ' + pid)},
        "level_note": c['note'],
        "technique": c['technique'],
    })
m = {
    "version": 1,
    "setup_cmd": "cd /verif/checker && PATH=/opt/veriftools/go1.26.8/bin:$PATH GOTOOLCHAIN=local GOFLAGS=-mod=mod GOPROXY=off GOSUMDB=off go build -o /verif/bin/avrocheck .",
    "hooks": {"guard": "verif", "enable": "none needed: the checker reads /repo's source; no hooks or instrumentation are compiled into the library",
              "baseline_off_cmd": "cd /repo && GOFLAGS=-mod=mod GOPROXY=off go test -vet=off -count=1 ./...", "source_commits": [], "add_only": True},
    "engines": [{"name": "avrocheck", "path": "checker/", "serves_properties": [c['property_id'] for c in checks],
                 "kind_free_text": "repository-specific static analyzer over go/types + go/ssa (x/tools v0.50.0): guard dominance, builder dispatch tables, pointee contracts, wire-token automata, taint, lock and error discipline"}],
    "checks": checks,
    "notes": "Static analysis only: no library code is executed and no solver is involved. Besides dominance, dataflow, automata and table rules, one engine (E-CP, DESIGN 11.5-11.6) interprets go/ssa abstractly - constants, named unknowns, and for a symbolic input string per-byte value sets with exact tables of byte functions - forking on undecided branches within fixed budgets; its questions are finite tables of the specification, not sampled inputs. Every claim is at level 'other': the check decides named structural clauses that are necessary conditions of the property, not the behavioural statement itself. Genuine defects found are repaired by fix: commits in /repo or listed in known_findings.json. See DESIGN.md.",
    "not_applicable": na,
}
json.dump(m, open(os.path.join(here, 'MANIFEST.json'), 'w'), indent=1)
print("claimed:", [c['property_id'] for c in checks], "n/a:", [n['property_id'] for n in na])
