package main

// Rules added with seed round 16.

import (
	"fmt"
	"go/token"
	"go/types"
	"sort"

	"golang.org/x/tools/go/ssa"
)

// ---------- SCH-TREE

// schemaNodeTypes: the named types a schema in memory is made of: Schema and every named type of its package
// reachable from it through fields, pointers, slices and arrays.
func schemaNodeTypes(P *Program) map[*types.Named]bool {
	out := map[*types.Named]bool{}
	root, _ := types.Unalias(P.NamedType(P.Avro, "Schema")).(*types.Named)
	if root == nil {
		return out
	}
	var walk func(t types.Type)
	walk = func(t types.Type) {
		switch t := types.Unalias(t).(type) {
		case *types.Named:
			if t.Obj().Pkg() != root.Obj().Pkg() || out[t] {
				return
			}
			if _, isS := t.Underlying().(*types.Struct); !isS {
				return
			}
			out[t] = true
			walk(t.Underlying())
		case *types.Struct:
			for i := 0; i < t.NumFields(); i++ {
				walk(t.Field(i).Type())
			}
		case *types.Pointer:
			walk(t.Elem())
		case *types.Slice:
			walk(t.Elem())
		case *types.Array:
			walk(t.Elem())
		}
	}
	walk(root)
	return out
}

// carriesSchemaLink: a value of type t can hold a reference to (or a copy of) a schema node.
func carriesSchemaLink(t types.Type, nodes map[*types.Named]bool, d int) bool {
	if d > 6 {
		return false
	}
	switch t := types.Unalias(t).(type) {
	case *types.Named:
		if nodes[t] {
			return true
		}
		return carriesSchemaLink(t.Underlying(), nodes, d+1)
	case *types.Struct:
		for i := 0; i < t.NumFields(); i++ {
			if carriesSchemaLink(t.Field(i).Type(), nodes, d+1) {
				return true
			}
		}
	case *types.Pointer:
		return carriesSchemaLink(t.Elem(), nodes, d+1)
	case *types.Slice:
		return carriesSchemaLink(t.Elem(), nodes, d+1)
	case *types.Array:
		return carriesSchemaLink(t.Elem(), nodes, d+1)
	}
	return false
}

func isSchemaNode(t types.Type, nodes map[*types.Named]bool) bool {
	n, ok := types.Unalias(t).(*types.Named)
	return ok && nodes[n]
}

// ruleSchTree: a schema in memory is a finite tree, which is what lets every recursion over it (decoder
// construction, serialisation) terminate. Nodes are linked only while they are being made: a store of a value
// that can carry a link to a schema node, into a schema node the storing function did not make itself, stores
// something that function made itself (new, a composite literal, make, the zero value). Storing a node taken
// from elsewhere — a table of named types, another part of the same schema — into an existing node is how a
// schema comes to contain itself.
func ruleSchTree(c *Ctx) {
	c.Rule("SCH-TREE", "schema nodes are linked only while they are made: what is stored into a schema node that the storing function did not make is a node that function made itself, so no schema in memory contains itself and the recursions over it end", 1)
	P := c.P
	nodes := schemaNodeTypes(P)
	if !c.Anchor(len(nodes) >= 2, "the schema node types (Schema and what it is made of)") {
		return
	}
	// is the address inside a schema node, and is that node made by this function?
	var rootOf func(v ssa.Value, d int) (root ssa.Value, inNode bool)
	rootOf = func(v ssa.Value, d int) (ssa.Value, bool) {
		in := false
		if pt, ok := v.Type().Underlying().(*types.Pointer); ok && isSchemaNode(pt.Elem(), nodes) {
			in = true
		}
		if d > 12 {
			return v, in
		}
		switch x := v.(type) {
		case *ssa.FieldAddr:
			r, i := rootOf(x.X, d+1)
			return r, in || i
		case *ssa.IndexAddr:
			if sl, ok := x.X.Type().Underlying().(*types.Slice); ok && isSchemaNode(sl.Elem(), nodes) {
				in = true
			}
			r, i := rootOf(x.X, d+1)
			return r, in || i
		case *ssa.Slice:
			r, i := rootOf(x.X, d+1)
			return r, in || i
		case *ssa.ChangeType:
			r, i := rootOf(x.X, d+1)
			return r, in || i
		}
		return v, in
	}
	var fresh func(v ssa.Value, fn *ssa.Function, d int) bool
	fresh = func(v ssa.Value, fn *ssa.Function, d int) bool {
		if d > 5 {
			return false
		}
		switch x := v.(type) {
		case *ssa.Const:
			return true
		case *ssa.Alloc:
			// a node made here; what is put into it must be made here too
			for _, r := range referrersOf(x) {
				switch r := r.(type) {
				case *ssa.Store:
					if r.Addr == ssa.Value(x) && carriesSchemaLink(r.Val.Type(), nodes, 0) && !fresh(r.Val, fn, d+1) {
						return false
					}
				case *ssa.FieldAddr:
					for _, rr := range referrersOf(r) {
						if st, ok := rr.(*ssa.Store); ok && st.Addr == ssa.Value(r) && carriesSchemaLink(st.Val.Type(), nodes, 0) && !fresh(st.Val, fn, d+1) {
							return false
						}
					}
				}
			}
			return true
		case *ssa.MakeSlice:
			return true
		case *ssa.Slice:
			return fresh(x.X, fn, d+1)
		case *ssa.ChangeType:
			return fresh(x.X, fn, d+1)
		case *ssa.UnOp:
			if x.Op == token.MUL {
				if a, ok := x.X.(*ssa.Alloc); ok {
					return fresh(a, fn, d+1)
				}
			}
			return false
		case *ssa.Phi:
			for _, e := range x.Edges {
				if !fresh(e, fn, d+1) {
					return false
				}
			}
			return true
		case *ssa.Extract:
			if call, ok := x.Tuple.(*ssa.Call); ok {
				return freshCallResult(P, call, x.Index, nodes, fresh, d)
			}
			return false
		case *ssa.Call:
			return freshCallResult(P, x, 0, nodes, fresh, d)
		}
		return false
	}
	type site struct {
		key, pos string
		ok       bool
		why      string
	}
	var sites []site
	perFn := map[string]int{}
	for _, fn := range P.ModuleFuncs() {
		for _, b := range fn.Blocks {
			for _, in := range b.Instrs {
				st, ok := in.(*ssa.Store)
				if !ok || !carriesSchemaLink(st.Val.Type(), nodes, 0) {
					continue
				}
				root, inNode := rootOf(st.Addr, 0)
				if !inNode {
					continue
				}
				switch root.(type) {
				case *ssa.Alloc, *ssa.MakeSlice:
					continue // a node (or a list of nodes) this function is making
				}
				perFn[fnKey(fn)]++
				key := fmt.Sprintf("%s/store-into-node#%d", fnKey(fn), perFn[fnKey(fn)])
				if fresh(st.Val, fn, 0) {
					sites = append(sites, site{key, P.pos(st.Pos()), true, "what is stored into the existing schema node is made in this function (new, composite literal, make or zero)"})
				} else {
					sites = append(sites, site{key, P.pos(st.Pos()), false, fmt.Sprintf("a schema node reached through %s is overwritten with, or linked to, a node this function did not make (%s): a schema may come to contain itself, and decoder construction over it never ends", describeVal(root), describeVal(st.Val))})
				}
			}
		}
	}
	sort.Slice(sites, func(i, j int) bool { return sites[i].key < sites[j].key })
	for _, s := range sites {
		if s.ok {
			c.OK(s.key, s.pos, s.why)
		} else {
			c.Bad(s.key, s.pos, s.why)
		}
	}
}

// freshCallResult: result idx of the call is made by the callee itself on every return (a module function, looked
// into two levels deep), or is what append returns for a list and items made here.
func freshCallResult(P *Program, call *ssa.Call, idx int, nodes map[*types.Named]bool, fresh func(ssa.Value, *ssa.Function, int) bool, d int) bool {
	if b, ok := call.Call.Value.(*ssa.Builtin); ok && b.Name() == "append" {
		for _, a := range call.Call.Args {
			if !fresh(a, call.Parent(), d+1) {
				return false
			}
		}
		return true
	}
	g := call.Call.StaticCallee()
	if g == nil || g.Blocks == nil || !P.isModuleFunc(g) || d > 2 {
		return false
	}
	rets := returnsOf(g)
	if len(rets) == 0 {
		return false
	}
	for _, r := range rets {
		if idx >= len(r.Results) || !fresh(r.Results[idx], g, d+2) {
			return false
		}
	}
	return true
}

func describeVal(v ssa.Value) string {
	switch x := v.(type) {
	case *ssa.Parameter:
		return "parameter " + x.Name()
	case *ssa.Extract:
		if _, ok := x.Tuple.(*ssa.Lookup); ok {
			return "a map lookup"
		}
		if call, ok := x.Tuple.(*ssa.Call); ok {
			return "a result of " + describeVal(call)
		}
	case *ssa.Lookup:
		return "a map lookup"
	case *ssa.Call:
		if g := x.Call.StaticCallee(); g != nil {
			return "the result of " + qualName(g)
		}
		return "the result of a call"
	case *ssa.UnOp:
		if x.Op == token.MUL {
			return "a load of " + accessPath(x.X)
		}
	}
	if p := accessPath(v); p != "" {
		return p
	}
	return v.Name()
}

// ---------- BT-NILTYP

// ruleBTNilTyp: a schema field the target struct lacks is built for with no Go type at all (the record builder
// passes a nil reflect.Type), and the codec that comes out is used to skip the field. The dispatcher is folded
// for every schema type and the nil type: no way through it ends in a run-time panic (a method called on the nil
// type), and a codec comes out — so decoder construction for a file with more fields than the struct returns a
// decoder, not a crash or a refusal.
func ruleBTNilTyp(c *Ctx) {
	c.Rule("BT-NILTYP", "for every schema type the dispatcher, folded with no Go type (a field the struct lacks), returns a codec on some path and panics on none", 10)
	P := c.P
	root := P.Func(P.Avro, "buildCodec")
	schemaNT := P.NamedType(P.Avro, "Schema")
	if !c.Anchor(root != nil && schemaNT != nil && len(root.Params) == 3, "root dispatcher buildCodec(schema, typ, omit)") {
		return
	}
	schemaT := types.Type(schemaNT)
	sst := schemaT.Underlying().(*types.Struct)
	var objT, fieldT types.Type
	for i := 0; i < sst.NumFields(); i++ {
		if sst.Field(i).Name() == "Object" {
			if pt, ok := sst.Field(i).Type().Underlying().(*types.Pointer); ok {
				objT = pt.Elem()
			}
		}
	}
	if !c.Anchor(objT != nil, "Schema.Object") {
		return
	}
	ost := objT.Underlying().(*types.Struct)
	for i := 0; i < ost.NumFields(); i++ {
		if ost.Field(i).Name() == "Fields" {
			if sl, ok := ost.Field(i).Type().Underlying().(*types.Slice); ok {
				fieldT = sl.Elem()
			}
		}
	}
	sch := func(t string, extra map[string]cpVal, obj map[string]cpVal) cpVal {
		f := map[string]cpVal{"Type": cpStr{t}}
		for k, v := range extra {
			f[k] = v
		}
		if obj != nil {
			f["Object"] = cpPtrTo(cpStructOf(objT, obj), objT)
		}
		return cpStructOf(schemaT, f)
	}
	long := sch("long", nil, nil)
	type kase struct {
		st string
		s  cpVal
	}
	var cases []kase
	for _, st := range []string{"null", "boolean", "int", "long", "float", "double", "bytes", "string"} {
		cases = append(cases, kase{st, sch(st, nil, nil)})
	}
	cases = append(cases,
		kase{"fixed", sch("fixed", nil, map[string]cpVal{"Size": cpInt{4}, "Name": cpStr{"F"}})},
		kase{"array", sch("array", nil, map[string]cpVal{"Items": long})},
		kase{"array<bytes>", sch("array", nil, map[string]cpVal{"Items": sch("bytes", nil, nil)})},
		kase{"map", sch("map", nil, map[string]cpVal{"Values": long})},
		kase{"union", sch("union", map[string]cpVal{"Union": cpSlice{Elems: []*cpCell{{V: sch("null", nil, nil), T: schemaT}, {V: sch("string", nil, nil), T: schemaT}}}}, nil)},
		kase{"union[null,bytes]", sch("union", map[string]cpVal{"Union": cpSlice{Elems: []*cpCell{{V: sch("null", nil, nil), T: schemaT}, {V: sch("bytes", nil, nil), T: schemaT}}}}, nil)},
	)
	if fieldT != nil {
		mkField := func(name string, t cpVal) *cpCell {
			return &cpCell{V: cpStructOf(fieldT, map[string]cpVal{"Name": cpStr{name}, "Type": t}), T: fieldT}
		}
		cases = append(cases, kase{"record", sch("record", nil, map[string]cpVal{"Name": cpStr{"R"}, "Fields": cpSlice{Elems: []*cpCell{mkField("a", long), mkField("b", sch("bytes", nil, nil)), mkField("c", sch("float", nil, nil))}}})})
	}
	old := cpMaxOutcomes
	cpMaxOutcomes, cpNilInvokePanics = 256, true
	defer func() { cpMaxOutcomes, cpNilInvokePanics = old, false }()
	for _, k := range cases {
		key := fmt.Sprintf("%s/nil-type[%s]", fnKey(root), k.st)
		pos := P.pos(root.Pos())
		cpPanicAt = map[ssa.Instruction]bool{}
		outs, _, ok, why := cpFoldOpt(P, root, []cpVal{k.s, cpNil{}, cpUnk{ID: "arg:omit"}}, nil)
		at := ""
		for in := range cpPanicAt {
			if p := P.pos(in.Pos()); at == "" || p < at {
				at = p
			}
		}
		cpPanicAt = nil
		if !ok {
			c.Unk(key, pos, "the dispatcher could not be folded for schema "+k.st+" and no Go type: "+why)
			continue
		}
		panics, built := "", false
		for _, o := range outs {
			if o.Panics {
				panics = at
				if panics == "" {
					panics = "(position unknown)"
				}
				continue
			}
			if len(o.Results) == 2 {
				if _, isNil := o.Results[1].(cpNil); isNil {
					built = true
				}
			}
		}
		switch {
		case panics != "":
			c.Bad(key, pos, fmt.Sprintf("for schema %s and no Go type (a field the struct lacks) decoder construction ends in a run-time panic at %s", k.st, panics))
		case !built:
			c.Bad(key, pos, fmt.Sprintf("for schema %s and no Go type no codec comes out: a file with such a field cannot be read into a struct that lacks it", k.st))
		default:
			c.OK(key, pos, fmt.Sprintf("folded for schema %s and the nil type: %d outcomes, none panics, a codec comes out", k.st, len(outs)))
		}
	}
}
