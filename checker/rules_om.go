package main

// OM-ZERO: a codec's Omit may report true only on the strength of a test that
// the value its pointer argument points to is the type's zero value (or an
// invalid null.* wrapper): a union writes the null branch for an omitted
// value, and null decodes to exactly that.

import (
	"fmt"
	"go/token"
	"strings"

	"golang.org/x/tools/go/ssa"
)

type omEnv struct {
	P    *Program
	ptrs map[ssa.Value]bool // aliases of the pointer to the value
	vals map[ssa.Value]bool // parameters standing for the value itself (in helpers)
}

// ptrAlias: v is the pointer p itself, converted, or the address of a part of *p.
func (e *omEnv) ptrAlias(v ssa.Value, d int) bool {
	if d > 8 {
		return false
	}
	if e.ptrs[v] {
		return true
	}
	switch x := v.(type) {
	case *ssa.Convert:
		return e.ptrAlias(x.X, d+1)
	case *ssa.ChangeType:
		return e.ptrAlias(x.X, d+1)
	case *ssa.FieldAddr:
		return e.ptrAlias(x.X, d+1)
	case *ssa.Call:
		if a := castHelperArg(e.P, x); a != nil {
			return e.ptrAlias(a, d+1)
		}
	}
	return false
}

// castHelperArg: the call is to a module helper that does nothing but hand back its one pointer parameter under
// another pointer type (func slot(p unsafe.Pointer) *T { return (*T)(p) }); returns the argument.
func castHelperArg(P *Program, call *ssa.Call) ssa.Value {
	g := call.Call.StaticCallee()
	if g == nil || !P.isModuleFunc(g) || g.Blocks == nil || len(g.Params) != 1 || len(call.Call.Args) != 1 || g.Signature.Results().Len() != 1 || len(g.Blocks) != 1 {
		return nil
	}
	for _, in := range g.Blocks[0].Instrs {
		switch in.(type) {
		case *ssa.Convert, *ssa.ChangeType, *ssa.Return, *ssa.DebugRef:
		default:
			return nil
		}
	}
	rets := returnsOf(g)
	if len(rets) != 1 || stripConv(stripChange(stripConv(rets[0].Results[0]))) != ssa.Value(g.Params[0]) {
		return nil
	}
	return call.Call.Args[0]
}

// samePtr: v is p itself (possibly converted): the whole value, not a part of it.
func (e *omEnv) samePtr(v ssa.Value, d int) bool {
	if d > 8 {
		return false
	}
	if e.ptrs[v] {
		return true
	}
	switch x := v.(type) {
	case *ssa.Convert:
		return e.samePtr(x.X, d+1)
	case *ssa.ChangeType:
		return e.samePtr(x.X, d+1)
	case *ssa.Call:
		if a := castHelperArg(e.P, x); a != nil {
			return e.samePtr(a, d+1)
		}
	}
	return false
}

// valueAt: v is (a part of, or the length of) the value p points to.
func (e *omEnv) valueAt(v ssa.Value, d int) bool {
	if d > 8 {
		return false
	}
	if e.vals[v] {
		return true
	}
	switch x := v.(type) {
	case *ssa.UnOp:
		if x.Op == token.MUL {
			return e.ptrAlias(x.X, d+1)
		}
	case *ssa.Field:
		return e.valueAt(x.X, d+1)
	case *ssa.Convert:
		return e.valueAt(x.X, d+1)
	case *ssa.ChangeType:
		return e.valueAt(x.X, d+1)
	case *ssa.Call:
		// len(value), or a bodiless runtime helper (maplen) applied to the value
		if bi, ok := x.Call.Value.(*ssa.Builtin); ok && bi.Name() == "len" && len(x.Call.Args) == 1 {
			return e.valueAt(x.Call.Args[0], d+1)
		}
		if g := x.Call.StaticCallee(); g != nil && e.P.isModuleFunc(g) && g.Blocks == nil && len(x.Call.Args) == 1 {
			return e.valueAt(x.Call.Args[0], d+1)
		}
		// a module helper that loads (a part of) the value through the pointer it is given
		if g := x.Call.StaticCallee(); g != nil && e.P.isModuleFunc(g) && g.Blocks != nil && d < 4 && g.Signature.Results().Len() == 1 {
			sub := &omEnv{P: e.P, ptrs: map[ssa.Value]bool{}, vals: map[ssa.Value]bool{}}
			n := 0
			for i, a := range x.Call.Args {
				if i >= len(g.Params) {
					break
				}
				if e.ptrAlias(a, 0) {
					sub.ptrs[g.Params[i]] = true
					n++
				} else if e.valueAt(a, d+1) {
					sub.vals[g.Params[i]] = true
					n++
				}
			}
			if n > 0 {
				all := true
				for _, r := range returnsOf(g) {
					if !sub.valueAt(resolvedResults(r)[0], d+1) {
						all = false
					}
				}
				if all && len(returnsOf(g)) > 0 {
					return true
				}
			}
		}
	}
	return false
}

func isZeroConst(v ssa.Value) bool {
	c, ok := v.(*ssa.Const)
	if !ok {
		return false
	}
	if c.Value == nil {
		return true // nil, or the zero value of an aggregate
	}
	s := c.Value.ExactString()
	return s == "0" || s == `""` || s == "false"
}

// zeroTest: v being `want` means the value at p is zero.
func (e *omEnv) zeroTest(v ssa.Value, want bool, d int) bool {
	if d > 6 {
		return false
	}
	switch x := v.(type) {
	case *ssa.UnOp:
		if x.Op == token.NOT {
			return e.zeroTest(x.X, !want, d+1)
		}
		// a bool (part of the) value: false is zero / invalid
		if x.Op == token.MUL && e.valueAt(x, 0) && !want {
			return true
		}
	case *ssa.Field:
		if e.valueAt(x, 0) && !want {
			return true
		}
	case *ssa.BinOp:
		if (x.Op == token.EQL) != want || (x.Op != token.EQL && x.Op != token.NEQ) {
			return false
		}
		return isZeroConst(x.Y) && e.valueAt(x.X, 0) || isZeroConst(x.X) && e.valueAt(x.Y, 0)
	case *ssa.Call:
		if !want {
			return false
		}
		args := x.Call.Args
		if g := x.Call.StaticCallee(); g != nil {
			if qualName(g) == "(time.Time).IsZero" && len(args) == 1 {
				return e.valueAt(args[0], 0)
			}
			if g.Name() == "Omit" && len(args) >= 1 {
				return e.samePtr(args[len(args)-1], 0)
			}
			if e.P.isModuleFunc(g) && g.Blocks != nil && d < 3 {
				// a helper: its parameter takes the role of p or of the value
				sub := &omEnv{P: e.P, ptrs: map[ssa.Value]bool{}, vals: map[ssa.Value]bool{}}
				n := 0
				for i, a := range args {
					if i >= len(g.Params) {
						break
					}
					switch {
					case e.samePtr(a, 0):
						sub.ptrs[g.Params[i]] = true
						n++
					case e.valueAt(a, 0):
						sub.vals[g.Params[i]] = true
						n++
					}
				}
				if n == 0 {
					return false
				}
				return len(sub.problems(g, d+1)) == 0
			}
			return false
		}
		if x.Call.IsInvoke() && x.Call.Method.Name() == "Omit" && len(args) == 1 {
			return e.samePtr(args[0], 0)
		}
	}
	return false
}

// problems lists the returns of fn that can be true without a zero test.
func (e *omEnv) problems(fn *ssa.Function, d int) []string {
	paths, ok := enumeratePaths(fn)
	if !ok {
		return []string{"path budget exceeded"}
	}
	var out []string
	seen := map[string]bool{}
	add := func(s string) {
		if !seen[s] {
			seen[s] = true
			out = append(out, s)
		}
	}
	for _, pa := range paths {
		if pa.Ret == nil {
			continue
		}
		v := resolvedResults(pa.Ret)[0]
		for i := 0; i < 4; i++ {
			if phi, isPhi := v.(*ssa.Phi); isPhi {
				v = phiValueOnPath(phi, pa.Blocks)
			}
		}
		if k, isK := v.(*ssa.Const); isK {
			if k.Value == nil || k.Value.ExactString() != "true" {
				continue
			}
			just := false
			for i := 0; i+1 < len(pa.Blocks); i++ {
				b := pa.Blocks[i]
				iff, isIf := b.Instrs[len(b.Instrs)-1].(*ssa.If)
				if !isIf {
					continue
				}
				if e.zeroTest(iff.Cond, b.Succs[0] == pa.Blocks[i+1], d) {
					just = true
				}
			}
			if !just {
				add(fmt.Sprintf("returns true at %s on a path with no test that the value is zero", e.P.pos(pa.Ret.Pos())))
			}
			continue
		}
		if !e.zeroTest(v, true, d) {
			add(fmt.Sprintf("the value returned at %s (%s) is not a test that the value p points to is zero", e.P.pos(pa.Ret.Pos()), strings.TrimSpace(v.String())))
		}
	}
	return out
}

func ruleOMZero(c *Ctx) {
	c.Rule("OM-ZERO", "Omit is true only on the strength of a test that the value at its pointer is the zero value (nil pointer, empty, zero time, invalid wrapper): that is what the null branch decodes to", 20)
	P := c.P
	bt := getBT(P)
	for _, ct := range bt.Codecs {
		fn := ct.M["Omit"]
		if fn == nil || !ct.Declared["Omit"] || len(fn.Params) == 0 {
			continue
		}
		key := ct.Name + ".Omit/zero-test"
		pos := P.pos(fn.Pos())
		if ct.Name == "avro.nullCodec" {
			c.OKTrivial(key, pos, "the null codec's only value is null")
			continue
		}
		e := &omEnv{P: P, ptrs: map[ssa.Value]bool{fn.Params[len(fn.Params)-1]: true}, vals: map[ssa.Value]bool{}}
		probs := e.problems(fn, 0)
		if len(probs) == 0 {
			c.OK(key, pos, "every way Omit can be true rests on a zero/nil/invalid test of the value at p (directly, through a helper, or by delegating to another Omit with the same pointer)")
		} else {
			c.Bad(key, pos, strings.Join(probs, "; ")+": a non-zero value would be written as null and decode to the zero value")
		}
	}
}
