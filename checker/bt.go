package main

// E-BT: builder dispatch tables by path enumeration. Every function returning
// (avro.Codec, error) is explored path by path; branch conditions that are
// comparisons of a pure access path with a constant (typ == nil,
// typ.Kind() == k, typ.Elem().Kind() == k, schema.Type == "s", ...) refine a
// per-path constraint store; infeasible paths are dropped. At each return the
// path's constraints and the returned codec are recorded.

import (
	"fmt"
	"go/constant"
	"go/token"
	"go/types"
	"reflect"
	"regexp"
	"sort"
	"strings"

	"golang.org/x/tools/go/ssa"
)

// pathState: constraints on canonical access paths.
type pathState struct {
	eq map[string]string          // path == const
	ne map[string]map[string]bool // path != const
	// truth of opaque boolean values (comma-ok results, phi conditions)
	bools map[ssa.Value]bool
	// relational facts between two non-constant paths: "a==b" / "a!=b"
	rel map[string]bool
}

func newPathState() *pathState {
	return &pathState{eq: map[string]string{}, ne: map[string]map[string]bool{}, bools: map[ssa.Value]bool{}, rel: map[string]bool{}}
}

func (s *pathState) clone() *pathState {
	o := newPathState()
	for k, v := range s.eq {
		o.eq[k] = v
	}
	for k, m := range s.ne {
		mm := map[string]bool{}
		for kk := range m {
			mm[kk] = true
		}
		o.ne[k] = mm
	}
	for k, v := range s.bools {
		o.bools[k] = v
	}
	for k, v := range s.rel {
		o.rel[k] = v
	}
	return o
}

// assume adds "path op const"; returns false if infeasible.
func (s *pathState) assume(path string, eq bool, k string) bool {
	if eq {
		if cur, ok := s.eq[path]; ok {
			return cur == k
		}
		if s.ne[path][k] {
			return false
		}
		s.eq[path] = k
		return true
	}
	if cur, ok := s.eq[path]; ok {
		return cur != k
	}
	if s.ne[path] == nil {
		s.ne[path] = map[string]bool{}
	}
	s.ne[path][k] = true
	return true
}

func constKey(c *ssa.Const) string {
	if c.Value == nil {
		return "nil"
	}
	if c.Value.Kind() == constant.String {
		return "s:" + constant.StringVal(c.Value)
	}
	return c.Value.ExactString()
}

// BTPath is one explored path of a builder.
type BTPath struct {
	Fn     *ssa.Function
	Blocks []*ssa.BasicBlock
	State  *pathState
	Ret    *ssa.Return
	Panic  bool
	// state at each call to another module function on this path
	Calls []btCall
}

type btCall struct {
	Call  *ssa.Call
	State *pathState
}

const maxPaths = 20000

// enumeratePaths explores fn. ok=false if the path budget was exceeded.
func enumeratePaths(fn *ssa.Function) (paths []*BTPath, ok bool) {
	ok = true
	var walk func(b *ssa.BasicBlock, st *pathState, trail []*ssa.BasicBlock, visits map[*ssa.BasicBlock]int, calls []btCall)
	walk = func(b *ssa.BasicBlock, st *pathState, trail []*ssa.BasicBlock, visits map[*ssa.BasicBlock]int, calls []btCall) {
		if !ok {
			return
		}
		if visits[b] >= 2 {
			return // each loop body at most once more
		}
		visits[b]++
		defer func() { visits[b]-- }()
		trail = append(trail, b)
		for _, in := range b.Instrs {
			if call, isCall := in.(*ssa.Call); isCall {
				calls = append(calls, btCall{call, st})
			}
		}
		last := b.Instrs[len(b.Instrs)-1]
		switch x := last.(type) {
		case *ssa.Return:
			if len(paths) >= maxPaths {
				ok = false
				return
			}
			paths = append(paths, &BTPath{Fn: fn, Blocks: append([]*ssa.BasicBlock(nil), trail...), State: st, Ret: x, Calls: append([]btCall(nil), calls...)})
		case *ssa.Panic:
			paths = append(paths, &BTPath{Fn: fn, Blocks: append([]*ssa.BasicBlock(nil), trail...), State: st, Panic: true, Calls: append([]btCall(nil), calls...)})
		case *ssa.If:
			for i, truth := range []bool{true, false} {
				for _, ns := range refineAll(st, x.Cond, truth, trail, 0) {
					walk(b.Succs[i], ns, trail, visits, calls)
				}
			}
		default:
			for _, s := range b.Succs {
				walk(s, st, trail, visits, calls)
			}
		}
	}
	if len(fn.Blocks) > 0 {
		walk(fn.Blocks[0], newPathState(), nil, map[*ssa.BasicBlock]int{}, nil)
	}
	return
}

// resolveOnTrail replaces a phi (possibly under conversions) by the value it
// takes on the path walked so far.
func resolveOnTrail(v ssa.Value, trail []*ssa.BasicBlock) ssa.Value {
	for i := 0; i < 4; i++ {
		switch x := v.(type) {
		case *ssa.Phi:
			nv := phiValueOnPath(x, trail)
			if nv == ssa.Value(x) {
				return v
			}
			v = nv
		default:
			return v
		}
	}
	return v
}

// pureBoolHelper reports whether fn is a small module function returning a
// single bool that only inspects its arguments (no stores, no calls other
// than interface accessors such as reflect.Type methods, builtins and other
// pure helpers).
func pureBoolHelper(fn *ssa.Function, depth int) bool {
	if fn == nil || fn.Blocks == nil || depth > 2 || len(fn.Blocks) > 24 {
		return false
	}
	res := fn.Signature.Results()
	if res.Len() != 1 {
		return false
	}
	if b, ok := res.At(0).Type().Underlying().(*types.Basic); !ok || b.Kind() != types.Bool {
		return false
	}
	for _, b := range fn.Blocks {
		for _, in := range b.Instrs {
			switch x := in.(type) {
			case *ssa.Store, *ssa.MapUpdate, *ssa.Send, *ssa.Go, *ssa.Defer, *ssa.Panic:
				return false
			case *ssa.Call:
				if _, isB := x.Call.Value.(*ssa.Builtin); isB {
					continue
				}
				if x.Call.IsInvoke() {
					if isReflectType(x.Call.Value.Type()) {
						continue
					}
					return false
				}
				sc := x.Call.StaticCallee()
				if sc == nil || !pureBoolHelper(sc, depth+1) {
					// allow well-known pure stdlib calls
					if sc != nil && sc.Pkg != nil {
						switch sc.Pkg.Pkg.Path() {
						case "strings", "bytes", "unicode", "reflect":
							continue
						}
					}
					return false
				}
			}
		}
	}
	return true
}

var paramWord = map[string]*regexp.Regexp{}

// translate rewrites an access path of the callee into the caller's terms by
// replacing each parameter name with the path of the corresponding argument.
func translatePath(p string, fn *ssa.Function, args []ssa.Value) (string, bool) {
	for i, prm := range fn.Params {
		if i >= len(args) {
			break
		}
		re := paramWord[prm.Name()]
		if re == nil {
			re = regexp.MustCompile(`(^|[^A-Za-z0-9_.>])` + regexp.QuoteMeta(prm.Name()) + `($|[^A-Za-z0-9_])`)
			paramWord[prm.Name()] = re
		}
		if !re.MatchString(p) {
			continue
		}
		ap := accessPath(args[i])
		if ap == "" {
			return "", false
		}
		// two passes cover adjacent (overlapping) matches; the replacement may
		// itself mention the parameter's name, so never loop to a fixpoint
		const mark = "\x00P\x00"
		for k := 0; k < 2; k++ {
			p = re.ReplaceAllString(p, "${1}"+mark+"${2}")
		}
		p = strings.ReplaceAll(p, mark, ap)
	}
	return p, true
}

// refineAll adds the fact cond==truth to st and returns the resulting
// states (several when the condition is a call of a pure boolean helper whose
// paths are spliced in; none if infeasible).
func refineAll(st *pathState, cond ssa.Value, truth bool, trail []*ssa.BasicBlock, depth int) []*pathState {
	for {
		if u, ok := cond.(*ssa.UnOp); ok && u.Op == token.NOT {
			cond, truth = u.X, !truth
			continue
		}
		break
	}
	cond = resolveOnTrail(cond, trail)
	if call, ok := cond.(*ssa.Call); ok && depth < 2 {
		if sc := call.Call.StaticCallee(); sc != nil && pureBoolHelper(sc, 0) {
			sub, okP := enumeratePaths(sc)
			if okP {
				var out []*pathState
				for _, sp := range sub {
					if sp.Ret == nil {
						continue
					}
					rv := resolvedResults(sp.Ret)[0]
					if phi, isPhi := rv.(*ssa.Phi); isPhi {
						rv = phiValueOnPath(phi, sp.Blocks)
					}
					states := []*pathState{sp.State}
					if k, isK := rv.(*ssa.Const); isK && k.Value != nil && k.Value.Kind() == constant.Bool {
						if constant.BoolVal(k.Value) != truth {
							continue
						}
					} else {
						states = refineAll(sp.State.clone(), rv, truth, sp.Blocks, depth+1)
					}
					for _, cs := range states {
						ns := st.clone()
						feasible := true
						for p, v := range cs.eq {
							tp, okT := translatePath(p, sc, call.Call.Args)
							if !okT || !ns.assume(tp, true, v) {
								feasible = okT && false
								if !okT {
									feasible = true // untranslatable fact: drop it
								}
								if !feasible {
									break
								}
							}
						}
						if !feasible {
							continue
						}
						for p, m := range cs.ne {
							tp, okT := translatePath(p, sc, call.Call.Args)
							if !okT {
								continue
							}
							for v := range m {
								if !ns.assume(tp, false, v) {
									feasible = false
								}
							}
						}
						if feasible {
							out = append(out, ns)
						}
					}
				}
				return out
			}
		}
	}
	ns := st.clone()
	if refineOne(ns, cond, truth, trail) {
		return []*pathState{ns}
	}
	return nil
}

func refine(st *pathState, cond ssa.Value, truth bool) bool {
	return refineOne(st, cond, truth, nil)
}

// refineOne adds the fact cond==truth to st; returns false if infeasible.
func refineOne(st *pathState, cond ssa.Value, truth bool, trail []*ssa.BasicBlock) bool {
	for {
		if u, ok := cond.(*ssa.UnOp); ok && u.Op == token.NOT {
			cond, truth = u.X, !truth
			continue
		}
		break
	}
	if k, ok := cond.(*ssa.Const); ok && k.Value != nil && k.Value.Kind() == constant.Bool {
		return constant.BoolVal(k.Value) == truth
	}
	if b, ok := cond.(*ssa.BinOp); ok && (b.Op == token.EQL || b.Op == token.NEQ) {
		eq := (b.Op == token.EQL) == truth
		x, y := resolveOnTrail(b.X, trail), resolveOnTrail(b.Y, trail)
		if _, isC := x.(*ssa.Const); isC {
			x, y = y, x
		}
		if cy, isC := y.(*ssa.Const); isC {
			p := accessPath(x)
			if p != "" {
				// a path containing "@" names one particular call or phi
				// instruction: equal strings still denote the same value
				return st.assume(p, eq, constKey(cy))
			}
		} else {
			px, py := accessPath(x), accessPath(y)
			if px != "" && py != "" && !strings.Contains(px+py, "@") {
				if px > py {
					px, py = py, px
				}
				key := px + "==" + py
				if v, seen := st.rel[key]; seen {
					return v == eq
				}
				st.rel[key] = eq
				return true
			}
		}
	}
	// opaque boolean: remember its truth so that a second test agrees
	if v, seen := st.bools[cond]; seen {
		return v == truth
	}
	st.bools[cond] = truth
	return true
}

// ---------- kinds

type KindSet uint32

const nilKind = 27 // pseudo-kind: typ is the nil interface

var allRealKinds = func() KindSet {
	var s KindSet
	for k := reflect.Bool; k <= reflect.UnsafePointer; k++ {
		s |= 1 << uint(k)
	}
	return s
}()

func (s KindSet) has(k uint) bool { return s&(1<<k) != 0 }

func (s KindSet) String() string {
	var out []string
	for k := uint(1); k <= uint(reflect.UnsafePointer); k++ {
		if s.has(k) {
			out = append(out, reflect.Kind(k).String())
		}
	}
	if s.has(nilKind) {
		out = append(out, "NIL")
	}
	if s&allRealKinds == allRealKinds {
		if s.has(nilKind) {
			return "ANY+NIL"
		}
		return "ANY"
	}
	return "{" + strings.Join(out, ",") + "}"
}

func (s KindSet) kinds() []reflect.Kind {
	var out []reflect.Kind
	for k := uint(1); k <= uint(reflect.UnsafePointer); k++ {
		if s.has(k) {
			out = append(out, reflect.Kind(k))
		}
	}
	return out
}

// kindsOf derives the possible kinds of the reflect.Type at access path tp
// (e.g. "typ", "typ.Elem()") from the path constraints.
func (st *pathState) kindsOf(tp string) KindSet {
	s := allRealKinds | 1<<nilKind
	if st.eq[tp] == "nil" {
		return 1 << nilKind
	}
	if st.ne[tp]["nil"] {
		s &^= 1 << nilKind
	}
	kp := tp + ".Kind()"
	if v, ok := st.eq[kp]; ok {
		var k uint
		fmt.Sscanf(v, "%d", &k)
		return 1 << k
	}
	for v := range st.ne[kp] {
		var k uint
		fmt.Sscanf(v, "%d", &k)
		s &^= 1 << k
	}
	if len(st.ne[kp]) > 0 || st.eq[kp] != "" {
		s &^= 1 << nilKind
	}
	return s
}

// strOf: value constraint on a string path: (exact, excluded set).
func (st *pathState) strOf(p string) (string, bool, []string) {
	if v, ok := st.eq[p]; ok {
		return strings.TrimPrefix(v, "s:"), true, nil
	}
	var ex []string
	for v := range st.ne[p] {
		ex = append(ex, strings.TrimPrefix(v, "s:"))
	}
	sort.Strings(ex)
	return "", false, ex
}

// ---------- builders

type Builder struct {
	Fn        *ssa.Function
	TypParam  *ssa.Parameter // the reflect.Type parameter (nil if none)
	Schema    *ssa.Parameter // the Schema parameter (nil if none)
	Omit      *ssa.Parameter
	Paths     []*BTPath
	Budget    bool
	EntryK    KindSet
	EntryFrom []string
}

func isCodecErrorSig(P *Program, sig *types.Signature) bool {
	r := sig.Results()
	return r.Len() == 2 && isCodecIface(P, r.At(0).Type()) && isErrorType(r.At(1).Type())
}

func (P *Program) Builders() []*Builder {
	var out []*Builder
	schemaT := P.NamedType(P.Avro, "Schema")
	for _, fn := range P.ModuleFuncs() {
		if fn.Signature.Recv() != nil || !isCodecErrorSig(P, fn.Signature) || fn.Parent() != nil {
			continue
		}
		b := &Builder{Fn: fn}
		for _, p := range fn.Params {
			switch {
			case isReflectType(p.Type()):
				b.TypParam = p
			case schemaT != nil && types.Identical(p.Type(), schemaT):
				b.Schema = p
			case isBasic(p.Type()) && p.Type().Underlying().(*types.Basic).Kind() == types.Bool:
				b.Omit = p
			}
		}
		b.Paths, b.Budget = enumeratePaths(fn)
		out = append(out, b)
	}
	sort.Slice(out, func(i, j int) bool { return fnKey(out[i].Fn) < fnKey(out[j].Fn) })
	return out
}

// BTReturn classifies what a path returns.
type BTReturn struct {
	Reject   bool
	Codec    types.Type // concrete codec type (pointer stripped), nil if delegated
	CodecPtr bool       // returned as *T
	Lit      ssa.Value  // the Alloc holding the literal, if any
	Delegate *ssa.Call  // call to another (Codec, error) function whose result is returned
	Dynamic  bool       // call of a function value (registered builder)
	Other    string     // not understood
	Fields   map[string]ssa.Value
}

// codecLiteral resolves a Codec interface value to the concrete literal it
// was made from: MakeInterface of a struct value loaded from a local literal,
// or of a pointer to a heap literal.
func codecLiteral(v ssa.Value) (T types.Type, ptr bool, alloc *ssa.Alloc, ok bool) {
	mi, isMI := v.(*ssa.MakeInterface)
	if !isMI {
		return nil, false, nil, false
	}
	x := mi.X
	if a, isA := x.(*ssa.Alloc); isA {
		return a.Type().(*types.Pointer).Elem(), true, a, true
	}
	if ld, isL := x.(*ssa.UnOp); isL && ld.Op == token.MUL {
		if a, isA := ld.X.(*ssa.Alloc); isA {
			return a.Type().(*types.Pointer).Elem(), false, a, true
		}
	}
	if k, isK := x.(*ssa.Const); isK {
		return k.Type(), false, nil, true // zero-value literal, e.g. nullCodec{}
	}
	if pt, isP := x.Type().Underlying().(*types.Pointer); isP {
		return pt.Elem(), true, nil, true
	}
	return x.Type(), false, nil, true
}

// literalFields collects the values stored into the fields of a literal
// (including one level of embedded literal).
func literalFields(a *ssa.Alloc) map[string]ssa.Value {
	out := map[string]ssa.Value{}
	if a == nil {
		return out
	}
	for _, r := range referrersOf(a) {
		fa, ok := r.(*ssa.FieldAddr)
		if !ok {
			continue
		}
		name := fieldName(fa.X.Type(), fa.Field)
		for _, rr := range referrersOf(fa) {
			if st, ok := rr.(*ssa.Store); ok && st.Addr == ssa.Value(fa) {
				out[name] = st.Val
				// embedded literal: value loaded from another local literal
				if ld, ok := st.Val.(*ssa.UnOp); ok && ld.Op == token.MUL {
					if ia, ok := ld.X.(*ssa.Alloc); ok {
						for k, v := range literalFields(ia) {
							out[name+"."+k] = v
						}
					}
				}
			}
		}
	}
	return out
}

func (P *Program) classifyReturn(p *BTPath) BTReturn {
	if p.Ret == nil {
		return BTReturn{Other: "panic"}
	}
	res := resolvedResults(p.Ret)
	v := res[0]
	if isNilConst(v) {
		return BTReturn{Reject: true}
	}
	// a phi: pick the edge matching the path
	if phi, ok := v.(*ssa.Phi); ok {
		v = phiValueOnPath(phi, p.Blocks)
		if isNilConst(v) {
			// "return codec, err" with codec still nil on this path
			return BTReturn{Reject: true}
		}
	}
	if ex, ok := v.(*ssa.Extract); ok && ex.Index == 0 {
		if call, ok := ex.Tuple.(*ssa.Call); ok {
			if sc := call.Call.StaticCallee(); sc != nil && isCodecErrorSig(P, sc.Signature) {
				return BTReturn{Delegate: call}
			}
			if call.Call.StaticCallee() == nil && !call.Call.IsInvoke() && isCodecErrorSig(P, call.Call.Signature()) {
				return BTReturn{Delegate: call, Dynamic: true}
			}
		}
	}
	if T, ptr, a, ok := codecLiteral(v); ok {
		return BTReturn{Codec: T, CodecPtr: ptr, Lit: a, Fields: literalFields(a)}
	}
	return BTReturn{Other: v.String()}
}

func phiValueOnPath(phi *ssa.Phi, blocks []*ssa.BasicBlock) ssa.Value {
	// find the last occurrence of phi's block on the path and its predecessor
	for i := len(blocks) - 1; i > 0; i-- {
		if blocks[i] == phi.Block() {
			for j, pred := range phi.Block().Preds {
				if pred == blocks[i-1] {
					return phi.Edges[j]
				}
			}
		}
	}
	return phi
}

// computeEntryKinds sets, for every builder, the kinds its reflect.Type
// parameter can have on entry: ANY+NIL for the root dispatcher, exported
// builders and builders used as values; otherwise the union over static call
// sites of the caller's kinds for the argument.
func (P *Program) computeEntryKinds(bs []*Builder) {
	byFn := map[*ssa.Function]*Builder{}
	for _, b := range bs {
		byFn[b.Fn] = b
	}
	any := allRealKinds | 1<<nilKind
	usedAsValue := map[*ssa.Function]bool{}
	for _, fn := range P.ModuleFuncs() {
		for _, blk := range fn.Blocks {
			for _, in := range blk.Instrs {
				for _, op := range in.Operands(nil) {
					if f, ok := (*op).(*ssa.Function); ok && byFn[f] != nil {
						if ci, isCall := in.(ssa.CallInstruction); isCall && ci.Common().Value == ssa.Value(f) {
							continue
						}
						usedAsValue[f] = true
					}
				}
			}
		}
	}
	for _, b := range bs {
		b.EntryK = 0
		if b.TypParam == nil {
			continue
		}
		if b.Fn.Object() != nil && b.Fn.Object().Exported() || usedAsValue[b.Fn] || b.Fn.Name() == "buildCodec" {
			b.EntryK = any
			b.EntryFrom = append(b.EntryFrom, "exported, registered or root dispatcher: any type")
		}
	}
	// iterate: callers' path states at call sites
	for iter := 0; iter < 6; iter++ {
		changed := false
		for _, caller := range bs {
			for _, p := range caller.Paths {
				for _, cl := range p.Calls {
					sc := cl.Call.Call.StaticCallee()
					callee := byFn[sc]
					if callee == nil {
						continue
					}
					if callee.TypParam == nil {
						// a builder that does not look at the Go type at all builds its codec for whatever type
						// its caller is building for at that point
						k := any
						if caller.TypParam != nil {
							k = cl.State.kindsOf(caller.TypParam.Name()) & callerEntry(caller)
						}
						if callee.EntryK|k != callee.EntryK {
							callee.EntryK |= k
							callee.EntryFrom = append(callee.EntryFrom, fmt.Sprintf("%s (no type parameter) with %s", fnKey(caller.Fn), k))
							changed = true
						}
						continue
					}
					// index of callee's typ param
					var arg ssa.Value
					for i, prm := range sc.Params {
						if prm == callee.TypParam {
							arg = cl.Call.Call.Args[i]
						}
					}
					var k KindSet
					if caller.TypParam != nil && arg == ssa.Value(caller.TypParam) {
						k = cl.State.kindsOf(caller.TypParam.Name()) & callerEntry(caller)
					} else if isNilConst(arg) {
						k = 1 << nilKind
					} else {
						// some other type (typ.Elem(), a field's type, a phi of nil and a type)
						tp := accessPath(arg)
						if tp != "" && !strings.Contains(tp, "@") {
							k = cl.State.kindsOf(tp)
						} else {
							k = any
						}
					}
					if callee.EntryK|k != callee.EntryK {
						callee.EntryK |= k
						callee.EntryFrom = append(callee.EntryFrom, fmt.Sprintf("%s with %s", fnKey(caller.Fn), k))
						changed = true
					}
				}
			}
		}
		if !changed {
			break
		}
	}
	// callers outside the builder set (e.g. Schema.Codec -> buildCodec): any
	for _, fn := range P.ModuleFuncs() {
		if byFn[fn] != nil {
			continue
		}
		for _, cs := range callsIn(fn) {
			if cs.Static != nil && byFn[cs.Static] != nil {
				b := byFn[cs.Static]
				if b.EntryK != any {
					b.EntryK = any
					b.EntryFrom = append(b.EntryFrom, "called from "+fnKey(fn))
				}
			}
		}
	}
}

func callerEntry(b *Builder) KindSet {
	if b.EntryK == 0 {
		return 0
	}
	return b.EntryK
}
