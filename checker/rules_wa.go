package main

// Wire-language rules: WA-RS, WA-WR, WA-SPEC, WA-NEG, WA-NEWPURE, WA-LEN,
// WA-CNT, WA-SEL, BT-NONNULL.

import (
	"fmt"
	"go/token"
	"go/types"
	"regexp"
	"sort"
	"strings"

	"golang.org/x/tools/go/ssa"
)

type waEnv struct {
	P     *Program
	auto  map[string]*NFA // "Type|Method|cut"
	probs map[string][]string
	negs  map[string][]*ssa.If
	avro  map[string]map[string]bool // codec type -> avro schema types it is built for
}

var waCache *waEnv

func getWA(P *Program) *waEnv {
	if waCache != nil && waCache.P == P {
		return waCache
	}
	w := &waEnv{P: P, auto: map[string]*NFA{}, probs: map[string][]string{}, negs: map[string][]*ssa.If{}}
	w.avro = avroTypesOf(P)
	waCache = w
	return w
}

func (w *waEnv) get(ct *CodecType, m string, cut bool) (*NFA, []string) {
	if cut {
		return w.getAssume(ct, m, 1)
	}
	return w.getAssume(ct, m, 0)
}

// getAssume: the automaton of a method under a sign assumption for block
// counts (0 none, 1 all non-negative, 2 all negative).
func (w *waEnv) getAssume(ct *CodecType, m string, assume int) (*NFA, []string) {
	k := fmt.Sprintf("%s|%s|%d", ct.Name, m, assume)
	if n, ok := w.auto[k]; ok {
		return n, w.probs[k]
	}
	n, probs, negs := methodAutomaton(w.P, ct.M[m], m, assume)
	w.auto[k], w.probs[k], w.negs[k] = n, probs, negs
	return n, probs
}

// avroTypesOf derives, from the builders' own dispatch tables, which Avro
// schema types each codec type is built for ("pointer" for the transparent
// pointer wrapper).
func avroTypesOf(P *Program) map[string]map[string]bool {
	e := getBT(P)
	out := map[string]map[string]bool{}
	add := func(codec, st string) {
		if out[codec] == nil {
			out[codec] = map[string]bool{}
		}
		out[codec][st] = true
	}
	// codecs a builder can return, following pure delegations
	var returned func(b *Builder, seen map[*Builder]bool) []string
	returned = func(b *Builder, seen map[*Builder]bool) []string {
		if b == nil || seen[b] {
			return nil
		}
		seen[b] = true
		var r []string
		for _, p := range b.Paths {
			ret := P.classifyReturn(p)
			if ret.Codec != nil {
				r = append(r, typeKey(ret.Codec))
			}
			if ret.Delegate != nil && !ret.Dynamic {
				r = append(r, returned(e.byFn[ret.Delegate.Call.StaticCallee()], seen)...)
			}
		}
		return r
	}
	// dispatcherLike: a builder that itself switches on its schema's type and hands on to per-type builders
	// (the schema-type half of a dispatcher that was split in two)
	dispatcherLike := func(b *Builder) bool {
		if b == nil || b.Schema == nil {
			return false
		}
		sp := "*(&" + b.Schema.Name() + "->Type)"
		n := 0
		for _, p := range b.Paths {
			ret := P.classifyReturn(p)
			if _, exact, _ := p.State.strOf(sp); exact && (ret.Delegate != nil || ret.Codec != nil) {
				n++
			}
		}
		return n >= 3
	}
	var walkRoot func(root *Builder, d int)
	walkRoot = func(root *Builder, d int) {
		if root == nil || root.Schema == nil || d > 2 {
			return
		}
		sp := "*(&" + root.Schema.Name() + "->Type)"
		for _, p := range root.Paths {
			ret := P.classifyReturn(p)
			if ret.Codec != nil {
				// the dispatcher builds the codec itself (a builder inlined into it)
				if st, exact, _ := p.State.strOf(sp); exact {
					add(typeKey(ret.Codec), st)
				}
				continue
			}
			if ret.Delegate == nil || ret.Dynamic {
				continue
			}
			st, exact, _ := p.State.strOf(sp)
			callee := e.byFn[ret.Delegate.Call.StaticCallee()]
			if dispatcherLike(callee) {
				walkRoot(callee, d+1)
				continue
			}
			for _, ct := range returned(callee, map[*Builder]bool{}) {
				if exact {
					add(ct, st)
				} else {
					add(ct, "pointer")
				}
			}
		}
	}
	walkRoot(e.byFn[P.Func(P.Avro, "buildCodec")], 0)
	for _, b := range e.Builders {
		if !builderIsRegistered(P, b) || b.Schema == nil {
			continue
		}
		sp := "*(&" + b.Schema.Name() + "->Type)"
		for _, p := range b.Paths {
			ret := P.classifyReturn(p)
			if ret.Codec == nil {
				continue
			}
			st, exact, excl := p.State.strOf(sp)
			if exact {
				add(typeKey(ret.Codec), st)
				continue
			}
			// "!= long && != int" style guards: the accepted types are the complement within the guard's own constants
			_ = excl
			for _, cand := range []string{"long", "int", "boolean", "string", "double", "float", "bytes"} {
				if !p.State.ne[sp]["s:"+cand] {
					// accepted only if some sibling path rejects on exactly this constant
					for _, q := range b.Paths {
						if P.classifyReturn(q).Reject {
							if q.State.ne[sp]["s:"+cand] {
								add(typeKey(ret.Codec), cand)
							}
						}
					}
				}
			}
		}
	}
	// what the folded dispatcher builds for each schema type (E-CP): independent of how the dispatch is written
	if d := dispatchByFold(P); d.ok {
		for _, row := range append(append([]*dispRow{}, d.rows...), d.extra...) {
			st := row.st
			if i := strings.Index(st, "/"); i >= 0 {
				st = st[:i]
			}
			for _, cv := range row.codecs {
				if T, _ := codecTypeOf(cv); T != nil {
					add(typeKey(T), st)
				}
			}
		}
	}
	return out
}

// specFor returns the specification's wire grammar (Avro 1.8 "binary
// encoding") for an Avro type as a regular expression over tokens, for the
// reading (or writing) side and for the skipping side.
func specFor(P *Program, ct *CodecType, st string, w *waEnv) (read, skip string, ok bool) {
	switch st {
	case "null":
		return "ε", "ε", true
	case "boolean":
		return "B1", "B1", true
	case "int", "long":
		return "V", "V", true
	case "float":
		return "B4", "B4", true
	case "double":
		return "B8", "B8", true
	case "bytes", "string":
		return "V L ?", "V L ?", true
	case "fixed":
		return "BSize", "BSize", true
	case "array":
		return "( V S * | V V S * ) * V", "( V S * | V V L ? ) * V", true
	case "map":
		return "( V ( V L ? S ) * | V V ( V L ? S ) * ) * V", "( V ( V L ? S ) * | V V L ? ) * V", true
	case "record":
		return "S *", "S *", true
	case "pointer":
		return "S", "S", true
	case "union":
		stt, isS := ct.T.Underlying().(*types.Struct)
		if !isS {
			return "", "", false
		}
		for i := 0; i < stt.NumFields(); i++ {
			ft := stt.Field(i).Type()
			if sl, ok := ft.Underlying().(*types.Slice); ok && isCodecIface(P, sl.Elem()) {
				return "V S", "V S", true
			}
		}
		for i := 0; i < stt.NumFields(); i++ {
			ft := stt.Field(i).Type()
			if isCodecIface(P, ft) {
				return "B1 | B1 S", "B1 | B1 S", true
			}
		}
		// specialised on a concrete branch codec
		for i := 0; i < stt.NumFields(); i++ {
			ft := stt.Field(i).Type()
			if sub := getBT(P).byType[typeKey(ft)]; sub != nil {
				for bst := range w.avro[sub.Name] {
					r, s, ok := specFor(P, sub, bst, w)
					if ok {
						return "B1 | B1 ( " + r + " )", "B1 | B1 ( " + s + " )", true
					}
				}
			}
		}
	}
	return "", "", false
}

var sLabel = func(s string) string {
	if strings.HasPrefix(s, "S(") {
		return "S"
	}
	return s
}

// reader-side compatibility: a reader V or B1 also accepts the writer's Vs.
var readerAlso = map[string][]string{"V": {"Vs"}, "B1": {"Vs"}}

func word(ws []string) string {
	if len(ws) == 0 {
		return "ε (nothing)"
	}
	return strings.Join(ws, " ")
}

func ruleWARS(c *Ctx) {
	c.Rule("WA-RS", "skipping a value consumes exactly the token sequences decoding it would (size-prefixed blocks aside, see WA-NEG)", 27)
	P := c.P
	w := getWA(P)
	for _, ct := range P.CodecTypes() {
		r, pr := w.get(ct, "Read", true)
		s, ps := w.get(ct, "Skip", true)
		key := ct.Name + "/L(Read)=L(Skip)"
		pos := P.pos(ct.M["Skip"].Pos())
		if len(pr)+len(ps) > 0 {
			c.Unk(key, pos, strings.Join(append(pr, ps...), "; "))
			continue
		}
		ok1, w1 := included(r, s)
		ok2, w2 := included(s, r)
		switch {
		case !ok1:
			c.Bad(key, pos, fmt.Sprintf("Read can consume %q, which Skip cannot: a skipped field of this type leaves the cursor in the wrong place", word(w1)))
		case !ok2:
			c.Bad(key, pos, fmt.Sprintf("Skip can consume %q, which Read cannot: a skipped field of this type leaves the cursor in the wrong place", word(w2)))
		default:
			c.OK(key, pos, fmt.Sprintf("both consume %v", r.words(5, 6)))
			if c.Extra == nil || c.Extra["wire_languages"] == nil {
				c.Table("wire_languages", map[string][]string{})
			}
			c.Extra["wire_languages"].(map[string][]string)[ct.Name] = r.words(5, 6)
		}
	}
}

func ruleWAWR(c *Ctx, only func(ct *CodecType) bool, min int) {
	c.Rule("WA-WR", "everything a codec's Write emits is something its Read accepts", min)
	P := c.P
	w := getWA(P)
	for _, ct := range P.CodecTypes() {
		if only != nil && !only(ct) {
			continue
		}
		r, pr := w.get(ct, "Read", false)
		wr, pw := w.get(ct, "Write", false)
		key := ct.Name + "/L(Write)⊆L(Read)"
		pos := P.pos(ct.M["Write"].Pos())
		if len(pr)+len(pw) > 0 {
			c.Unk(key, pos, strings.Join(append(pr, pw...), "; "))
			continue
		}
		ok, wit := included(wr, r.withAlso(readerAlso))
		if ok {
			c.OK(key, pos, fmt.Sprintf("writes %v", wr.words(5, 6)))
		} else {
			c.Bad(key, pos, fmt.Sprintf("Write can emit %q, which Read does not accept (Read accepts %v)", word(wit), r.words(4, 6)))
		}
	}
}

func ruleWASpec(c *Ctx, sides string) {
	P := c.P
	w := getWA(P)
	if strings.Contains(sides, "W") {
		c.Rule("WA-SPEC-W", "what a codec writes is an encoding the Avro specification defines for its schema type (independent of the library's own reader)", 25)
	}
	if strings.Contains(sides, "R") {
		c.Rule("WA-SPEC-R", "every framing the specification allows for the schema type is accepted by Read: any number of blocks, with or without byte sizes, selector then branch", 25)
	}
	if strings.Contains(sides, "S") {
		c.Rule("WA-SPEC-S", "every framing the specification allows is accepted by Skip, including the byte-size fast path", 25)
	}
	for _, ct := range P.CodecTypes() {
		var sts []string
		for st := range w.avro[ct.Name] {
			sts = append(sts, st)
		}
		sort.Strings(sts)
		if len(sts) == 0 {
			c.Rule("WA-SPEC-"+string(sides[0]), "", 0)
			c.Unk(ct.Name+"/avro-type", "-", "no builder returns this codec type: its schema type cannot be derived")
			continue
		}
		for _, st := range sts {
			rs, ss, ok := specFor(P, ct, st, w)
			if !ok {
				c.Rule("WA-SPEC-"+string(sides[0]), "", 0)
				c.Unk(ct.Name+"/spec["+st+"]", "-", "no specification grammar for schema type "+st)
				continue
			}
			specR, specS := compileRegex(rs), compileRegex(ss)
			if strings.Contains(sides, "W") {
				c.Rule("WA-SPEC-W", "", 0)
				wr, pw := w.get(ct, "Write", false)
				key := fmt.Sprintf("%s/L(Write)⊆spec[%s]", ct.Name, st)
				pos := P.pos(ct.M["Write"].Pos())
				if len(pw) > 0 {
					c.Unk(key, pos, strings.Join(pw, "; "))
				} else if ok, wit := included(wr.relabel(sLabel), specR.withAlso(readerAlso)); ok {
					c.OK(key, pos, fmt.Sprintf("%v ⊆ %s", wr.words(5, 5), rs))
				} else {
					c.Bad(key, pos, fmt.Sprintf("Write can emit %q, which is not an encoding of Avro %s (%s)", word(wit), st, rs))
				}
			}
			if strings.Contains(sides, "R") {
				c.Rule("WA-SPEC-R", "", 0)
				r, pr := w.get(ct, "Read", false)
				key := fmt.Sprintf("%s/spec[%s]⊆L(Read)", ct.Name, st)
				pos := P.pos(ct.M["Read"].Pos())
				if len(pr) > 0 {
					c.Unk(key, pos, strings.Join(pr, "; "))
				} else if ok, wit := included(specR, r.relabel(sLabel)); ok {
					c.OK(key, pos, fmt.Sprintf("%s ⊆ L(Read)", rs))
				} else {
					c.Bad(key, pos, fmt.Sprintf("the specification allows %q for Avro %s, which Read does not accept", word(wit), st))
				}
			}
			if strings.Contains(sides, "S") {
				c.Rule("WA-SPEC-S", "", 0)
				s, ps := w.get(ct, "Skip", false)
				key := fmt.Sprintf("%s/spec[%s]⊆L(Skip)", ct.Name, st)
				pos := P.pos(ct.M["Skip"].Pos())
				if len(ps) > 0 {
					c.Unk(key, pos, strings.Join(ps, "; "))
				} else if ok, wit := included(specS, s.relabel(sLabel)); ok {
					c.OK(key, pos, fmt.Sprintf("%s ⊆ L(Skip)", ss))
				} else {
					c.Bad(key, pos, fmt.Sprintf("the specification allows %q for Avro %s, which Skip does not accept", word(wit), st))
				}
			}
		}
	}
}

// ---------- WA-NEG

// signSpecs: the specification's grammar for an array or map restricted to
// blocks without (pos) and with (neg) a byte size, for Read and for Skip.
func signSpecs(st string) (pos, negRead, negSkip string, ok bool) {
	switch st {
	case "array":
		return "( V S * ) * V", "( V V S * ) * V", "( V V L ? ) * V", true
	case "map":
		return "( V ( V L ? S ) * ) * V", "( V V ( V L ? S ) * ) * V", "( V V L ? ) * V", true
	}
	return "", "", "", false
}

func ruleWANeg(c *Ctx) {
	c.Rule("WA-NEG", "a negative block count is handled as the specification lays it out: Read negates it and discards one varint (the byte size); Skip reads the byte size and skips exactly that many bytes without visiting items; a non-negative count is followed directly by the items", 4)
	P := c.P
	w := getWA(P)
	for _, ct := range P.CodecTypes() {
		var sts []string
		for st := range w.avro[ct.Name] {
			if _, _, _, ok := signSpecs(st); ok {
				sts = append(sts, st)
			}
		}
		if len(sts) != 1 {
			continue
		}
		pos, negRead, negSkip, _ := signSpecs(sts[0])
		for _, m := range []string{"Read", "Skip"} {
			fn := ct.M[m]
			key := fmt.Sprintf("%s.%s/negative-count", ct.Name, m)
			origins, ifs := blockCountOrigins(P, fn)
			if len(origins) == 0 {
				c.Bad(key, P.pos(fn.Pos()), "no test of the block count's sign was found in the block loop: size-prefixed blocks are not handled")
				continue
			}
			ipos := P.pos(ifs[0].Pos())
			an, pn := w.getAssume(ct, m, 2)
			ap, pp := w.getAssume(ct, m, 1)
			if len(pn)+len(pp) > 0 {
				c.Unk(key, ipos, strings.Join(append(pn, pp...), "; "))
				continue
			}
			negSpec := negRead
			if m == "Skip" {
				negSpec = negSkip
			}
			sn, sp := compileRegex(negSpec), compileRegex(pos)
			an, ap = an.relabel(sLabel), ap.relabel(sLabel)
			if ok, wit := included(an, sn); !ok {
				c.Bad(key, ipos, fmt.Sprintf("with size-prefixed (negative-count) blocks %s can consume %q, the specification's layout is %s", m, word(wit), negSpec))
				continue
			}
			if ok, wit := included(sn, an); !ok {
				c.Bad(key, ipos, fmt.Sprintf("the specification allows %q for size-prefixed blocks, which %s does not accept", word(wit), m))
				continue
			}
			if ok, wit := included(ap, sp); !ok {
				c.Bad(key, ipos, fmt.Sprintf("with plain (non-negative-count) blocks %s can consume %q, the specification's layout is %s", m, word(wit), pos))
				continue
			}
			if ok, wit := included(sp, ap); !ok {
				c.Bad(key, ipos, fmt.Sprintf("the specification allows %q for plain blocks, which %s does not accept", word(wit), m))
				continue
			}
			if m == "Skip" {
				c.OK(key, ipos, fmt.Sprintf("negative counts: exactly %s (the length skipped is the byte size, not the count); non-negative counts: exactly %s", negSpec, pos))
				continue
			}
			// Read: the item loop must be driven by the negated count. Some
			// negation of the count, made where it is known negative, merges
			// with the count itself in a phi.
			negated := false
			for _, b := range fn.Blocks {
				for _, in := range b.Instrs {
					u, ok := in.(*ssa.UnOp)
					if !ok || u.Op != token.SUB {
						continue
					}
					o := varintOrigin(P, u.X, 0)
					if o == nil || !origins[o] {
						continue
					}
					knownNeg := false
					for _, f := range cmpFactsAt(u.Block()) {
						if fo := varintOrigin(P, f.X, 0); fo == o && f.Op == token.LSS {
							if k, isK := constInt(f.Y); isK && k == 0 {
								knownNeg = true
							}
						}
					}
					if !knownNeg {
						continue
					}
					for _, r := range referrersOf(u) {
						if phi, ok := r.(*ssa.Phi); ok {
							for _, e := range phi.Edges {
								if eo := varintOrigin(P, e, 0); eo == o && stripConv(e) == stripConv(u.X) {
									negated = true
								}
							}
						}
					}
				}
			}
			if !negated {
				c.Bad(key, ipos, "the negative count is not negated before it drives the item loop")
				continue
			}
			c.OK(key, ipos, fmt.Sprintf("negative counts: count = -count and exactly %s; non-negative counts: exactly %s", negSpec, pos))
		}
	}
}

// ---------- WA-NEWPURE

func ruleWANewPure(c *Ctx) {
	c.Rule("WA-NEWPURE", "New and Omit never consume input (so they are not wire tokens)", 54)
	P := c.P
	consuming := map[string]bool{"(*ReadBuf).Varint": true, "(*ReadBuf).ReadByte": true, "(*ReadBuf).Next": true, "(*ReadBuf).NextAsString": true, "(*ReadBuf).uvarint": true, "(*ReadBuf).Reset": true}
	for _, ct := range P.CodecTypes() {
		for _, m := range []string{"New", "Omit"} {
			fn := ct.M[m]
			bad := ""
			seen := map[*ssa.Function]bool{}
			var walk func(f *ssa.Function, d int)
			walk = func(f *ssa.Function, d int) {
				if f == nil || seen[f] || d > 4 {
					return
				}
				seen[f] = true
				for _, cs := range callsIn(f) {
					if cs.Static == nil {
						if cs.Iface != nil && (cs.Iface.Name() == "Read" || cs.Iface.Name() == "Skip") && isCodecIface(P, cs.Common.Value.Type()) {
							bad = "calls a sub-codec's " + cs.Iface.Name()
						}
						continue
					}
					if consuming[qualNameShort(cs.Static)] {
						bad = "calls " + qualNameShort(cs.Static)
					}
					if P.isModuleFunc(cs.Static) {
						walk(cs.Static, d+1)
					}
				}
			}
			walk(fn, 0)
			c.Check(bad == "", ct.Name+"."+m+"/pure", P.pos(fn.Pos()), "consumes no input", m+" "+bad+": it would consume input behind the reader's back")
		}
	}
}

// ---------- WA-LEN, WA-CNT

func ruleWALenCnt(c *Ctx) {
	P := c.P
	defer ruleWAZero(c)
	c.Rule("WA-LEN", "the length prefix written before a string or byte payload is the length of those very bytes", 2)
	for _, ct := range P.CodecTypes() {
		if !ct.Declared["Write"] {
			continue
		}
		n := 0
		// the Write method, and the write-buffer helpers it calls (a shared "length then bytes" helper)
		fns := []*ssa.Function{ct.M["Write"]}
		for _, cs := range callsIn(ct.M["Write"]) {
			if g := cs.Static; g != nil && P.isModuleFunc(g) && g.Blocks != nil && g.Signature.Recv() != nil && isWriteBufPtr(g.Signature.Recv().Type()) {
				switch qualNameShort(g) {
				case "(*WriteBuf).Varint", "(*WriteBuf).Write", "(*WriteBuf).Byte":
				default:
					fns = append(fns, g)
				}
			}
		}
		for _, fn := range fns {
			for _, b := range fn.Blocks {
				var lastVarint *ssa.Call
				for _, in := range b.Instrs {
					// the same two steps written directly on the buffer: buf = binary.AppendVarint(buf, n); buf = append(buf, x...)
					if st, isSt := in.(*ssa.Store); isSt {
						if fa, isFA := st.Addr.(*ssa.FieldAddr); isFA && isWriteBufPtr(fa.X.Type()) {
							if dc, isCall := st.Val.(*ssa.Call); isCall {
								if sc := dc.Call.StaticCallee(); sc != nil && qualName(sc) == "encoding/binary.AppendVarint" {
									lastVarint = dc
								} else if isBuiltinCall(dc, "append") && len(dc.Call.Args) == 2 {
									payload := dc.Call.Args[1]
									if _, isSl := payload.(*ssa.Slice); !isSl {
										n++
										key := fmt.Sprintf("%s.Write/len-prefix#%d", ct.Name, n)
										src := stripConv(payload)
										ok2 := false
										if lastVarint != nil {
											if lc, isLc := stripConv(lastVarint.Call.Args[1]).(*ssa.Call); isLc && isBuiltinCall(lc, "len") && (lc.Call.Args[0] == src || lc.Call.Args[0] == payload) {
												ok2 = true
											}
										}
										c.Check(ok2, key, P.pos(st.Pos()), "the varint of len(x) immediately precedes the bytes of the same x", "the payload written is not preceded by its own length")
									}
								}
							}
						}
						continue
					}
					call, ok := in.(*ssa.Call)
					if !ok || call.Call.StaticCallee() == nil {
						continue
					}
					switch qualNameShort(call.Call.StaticCallee()) {
					case "(*WriteBuf).Varint":
						lastVarint = call
					case "(*WriteBuf).Write":
						payload := call.Call.Args[1]
						if _, isSliceCall := payload.(*ssa.Call); isSliceCall {
							continue // unsafe.Slice of fixed size: no prefix
						}
						if sl, ok := payload.(*ssa.Slice); ok {
							_ = sl
							continue
						}
						n++
						key := fmt.Sprintf("%s.Write/len-prefix#%d", ct.Name, n)
						src := stripConv(payload) // []byte(s) -> s
						ok2 := false
						if lastVarint != nil {
							if lc, isCall := stripConv(lastVarint.Call.Args[1]).(*ssa.Call); isCall {
								if bi, isB := lc.Call.Value.(*ssa.Builtin); isB && bi.Name() == "len" && (lc.Call.Args[0] == src || lc.Call.Args[0] == payload) {
									ok2 = true
								}
							}
						}
						c.Check(ok2, key, P.pos(call.Pos()), "w.Varint(int64(len(x))) immediately precedes w.Write(x) for the same x", "the payload written is not preceded by its own length")
					}
				}
			}
		}
	}
	c.Rule("WA-CNT", "the item count written for an array or map block is the number of items the loop then writes", 2)
	bt := getBT(P)
	if ct := bt.byType["avro.arrayCodec"]; c.Anchor(ct != nil, "avro.arrayCodec") {
		fn := ct.M["Write"]
		key := ct.Name + ".Write/count"
		ok := false
		why := "no counted item loop found"
		for _, l := range loopsOf(fn) {
			cl := countedLoop(l)
			if cl == nil || cl.TripCount() == nil {
				continue
			}
			tc := accessPath(stripConv(cl.TripCount()))
			// the first non-small varint written has that operand
			for _, cs := range callsIn(fn) {
				if cs.Static != nil && qualNameShort(cs.Static) == "(*WriteBuf).Varint" && !l.Blocks[cs.Block] && cs.Block.Dominates(l.Header) {
					if _, isC := stripConv(cs.Common.Args[1]).(*ssa.Const); isC {
						continue
					}
					if accessPath(stripConv(cs.Common.Args[1])) == tc && len(storesToPath(fn, strings.TrimSuffix(strings.TrimPrefix(tc, "*("), ")"))) == 0 {
						ok = true
					} else {
						why = "the count written (" + accessPath(stripConv(cs.Common.Args[1])) + ") is not the loop bound (" + tc + ")"
					}
				}
			}
			// one item write per iteration
			for _, cs := range callsIn(fn) {
				if cs.Iface != nil && cs.Iface.Name() == "Write" && l.Blocks[cs.Block] && !oncePerIteration(fn, l, cs.Instr) {
					ok, why = false, "the item write does not execute once per iteration"
				}
			}
		}
		c.Check(ok, key, P.pos(fn.Pos()), "w.Varint(int64(sh.Len)) and a loop of sh.Len item writes on the same header", why)
	}
	if ct := bt.byType["avro.MapCodec"]; c.Anchor(ct != nil, "avro.MapCodec") {
		fn := ct.M["Write"]
		key := ct.Name + ".Write/count"
		var ml, mi *ssa.Call
		var iterated ssa.Value // the map handed to the runtime's iterator
		for _, cs := range callsIn(fn) {
			if cs.Static != nil && cs.Static.Name() == "maplen" {
				ml = cs.Value()
			}
			if cs.Static != nil && cs.Static.Name() == "mapiterinit" && cs.Value() != nil {
				mi, iterated = cs.Value(), cs.Common.Args[1]
			}
			// a wrapper (a method of the iterator type) that starts the iteration on one of its parameters
			if cs.Static != nil && P.isModuleFunc(cs.Static) && cs.Static.Blocks != nil && cs.Value() != nil {
				for _, ics := range callsIn(cs.Static) {
					if ics.Static != nil && ics.Static.Name() == "mapiterinit" && isLinknameStub(ics.Static) {
						for j, prm := range cs.Static.Params {
							if ics.Common.Args[1] == ssa.Value(prm) && j < len(cs.Common.Args) {
								mi, iterated = cs.Value(), cs.Common.Args[j]
							}
						}
					}
				}
			}
		}
		ok := false
		if ml != nil && mi != nil && ml.Call.Args[0] == iterated {
			for _, cs := range callsIn(fn) {
				if cs.Static != nil && qualNameShort(cs.Static) == "(*WriteBuf).Varint" && stripConv(cs.Common.Args[1]) == ssa.Value(ml) && dominatesInstr(cs.Instr, mi) {
					ok = true
				}
			}
		}
		c.Check(ok, key, P.pos(fn.Pos()), "w.Varint(int64(maplen(m))) precedes an iteration over the same m", "the count written is not maplen of the map that is then iterated")
	}
}

// ---------- WA-ZERO

// ruleWAZero: an array or map is a series of blocks ended by a block count of zero. For an empty container
// the count that is written IS that zero; writing the terminator after it as well gives two zero bytes where
// the specification has one, and a reader that shares no code with the library takes the second for the next
// field. So wherever a constant-zero varint follows the count on a path, the count is known non-zero there.
func ruleWAZero(c *Ctx) {
	c.Rule("WA-ZERO", "an empty array or map is written as the single byte 0: the zero terminator follows the item count only on paths where the count is known to be non-zero", 2)
	P := c.P
	bt := getBT(P)
	for _, name := range []string{"avro.arrayCodec", "avro.MapCodec"} {
		ct := bt.byType[name]
		if ct == nil || ct.M["Write"] == nil {
			continue
		}
		fn := ct.M["Write"]
		key := ct.Name + ".Write/empty-is-one-zero"
		var counts, zeros []*CallSite
		for _, cs := range callsIn(fn) {
			if cs.Static == nil || qualNameShort(cs.Static) != "(*WriteBuf).Varint" || len(cs.Common.Args) != 2 {
				continue
			}
			if k, isK := constInt(stripConv(cs.Common.Args[1])); isK {
				if k == 0 {
					zeros = append(zeros, cs)
				}
				continue
			}
			counts = append(counts, cs)
		}
		if len(counts) == 0 {
			c.Unk(key, P.pos(fn.Pos()), "no item count written through the write buffer's varint method was found")
			continue
		}
		var bad []string
		nonZero := func(b *ssa.BasicBlock, count ssa.Value) bool {
			cv := stripConv(count)
			for _, f := range cmpFactsAt(b) {
				x, y, op := stripConv(f.X), stripConv(f.Y), f.Op
				if k, isK := constInt(x); isK {
					x, y, op = y, x, swapOp(op)
					_ = k
				}
				k, isK := constInt(y)
				if !isK || !(x == cv || sameValue(x, cv)) {
					continue
				}
				switch {
				case op == token.NEQ && k == 0, op == token.GTR && k >= 0, op == token.GEQ && k >= 1:
					return true
				}
			}
			return false
		}
		for _, z := range zeros {
			for _, cnt := range counts {
				if !dominatesInstr(cnt.Instr, z.Instr) && !canReachInstr(cnt.Instr, z.Instr) {
					continue
				}
				// either the zero is written only where the count was non-zero, or the count itself is
				// (then an empty container skips the count and the zero is all it writes)
				if !nonZero(z.Block, cnt.Common.Args[1]) && !nonZero(cnt.Block, cnt.Common.Args[1]) {
					bad = append(bad, fmt.Sprintf("the zero written at %s follows the count written at %s on a path where the count may be zero: an empty container is written as two zero bytes", P.pos(z.Instr.Pos()), P.pos(cnt.Instr.Pos())))
				}
			}
		}
		for i, z1 := range zeros {
			for j, z2 := range zeros {
				if i != j && canReachInstr(z1.Instr, z2.Instr) {
					bad = append(bad, fmt.Sprintf("the zero written at %s can be followed by the zero written at %s: two terminators on one path", P.pos(z1.Instr.Pos()), P.pos(z2.Instr.Pos())))
				}
			}
		}
		c.Check(len(bad) == 0, key, P.pos(fn.Pos()), fmt.Sprintf("%d count write(s), %d zero write(s): a zero follows a count only where the count was found non-zero", len(counts), len(zeros)), strings.Join(dedup(bad), "; "))
	}
}

// ---------- WA-SEL

func ruleWASel(c *Ctx) {
	c.Rule("WA-SEL", "a nullable union writes exactly one selector — the null branch's index when the value is omitted, the value branch's index otherwise — and exactly then the value", 2)
	P := c.P
	bt := getBT(P)
	wb := &waBuilder{P: P, small: map[string]bool{}}
	for _, ct := range bt.Codecs {
		st, isS := ct.T.Underlying().(*types.Struct)
		if !isS {
			continue
		}
		_ = st
		if nonNullFieldOf(P, ct.T) == "" {
			continue
		}
		fn := ct.M["Write"]
		key := ct.Name + ".Write/selector"
		pos := P.pos(fn.Pos())
		if probs, folded := selectorByFold(P, ct, fn); folded {
			if len(probs) > 0 {
				c.Bad(key, pos, strings.Join(probs, "; "))
			} else {
				c.OK(key, pos, "Write folded for nonNull = 0 and 1: Omit(p) true -> selector 1-nonNull and nothing else; false -> selector nonNull, then exactly one branch write of the same pointer")
			}
			continue
		}
		paths, ok := enumeratePaths(fn)
		if !ok {
			c.Unk(key, pos, "path budget exceeded")
			continue
		}
		pParam := fn.Params[len(fn.Params)-1]
		var problems []string
		nOmit, nVal := 0, 0
		for _, p := range paths {
			if p.Ret == nil {
				continue
			}
			// the Omit call that decides this path
			var omitCall *ssa.Call
			omitTruth := false
			for v, t := range p.State.bools {
				if call, ok := v.(*ssa.Call); ok && (call.Call.IsInvoke() && call.Call.Method.Name() == "Omit" || call.Call.StaticCallee() != nil && call.Call.StaticCallee().Name() == "Omit") {
					omitCall, omitTruth = call, t
				}
			}
			if omitCall == nil {
				problems = append(problems, "a path through Write is not decided by the branch codec's Omit")
				continue
			}
			if omitCall.Call.Args[len(omitCall.Call.Args)-1] != ssa.Value(pParam) {
				problems = append(problems, "Omit is asked about a different pointer than the one written")
			}
			var sels []ssa.Value
			subWrites := 0
			for _, b := range p.Blocks {
				for _, in := range b.Instrs {
					call, ok := in.(*ssa.Call)
					if !ok {
						continue
					}
					if sc := call.Call.StaticCallee(); sc != nil && qualNameShort(sc) == "(*WriteBuf).Varint" {
						sels = append(sels, call.Call.Args[1])
					}
					isSubWrite := call.Call.IsInvoke() && call.Call.Method.Name() == "Write" && isCodecIface(P, call.Call.Value.Type()) ||
						call.Call.StaticCallee() != nil && call.Call.StaticCallee().Name() == "Write" && call.Call.StaticCallee().Signature.Recv() != nil && !strings.Contains(qualNameShort(call.Call.StaticCallee()), "WriteBuf")
					if isSubWrite {
						subWrites++
						if call.Call.Args[len(call.Call.Args)-1] != ssa.Value(pParam) {
							problems = append(problems, "the branch value written is not the pointer Write was given")
						}
					}
				}
			}
			if len(sels) != 1 {
				problems = append(problems, fmt.Sprintf("a path writes %d selectors", len(sels)))
				continue
			}
			// evaluate the selector for nonNull in {0,1}
			leaves := map[string]bool{}
			if !wb.collectLeaves(sels[0], leaves, 0) {
				problems = append(problems, "the selector is not an expression over nonNull and constants")
				continue
			}
			var leaf string
			for l := range leaves {
				leaf = l
			}
			good := true
			for nn := int64(0); nn <= 1; nn++ {
				v, ok := wb.evalWith(sels[0], map[string]int64{leaf: nn}, 0)
				want := nn
				if omitTruth {
					want = 1 - nn
				}
				if !ok || v != want {
					good = false
				}
			}
			if omitTruth {
				nOmit++
				if !good {
					problems = append(problems, "when the value is omitted the selector written is not the null branch's index 1-nonNull (null is not always branch 0)")
				}
				if subWrites != 0 {
					problems = append(problems, "the omitted path also writes a value")
				}
			} else {
				nVal++
				if !good {
					problems = append(problems, "the selector written with a value is not the value branch's index nonNull")
				}
				if subWrites != 1 {
					problems = append(problems, fmt.Sprintf("the value path writes %d values", subWrites))
				}
			}
		}
		if nOmit == 0 || nVal == 0 {
			problems = append(problems, "Write lacks an omitted path or a value path")
		}
		if len(problems) > 0 {
			sort.Strings(problems)
			problems = dedup(problems)
			c.Bad(key, pos, strings.Join(problems, "; "))
		} else {
			c.OK(key, pos, "omit -> selector 1-nonNull and nothing else; otherwise selector nonNull then exactly one branch write of the same pointer")
		}
	}
}

func dedup(xs []string) []string {
	var out []string
	seen := map[string]bool{}
	for _, x := range xs {
		if !seen[x] {
			seen[x] = true
			out = append(out, x)
		}
	}
	return out
}

// ---------- BT-NONNULL

func ruleBTNonNull(c *Ctx) {
	c.Rule("BT-NONNULL", "the value branch's index is 1 exactly when null is the first branch and 0 when it is the second; the branch codec is built from that branch's schema; Read and Skip compare the decoded index with it", 5)
	P := c.P
	bt := getBT(P)
	hasNonNull := func(T types.Type) bool { return nonNullFieldOf(P, T) != "" }
	// last store on the path to a field of the literal
	lastStore := func(p *BTPath, lit ssa.Value, fld string) ssa.Value {
		var v ssa.Value
		for _, b := range p.Blocks {
			for _, in := range b.Instrs {
				st, ok := in.(*ssa.Store)
				if !ok {
					continue
				}
				if fa, ok := st.Addr.(*ssa.FieldAddr); ok && fa.X == lit && fieldName(fa.X.Type(), fa.Field) == fld {
					v = st.Val
				}
			}
		}
		return v
	}
	// schemaArgOf: the Schema argument of the codec-building call that produced v
	schemaArgOf := func(v ssa.Value) ssa.Value {
		if ta, ok := v.(*ssa.Extract); ok {
			if t, ok := ta.Tuple.(*ssa.TypeAssert); ok {
				v = t.X
			}
		}
		if ta, ok := v.(*ssa.TypeAssert); ok {
			v = ta.X
		}
		call, _, ok := builtFrom(P, v)
		if !ok {
			return nil
		}
		for i, prm := range call.Call.StaticCallee().Params {
			if typeKey(prm.Type()) == "avro.Schema" && i < len(call.Call.Args) {
				return call.Call.Args[i]
			}
		}
		return nil
	}
	unionBase := regexp.MustCompile(`\(&([A-Za-z_][A-Za-z0-9_]*)->Union\)\[`)
	// judge decides one construction: on a path with state st, the value
	// branch index is k (a constant) or the literal's own nonNull field
	// (viaField), and the branch schema is schemaV.
	// the index may be taken from the working literal's own value-branch field (whatever it is called)
	var nnAlt []string
	for _, ct := range bt.Codecs {
		if n := nonNullFieldOf(P, ct.T); n != "" {
			nnAlt = append(nnAlt, regexp.QuoteMeta(n))
		}
	}
	sort.Strings(nnAlt)
	nnPath := regexp.MustCompile(`->(` + strings.Join(dedup(nnAlt), "|") + `)\)`)
	if len(nnAlt) == 0 {
		nnPath = regexp.MustCompile(`^\b$`)
	}
	judge := func(key, pos string, st *pathState, k int64, schemaV ssa.Value) {
		pth := accessPath(stripLoadThroughLocal(schemaV))
		m := unionBase.FindStringSubmatch(pth)
		if m == nil {
			c.Bad(key, pos, "the branch codec is not built from an element of the union's branch list ("+pth+")")
			return
		}
		base := m[1]
		u0 := "*(*(&" + base + "->Union)[const:0]&->Type)"
		u1 := "*(*(&" + base + "->Union)[const:1]&->Type)"
		idxOK := strings.Contains(pth, fmt.Sprintf("->Union)[const:%d]", k)) || strings.Contains(pth, "->Union)[") && nnPath.MatchString(pth)
		if !idxOK {
			c.Bad(key, pos, fmt.Sprintf("nonNull is %d but the branch codec is built from %s", k, pth))
			return
		}
		first := st.eq[u0] == "s:null"
		second := st.eq[u1] == "s:null"
		switch {
		case first:
			c.Check(k == 1, key, pos, "null first -> nonNull = 1, branch codec built from Union[1]", fmt.Sprintf("null is the first branch but nonNull is %d", k))
		case second && st.ne[u0]["s:null"]:
			c.Check(k == 0, key, pos, "null second -> nonNull = 0, branch codec built from Union[0]", fmt.Sprintf("null is the second branch but nonNull is %d", k))
		default:
			c.Bad(key, pos, "a nullable-union codec is built on a path where neither branch is known to be null")
		}
	}
	usedAsValue := func(fn *ssa.Function) bool {
		for _, g := range P.ModuleFuncs() {
			for _, blk := range g.Blocks {
				for _, in := range blk.Instrs {
					for _, op := range in.Operands(nil) {
						if *op == ssa.Value(fn) {
							if ci, isCall := in.(ssa.CallInstruction); isCall && ci.Common().Value == ssa.Value(fn) {
								continue
							}
							return true
						}
					}
				}
			}
		}
		return false
	}
	sites := 0
	seen := map[string]bool{}
	_ = nnPath
	// first choice: fold the builders for the two placements of null (E-CP); the functions folded through
	// are decided by that and not read a second time below
	covered, nFold := nonNullByFold(c, bt)
	sites += nFold
	for _, ub := range bt.Builders {
		if ub.Fn.Pkg != P.Avro || covered[ub.Fn] {
			continue
		}
		for _, p := range ub.Paths {
			r := P.classifyReturn(p)
			if r.Codec == nil || !hasNonNull(r.Codec) || r.Lit == nil {
				continue
			}
			sites++
			name := typeKey(r.Codec)
			pos := P.pos(p.Ret.Pos())
			nnName, subName := nonNullFieldOf(P, r.Codec), subCodecFieldOf(P, r.Codec)
			nnV := lastStore(p, r.Lit, nnName)
			codecV := lastStore(p, r.Lit, subName)
			if codecV == nil {
				codecV = r.Fields[subName]
			}
			schemaV := schemaArgOf(codecV)
			if schemaV == nil {
				key := fmt.Sprintf("%s/return[%s]", fnKey(ub.Fn), name)
				if !seen[key] {
					seen[key] = true
					c.Bad(key, pos, "the branch codec of a nullable union is not the result of building a codec from a schema")
				}
				continue
			}
			// a copy of another local literal's nonNull: the last store to that one
			for i := 0; i < 3; i++ {
				ld, ok := nnV.(*ssa.UnOp)
				if !ok || ld.Op != token.MUL {
					break
				}
				fa, ok := ld.X.(*ssa.FieldAddr)
				if !ok {
					break
				}
				srcT := fa.X.Type().Underlying().(*types.Pointer).Elem()
				if fieldName(fa.X.Type(), fa.Field) != nonNullFieldOf(P, srcT) {
					break
				}
				if _, isLocal := fa.X.(*ssa.Alloc); !isLocal {
					break
				}
				nnV = lastStore(p, fa.X, nonNullFieldOf(P, srcT))
			}
			var k int64
			isConst := true
			if nnV != nil {
				k, isConst = constInt(nnV)
			}
			prmNN, _ := nnV.(*ssa.Parameter)
			prmS, _ := schemaV.(*ssa.Parameter)
			if ld, ok := schemaV.(*ssa.UnOp); ok && ld.Op == token.MUL && prmS == nil {
				// a by-value struct parameter is spilled to a local
				if a, ok := ld.X.(*ssa.Alloc); ok {
					for _, rr := range referrersOf(a) {
						if st, ok := rr.(*ssa.Store); ok && st.Addr == ssa.Value(a) {
							if q, ok := st.Val.(*ssa.Parameter); ok {
								prmS = q
							}
						}
					}
				}
			}
			switch {
			case isConst && prmS == nil:
				u0 := ""
				if m := unionBase.FindStringSubmatch(accessPath(stripLoadThroughLocal(schemaV))); m != nil {
					u0 = "*(*(&" + m[1] + "->Union)[const:0]&->Type)"
				}
				key := fmt.Sprintf("%s/return[%s]/null-%s", fnKey(ub.Fn), name, map[bool]string{true: "first", false: "second"}[p.State.eq[u0] == "s:null"])
				if seen[key] {
					continue
				}
				seen[key] = true
				judge(key, pos, p.State, k, schemaV)
			case prmNN != nil && prmS != nil:
				// the index and the branch schema are both handed in: decide at every call site
				hkey := fmt.Sprintf("%s/return[%s]", fnKey(ub.Fn), name)
				if seen[hkey] {
					continue
				}
				seen[hkey] = true
				if usedAsValue(ub.Fn) {
					c.Bad(hkey, pos, "a helper that receives the branch index is used as a value: its call sites cannot be enumerated")
					continue
				}
				iNN, iS := -1, -1
				for i, q := range ub.Fn.Params {
					if q == prmNN {
						iNN = i
					}
					if q == prmS {
						iS = i
					}
				}
				ncalls := 0
				for _, caller := range bt.Builders {
					for _, cp := range caller.Paths {
						for _, cl := range cp.Calls {
							if cl.Call.Call.StaticCallee() != ub.Fn {
								continue
							}
							ncalls++
							ck, isK := constInt(cl.Call.Call.Args[iNN])
							key := fmt.Sprintf("%s/call[%s]/nonNull=%d", fnKey(caller.Fn), ub.Fn.Name(), ck)
							if seen[key+name] {
								continue
							}
							seen[key+name] = true
							cpos := P.pos(cl.Call.Pos())
							if !isK {
								c.Bad(key, cpos, "the branch index handed to the nullable-union helper is not a constant")
								continue
							}
							judge(key+"["+name+"]", cpos, cl.State, ck, cl.Call.Call.Args[iS])
						}
					}
				}
				if ncalls == 0 {
					c.Bad(hkey, pos, "no call site of the nullable-union helper was found on any builder path")
				}
			default:
				key := fmt.Sprintf("%s/return[%s]", fnKey(ub.Fn), name)
				if !seen[key] {
					seen[key] = true
					c.Bad(key, pos, "the value branch's index is neither a constant nor a parameter paired with the branch schema")
				}
			}
		}
	}
	if !c.Anchor(sites > 0, "construction of a nullable-union codec (a codec type with a nonNull field)") {
		return
	}
	// Read and Skip of the nullable codecs compare with the field
	for _, ct := range bt.Codecs {
		st, isS := ct.T.Underlying().(*types.Struct)
		if !isS {
			continue
		}
		_ = st
		nnName := nonNullFieldOf(P, ct.T)
		if nnName == "" {
			continue
		}
		for _, m := range []string{"Read", "Skip"} {
			fn := ct.M[m]
			key := ct.Name + "." + m + "/index==nonNull"
			ok := false
			for _, cs := range callsIn(fn) {
				isSub := cs.Iface != nil && isCodecIface(P, cs.Common.Value.Type()) || cs.Static != nil && cs.Static.Signature.Recv() != nil && (cs.Static.Name() == "Read" || cs.Static.Name() == "Skip")
				if !isSub || cs.Static != nil && strings.Contains(qualNameShort(cs.Static), "ReadBuf") {
					continue
				}
				for _, f := range cmpFactsAt(cs.Block) {
					if f.Op != token.EQL {
						continue
					}
					x, y := f.X, f.Y
					if fx, okx := recvFieldOf(fn, y); okx && fx == nnName && derivesFromReadByte(x) {
						ok = true
					}
					if fx, okx := recvFieldOf(fn, x); okx && fx == nnName && derivesFromReadByte(y) {
						ok = true
					}
				}
			}
			c.Check(ok, key, P.pos(fn.Pos()), "the branch is decoded exactly on the equal edge of (selector/2) == u.nonNull", "the branch codec is not invoked exactly when the decoded selector equals nonNull")
		}
	}
}

func stripLoadThroughLocal(v ssa.Value) ssa.Value {
	// *local where local was stored a loaded element: return the element load
	if ld, ok := v.(*ssa.UnOp); ok && ld.Op == token.MUL {
		if a, ok := ld.X.(*ssa.Alloc); ok {
			for _, r := range referrersOf(a) {
				if st, ok := r.(*ssa.Store); ok && st.Addr == ssa.Value(a) {
					return st.Val
				}
			}
		}
	}
	return v
}

func derivesFromReadByte(v ssa.Value) bool {
	return derivesFromReadByteD(v, 0)
}

// derivesFromReadByteD: v is computed (by arithmetic on one operand chain)
// from the byte returned by (*ReadBuf).ReadByte, possibly inside a module
// helper that hands it back as a result.
func derivesFromReadByteD(v ssa.Value, depth int) bool {
	if depth > 3 {
		return false
	}
	for i := 0; i < 8; i++ {
		switch x := v.(type) {
		case *ssa.BinOp:
			v = x.X
		case *ssa.Convert:
			v = x.X
		case *ssa.ChangeType:
			v = x.X
		case *ssa.Extract:
			call, ok := x.Tuple.(*ssa.Call)
			if !ok || call.Call.StaticCallee() == nil {
				return false
			}
			sc := call.Call.StaticCallee()
			if qualNameShort(sc) == "(*ReadBuf).ReadByte" {
				return x.Index == 0
			}
			if sc.Blocks == nil || sc.Pkg == nil || x.Index >= sc.Signature.Results().Len() {
				return false
			}
			n := 0
			for _, b := range sc.Blocks {
				if b == sc.Recover {
					continue
				}
				ret, ok := b.Instrs[len(b.Instrs)-1].(*ssa.Return)
				if !ok {
					continue
				}
				r := resolvedResults(ret)[x.Index]
				if _, isC := stripConv(r).(*ssa.Const); isC {
					continue
				}
				if !derivesFromReadByteD(r, depth+1) {
					return false
				}
				n++
			}
			return n > 0
		default:
			return false
		}
	}
	return false
}

// nonNullByFold folds every builder with the standard signature for a
// two-branch union with null first and with null second. Where the fold ends
// in a codec with a value-branch index, that index must be the position of
// the non-null branch and the sub-codec must be what the sub-builder returned
// for that very branch's schema. Returns the functions so decided and the
// number of constructions judged.
func nonNullByFold(c *Ctx, bt *btEnv) (map[*ssa.Function]bool, int) {
	P := c.P
	covered := map[*ssa.Function]bool{}
	n := 0
	schemaNT := P.NamedType(P.Avro, "Schema")
	if schemaNT == nil {
		return covered, 0
	}
	schemaT := types.Type(schemaNT)
	stdSig := func(fn *ssa.Function) bool {
		if !isCodecErrorSig(P, fn.Signature) || len(fn.Params) != 3 {
			return false
		}
		return types.Identical(fn.Params[0].Type(), schemaT) && isReflectType(fn.Params[1].Type())
	}
	mk := func(types_ ...string) cpVal {
		sl := cpSlice{Elems: nil}
		for _, t := range types_ {
			sl.Elems = append(sl.Elems, &cpCell{V: cpStructOf(schemaT, map[string]cpVal{"Type": cpStr{t}}), T: schemaT})
		}
		return cpStructOf(schemaT, map[string]cpVal{"Type": cpStr{"union"}, "Union": sl})
	}
	const marker = "x-value-branch"
	type kase struct {
		name string
		in   cpVal
		want int64
	}
	for _, ub := range bt.Builders {
		fn := ub.Fn
		if fn.Pkg != P.Avro || !stdSig(fn) {
			continue
		}
		type verdict struct {
			key, pos, good, bad string
			ok                  bool
		}
		var vs []verdict
		var vis []map[*ssa.Function]bool
		failed := false
		for _, k := range []kase{{"null-first", mk("null", marker), 1}, {"null-second", mk(marker, "null"), 0}} {
			outs, visited, ok, _ := cpFoldOpt(P, fn, []cpVal{k.in, cpUnk{ID: "arg:typ"}, cpUnk{ID: "arg:omit"}}, func(g *ssa.Function) bool { return g != fn && stdSig(g) })
			if !ok {
				failed = true
				break
			}
			vis = append(vis, visited)
			for _, o := range outs {
				if o.Panics || len(o.Results) != 2 {
					continue
				}
				if _, isNil := o.Results[1].(cpNil); !isNil {
					continue
				}
				iv, isI := o.Results[0].(cpIface)
				if !isI {
					continue
				}
				T := iv.T
				val := iv.V
				if pt, isP := T.Underlying().(*types.Pointer); isP {
					T = pt.Elem()
					pp, isPtr := val.(cpPtr)
					if !isPtr || pp.C == nil {
						continue
					}
					val = pp.C.V
				}
				nnName := nonNullFieldOf(P, T)
				if nnName == "" {
					continue
				}
				subName := subCodecFieldOf(P, T)
				key := fmt.Sprintf("%s/return[%s]/%s", fnKey(fn), typeKey(T), k.name)
				nv, _ := cpFieldByName(val, nnName)
				got := int64(0)
				if nv != nil {
					gi, isInt := nv.(cpInt)
					if !isInt {
						vs = append(vs, verdict{key: key, pos: P.pos(fn.Pos()), bad: "the value branch's index does not fold to a constant for a union with " + k.name})
						continue
					}
					got = gi.V
				}
				// the sub-codec: the (possibly asserted) result of a sub-builder call on the value branch's schema
				sv, _ := cpFieldByName(val, subName)
				from := ""
				if su, isU := sv.(cpUnk); isU {
					for _, cl := range o.Calls {
						tup, isT := cl.Result.(cpTuple)
						if !isT || len(tup.Vs) == 0 {
							continue
						}
						ru, isRU := tup.Vs[0].(cpUnk)
						if !isRU || !(su.ID == ru.ID || strings.HasPrefix(su.ID, ru.ID+"/")) {
							continue
						}
						for _, a := range cl.Args {
							if as, isS := a.(cpStruct); isS && types.Identical(as.T, schemaT) {
								if tv, _ := cpFieldByName(as, "Type"); tv != nil {
									if ts, isStr := tv.(cpStr); isStr {
										from = ts.V
									}
								}
							}
						}
					}
				}
				switch {
				case got != k.want:
					vs = append(vs, verdict{key: key, pos: P.pos(fn.Pos()), bad: fmt.Sprintf("for a union with %s the value branch's index is %d, it must be %d", k.name, got, k.want)})
				case from != marker:
					vs = append(vs, verdict{key: key, pos: P.pos(fn.Pos()), bad: fmt.Sprintf("for a union with %s the branch codec is not what the sub-builder returned for the non-null branch's schema (it was built from %q)", k.name, from)})
				default:
					vs = append(vs, verdict{key: key, pos: P.pos(fn.Pos()), ok: true, good: fmt.Sprintf("%s: nonNull = %d and the branch codec is built from that branch's schema (the builder folded for that union)", k.name, got)})
				}
			}
		}
		if failed || len(vs) == 0 {
			continue
		}
		seen := map[string]bool{}
		for _, v := range vs {
			if v.ok && seen[v.key] {
				continue
			}
			seen[v.key] = true
			n++
			c.Check(v.ok, v.key, v.pos, v.good, v.bad)
		}
		for _, m := range vis {
			for g := range m {
				covered[g] = true
			}
		}
	}
	return covered, n
}

// selectorByFold decides WA-SEL for one nullable-union codec by folding its
// Write (E-CP) for both values of the value-branch index, with the sub-codec
// and the arguments unknown and the write buffer's methods kept as calls.
func selectorByFold(P *Program, ct *CodecType, fn *ssa.Function) (problems []string, folded bool) {
	nnName, subName := nonNullFieldOf(P, ct.T), subCodecFieldOf(P, ct.T)
	if nnName == "" || subName == "" || fn == nil || len(fn.Params) != 3 {
		return nil, false
	}
	// only the codec's own methods and plain helper functions are folded: the write buffer's methods and the
	// sub-codec's methods stay calls
	opaque := func(g *ssa.Function) bool {
		recv := g.Signature.Recv()
		if recv == nil {
			return false
		}
		rt := recv.Type()
		if pt, ok := rt.Underlying().(*types.Pointer); ok {
			rt = pt.Elem()
		}
		return !types.Identical(types.Unalias(rt), types.Unalias(ct.T))
	}
	seen := map[string]bool{}
	add := func(s string) {
		if !seen[s] {
			seen[s] = true
			problems = append(problems, s)
		}
	}
	isSub := func(v cpVal) bool {
		u, ok := v.(cpUnk)
		return ok && (u.ID == "sub" || strings.HasPrefix(u.ID, "sub/"))
	}
	isP := func(v cpVal) bool {
		u, ok := v.(cpUnk)
		return ok && u.ID == "arg:p"
	}
	nOmit, nVal := 0, 0
	for nn := int64(0); nn <= 1; nn++ {
		var recv cpVal = cpStructUnknownExcept(ct.T, map[string]cpVal{nnName: cpInt{nn}, subName: cpUnk{ID: "sub"}})
		if _, isPtr := fn.Params[0].Type().Underlying().(*types.Pointer); isPtr {
			recv = cpPtrTo(recv, ct.T)
		}
		outs, _, ok, _ := cpFoldOpt(P, fn, []cpVal{recv, cpUnk{ID: "arg:w"}, cpUnk{ID: "arg:p"}}, opaque)
		if !ok {
			return nil, false
		}
		for _, o := range outs {
			if o.Panics {
				continue
			}
			var omit *cpCall
			nOmitCalls := 0
			var sels []cpVal
			subWrites, order := 0, true
			for i := range o.Calls {
				cl := &o.Calls[i]
				switch {
				case (strings.HasSuffix(cl.Callee, ").Omit") || cl.Callee == "invoke:Omit") && len(cl.Args) >= 2 && isSub(cl.Args[0]):
					omit = cl
					nOmitCalls++
					if !isP(cl.Args[len(cl.Args)-1]) {
						add("Omit is asked about a different pointer than the one written")
					}
				case strings.HasSuffix(cl.Callee, "WriteBuf).Varint") && len(cl.Args) == 2:
					sels = append(sels, cl.Args[1])
					if subWrites > 0 {
						order = false
					}
				case (strings.HasSuffix(cl.Callee, ").Write") || cl.Callee == "invoke:Write") && len(cl.Args) >= 3 && isSub(cl.Args[0]):
					subWrites++
					if !isP(cl.Args[len(cl.Args)-1]) {
						add("the branch value written is not the pointer Write was given")
					}
				case strings.Contains(cl.Callee, "WriteBuf)."):
					add("Write puts more than a selector on the buffer itself (" + cl.Callee + ")")
				}
			}
			if omit == nil || nOmitCalls != 1 {
				add("a path through Write is not decided by the branch codec's Omit")
				continue
			}
			ru, isU := omit.Result.(cpUnk)
			omitted, decided := false, false
			if isU {
				omitted, decided = o.Decided[ru.ID]
			}
			if !decided {
				add("a path through Write is not decided by the branch codec's Omit")
				continue
			}
			if len(sels) != 1 {
				add(fmt.Sprintf("a path writes %d selectors", len(sels)))
				continue
			}
			k, isK := sels[0].(cpInt)
			if !isK {
				add("the selector is not an expression over nonNull and constants")
				continue
			}
			if omitted {
				nOmit++
				if k.V != 1-nn {
					add("when the value is omitted the selector written is not the null branch's index 1-nonNull (null is not always branch 0)")
				}
				if subWrites != 0 {
					add("the omitted path also writes a value")
				}
			} else {
				nVal++
				if k.V != nn {
					add("the selector written with a value is not the value branch's index nonNull")
				}
				if subWrites != 1 {
					add(fmt.Sprintf("the value path writes %d values", subWrites))
				}
				if !order {
					add("the value is written before its selector")
				}
			}
		}
	}
	if nOmit == 0 || nVal == 0 {
		add("Write lacks an omitted path or a value path")
	}
	sort.Strings(problems)
	return problems, true
}
