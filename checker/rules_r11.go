package main

// Rules added after the eleventh round of independently seeded changes:
//
//	NIL-LOC    no nil *time.Location reaches time.Date / Time.In (C06, C18)
//	OD-ACCEPT  the container reader refuses a declared number only for being negative (C03, C07)
//	SEL-FOLD   Read and Skip of the nullable-union codecs, folded on a one-byte buffer (C03, C04, C13)

import (
	"fmt"
	"go/token"
	"go/types"
	"reflect"
	"strings"

	"golang.org/x/tools/go/ssa"
)

// ---------- NIL-LOC

// ruleNilLoc: time.Date and (Time).In panic on a nil *time.Location ("time: missing Location in call to
// Date"). A location variable that is assigned on some paths only keeps its nil zero value on the others, so
// every value that can flow into that argument (through phis) must be something other than the nil constant.
func ruleNilLoc(c *Ctx) {
	c.Rule("NIL-LOC", "no nil *time.Location can reach time.Date or Time.In: a location left at its zero value on some path makes the call panic", 1)
	P := c.P
	n := 0
	for _, fn := range P.ModuleFuncs() {
		for _, cs := range callsIn(fn) {
			if cs.Static == nil {
				continue
			}
			q := qualName(cs.Static)
			idx := -1
			switch q {
			case "time.Date":
				idx = 7
			case "(time.Time).In":
				idx = 1
			}
			if idx < 0 || idx >= len(cs.Common.Args) {
				continue
			}
			n++
			key := fmt.Sprintf("%s/location-arg#%d", fnKey(fn), n)
			nilSrc := false
			for _, s := range phiSources(cs.Common.Args[idx]) {
				if isNilConst(s) {
					nilSrc = true
				}
			}
			c.Check(!nilSrc, key, P.pos(cs.Instr.Pos()), "every value flowing into the location argument is a location", "the nil constant can flow into the location argument of "+q+": the call panics on that path")
		}
	}
	if n == 0 {
		c.OKTrivial("module/no-location-argument", "-", "no call of time.Date or Time.In in the module")
	}
}

// ---------- OD-ACCEPT

// ruleODAccept: the container format gives every block a record count and a byte length and says nothing
// about how they relate (a compressed block of 45 bytes can hold 3000 records; a record can take no bytes at
// all). The reader may refuse a declared number of its own accord only for being negative; a refusal that
// relates two declared numbers, or compares one with anything but zero, turns away files the specification
// allows.
func ruleODAccept(c *Ctx, s *readFileShape) {
	c.Rule("OD-ACCEPT", "the container reader refuses a declared count or length of its own accord only for being negative: no legal file is turned away for how its numbers relate", 2)
	P := c.P
	if !c.Anchor(s.fn != nil, "avro.ReadFile") {
		return
	}
	fromVarint := func(v ssa.Value) bool {
		seen := map[ssa.Value]bool{}
		var walk func(v ssa.Value, d int) bool
		walk = func(v ssa.Value, d int) bool {
			if d > 10 || seen[v] {
				return false
			}
			seen[v] = true
			switch x := v.(type) {
			case *ssa.Convert:
				return walk(x.X, d+1)
			case *ssa.ChangeType:
				return walk(x.X, d+1)
			case *ssa.BinOp:
				return walk(x.X, d+1) || walk(x.Y, d+1)
			case *ssa.UnOp:
				return x.Op != token.MUL && walk(x.X, d+1)
			case *ssa.Phi:
				for _, e := range x.Edges {
					if walk(e, d+1) {
						return true
					}
				}
			case *ssa.Extract:
				if call, ok := x.Tuple.(*ssa.Call); ok && x.Index == 0 {
					if g := call.Call.StaticCallee(); g != nil {
						q := qualName(g)
						if q == "encoding/binary.ReadVarint" || q == "encoding/binary.ReadUvarint" {
							return true
						}
						// a module helper that hands a declared number back
						if P.isModuleFunc(g) && g.Blocks != nil {
							for _, r := range returnsOf(g) {
								rs := resolvedResults(r)
								if x.Index < len(rs) && walk(rs[x.Index], d+1) {
									return true
								}
							}
						}
					}
				}
			}
			return false
		}
		return walk(v, 0)
	}
	for _, fn := range readerFuncs(P, s) {
		key := fnKey(fn) + "/refuses-declared-numbers-only-when-negative"
		var unk []string
		n := 0
		for _, r := range returnsOf(fn) {
			ev := errOperand(r)
			if ev == nil || isNilConst(ev) {
				continue
			}
			srcs := []ssa.Value{ev}
			var blocks []*ssa.BasicBlock
			if phi, ok := ev.(*ssa.Phi); ok {
				srcs = nil
				for i, ed := range phi.Edges {
					srcs = append(srcs, ed)
					blocks = append(blocks, phi.Block().Preds[i])
				}
			}
			for i, sv := range srcs {
				if isNilConst(sv) || !ownError(sv) {
					continue
				}
				blk := r.Block()
				if blocks != nil {
					blk = blocks[i]
				} else if in, ok := stripChange(sv).(ssa.Instruction); ok && in.Block() != nil {
					blk = in.Block()
				}
				for _, a := range guardAtoms(blk) {
					if a.dead() {
						continue
					}
					cmp, isCmp := asCmp(a.cond, a.truth)
					if !isCmp {
						continue
					}
					wx, wy := fromVarint(cmp.X), fromVarint(cmp.Y)
					if !wx && !wy {
						continue
					}
					if lenOfMadeFrom(cmp.X, cmp.Y) || lenOfMadeFrom(cmp.Y, cmp.X) {
						// len(make([]T, n)) against n: the two are the same number
						continue
					}
					n++
					kx, isKx := constInt(stripConv(cmp.X))
					ky, isKy := constInt(stripConv(cmp.Y))
					switch {
					case wx && wy:
						unk = append(unk, fmt.Sprintf("%s refuses at %s on how two declared numbers relate: the format does not relate a block's record count to its byte length (a compressed block can hold more records than it has bytes)", fn.Name(), P.pos(a.pos)))
					case wx && isKy && (ky == 0 || ky == -1 || ky == 1):
					case wy && isKx && (kx == 0 || kx == -1 || kx == 1):
					default:
						unk = append(unk, fmt.Sprintf("%s refuses at %s on a declared number compared with something other than zero: it is not shown that only malformed files are turned away", fn.Name(), P.pos(a.pos)))
					}
				}
			}
		}
		switch {
		case len(unk) > 0:
			c.Unk(key, P.pos(fn.Pos()), strings.Join(dedup(unk), "; "))
		case n == 0:
			c.OKTrivial(key, P.pos(fn.Pos()), "no refusal of its own on a declared number")
		default:
			c.OK(key, P.pos(fn.Pos()), fmt.Sprintf("%d refusal(s) on a declared number, each a sign test", n))
		}
	}
}

// lenOfMadeFrom: a is len(make([]T, n)) and b is that n, conversions aside.
func lenOfMadeFrom(a, b ssa.Value) bool {
	call, ok := stripConv(a).(*ssa.Call)
	if !ok {
		return false
	}
	bi, ok := call.Call.Value.(*ssa.Builtin)
	if !ok || bi.Name() != "len" || len(call.Call.Args) != 1 {
		return false
	}
	mk, ok := stripChange(call.Call.Args[0]).(*ssa.MakeSlice)
	if !ok {
		return false
	}
	return stripConv(mk.Len) == stripConv(b)
}

// ---------- SEL-FOLD

// ruleSelFold: the two-branch nullable-union codecs read the selector as one byte. Folded (E-CP) on a buffer
// whose first byte is a named unknown, for the value branch first and second (nonNull 0 and 1): Read and
// Skip must hand the rest of the buffer to the branch codec exactly when the byte is the zig-zag encoding of
// nonNull (0 or 2), and must consume the selector alone and succeed when it is that of the other index.
func ruleSelFold(c *Ctx) {
	c.Rule("SEL-FOLD", "Read and Skip of the nullable-union codecs, folded on a one-byte selector with the value branch first and second: the branch codec is run exactly for the selector of the value branch, the null branch consumes the selector alone", 4)
	P := c.P
	bt := getBT(P)
	rbN := P.NamedType(P.Avro, "ReadBuf")
	if !c.Anchor(rbN != nil, "avro.ReadBuf") {
		return
	}
	st, _ := rbN.Underlying().(*types.Struct)
	var bufField, curField string
	var sliceT types.Type
	for i := 0; st != nil && i < st.NumFields(); i++ {
		f := st.Field(i)
		if sl, ok := f.Type().Underlying().(*types.Slice); ok && isBasicKind(sl.Elem(), types.Uint8) {
			bufField, sliceT = f.Name(), f.Type()
		}
		if isBasicKind(f.Type(), types.Int) {
			curField = f.Name()
		}
	}
	for _, ct := range bt.Codecs {
		nn := nonNullFieldOf(P, ct.T)
		sub := subCodecFieldOf(P, ct.T)
		if nn == "" || sub == "" {
			continue
		}
		for _, m := range []string{"Read", "Skip"} {
			fn := ct.M[m]
			if fn == nil || !ct.Declared[m] {
				continue
			}
			key := ct.Name + "." + m + "/selector"
			pos := P.pos(fn.Pos())
			var probs []string
			failed := ""
			for _, nonNull := range []int64{0, 1} {
				valueByte, nullByte := int(2*nonNull), int(2*(1-nonNull))
				// a branch codec held as a concrete type (the string codec of the null/string union) is not folded
				// into: its call is what is counted
				var subT types.Type
				if sst, isS := ct.T.Underlying().(*types.Struct); isS {
					for i := 0; i < sst.NumFields(); i++ {
						if sst.Field(i).Name() == sub {
							subT = sst.Field(i).Type()
						}
					}
				}
				opaque := func(g *ssa.Function) bool {
					if subT == nil || g.Signature.Recv() == nil {
						return false
					}
					if _, isI := subT.Underlying().(*types.Interface); isI {
						return false
					}
					rt := g.Signature.Recv().Type()
					if pt, isP := rt.Underlying().(*types.Pointer); isP {
						rt = pt.Elem()
					}
					return types.Identical(types.Unalias(rt), types.Unalias(subT))
				}
				e := &cpEngine{P: P, MaxOut: 32, MaxSteps: 20000, MaxForks: cpMaxForks, MaxDepth: 8, opaque: opaque, visited: map[*ssa.Function]bool{}}
				e.globals = cpInitGlobals(P)
				e.pending = [][]bool{nil}
				sawValue, sawNull := false, false
				for len(e.pending) > 0 && failed == "" {
					d := e.pending[len(e.pending)-1]
					e.pending = e.pending[:len(e.pending)-1]
					e.decisions, e.taken, e.steps, e.calls, e.uid, e.decided = d, nil, 0, nil, 0, map[string]bool{}
					e.bytes, e.constraints, e.onceDone, e.varintBufs = nil, nil, nil, nil
					cells := []*cpCell{{V: cpByteIdent("in[0]", 0)}, {V: cpUnk{ID: "rest0"}}, {V: cpUnk{ID: "rest1"}}}
					rd := cpPtrTo(cpStructOf(types.Type(rbN), map[string]cpVal{bufField: cpSlice{T: sliceT, Elems: cells}, curField: cpInt{0}}), types.Type(rbN))
					recvT := ct.T
					recv := cpStructUnknownExcept(recvT, map[string]cpVal{nn: cpInt{nonNull}, sub: cpUnk{ID: "subcodec"}})
					var recvV cpVal = recv
					if ct.Ptr {
						recvV = cpPtrTo(recv, recvT)
					}
					args := []cpVal{recvV, rd}
					if m == "Read" {
						args = append(args, cpUnk{ID: "arg:p"})
					}
					var res []cpVal
					func() {
						defer func() {
							if x := recover(); x != nil {
								if a, ok := x.(cpAbort); ok {
									failed = a.why
									return
								}
								panic(x)
							}
						}()
						res = e.call(fn, args, 0)
					}()
					if failed != "" || len(res) != 1 {
						break
					}
					set, ok := e.bytes["in[0]"]
					if !ok {
						set = cpAllBytes()
					}
					nSub := 0
					for _, cl := range e.calls {
						if (cl.Callee == "invoke:"+m || strings.HasSuffix(cl.Callee, ")."+m)) && len(cl.Args) >= 1 {
							if u, isU := cl.Args[0].(cpUnk); isU && u.ID == "subcodec" {
								nSub++
							} else if iv, isI := cl.Args[0].(cpIface); isI {
								if u, isU := iv.V.(cpUnk); isU && u.ID == "subcodec" {
									nSub++
								}
							}
						}
					}
					cur, _ := cpFieldByName(rd.C.V, curField)
					ci, _ := cur.(cpInt)
					_, okRes := res[0].(cpNil)
					if set.has(valueByte) {
						sawValue = true
						if nSub != 1 {
							probs = append(probs, fmt.Sprintf("with the value branch at index %d, the selector byte %d runs the branch codec's %s %d times", nonNull, valueByte, m, nSub))
						}
					}
					if set.has(nullByte) {
						sawNull = true
						if nSub != 0 {
							probs = append(probs, fmt.Sprintf("with the value branch at index %d, the selector byte %d (the null branch) runs the branch codec", nonNull, nullByte))
						}
						if !okRes {
							probs = append(probs, fmt.Sprintf("with the value branch at index %d, the null selector %d is refused", nonNull, nullByte))
						} else if ci.V != 1 {
							probs = append(probs, fmt.Sprintf("the null branch consumes %d bytes, not the selector alone", ci.V))
						}
					}
				}
				if failed == "" && (!sawValue || !sawNull) {
					probs = append(probs, fmt.Sprintf("with the value branch at index %d the fold did not reach both selectors", nonNull))
				}
			}
			if failed != "" {
				c.Unk(key, pos, "the fold failed: "+failed)
				continue
			}
			c.Check(len(probs) == 0, key, pos, "folded for nonNull 0 and 1 on a buffer whose selector byte is a named unknown: the branch codec runs once exactly for the byte 2*nonNull, the byte of the other index succeeds consuming one byte and running nothing", strings.Join(dedup(probs), "; "))
		}
	}
}

// ---------- JS-PURE

// ruleJSPure: parsing and serialising a schema are functions of their argument alone. Nothing reachable in
// the module from the parse entry points or the marshal/unmarshal pair uses package-level state other than
// tables fixed at initialisation: a cache of parsed schemas, say, makes what a parse returns depend on what
// was parsed (and edited) before.
func ruleJSPure(c *Ctx) {
	c.Rule("JS-PURE", "schema parsing and serialising use no package-level state besides tables fixed at initialisation: what a document parses to does not depend on earlier parses", 3)
	P := c.P
	schemaT := P.NamedType(P.Avro, "Schema")
	var roots []*ssa.Function
	for _, name := range []string{"UnmarshalJSONFrom", "UnmarshalJSON", "MarshalJSONTo", "MarshalJSON"} {
		if fn := P.Method(schemaT, name); fn != nil && fn.Blocks != nil {
			roots = append(roots, fn)
		}
	}
	if fn := P.Func(P.Avro, "SchemaFromString"); fn != nil {
		roots = append(roots, fn)
	}
	if fh := P.NamedType(P.Avro, "FileHeader"); fh != nil {
		if fn := P.Method(fh, "schema"); fn != nil {
			roots = append(roots, fn)
		}
	}
	if !c.Anchor(len(roots) >= 3, "Schema.UnmarshalJSONFrom, Schema.MarshalJSONTo, SchemaFromString") {
		return
	}
	for _, root := range roots {
		key := fnKey(root) + "/parse-pure"
		n, bad := pureScan(P, root, 6)
		c.Check(bad == "", key, P.pos(root.Pos()), fmt.Sprintf("%d module function(s) reachable: no package-level state besides initialisation-time tables", n), bad+": what this returns depends on what earlier calls left there")
	}
}

// pureScan walks what root reaches in the module through static calls and closures (to the given depth) and
// reports the first use of package-level state that is neither an initialisation-time table nor a locked cache.
func pureScan(P *Program, root *ssa.Function, depth int) (n int, bad string) {
	seenF := map[*ssa.Function]bool{}
	var scan func(f *ssa.Function, d int)
	scan = func(f *ssa.Function, d int) {
		if f == nil || seenF[f] || f.Blocks == nil || d > depth {
			return
		}
		seenF[f] = true
		n++
		for _, blk := range f.Blocks {
			for _, in := range blk.Instrs {
				if g := mutableStateOperand(P, in); g != nil && bad == "" {
					bad = fmt.Sprintf("%s uses the package-level %s at %s", fnKey(f), globalKey(g), P.pos(in.Pos()))
				}
			}
		}
		for _, cs := range callsIn(f) {
			if cs.Static != nil && P.isModuleFunc(cs.Static) {
				scan(cs.Static, d+1)
			}
		}
		for _, an := range f.AnonFuncs {
			scan(an, d+1)
		}
	}
	scan(root, 0)
	return n, bad
}

// ---------- ENC-PURE

// ruleEncPure: the block a writer emits is made of this writer's state alone. Encode, Flush, WriteBlock,
// WriteHeader and every implementation of the compression interface reach no package-level state other than
// initialisation-time tables: a compressor borrowed from a shared pool hands back a view of buffers that
// another writer may fill before this block's payload is written.
func ruleEncPure(c *Ctx) {
	c.Rule("ENC-PURE", "the encoder, the file writer and the compressors use no package-level state besides tables fixed at initialisation: a block's bytes come from this writer's own buffers", 5)
	P := c.P
	var roots []*ssa.Function
	if t := P.NamedType(P.Avro, "Encoder"); t != nil {
		for _, m := range []string{"Encode", "Flush"} {
			if fn := P.Method(t, m); fn != nil {
				roots = append(roots, fn)
			}
		}
	}
	if t := P.NamedType(P.Avro, "FileWriter"); t != nil {
		for _, m := range []string{"WriteBlock", "WriteHeader", "AppendHeader"} {
			if fn := P.Method(t, m); fn != nil {
				roots = append(roots, fn)
			}
		}
	}
	s := findReadFile(P)
	if s.compIface != nil {
		for _, impl := range implementations(P, s.compIface) {
			for _, m := range []string{"compress", "decompress"} {
				if fn := P.Method(impl, m); fn != nil && fn.Blocks != nil {
					roots = append(roots, fn)
				}
			}
		}
	}
	if !c.Anchor(len(roots) >= 5, "Encoder.Encode/Flush, FileWriter.WriteBlock, the compressors") {
		return
	}
	for _, root := range roots {
		n, bad := pureScan(P, root, 6)
		c.Check(bad == "", fnKey(root)+"/writer-pure", P.pos(root.Pos()), fmt.Sprintf("%d module function(s) reachable: no package-level state besides initialisation-time tables", n), bad+": the bytes of this block can come from, or be overwritten by, another writer")
	}
}

// ---------- SG-REPEAT

// ruleSGRepeat: schema generation folded (E-CP, registries taken as empty) for a struct that uses one named
// struct type twice and two different unnamed struct types, one of them twice:
//
//	struct{ A Inner; B Inner; C struct{X int64; Y string}; D struct{X int64}; E struct{X int64; Y string} }
//
// Every one of the five fields must come out as a record that lists the fields of that field's own struct
// type. The codec for a field is built from the schema found at that field, so a second occurrence that is
// abbreviated, or resolved to another type's definition, gives a codec that does not write (or read) the
// type's own fields.
func ruleSGRepeat(c *Ctx) {
	c.Rule("SG-REPEAT", "every occurrence of a struct type in a generated schema carries the record of that struct's own fields, however often the type (or another unnamed one) occurs", 1)
	P := c.P
	root := schemaRootFn(P)
	if !c.Anchor(root != nil, "schemaForType") {
		return
	}
	key := fnKey(root) + "/repeated-struct-types"
	i64 := cpRTypeOfKind(reflect.Int64, false)
	str := cpRTypeOfKind(reflect.String, false)
	inner := &cpRType{ID: "fx.Inner", Kind: int64(reflect.Struct), Name: "Inner", PkgPath: "example.com/fx-pkg", Size: 8,
		Fields: []cpRField{{Name: "P", Type: i64}}}
	anon1 := &cpRType{ID: "struct{X int64; Y string}", Kind: int64(reflect.Struct), Size: 24,
		Fields: []cpRField{{Name: "X", Type: i64}, {Name: "Y", Type: str, Offset: 8}}}
	anon2 := &cpRType{ID: "struct{X int64}", Kind: int64(reflect.Struct), Size: 8,
		Fields: []cpRField{{Name: "X", Type: i64}}}
	rt := cpRTypeOfKind(reflect.Struct, false)
	rt.Fields = []cpRField{
		{Name: "A", Type: inner},
		{Name: "B", Type: inner, Offset: 8},
		{Name: "C", Type: anon1, Offset: 16},
		{Name: "D", Type: anon2, Offset: 40},
		{Name: "E", Type: anon1, Offset: 48},
	}
	rt.Size = 72
	want := [][]string{{"P"}, {"P"}, {"X", "Y"}, {"X"}, {"X", "Y"}}
	cpLookupMiss = true
	cpMaxOutcomes = 256
	outs, _, ok, why := cpFoldOpt(P, root, []cpVal{rt}, nil)
	cpMaxOutcomes = 96
	cpLookupMiss = false
	if !ok {
		c.Unk(key, P.pos(root.Pos()), "schema generation could not be folded for the test struct: "+why)
		return
	}
	n := 0
	var bad []string
	for _, o := range outs {
		if o.Panics {
			bad = append(bad, "schema generation panics for the test struct")
			continue
		}
		if len(o.Results) != 2 {
			continue
		}
		if _, errNil := o.Results[1].(cpNil); !errNil {
			bad = append(bad, "schema generation fails for a struct that is not recursive")
			continue
		}
		n++
		fields, okF := recordFieldsOf(o.Results[0])
		if !okF || len(fields) != len(want) {
			bad = append(bad, fmt.Sprintf("the record generated for the test struct has %d field(s), want %d", len(fields), len(want)))
			continue
		}
		for i, f := range fields {
			tt, _ := cpFieldByName(f.typ, "Type")
			ts, _ := tt.(cpStr)
			sub, okS := recordFieldsOf(f.typ)
			if ts.V != "record" || !okS {
				bad = append(bad, fmt.Sprintf("field %s (occurrence %d of a struct type) is generated as %s, not as the record of its fields", rt.Fields[i].Name, i+1, fmt.Sprintf("%v", tt)))
				continue
			}
			var names []string
			for _, sf := range sub {
				names = append(names, sf.name)
			}
			if strings.Join(names, ",") != strings.Join(want[i], ",") {
				bad = append(bad, fmt.Sprintf("field %s of type %s is given a record with fields [%s], its own are [%s]", rt.Fields[i].Name, rt.Fields[i].Type.ID, strings.Join(names, ","), strings.Join(want[i], ",")))
			}
		}
	}
	if n == 0 && len(bad) == 0 {
		c.Unk(key, P.pos(root.Pos()), "no successful outcome of the fold")
		return
	}
	c.Check(len(bad) == 0, key, P.pos(root.Pos()), "generation folded for struct{A Inner; B Inner; C struct{X;Y}; D struct{X}; E struct{X;Y}}: five records, each with its own type's fields", strings.Join(dedup(bad), "; "))
}

type sgRecField struct {
	name string
	typ  cpVal
}

// recordFieldsOf: the (name, type) list of a folded record Schema value.
func recordFieldsOf(sv cpVal) ([]sgRecField, bool) {
	ov, _ := cpFieldByName(sv, "Object")
	op, isP := ov.(cpPtr)
	if !isP || op.C == nil {
		return nil, false
	}
	fv, _ := cpFieldByName(op.C.V, "Fields")
	sl, isSl := fv.(cpSlice)
	if !isSl {
		return nil, false
	}
	var out []sgRecField
	for _, cell := range sl.Elems {
		nv, _ := cpFieldByName(cell.V, "Name")
		tv, _ := cpFieldByName(cell.V, "Type")
		ns, ok := nv.(cpStr)
		if !ok {
			return nil, false
		}
		out = append(out, sgRecField{ns.V, tv})
	}
	return out, true
}
