package main

// Rules added with seed round 12.

import (
	"fmt"
	"go/token"
	"go/types"
	"os"
	"reflect"
	"sort"
	"strings"

	"golang.org/x/tools/go/ssa"
)

// ---------- NIL-NEW

// ruleNilNew: a codec's New may hand back nil — the null codec has nothing to allocate, and a union of nothing
// but nulls forwards that. Whoever passes the result of New on to something that reads through it (the
// run-time's map assignment, a typed move or clear — the module's body-less functions — or a load or store of
// its own) has to have found it non-nil first. Handing it to the same codec's Read is fine: the codecs that
// return nil from New do not touch the pointer.
func ruleNilNew(c *Ctx) {
	c.Rule("NIL-NEW", "the result of a codec's New is read through (run-time map assignment, typed move or clear, a load or store) only where it was found non-nil: the null codec's New returns nil", 3)
	P := c.P
	// which New methods can return nil
	bt := getBT(P)
	var nilNews []string
	for _, ct := range bt.Codecs {
		fn := ct.M["New"]
		if fn == nil || fn.Blocks == nil || !ct.Declared["New"] {
			continue
		}
		for _, r := range returnsOf(fn) {
			if len(r.Results) == 1 && isNilOrNilPointer(r.Results[0]) {
				nilNews = append(nilNews, ct.Name)
				break
			}
		}
	}
	c.Check(len(nilNews) > 0, "module/new-may-be-nil", "-", fmt.Sprintf("New returns nil in: %s", strings.Join(nilNews, ", ")), "no codec's New returns nil any more: the rule's premise has gone")
	n := 0
	for _, fn := range P.ModuleFuncs() {
		for _, cs := range callsIn(fn) {
			if cs.Iface == nil || cs.Iface.Name() != "New" || cs.Value() == nil || !isCodecIface(P, cs.Common.Value.Type()) {
				continue
			}
			n++
			key := fmt.Sprintf("%s/new-result#%d", fnKey(fn), n)
			res := cs.Value()
			why := ""
			seen := map[ssa.Value]bool{}
			// guarded: at block b the value v is known to be non-nil, v being the New result itself
			var follow func(v ssa.Value, from *ssa.BasicBlock)
			follow = func(v ssa.Value, from *ssa.BasicBlock) {
				if seen[v] || why != "" {
					return
				}
				seen[v] = true
				for _, r := range referrersOf(v) {
					in, _ := r.(ssa.Instruction)
					blk := in.Block()
					nonNil := false
					if nn, _ := nonNilPtrAt(blk, res); nn {
						nonNil = true
					}
					switch x := r.(type) {
					case *ssa.DebugRef, *ssa.Return, *ssa.BinOp, *ssa.If:
					case *ssa.Phi:
						// the edge this value comes in on: is the value known non-nil at the end of that predecessor?
						okEdge := true
						for i, e := range x.Edges {
							if e != v {
								continue
							}
							if nn, _ := nonNilPtrAt(x.Block().Preds[i], res); !nn && !edgeNonNil(x.Block().Preds[i], x.Block(), res) {
								okEdge = false
							}
						}
						if !okEdge {
							follow(x, blk)
						}
					case *ssa.ChangeType:
						follow(x, blk)
					case *ssa.Convert:
						follow(x, blk)
					case *ssa.Store:
						if x.Addr == v && !nonNil {
							why = "a store through it at " + P.pos(x.Pos())
						}
					case *ssa.UnOp:
						if !nonNil {
							why = "a load through it at " + P.pos(x.Pos())
						}
					case *ssa.FieldAddr, *ssa.IndexAddr:
						if !nonNil {
							why = "a field or element of what it points to is addressed at " + P.pos(in.Pos())
						}
					case ssa.CallInstruction:
						cc := x.Common()
						if cc.IsInvoke() {
							continue // handed to a codec method: the codecs whose New returns nil do not touch the pointer
						}
						g := cc.StaticCallee()
						if g != nil && P.isModuleFunc(g) && g.Blocks == nil && !nonNil {
							why = fmt.Sprintf("it is handed to %s at %s", g.Name(), P.pos(x.Pos()))
						}
					}
				}
			}
			follow(res, cs.Block)
			c.Check(why == "", key, P.pos(cs.Instr.Pos()), "the result is stored, tested, or handed to codec methods; nothing reads through it without a nil test", "the result of New can be nil (the null codec, a union of nulls) and "+why+" without a nil test: a nil-pointer fault for such a schema")
		}
	}
}

// isNilOrNilPointer: the nil constant of any type, unsafe.Pointer included (which is a basic type to go/types)
func isNilOrNilPointer(v ssa.Value) bool {
	c, ok := v.(*ssa.Const)
	if !ok || c.Value != nil {
		return false
	}
	if b, isB := c.Type().Underlying().(*types.Basic); isB {
		return b.Kind() == types.UnsafePointer || b.Kind() == types.UntypedNil
	}
	return true
}

// nonNilPtrAt: at block b the value was compared with nil and found different (second result: found equal)
func nonNilPtrAt(b *ssa.BasicBlock, e ssa.Value) (nonNil, isNil bool) {
	for _, c := range cmpFactsAt(b) {
		var other ssa.Value
		switch {
		case c.X == e:
			other = c.Y
		case c.Y == e:
			other = c.X
		default:
			continue
		}
		if !isNilOrNilPointer(other) {
			continue
		}
		if c.Op == token.NEQ {
			nonNil = true
		}
		if c.Op == token.EQL {
			isNil = true
		}
	}
	return
}

// edgeNonNil: the edge pred -> succ is the "differs from nil" outcome of a test of e that ends pred
func edgeNonNil(pred, succ *ssa.BasicBlock, e ssa.Value) bool {
	if len(pred.Instrs) == 0 || len(pred.Succs) != 2 {
		return false
	}
	iff, ok := pred.Instrs[len(pred.Instrs)-1].(*ssa.If)
	if !ok {
		return false
	}
	cmp, ok := iff.Cond.(*ssa.BinOp)
	if !ok {
		return false
	}
	var other ssa.Value
	switch {
	case cmp.X == e:
		other = cmp.Y
	case cmp.Y == e:
		other = cmp.X
	default:
		return false
	}
	if !isNilOrNilPointer(other) {
		return false
	}
	switch cmp.Op {
	case token.EQL:
		return pred.Succs[1] == succ && pred.Succs[0] != succ
	case token.NEQ:
		return pred.Succs[0] == succ && pred.Succs[1] != succ
	}
	return false
}

// ---------- CP-NODICT

// ruleCPNoDict: a block is inflated from its own bytes alone. The inflater is re-armed for each block through
// flate.Resetter.Reset(r, dict); a non-nil dict gives the stream a preset history, so a damaged block whose
// back-references reach before its start is resolved against it instead of being refused. No reader or writer
// with a preset dictionary is constructed either.
func ruleCPNoDict(c *Ctx) {
	c.Rule("CP-NODICT", "the deflate decompressor is reset with no preset dictionary, and nothing constructs a flate reader or writer with one: a block is inflated from its own bytes alone", 1)
	P := c.P
	n := 0
	for _, fn := range P.ModuleFuncs() {
		for _, cs := range callsIn(fn) {
			cc := cs.Common
			if cc.IsInvoke() && cc.Method.Name() == "Reset" && cc.Method.Pkg() != nil && cc.Method.Pkg().Path() == "compress/flate" && len(cc.Args) == 2 {
				n++
				key := fmt.Sprintf("%s/flate-reset#%d", fnKey(fn), n)
				c.Check(isNilOrNilPointer(cc.Args[1]) || isNilConst(cc.Args[1]), key, P.pos(cs.Instr.Pos()), "Reset(r, nil): no preset dictionary", "the inflater is reset with a preset dictionary ("+cc.Args[1].String()+"): data outside the block becomes valid history for its back-references, so a damaged block can inflate without error")
			}
			if cs.Static != nil {
				switch qualName(cs.Static) {
				case "compress/flate.NewReaderDict", "compress/flate.NewWriterDict", "compress/zlib.NewReaderDict", "compress/zlib.NewWriterLevelDict":
					n++
					c.Bad(fmt.Sprintf("%s/flate-dict#%d", fnKey(fn), n), P.pos(cs.Instr.Pos()), "a flate stream is set up with a preset dictionary: the blocks written or read are no longer self-contained deflate streams")
				}
			}
		}
	}
}

// ---------- REG-ARG

// ruleRegArg: a registered builder is handed the schema, the type and the omit flag that the codec dispatcher
// itself was called with — not a normalised or rewritten copy. A builder that tells "int" from "long" (the date
// codec) must see the type name as the schema has it.
func ruleRegArg(c *Ctx) {
	c.Rule("REG-ARG", "a builder looked up in the registry is called with the dispatcher's own schema, type and omit parameters, unmodified", 1)
	P := c.P
	// resolves v to a parameter of fn: directly, or as a load of a local that only ever holds that parameter
	paramOf := func(fn *ssa.Function, v ssa.Value) *ssa.Parameter {
		v = stripChange(v)
		if p, ok := v.(*ssa.Parameter); ok {
			return p
		}
		u, ok := v.(*ssa.UnOp)
		if !ok || u.Op != token.MUL {
			return nil
		}
		a, ok := u.X.(*ssa.Alloc)
		if !ok {
			return nil
		}
		var only *ssa.Parameter
		for _, r := range referrersOf(a) {
			switch x := r.(type) {
			case *ssa.Store:
				if x.Addr != ssa.Value(a) {
					return nil
				}
				p, isP := x.Val.(*ssa.Parameter)
				if !isP || only != nil && only != p {
					return nil
				}
				only = p
			case *ssa.UnOp, *ssa.DebugRef:
			case *ssa.FieldAddr:
				// a field of the local: it may be read, not written
				for _, r2 := range referrersOf(x) {
					if st, isSt := r2.(*ssa.Store); isSt && st.Addr == ssa.Value(x) {
						return nil
					}
				}
			default:
				return nil
			}
		}
		return only
	}
	// the element types of the package-level maps of functions (the registries)
	var elems []types.Type
	elemOf := map[string]string{}
	for _, re := range registryElemTypes(P) {
		elems = append(elems, re.elem)
		elemOf[typeKey(re.elem)] = re.name
	}
	n := 0
	for _, fn := range P.ModuleFuncs() {
		for _, cs := range callsIn(fn) {
			if cs.Static != nil || cs.Iface != nil || cs.Value() == nil {
				continue
			}
			// a call of a function value of a registry's element type: a builder that was looked up there, in
			// this function or in a helper that hands it back
			var g *ssa.Global
			gname := ""
			for _, et := range elems {
				if types.Identical(cs.Common.Value.Type(), et) {
					gname = elemOf[typeKey(et)]
				}
			}
			if gname == "" {
				continue
			}
			_ = g
			n++
			key := fmt.Sprintf("%s/registered-builder-args#%d", fnKey(fn), n)
			var bad []string
			for i, a := range cs.Common.Args {
				p := paramOf(fn, a)
				if p == nil {
					bad = append(bad, fmt.Sprintf("argument %d (%s) is not the dispatcher's own parameter as it was received", i+1, a.Name()))
					continue
				}
				if !types.Identical(p.Type(), a.Type()) {
					bad = append(bad, fmt.Sprintf("argument %d is parameter %s of another type", i+1, p.Name()))
				}
			}
			c.Check(len(bad) == 0, key, P.pos(cs.Instr.Pos()), fmt.Sprintf("the builder from %s is called with the function's own parameters, unmodified", gname), strings.Join(bad, "; ")+": a registered builder sees something other than the schema and type the caller supplied")
		}
	}
}

func isSignature(t types.Type) bool {
	_, ok := t.Underlying().(*types.Signature)
	return ok
}

// ---------- ER-USE

// ruleERUse: what a module function hands back next to an error is a failure value when the error is not nil
// (a nil slice from ReadBuf.Next, say). It may be returned, measured or copied from — copy and len accept
// nil — but anything that reads through it (an index, a re-slice with bounds, a standard-library decoder such
// as binary.LittleEndian.Uint32, which indexes b[3]) must come after the error was found nil.
func ruleERUse(c *Ctx) {
	c.Rule("ER-USE", "a slice or string returned next to an error is indexed, re-sliced or handed to other code only where that error was found nil", 5)
	P := c.P
	n := 0
	for _, fn := range P.ModuleFuncs() {
		for _, cs := range callsIn(fn) {
			g := cs.Static
			call := cs.Value()
			if g == nil || call == nil || !P.isModuleFunc(g) {
				continue
			}
			res := g.Signature.Results()
			if res.Len() != 2 || !isErrorType(res.At(1).Type()) {
				continue
			}
			switch res.At(0).Type().Underlying().(type) {
			case *types.Slice:
			case *types.Basic:
				if !isBasicKind(res.At(0).Type(), types.String) {
					continue
				}
			default:
				continue
			}
			val, errv := extractOf(call, 0), extractOf(call, 1)
			if val == nil {
				continue
			}
			n++
			key := fmt.Sprintf("%s/result-of-%s#%d", fnKey(fn), g.Name(), n)
			why := ""
			seen := map[ssa.Value]bool{}
			var follow func(v ssa.Value)
			follow = func(v ssa.Value) {
				if seen[v] || why != "" {
					return
				}
				seen[v] = true
				for _, r := range referrersOf(v) {
					in := r.(ssa.Instruction)
					okHere := false
					if errv != nil {
						if _, isNil := knownNonNil(in.Block(), errv); isNil {
							okHere = true
						}
					}
					switch x := r.(type) {
					case *ssa.DebugRef, *ssa.Return, *ssa.Store:
					case *ssa.Phi:
						// the value merges into a variable: where it arrives from a point at which the error was
						// already found nil it is a good value from then on
						unchecked := false
						for i, ed := range x.Edges {
							if ed != v {
								continue
							}
							isNil := false
							if errv != nil {
								_, isNil = knownNonNil(x.Block().Preds[i], errv)
							}
							if !isNil {
								unchecked = true
							}
						}
						if unchecked {
							follow(x)
						}
					case *ssa.ChangeType:
						follow(x)
					case *ssa.MakeInterface:
						// handed to error formatting and the like as a value
					case *ssa.Call:
						if bi, isB := x.Call.Value.(*ssa.Builtin); isB {
							switch bi.Name() {
							case "len", "cap", "copy", "append":
								continue
							}
						}
						if !okHere {
							why = fmt.Sprintf("it is handed to %s at %s", calleeName(x), P.pos(x.Pos()))
						}
					case *ssa.Slice:
						if (x.Low != nil || x.High != nil) && !okHere {
							why = "it is re-sliced at " + P.pos(x.Pos())
						} else {
							follow(x)
						}
					default:
						if !okHere {
							why = fmt.Sprintf("it is used by %s at %s", r.String(), P.pos(in.Pos()))
						}
					}
				}
			}
			follow(val)
			c.Check(why == "", key, P.pos(call.Pos()), "returned, measured or copied from, and otherwise used only after the error was found nil", "before the error of "+g.Name()+" was found nil "+why+": with the failure value (nil, empty) that reads out of range")
		}
	}
}

func calleeName(call *ssa.Call) string {
	if g := call.Call.StaticCallee(); g != nil {
		return qualNameShort(g)
	}
	if call.Call.IsInvoke() {
		return "method " + call.Call.Method.Name()
	}
	return "a function value"
}

// ---------- TS-STR

// ruleTSStr: the time codec for string schemas writes, on every path, the RFC 3339 text of the value with
// nanosecond precision — nothing else, and never nothing. Write is folded (E-CP) with the time unknown; the
// avro package's functions are opaque. Each outcome must format the value once with the layout
// time.RFC3339Nano and hand exactly that text to the string writer.
func ruleTSStr(c *Ctx) {
	c.Rule("TS-STR", "the string time codec writes the RFC3339Nano text of the value on every path: no value is written as anything else, or as nothing", 1)
	P := c.P
	var wr *ssa.Function
	if t := P.NamedType(P.Time, "StringCodec"); t != nil {
		wr = P.Method(t, "Write")
	}
	if !c.Anchor(wr != nil && wr.Blocks != nil && len(wr.Params) == 3, "time.StringCodec.Write") {
		return
	}
	key := fnKey(wr) + "/formats-rfc3339nano"
	timeT := wr.Params[2].Type()
	_ = timeT
	var tt types.Type
	if tn := P.Time.Pkg.Imports(); tn != nil {
		for _, imp := range tn {
			if imp.Path() == "time" {
				if o := imp.Scope().Lookup("Time"); o != nil {
					tt = o.Type()
				}
			}
		}
	}
	if tt == nil {
		c.Unk(key, P.pos(wr.Pos()), "the standard library's time.Time was not found among the package's imports")
		return
	}
	opaque := func(g *ssa.Function) bool { return g.Pkg == P.Avro }
	recv := cpStructUnknownExcept(wr.Params[0].Type(), nil)
	args := []cpVal{recv, cpUnk{ID: "arg:w"}, cpPtrTo(cpUnk{ID: "arg:t"}, tt)}
	outs, _, ok, why := cpFoldOpt(P, wr, args, opaque)
	if !ok {
		c.Unk(key, P.pos(wr.Pos()), "Write could not be folded: "+why)
		return
	}
	const layout = "2006-01-02T15:04:05.999999999Z07:00"
	var bad []string
	n := 0
	for _, o := range outs {
		if o.Panics {
			bad = append(bad, "a path of Write panics")
			continue
		}
		n++
		var fm *cpCall
		nfm := 0
		var writes []*cpCall
		for i := range o.Calls {
			cl := &o.Calls[i]
			switch cl.Callee {
			case "(time.Time).Format", "(time.Time).AppendFormat":
				fm = cl
				nfm++
			default:
				if g := rfCallee(cl); g != nil && g.Pkg == P.Avro {
					writes = append(writes, cl)
				}
			}
		}
		switch {
		case nfm == 0:
			bad = append(bad, fmt.Sprintf("on a path of Write (decisions %v) the value is not formatted at all: %d call(s) into the write buffer without the timestamp text", decisionList(o.Decided), len(writes)))
			continue
		case nfm > 1:
			bad = append(bad, "a path of Write formats the value more than once")
			continue
		}
		lay, _ := fm.Args[len(fm.Args)-1].(cpStr)
		if lay.V != layout {
			bad = append(bad, fmt.Sprintf("the value is formatted with layout %q, not time.RFC3339Nano", lay.V))
		}
		if rfIdent(fm.Args[0]) != "arg:t" {
			bad = append(bad, "what is formatted is not the value at the pointer handed to Write")
		}
		// the text reaches the string writer: some call into the avro package gets it, directly or behind a pointer
		text := rfIdent(fm.Result)
		got := false
		for _, w := range writes {
			for i, a := range w.Args {
				if rfIdent(a) == text {
					got = true
				}
				if i < len(w.Deref) && w.Deref[i] != nil && rfIdent(w.Deref[i]) == text {
					got = true
				}
			}
		}
		if !got || text == "" {
			bad = append(bad, "the formatted text is not what is handed to the string writer")
		}
		if len(writes) != 1 {
			bad = append(bad, fmt.Sprintf("%d calls into the write buffer on one path, one is expected (the string writer)", len(writes)))
		}
	}
	if n == 0 {
		bad = append(bad, "no path of Write returns")
	}
	c.Check(len(bad) == 0, key, P.pos(wr.Pos()), fmt.Sprintf("%d path(s): each formats the value at p once with time.RFC3339Nano and hands that text, and nothing else, to the string writer", n), strings.Join(dedup(bad), "; "))
}

func decisionList(d map[string]bool) []string {
	var out []string
	for k, v := range d {
		out = append(out, fmt.Sprintf("%s=%v", k, v))
	}
	sort.Strings(out)
	return out
}

// ---------- folding small methods for PANIC-REACH and the New contract

type smallFold struct {
	ok      bool
	outs    []cpOutcome
	panicAt map[ssa.Instruction]bool
}

var smallFoldCache = map[*ssa.Function]*smallFold{}

// foldSmall folds a method with its receiver's fields and its arguments unknown (E-CP), the read buffer's
// methods opaque, and records which panic instructions some path reaches.
func foldSmall(P *Program, fn *ssa.Function) *smallFold {
	if r, ok := smallFoldCache[fn]; ok {
		return r
	}
	r := &smallFold{panicAt: map[ssa.Instruction]bool{}}
	smallFoldCache[fn] = r
	if fn == nil || fn.Blocks == nil || len(fn.Blocks) > 40 {
		return r
	}
	args := make([]cpVal, len(fn.Params))
	for i, p := range fn.Params {
		args[i] = cpUnk{ID: "arg:" + p.Name()}
		if i == 0 && fn.Signature.Recv() != nil {
			if el := derefType(p.Type()); el != p.Type() {
				if _, isS := el.Underlying().(*types.Struct); isS {
					args[i] = cpPtrTo(cpStructUnknownExcept(el, nil), el)
				}
			} else if _, isS := p.Type().Underlying().(*types.Struct); isS {
				args[i] = cpStructUnknownExcept(p.Type(), nil)
			}
		}
	}
	opaque := func(g *ssa.Function) bool {
		if rv := g.Signature.Recv(); rv != nil {
			switch typeKey(derefType(rv.Type())) {
			case "avro.ReadBuf", "avro.ResourceBank", "avro.WriteBuf":
				return true
			}
		}
		return false
	}
	save := cpPanicAt
	cpPanicAt = r.panicAt
	outs, _, ok, whyF := cpFoldOpt(P, fn, args, opaque)
	cpPanicAt = save
	if os.Getenv("AVROCHECK_SMALLFOLD") != "" {
		fmt.Fprintf(os.Stderr, "foldSmall %s ok=%v why=%s outs=%d panics=%d\n", fnKey(fn), ok, whyF, len(outs), len(r.panicAt))
		for _, o := range outs {
			fmt.Fprintf(os.Stderr, "   outcome panics=%v decided=%v calls=%d\n", o.Panics, o.Decided, len(o.Calls))
			for _, cl := range o.Calls {
				fmt.Fprintf(os.Stderr, "      %s %.100v\n", cl.Callee, cl.Args)
			}
		}
	}
	r.ok, r.outs = ok, outs
	return r
}

// ---------- JS-HOIST by fold

// jsHoistByFold decides JS-HOIST by folding Schema.UnmarshalJSONFrom (E-CP) with the decoder unknown and the
// receiver a schema whose fields are unknown: the kind peeked forks four ways (string, array, object, anything
// else) and what each outcome leaves in the schema is read off the receiver afterwards — wherever the three
// forms are handled (the method itself, or helpers it calls).
func jsHoistByFold(c *Ctx, ufn *ssa.Function) bool {
	P := c.P
	if ufn == nil || ufn.Blocks == nil || len(ufn.Params) != 2 {
		return false
	}
	schemaT := derefType(ufn.Params[0].Type())
	e := &cpEngine{P: P, MaxOut: 100, MaxSteps: 20000, MaxForks: 24, MaxDepth: 6, visited: map[*ssa.Function]bool{}, trackAtoms: true, foldAll: true, forkLookups: true}
	e.globals = cpInitGlobals(P)
	e.pending = [][]bool{nil}
	type form struct {
		seen bool
		why  string
	}
	forms := map[string]*form{"string": {}, "array": {}, "object": {}, "other": {}}
	kindName := map[int64]string{34: "string", 91: "array", 123: "object"}
	for len(e.pending) > 0 {
		d := e.pending[len(e.pending)-1]
		e.pending = e.pending[:len(e.pending)-1]
		e.decisions, e.taken, e.steps, e.calls, e.uid, e.decided = d, nil, 0, nil, 0, map[string]bool{}
		e.bytes, e.constraints, e.onceDone, e.varintBufs = nil, nil, nil, nil
		e.atoms, e.atomInfo, e.bufInfo = nil, nil, nil
		recv := cpPtrTo(cpStructUnknownExcept(schemaT, nil), schemaT)
		var res []cpVal
		why := ""
		func() {
			defer func() {
				if x := recover(); x != nil {
					if a, ok := x.(cpAbort); ok {
						why = a.why
						return
					}
					panic(x)
				}
			}()
			res = e.call(ufn, []cpVal{recv, cpUnk{ID: "arg:dec"}}, 0)
		}()
		if why == "panic-instr" {
			continue
		}
		if why != "" || len(res) != 1 {
			return false
		}
		// which kind the path took the next token to be: the PeekKind result compared with '"', '[' or '{'
		peek := ""
		for i := range e.calls {
			if strings.HasSuffix(e.calls[i].Callee, "jsontext.Decoder).PeekKind") {
				peek = rfIdent(e.calls[i].Result)
			}
		}
		fk := "other"
		for _, a := range e.atoms {
			if !a.Known || peek == "" {
				continue
			}
			eq := a.Op == token.EQL && a.Truth || a.Op == token.NEQ && !a.Truth
			if !eq {
				continue
			}
			var k cpInt
			var isK bool
			switch {
			case rfIdent(a.X) == peek:
				k, isK = a.Y.(cpInt)
			case rfIdent(a.Y) == peek:
				k, isK = a.X.(cpInt)
			}
			if isK {
				if n, has := kindName[k.V]; has {
					fk = n
				}
			}
		}
		f := forms[fk]
		if _, errNil := res[0].(cpNil); !errNil {
			// an error value: a made-up one (fmt.Errorf) or one found non-nil on the path is a refusal; the result of
			// a call handed back untested may be nil, so it counts as a way of accepting
			u, isU := res[0].(cpUnk)
			if !isU {
				continue
			}
			if t, tested := e.decided["cmp:"+u.ID+"==nil"]; tested && !t {
				continue
			}
		}
		if f.seen && f.why != "" {
			continue
		}
		f.seen = true
		sv := recv.C.V
		typeV, _ := cpFieldByName(sv, "Type")
		var decoded []*cpCall
		for i := range e.calls {
			if strings.HasSuffix(e.calls[i].Callee, "json.UnmarshalDecode") {
				decoded = append(decoded, &e.calls[i])
			}
		}
		switch fk {
		case "string":
			okS := false
			for i := range e.calls {
				if strings.HasSuffix(e.calls[i].Callee, "jsontext.Token).String") && rfIdent(e.calls[i].Result) != "" && rfIdent(e.calls[i].Result) == rfIdent(typeV) {
					okS = true
				}
			}
			if !okS {
				f.why = "for a JSON string the schema's Type is not set from the token's string"
			}
		case "array":
			ts, _ := typeV.(cpStr)
			okD := false
			if len(decoded) == 1 && len(decoded[0].Args) >= 2 {
				if p, isP := stripIfaceVal(decoded[0].Args[1]).(cpPtr); isP && p.C != nil {
					if st, isS := sv.(cpStruct); isS {
						if stt, ok := st.T.Underlying().(*types.Struct); ok {
							for i := 0; i < stt.NumFields(); i++ {
								if stt.Field(i).Name() == "Union" && st.F[i] == p.C {
									okD = true
								}
							}
						}
					}
				}
			}
			if ts.V != "union" || !okD {
				f.why = "for a JSON array Type is not set to \"union\" with the branches decoded into Union"
			}
		case "object":
			objV, _ := cpFieldByName(sv, "Object")
			op, isP := objV.(cpPtr)
			fresh := isP && op.C != nil
			okD := false
			if fresh && len(decoded) == 1 && len(decoded[0].Args) >= 2 {
				if p, ok := stripIfaceVal(decoded[0].Args[1]).(cpPtr); ok && p.C == op.C {
					okD = true
				}
			}
			cleared, hoisted := false, false
			if fresh {
				ot, _ := cpFieldByName(op.C.V, "Type")
				if s, isS := ot.(cpStr); isS && s.V == "" {
					cleared = true
				}
				// Type is what the decoded object held: a part of what the decode call left there
				if id := rfIdent(typeV); id != "" && (strings.HasSuffix(id, ".Type") || strings.HasPrefix(id, "havoc")) {
					hoisted = true
				}
			}
			if os.Getenv("AVROCHECK_SMALLFOLD") != "" {
				fmt.Fprintf(os.Stderr, "jsHoist object: typeV=%#v\n", typeV)
			}
			if !(fresh && okD && cleared && hoisted) {
				f.why = fmt.Sprintf("for a JSON object: fresh object installed %v, decoded into it %v, Type hoisted from it %v, then cleared there %v (an object form parsed without its object cannot be written back as an object, and a record without it builds no codec)", fresh, okD, hoisted, cleared)
			}
		default:
			f.why = "a token that is neither string, array nor object is accepted without error"
		}
	}
	for _, fk := range []string{"string", "array", "object", "other"} {
		f := forms[fk]
		key := fnKey(ufn) + "/form[" + fk + "]"
		if fk != "other" && !f.seen {
			c.Bad(key, P.pos(ufn.Pos()), "no success outcome for a JSON "+fk+" (parse folded with the decoder unknown)")
			continue
		}
		c.Check(f.why == "", key, P.pos(ufn.Pos()), "handled as the schema grammar requires (parse folded with the decoder unknown; the state of the schema read off each outcome)", f.why)
	}
	return true
}

func stripIfaceVal(v cpVal) cpVal {
	if i, ok := v.(cpIface); ok {
		return i.V
	}
	return v
}

// ---------- SG-COMP

// ruleSGComp: schema generation is compositional. The schema found at the items of []E, at the values of
// map[string]E and at a field of type E is the schema generated for E on its own — for E a plain value, a
// pointer, a slice, a map, a byte slice, a struct and a pointer to a struct. Generation is folded (E-CP,
// registries taken as empty) for the composite and for E, and the two schema values are compared. The codec
// for an element is built from the schema at the element, so an element schema that drops (or adds) the
// nullable union of a pointer there gives a codec that writes nothing for nil.
func ruleSGComp(c *Ctx) {
	c.Rule("SG-COMP", "the schema generated for the element of a slice, the value of a map and a field of a struct is the schema generated for that type on its own", 3)
	P := c.P
	root := schemaRootFn(P)
	if !c.Anchor(root != nil, "schemaForType") {
		return
	}
	prim := func(k reflect.Kind) *cpRType { return cpRTypeOfKind(k, false) }
	i64 := prim(reflect.Int64)
	str := prim(reflect.String)
	inner := &cpRType{ID: "fx.Inner", Kind: int64(reflect.Struct), Name: "Inner", PkgPath: "example.com/fx-pkg", Size: 8, Fields: []cpRField{{Name: "P", Type: i64}}}
	ptr := func(e *cpRType) *cpRType {
		return &cpRType{ID: "*" + e.ID, Kind: int64(reflect.Ptr), Elem: e, Size: 8}
	}
	slice := func(e *cpRType) *cpRType {
		return &cpRType{ID: "[]" + e.ID, Kind: int64(reflect.Slice), Elem: e, Size: 24}
	}
	mp := func(e *cpRType) *cpRType {
		return &cpRType{ID: "map[string]" + e.ID, Kind: int64(reflect.Map), Elem: e, Key: str, Size: 8}
	}
	elems := []*cpRType{i64, str, ptr(i64), slice(i64), mp(i64), cpRTypeOfKind(reflect.Slice, true), inner, ptr(inner), ptr(ptr(i64))}
	gen := func(rt *cpRType) (cpVal, string) {
		cpLookupMiss, cpFoldAll, cpMaxDepth = true, true, 16
		cpMaxOutcomes = 256
		outs, _, ok, why := cpFoldOpt(P, root, []cpVal{rt}, nil)
		cpMaxOutcomes = 96
		cpLookupMiss, cpFoldAll, cpMaxDepth = false, false, 8
		if !ok {
			return nil, "generation could not be folded for " + rt.ID + ": " + why
		}
		var got cpVal
		n := 0
		for _, o := range outs {
			if o.Panics || len(o.Results) != 2 {
				continue
			}
			if _, errNil := o.Results[1].(cpNil); errNil {
				n++
				if got == nil {
					got = o.Results[0]
				} else if d := cpSchemaDiff(got, o.Results[0], 0); d != "" {
					if os.Getenv("AVROCHECK_SMALLFOLD") != "" {
						for _, oo := range outs {
							fmt.Fprintf(os.Stderr, "SGCOMP %s outcome decided=%v\n", rt.ID, oo.Decided)
							for _, cl := range oo.Calls {
								fmt.Fprintf(os.Stderr, "     %s %.120v -> %.60v\n", cl.Callee, cl.Args, cl.Result)
							}
						}
					}
					// several ways through (a test of something the fold does not know) must agree on the schema
					return nil, fmt.Sprintf("generation for %s has successful outcomes with different schemas (%s)", rt.ID, d)
				}
			}
		}
		if n == 0 {
			return nil, fmt.Sprintf("generation for %s has no successful outcome", rt.ID)
		}
		return got, ""
	}
	part := func(sv cpVal, field string) cpVal {
		ov, _ := cpFieldByName(sv, "Object")
		op, isP := ov.(cpPtr)
		if !isP || op.C == nil {
			return nil
		}
		v, _ := cpFieldByName(op.C.V, field)
		return v
	}
	for _, pos := range []string{"slice", "map", "field"} {
		key := fnKey(root) + "/element-of-" + pos
		var bad, unk []string
		n := 0
		for _, e := range elems {
			want, why := gen(e)
			if why != "" {
				unk = append(unk, why)
				continue
			}
			var comp *cpRType
			switch pos {
			case "slice":
				comp = slice(e)
			case "map":
				comp = mp(e)
			default:
				comp = cpRTypeOfKind(reflect.Struct, false)
				comp.Fields = []cpRField{{Name: "F", Type: e}}
				comp.Size = e.Size
			}
			got, why := gen(comp)
			if why != "" {
				unk = append(unk, why)
				continue
			}
			var at cpVal
			switch pos {
			case "slice":
				at = part(got, "Items")
			case "map":
				at = part(got, "Values")
			default:
				if fs, ok := recordFieldsOf(got); ok && len(fs) == 1 {
					at = fs[0].typ
				}
			}
			n++
			if at == nil {
				bad = append(bad, fmt.Sprintf("the schema generated for %s has no schema at its element", comp.ID))
				continue
			}
			if d := cpSchemaDiff(at, want, 0); d != "" {
				bad = append(bad, fmt.Sprintf("in %s the element's schema differs from the schema of %s on its own (%s)", comp.ID, e.ID, d))
			}
		}
		switch {
		case len(bad) > 0:
			c.Bad(key, P.pos(root.Pos()), strings.Join(dedup(bad), "; "))
		case len(unk) > 0:
			c.Unk(key, P.pos(root.Pos()), strings.Join(dedup(unk), "; "))
		default:
			c.OK(key, P.pos(root.Pos()), fmt.Sprintf("generation folded for %d element types (value, string, pointer, slice, map, bytes, struct, pointer to struct, pointer to pointer): the schema at the element equals the schema of the element type", n))
		}
	}
}

// cpSchemaDiff compares two folded Schema values; parts neither fold knows (a namespace computed by a
// replacer) compare equal. Returns "" when equal, otherwise where they differ.
func cpSchemaDiff(a, b cpVal, d int) string {
	if d > 12 {
		return ""
	}
	isUnk := func(v cpVal) bool { _, ok := v.(cpUnk); return ok }
	if isUnk(a) && isUnk(b) {
		return ""
	}
	switch x := a.(type) {
	case nil:
		if b == nil {
			return ""
		}
		return cpSchemaDiff(b, a, d)
	case cpNil:
		switch y := b.(type) {
		case cpNil, nil:
			return ""
		case cpSlice:
			if len(y.Elems) == 0 {
				return ""
			}
		case cpStr:
			if y.V == "" {
				return ""
			}
		}
		return fmt.Sprintf("nil against %T", b)
	case cpStr:
		if y, ok := b.(cpStr); ok {
			if x.V == y.V {
				return ""
			}
			return fmt.Sprintf("%q against %q", x.V, y.V)
		}
		if b == nil && x.V == "" {
			return ""
		}
		if _, isN := b.(cpNil); isN && x.V == "" {
			return ""
		}
		return fmt.Sprintf("%q against %T", x.V, b)
	case cpInt:
		if y, ok := b.(cpInt); ok && x.V == y.V {
			return ""
		}
		if b == nil && x.V == 0 {
			return ""
		}
		return "numbers differ"
	case cpBool:
		if y, ok := b.(cpBool); ok && x.V == y.V {
			return ""
		}
		return "flags differ"
	case cpPtr:
		y, ok := b.(cpPtr)
		if !ok {
			if _, isN := b.(cpNil); (isN || b == nil) && x.C == nil {
				return ""
			}
			return fmt.Sprintf("an object against %T", b)
		}
		if x.C == nil || y.C == nil {
			if x.C == y.C {
				return ""
			}
			return "an object against none"
		}
		return cpSchemaDiff(x.C.V, y.C.V, d+1)
	case cpSlice:
		y, ok := b.(cpSlice)
		if !ok {
			if _, isN := b.(cpNil); (isN || b == nil) && len(x.Elems) == 0 {
				return ""
			}
			return fmt.Sprintf("a list of %d against %T", len(x.Elems), b)
		}
		if len(x.Elems) != len(y.Elems) {
			return fmt.Sprintf("a list of %d against a list of %d", len(x.Elems), len(y.Elems))
		}
		for i := range x.Elems {
			if df := cpSchemaDiff(x.Elems[i].V, y.Elems[i].V, d+1); df != "" {
				return fmt.Sprintf("[%d]: %s", i, df)
			}
		}
		return ""
	case cpStruct:
		y, ok := b.(cpStruct)
		if !ok {
			return fmt.Sprintf("a struct against %T", b)
		}
		st, isS := x.T.Underlying().(*types.Struct)
		if !isS {
			return ""
		}
		for i := 0; i < st.NumFields(); i++ {
			var fa, fb cpVal
			if cx, has := x.F[i]; has {
				fa = cx.V
			}
			if cy, has := y.F[i]; has {
				fb = cy.V
			}
			if df := cpSchemaDiff(fa, fb, d+1); df != "" {
				return st.Field(i).Name() + ": " + df
			}
		}
		return ""
	}
	if isUnk(a) || isUnk(b) {
		return ""
	}
	return ""
}

// ---------- CD-NUM

// ruleCDNum: between the wire and the Go value a number only ever goes through Go conversions and the bit
// reinterpretations of package math. Nothing a codec method reaches calls a routine that re-derives a number
// from its decimal text or rounds it (strconv, math/big, fmt's scanners, math.Round/Floor/Ceil/Trunc/Mod/
// Nextafter/Pow…): those are many-to-one or base-dependent and break exact inversion for some values while
// looking right for the "nice" ones.
func ruleCDNum(c *Ctx) {
	c.Rule("CD-NUM", "no codec method reaches a routine that re-derives a number from decimal text or rounds it (strconv, math/big, fmt scanners, math rounding): numbers cross between wire and value by conversion and bit reinterpretation only", 27)
	P := c.P
	bt := getBT(P)
	deny := func(g *ssa.Function) string {
		if g == nil || g.Pkg == nil && g.Object() == nil {
			return ""
		}
		q := qualName(g)
		pkg := ""
		if g.Pkg != nil {
			pkg = g.Pkg.Pkg.Path()
		} else if g.Object() != nil && g.Object().Pkg() != nil {
			pkg = g.Object().Pkg().Path()
		}
		switch pkg {
		case "strconv", "math/big":
			return q
		case "fmt":
			if strings.Contains(g.Name(), "scan") || strings.Contains(g.Name(), "Scan") {
				return q
			}
		case "math":
			switch g.Name() {
			case "Round", "RoundToEven", "Floor", "Ceil", "Trunc", "Mod", "Remainder", "Nextafter", "Nextafter32", "Pow", "Pow10", "Log", "Log2", "Log10", "Exp", "Exp2", "Frexp", "Ldexp", "Modf":
				return q
			}
		}
		return ""
	}
	for _, ct := range bt.Codecs {
		key := ct.Name + "/numbers-by-conversion"
		bad := ""
		n := 0
		seenF := map[*ssa.Function]bool{}
		var scan func(f *ssa.Function, d int)
		scan = func(f *ssa.Function, d int) {
			if f == nil || seenF[f] || f.Blocks == nil || d > 4 {
				return
			}
			seenF[f] = true
			n++
			for _, cs := range callsIn(f) {
				if cs.Static == nil {
					continue
				}
				if q := deny(cs.Static); q != "" && bad == "" {
					bad = fmt.Sprintf("%s calls %s at %s", fnKey(f), q, P.pos(cs.Instr.Pos()))
				}
				if P.isModuleFunc(cs.Static) {
					scan(cs.Static, d+1)
				}
			}
		}
		for _, m := range codecMethodNames {
			if ct.Declared[m] {
				scan(ct.M[m], 0)
			}
		}
		if n == 0 {
			continue
		}
		c.Check(bad == "", key, P.pos(ct.M["Read"].Pos()), fmt.Sprintf("%d functions reachable from the codec's methods: no decimal re-derivation or rounding routine", n), bad+": the value decoded or written is no longer the exact image of the other side for every value")
	}
}

type registryElem struct {
	elem types.Type
	name string
}

// registryElemTypes: the element types of the package-level maps of functions (the registries), whether the
// map is a package-level variable itself or a field of a package-level struct that bundles it with its lock.
func registryElemTypes(P *Program) []registryElem {
	var out []registryElem
	for _, g := range moduleGlobals(P) {
		t := g.Type().(*types.Pointer).Elem()
		if mt, isM := t.Underlying().(*types.Map); isM && isSignature(mt.Elem()) {
			out = append(out, registryElem{mt.Elem(), globalKey(g)})
			continue
		}
		if st, isS := t.Underlying().(*types.Struct); isS {
			for i := 0; i < st.NumFields(); i++ {
				if mt, isM := st.Field(i).Type().Underlying().(*types.Map); isM && isSignature(mt.Elem()) {
					out = append(out, registryElem{mt.Elem(), globalKey(g) + "." + st.Field(i).Name()})
				}
			}
		}
	}
	return out
}
