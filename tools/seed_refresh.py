#!/usr/bin/env python3
"""seed_refresh.py [-w] [name...]

Like seed_recheck.py but never touches /repo's working tree: each kept seeded change is applied in a
scratch worktree of /repo HEAD and the quick check of its own property is run against that
(VERIF_REPO). Prints caught/MISSED per seed; with -w rewrites meta.json's caught_by with the
rules that report it now (the list the thorough tier's seeded canaries expect one of)."""
import json, os, shutil, subprocess, sys, tempfile
from concurrent.futures import ThreadPoolExecutor

args = sys.argv[1:]
write = '-w' in args
names = [a for a in args if a != '-w'] or sorted(d for d in os.listdir('/verif/seeded') if os.path.exists('/verif/seeded/%s/patch.diff' % d))

def sh(cmd, cwd=None, env=None):
    p = subprocess.run(cmd, shell=True, cwd=cwd, capture_output=True, text=True, env=env)
    return p.returncode, p.stdout + p.stderr

def one(n):
    d = '/verif/seeded/' + n
    meta = json.load(open(d + '/meta.json'))
    prop = meta['breaks']
    wt = tempfile.mkdtemp(prefix='seedwt-', dir='/tmp'); os.rmdir(wt)
    out_dir = tempfile.mkdtemp(prefix='seedout-', dir='/tmp')
    try:
        rc, o = sh('git -C /repo worktree add -q --detach %s HEAD' % wt)
        if rc != 0:
            return n, 'ERROR', o[:100], []
        rc, o = sh('git -C %s apply %s/patch.diff' % (wt, d))
        if rc != 0:
            return n, 'DOES-NOT-APPLY', o.strip()[:100], []
        env = dict(os.environ, VERIF_REPO=wt)
        rc, out = sh('./check %s quick -out %s' % (prop, out_dir), cwd='/verif', env=env)
        lines = [l for l in out.splitlines() if l.startswith('VIOLATED') or l.startswith('UNDECIDED')]
        real = [l for l in lines if 'rule-instances' not in l]
        rules = []
        for l in real:
            r = l.split()[1]
            if r not in rules:
                rules.append(r)
        status = 'caught' if rc != 0 and real else ('caught-by-count-only' if rc != 0 else 'MISSED')
        return n, status, (real or lines or [''])[0][:150], rules
    finally:
        sh('git -C /repo worktree remove --force %s' % wt)
        shutil.rmtree(out_dir, ignore_errors=True)

bad = 0
with ThreadPoolExecutor(max_workers=6) as ex:
    for n, status, first, rules in ex.map(one, names):
        if status != 'caught':
            bad += 1
        print('%-55s %s %s' % (n, status, first if status != 'caught' else ','.join(rules)))
        if write and status == 'caught':
            f = '/verif/seeded/%s/meta.json' % n
            meta = json.load(open(f))
            new = ', '.join(rules)
            if meta.get('caught_by') != new:
                meta['caught_by_first'] = meta.get('caught_by_first', meta.get('caught_by'))
                meta['caught_by'] = new
                json.dump(meta, open(f, 'w'), indent=1)
sh('git -C /repo worktree prune')
sys.exit(1 if bad else 0)
