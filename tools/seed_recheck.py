#!/usr/bin/env python3
"""seed_recheck.py [name...]

Re-applies every kept seeded change (seeded/<name>/patch.diff) to /repo, runs the quick
check of the property it breaks (evidence redirected to a temp dir), and undoes it at
once. Prints, per seed, whether the property's own check still reports it. A patch
that no longer applies to the current tree is reported as such (the tree has moved)."""
import json, os, shutil, subprocess, sys, tempfile

def sh(cmd, cwd=None):
    p = subprocess.run(cmd, shell=True, cwd=cwd, capture_output=True, text=True)
    return p.returncode, p.stdout + p.stderr

names = sys.argv[1:] or sorted(d for d in os.listdir('/verif/seeded') if os.path.exists('/verif/seeded/%s/patch.diff' % d))
bad = 0
for n in names:
    d = '/verif/seeded/' + n
    meta = json.load(open(d + '/meta.json'))
    prop = meta['breaks']
    rc, o = sh('git -C /repo apply --check %s/patch.diff' % d)
    if rc != 0:
        rc3, o3 = sh('git -C /repo apply --3way --check %s/patch.diff' % d)
        print('%-45s DOES-NOT-APPLY %s' % (n, o.strip().splitlines()[0][:100] if o.strip() else ''))
        bad += 1
        continue
    tmp = tempfile.mkdtemp(prefix='seedre-')
    try:
        sh('git -C /repo apply %s/patch.diff' % d)
        try:
            rc, out = sh('./check %s quick -out %s' % (prop, tmp), cwd='/verif')
        finally:
            sh('git -C /repo checkout -- .')
            sh('git -C /repo clean -fdq')
        lines = [l for l in out.splitlines() if l.startswith('VIOLATED') or l.startswith('UNDECIDED')]
        real = [l for l in lines if 'rule-instances' not in l]
        status = 'caught' if rc != 0 and real else ('caught-by-count-only' if rc != 0 else 'MISSED')
        if status != 'caught':
            bad += 1
        print('%-45s %s %s' % (n, status, (real or lines or [''])[0][:160]))
    finally:
        shutil.rmtree(tmp, ignore_errors=True)
rc, st = sh('git -C /repo status --porcelain')
assert st.strip() == '', st
sys.exit(1 if bad else 0)
