package main

// E-WA: wire-effect automata. Each of a codec's Read, Skip and Write is
// abstracted to an NFA over wire tokens, built from the SSA CFG with module
// callees that receive the buffer inlined (bounded depth).
//
// Tokens: V varint; Vs one-byte varint written from a value in {0,1};
// B<k> k bytes; BSize the receiver's Size bytes; L bytes whose count is a
// varint of the same method (always optional: the count may be zero);
// S(<field>) the sub-codec held in a receiver field; ?<...> a use of the
// buffer the analysis does not understand.

import (
	"fmt"
	"go/token"
	"go/types"
	"os"
	"sort"
	"strings"

	"golang.org/x/tools/go/ssa"
)

type waFrame struct {
	fn        *ssa.Function
	parent    *waFrame
	bind      map[ssa.Value]ssa.Value // callee parameter -> caller value
	recvConst map[string]int64
	depth     int
}

type waBuilder struct {
	P    *Program
	n    *NFA
	mode string // Read | Skip | Write
	// assume: 0 nothing; 1 every block count is non-negative; 2 every
	// non-zero block count is negative. Tests of a block count's sign (in
	// any inlined frame) have the contradicting edge cut.
	assume       int
	countOrigins map[*ssa.Call]bool // the Varint reads that yield block counts
	problems     []string
	// NegEdges seen (for WA-NEG) in the top frame
	negIfs []*ssa.If
	small  map[string]bool // cache: "Type.field" is only ever stored 0/1
}

func isReadBufPtr(t types.Type) bool  { return typeKey(t) == "*avro.ReadBuf" }
func isWriteBufPtr(t types.Type) bool { return typeKey(t) == "*avro.WriteBuf" }

// resolve follows parameter bindings up the inlining stack and strips
// value-preserving conversions.
func (f *waFrame) resolve(v ssa.Value) (ssa.Value, *waFrame) {
	fr := f
	for i := 0; i < 32; i++ {
		v = stripConv(v)
		if fr.bind != nil {
			if b, ok := fr.bind[v]; ok && fr.parent != nil {
				v, fr = b, fr.parent
				continue
			}
		}
		return v, fr
	}
	return v, fr
}

// varintOrigin returns the (*ReadBuf).Varint call whose result v is, looking
// through value-preserving conversions, phis whose other edges are constants,
// and module helpers that hand the value back as one of their results.
func varintOrigin(P *Program, v ssa.Value, depth int) *ssa.Call {
	if depth > 4 {
		return nil
	}
	v = stripConv(v)
	switch x := v.(type) {
	case *ssa.Extract:
		call, ok := x.Tuple.(*ssa.Call)
		if !ok {
			return nil
		}
		sc := call.Call.StaticCallee()
		if sc == nil {
			return nil
		}
		if qualNameShort(sc) == "(*ReadBuf).Varint" {
			if x.Index == 0 {
				return call
			}
			return nil
		}
		if !P.isModuleFunc(sc) || sc.Blocks == nil || x.Index >= sc.Signature.Results().Len() {
			return nil
		}
		var org *ssa.Call
		for _, b := range sc.Blocks {
			if b == sc.Recover {
				continue
			}
			ret, ok := b.Instrs[len(b.Instrs)-1].(*ssa.Return)
			if !ok {
				continue
			}
			r := resolvedResults(ret)[x.Index]
			if _, isC := stripConv(r).(*ssa.Const); isC {
				continue
			}
			o := varintOrigin(P, r, depth+1)
			if o == nil || org != nil && o != org {
				return nil
			}
			org = o
		}
		return org
	case *ssa.Phi:
		var org *ssa.Call
		for _, e := range x.Edges {
			if _, isC := stripConv(e).(*ssa.Const); isC {
				continue
			}
			o := varintOrigin(P, e, depth+1)
			if o == nil || org != nil && o != org {
				return nil
			}
			org = o
		}
		return org
	}
	return nil
}

func isVarintResult(v ssa.Value) bool {
	ex, ok := v.(*ssa.Extract)
	if !ok || ex.Index != 0 {
		return false
	}
	call, ok := ex.Tuple.(*ssa.Call)
	if !ok || call.Call.StaticCallee() == nil {
		return false
	}
	return qualNameShort(call.Call.StaticCallee()) == "(*ReadBuf).Varint"
}

// lengthToken classifies the byte count n of a Next/skip/unsafe.Slice.
func (w *waBuilder) lengthToken(fr *waFrame, n ssa.Value) string {
	v, vf := fr.resolve(n)
	if k, ok := (Folder{w.P}).FoldInt(v); ok {
		return fmt.Sprintf("B%d", k)
	}
	if o := varintOrigin(w.P, v, 0); o != nil {
		if w.countOrigins[o] {
			return "Lcount" // a byte length taken from a block's item count
		}
		return "L"
	}
	// possibly negated / phi of a varint result: still "that varint's value" only if it is the value itself
	if f, ok := recvFieldOf(vf.fn, v); ok {
		if k, has := vf.recvConst[f]; has {
			return fmt.Sprintf("B%d", k)
		}
		return "B" + f
	}
	return "?len(" + strings.ReplaceAll(v.String(), " ", "") + ")"
}

// smallField: every store to field `name` of struct type T in the module is a
// constant in {0,1} or a copy of a field with the same property.
func (w *waBuilder) smallField(T types.Type, name string) bool {
	key := typeKey(T) + "." + name
	if v, ok := w.small[key]; ok {
		return v
	}
	w.small[key] = true // assume during recursion
	ok := true
	n := 0
	for _, fn := range w.P.ModuleFuncs() {
		for _, b := range fn.Blocks {
			for _, in := range b.Instrs {
				st, isSt := in.(*ssa.Store)
				if !isSt {
					continue
				}
				fa, isFA := st.Addr.(*ssa.FieldAddr)
				if !isFA || fieldName(fa.X.Type(), fa.Field) != name {
					continue
				}
				if !types.Identical(types.Unalias(fa.X.Type().Underlying().(*types.Pointer).Elem()), types.Unalias(T)) {
					continue
				}
				n++
				if !w.smallValue(st.Val, fn) {
					ok = false
				}
			}
		}
	}
	w.small[key] = ok
	return ok
}

// smallValue: v evaluates to 0 or 1 for every assignment of its small-field
// leaves in {0,1}.
func (w *waBuilder) smallValue(v ssa.Value, fn *ssa.Function) bool {
	vals, ok := w.evalSmall(v, map[string]int64{}, 0)
	if !ok {
		return false
	}
	for _, x := range vals {
		if x != 0 && x != 1 {
			return false
		}
	}
	return true
}

// evalSmall enumerates the possible values of v when each small field leaf
// ranges over {0,1}. Leaves are identified by access path.
func (w *waBuilder) evalSmall(v ssa.Value, env map[string]int64, depth int) ([]int64, bool) {
	leaves := map[string]bool{}
	if !w.collectLeaves(v, leaves, 0) {
		return nil, false
	}
	var names []string
	for l := range leaves {
		names = append(names, l)
	}
	sort.Strings(names)
	if len(names) > 4 {
		return nil, false
	}
	var out []int64
	for mask := 0; mask < 1<<len(names); mask++ {
		e := map[string]int64{}
		for i, nm := range names {
			e[nm] = int64(mask >> i & 1)
		}
		x, ok := w.evalWith(v, e, 0)
		if !ok {
			return nil, false
		}
		out = append(out, x)
	}
	return out, true
}

func (w *waBuilder) collectLeaves(v ssa.Value, leaves map[string]bool, d int) bool {
	if d > 12 {
		return false
	}
	switch x := v.(type) {
	case *ssa.Const:
		_, ok := constInt(x)
		return ok
	case *ssa.Convert:
		return w.collectLeaves(x.X, leaves, d+1)
	case *ssa.ChangeType:
		return w.collectLeaves(x.X, leaves, d+1)
	case *ssa.BinOp:
		switch x.Op {
		case token.ADD, token.SUB, token.MUL, token.XOR, token.AND, token.OR:
			return w.collectLeaves(x.X, leaves, d+1) && w.collectLeaves(x.Y, leaves, d+1)
		}
		return false
	case *ssa.UnOp:
		if x.Op == token.MUL {
			if fa, ok := x.X.(*ssa.FieldAddr); ok {
				T := fa.X.Type().Underlying().(*types.Pointer).Elem()
				if w.smallField(T, fieldName(fa.X.Type(), fa.Field)) {
					leaves[accessPath(x)] = true
					return true
				}
			}
		}
		return false
	case *ssa.Field:
		if w.smallField(x.X.Type(), fieldNameT(x.X.Type(), x.Field)) {
			leaves[accessPath(x)] = true
			return true
		}
	case *ssa.Parameter:
		if w.smallParam(x) {
			leaves[accessPath(x)] = true
			return true
		}
	case *ssa.Extract:
		// one result of a module helper every return of which gives 0 or 1 there
		if call, ok := x.Tuple.(*ssa.Call); ok {
			if g := call.Call.StaticCallee(); g != nil && w.smallResult(g, x.Index) {
				leaves[w.leafName(x)] = true
				return true
			}
		}
	case *ssa.Call:
		if g := x.Call.StaticCallee(); g != nil && w.smallResult(g, 0) {
			leaves[w.leafName(x)] = true
			return true
		}
	case *ssa.Phi:
		for _, ed := range x.Edges {
			if !w.smallValue(ed, x.Parent()) {
				return false
			}
		}
		leaves[w.leafName(x)] = true
		return true
	}
	return false
}

func (w *waBuilder) leafName(v ssa.Value) string {
	return "val:" + v.Parent().String() + ":" + v.Name()
}

// smallResult: every return of module function g yields 0 or 1 as result idx.
func (w *waBuilder) smallResult(g *ssa.Function, idx int) bool {
	if !w.P.isModuleFunc(g) || g.Blocks == nil || idx >= g.Signature.Results().Len() {
		return false
	}
	key := fmt.Sprintf("result:%s#%d", g.String(), idx)
	if v, ok := w.small[key]; ok {
		return v
	}
	w.small[key] = true // assume during recursion
	ok := true
	for _, r := range returnsOf(g) {
		rs := resolvedResults(r)
		if idx >= len(rs) || !w.smallValue(rs[idx], g) {
			ok = false
		}
	}
	w.small[key] = ok
	return ok
}

// smallParam: p is a parameter of a module function that is only ever called
// statically, and every call site passes a value in {0,1}.
func (w *waBuilder) smallParam(p *ssa.Parameter) bool {
	fn := p.Parent()
	if fn == nil {
		return false
	}
	key := "param:" + fn.String() + "." + p.Name()
	if v, ok := w.small[key]; ok {
		return v
	}
	w.small[key] = true // assume during recursion
	idx := -1
	for i, q := range fn.Params {
		if q == p {
			idx = i
		}
	}
	ok := idx >= 0
	n := 0
	for _, g := range w.P.ModuleFuncs() {
		if !ok {
			break
		}
		for _, b := range g.Blocks {
			for _, in := range b.Instrs {
				var rands [16]*ssa.Value
				call, isCall := in.(ssa.CallInstruction)
				for _, r := range in.Operands(rands[:0]) {
					if r == nil || *r != ssa.Value(fn) {
						continue
					}
					if !isCall || call.Common().StaticCallee() != fn || call.Common().Value != ssa.Value(fn) {
						ok = false // address taken
						continue
					}
				}
				if isCall && call.Common().StaticCallee() == fn && call.Common().Value == ssa.Value(fn) {
					if _, isGo := in.(*ssa.Call); !isGo {
						ok = false
						continue
					}
					args := call.Common().Args
					if idx >= len(args) || !w.smallValue(args[idx], g) {
						ok = false
					}
					n++
				}
			}
		}
	}
	if n == 0 {
		ok = false
	}
	w.small[key] = ok
	return ok
}

func (w *waBuilder) evalWith(v ssa.Value, env map[string]int64, d int) (int64, bool) {
	switch x := v.(type) {
	case *ssa.Const:
		return constInt(x)
	case *ssa.Convert:
		return w.evalWith(x.X, env, d+1)
	case *ssa.ChangeType:
		return w.evalWith(x.X, env, d+1)
	case *ssa.BinOp:
		a, ok1 := w.evalWith(x.X, env, d+1)
		b, ok2 := w.evalWith(x.Y, env, d+1)
		if !ok1 || !ok2 {
			return 0, false
		}
		switch x.Op {
		case token.ADD:
			return a + b, true
		case token.SUB:
			return a - b, true
		case token.MUL:
			return a * b, true
		case token.XOR:
			return a ^ b, true
		case token.AND:
			return a & b, true
		case token.OR:
			return a | b, true
		}
	case *ssa.UnOp, *ssa.Field, *ssa.Parameter:
		if val, ok := env[accessPath(v)]; ok {
			return val, true
		}
	case *ssa.Extract, *ssa.Call, *ssa.Phi:
		if val, ok := env[w.leafName(v)]; ok {
			return val, true
		}
	}
	return 0, false
}

// What is assumed about the block count read last (only under a sign
// assumption, see waBuilder.assume).
const (
	ctxUnknown = iota
	ctxZero
	ctxNeg
	ctxPos
)

type waExit struct {
	state int
	ctx   int
}

// ctxSplit: the cases a freshly read block count is split into.
func (w *waBuilder) ctxSplit() []int {
	switch w.assume {
	case 1:
		return []int{ctxZero, ctxPos}
	case 2:
		return []int{ctxZero, ctxNeg}
	}
	return []int{ctxUnknown}
}

// ctxDecides evaluates `count op 0` under what is assumed about the count.
func ctxDecides(ctx int, op token.Token) (truth, known bool) {
	sign := map[int]int{ctxZero: 0, ctxNeg: -1, ctxPos: 1}
	sg, ok := sign[ctx]
	if !ok {
		return false, false
	}
	switch op {
	case token.EQL:
		return sg == 0, true
	case token.NEQ:
		return sg != 0, true
	case token.LSS:
		return sg < 0, true
	case token.LEQ:
		return sg <= 0, true
	case token.GTR:
		return sg > 0, true
	case token.GEQ:
		return sg >= 0, true
	}
	return false, false
}

// build adds fn's automaton starting at state `from`, entered with what is
// assumed about the current block count; returns the states at which fn
// returns successfully, each with the assumption then in force.
func (w *waBuilder) build(fr *waFrame, from int, ctx0 int) []waExit {
	fn := fr.fn
	if fn == nil || fn.Blocks == nil {
		w.problems = append(w.problems, "no body for "+fnKey(fn))
		return nil
	}
	if fr.depth > 5 {
		w.problems = append(w.problems, "inlining bound exceeded at "+fnKey(fn))
		return nil
	}
	type vkey struct {
		b   *ssa.BasicBlock
		idx int
		ctx int
	}
	entry := map[vkey]int{}
	var exits []waExit
	var visit func(b *ssa.BasicBlock, idx int, ctx int) int
	visit = func(b *ssa.BasicBlock, idx int, ctx int) int {
		if s, ok := entry[vkey{b, idx, ctx}]; ok {
			return s
		}
		s := w.n.newState()
		entry[vkey{b, idx, ctx}] = s
		cur := []int{s}
		emit := func(label string) {
			ns := w.n.newState()
			for _, c := range cur {
				w.n.add(c, label, ns)
			}
			cur = []int{ns}
		}
		for i := idx; i < len(b.Instrs); i++ {
			in := b.Instrs[i]
			if st, isStore := in.(*ssa.Store); isStore {
				// direct manipulation of the buffers (an inlined primitive): advancing the read cursor consumes
				// that many bytes; appending to the write buffer emits them
				if tok := w.directBufferToken(fr, st); tok != "" {
					if tok == "L" {
						ns := w.n.newState()
						for _, c := range cur {
							w.n.add(c, "L", ns)
							w.n.add(c, "", ns)
						}
						cur = []int{ns}
					} else {
						emit(tok)
					}
				}
				continue
			}
			ci, ok := in.(ssa.CallInstruction)
			if !ok {
				continue
			}
			if _, isDefer := in.(*ssa.Defer); isDefer {
				continue
			}
			cc := ci.Common()
			// does the call receive the buffer?
			hasBuf := false
			for _, a := range cc.Args {
				if isReadBufPtr(a.Type()) || isWriteBufPtr(a.Type()) {
					hasBuf = true
				}
			}
			if cc.IsInvoke() {
				if !hasBuf {
					continue
				}
				if isCodecIface(w.P, cc.Value.Type()) {
					switch cc.Method.Name() {
					case "Read", "Skip", "Write":
						rv, rf := fr.resolve(cc.Value)
						path := codecFieldPath(rf.fn, rv)
						// inside a helper method whose receiver is a part of the codec handed in by the caller (an entry of
						// its field list, say), the path is relative to that part: prefix the caller's path to it
						for g := rf; path != "" && g != nil && g.parent != nil && g.fn.Signature.Recv() != nil && len(g.fn.Params) > 0; g = g.parent {
							arg, ok := g.bind[ssa.Value(g.fn.Params[0])]
							if !ok {
								break
							}
							pre := recvPathOfAddr(g.parent.fn, arg, 0)
							if pre == "" {
								pre = recvPathOfValue(g.parent.fn, arg, 0)
							}
							if os.Getenv("DBG_WA") != "" {
								fmt.Fprintln(os.Stderr, "WA-PREFIX", g.fn.Name(), "arg", arg, "in", g.parent.fn.Name(), "pre", pre, "path", path)
							}
							if pre == "" {
								// the receiver is the caller's own receiver handed on (a helper method calling another): the
								// same part of the codec, whose place is known one frame further up
								if pf := g.parent.fn; pf.Signature.Recv() != nil && len(pf.Params) > 0 && arg == ssa.Value(pf.Params[0]) && g.parent.parent != nil {
									continue
								}
								break // the receiver is the codec's own receiver (or unknown): nothing to prefix
							}
							path = pre + "." + path
						}
						if path == "" {
							path = "?" + strings.ReplaceAll(rv.String(), " ", "")
						}
						emit("S(" + path + ")")
					case "New", "Omit":
					}
					continue
				}
				emit("?invoke:" + cc.Method.Name())
				continue
			}
			callee := cc.StaticCallee()
			if callee == nil {
				if hasBuf {
					emit("?dynamic-call")
				}
				continue
			}
			if !hasBuf {
				continue
			}
			q := qualNameShort(callee)
			switch q {
			case "(*ReadBuf).Varint":
				emit("V")
				if call, isCall := in.(*ssa.Call); isCall && w.assume != 0 && w.countOrigins[call] {
					// a new block count: split into the cases the assumption allows
					for _, nc := range w.ctxSplit() {
						t := visit(b, i+1, nc)
						for _, c := range cur {
							w.n.add(c, "", t)
						}
					}
					return s
				}
				continue
			case "(*ReadBuf).ReadByte":
				emit("B1")
				continue
			case "(*ReadBuf).Next", "(*ReadBuf).NextAsString":
				t := w.lengthToken(fr, cc.Args[1])
				if t == "L" {
					// optional: the count may be zero
					ns := w.n.newState()
					for _, c := range cur {
						w.n.add(c, "L", ns)
						w.n.add(c, "", ns)
					}
					cur = []int{ns}
				} else {
					emit(t)
				}
				continue
			case "(*ReadBuf).Alloc", "(*ReadBuf).Len":
				continue
			case "(*WriteBuf).Varint":
				v, vf := fr.resolve(cc.Args[1])
				_ = vf
				if w.smallValue(cc.Args[1], fn) || w.smallValue(v, fn) {
					emit("Vs")
				} else {
					emit("V")
				}
				continue
			case "(*WriteBuf).Byte":
				emit("B1")
				continue
			case "(*WriteBuf).Write":
				t := w.writeToken(fr, cc.Args[1])
				if t == "L" {
					ns := w.n.newState()
					for _, c := range cur {
						w.n.add(c, "L", ns)
						w.n.add(c, "", ns)
					}
					cur = []int{ns}
				} else {
					emit(t)
				}
				continue
			case "(*WriteBuf).Len", "(*WriteBuf).Bytes":
				continue
			}
			if !w.P.isModuleFunc(callee) || callee.Blocks == nil {
				emit("?call:" + q)
				continue
			}
			// inline
			sub := &waFrame{fn: callee, parent: fr, bind: map[ssa.Value]ssa.Value{}, recvConst: map[string]int64{}, depth: fr.depth + 1}
			for i, p := range callee.Params {
				if i < len(cc.Args) {
					sub.bind[p] = cc.Args[i]
				}
			}
			if callee.Signature.Recv() != nil && len(cc.Args) > 0 {
				sub.recvConst = newContractEnv(w.P).literalRecvConsts(cc.Args[0])
				// receiver that is (a field of) our own receiver with known constants
				if recvIsOurs(fn, cc.Args[0]) {
					for k, v := range fr.recvConst {
						sub.recvConst[k] = v
					}
				}
			}
			var outs []waExit
			for _, c := range cur {
				outs = append(outs, w.build(sub, c, ctx)...)
			}
			byCtx := map[int][]int{}
			for _, o := range outs {
				byCtx[o.ctx] = append(byCtx[o.ctx], o.state)
			}
			if _, same := byCtx[ctx]; len(byCtx) == 0 || len(byCtx) == 1 && same {
				ns := w.n.newState()
				for _, o := range outs {
					w.n.add(o.state, "", ns)
				}
				cur = []int{ns}
				continue
			}
			// the callee read a block count: carry on separately per case
			for nc := ctxUnknown; nc <= ctxPos; nc++ {
				sts, has := byCtx[nc]
				if !has {
					continue
				}
				t := visit(b, i+1, nc)
				for _, o := range sts {
					w.n.add(o, "", t)
				}
			}
			return s
		}
		last := b.Instrs[len(b.Instrs)-1]
		switch x := last.(type) {
		case *ssa.Return:
			if w.returnAccepting(x) {
				for _, c := range cur {
					exits = append(exits, waExit{c, ctx})
				}
			}
		case *ssa.Panic:
		case *ssa.If:
			cut := -1 // successor index not taken under the sign assumption
			if cmp, ok := asCmp(x.Cond, true); ok {
				if k, isK := constInt(cmp.Y); isK && k == 0 {
					v, _ := fr.resolve(cmp.X)
					if o := varintOrigin(w.P, v, 0); o != nil && w.countOrigins[o] {
						if truth, known := ctxDecides(ctx, cmp.Op); known {
							if truth {
								cut = 1
							} else {
								cut = 0
							}
						}
					}
				}
			}
			for i, s := range b.Succs {
				if i == cut {
					continue
				}
				t := visit(s, 0, ctx)
				for _, c := range cur {
					w.n.add(c, "", t)
				}
			}
		default:
			for _, s := range b.Succs {
				t := visit(s, 0, ctx)
				for _, c := range cur {
					w.n.add(c, "", t)
				}
			}
		}
		return s
	}
	s0 := visit(fn.Blocks[0], 0, ctx0)
	w.n.add(from, "", s0)
	return exits
}

func (w *waBuilder) returnAccepting(r *ssa.Return) bool {
	ev := errOperand(r)
	if ev == nil {
		return true // no error result (Write) or not an error-returning function
	}
	if isNilConst(ev) {
		return true
	}
	if isFreshError(ev) {
		return false
	}
	if nn, _ := knownNonNil(r.Block(), ev); nn {
		return false
	}
	return true
}

// writeToken classifies the bytes handed to WriteBuf.Write.
func (w *waBuilder) writeToken(fr *waFrame, bs ssa.Value) string {
	v, vf := fr.resolve(bs)
	switch x := v.(type) {
	case *ssa.Call:
		if bi, ok := x.Call.Value.(*ssa.Builtin); ok && bi.Name() == "Slice" {
			return w.lengthToken(vf, x.Call.Args[1])
		}
	case *ssa.UnOp:
		if x.Op == token.MUL {
			return "L" // a []byte loaded from the value being written
		}
	case *ssa.Slice:
		if x.High != nil {
			if k, ok := (Folder{w.P}).FoldInt(x.High); ok && x.Low == nil {
				return fmt.Sprintf("B%d", k)
			}
		}
		// the whole of a fixed-size array viewed through a pointer: (*[N]byte)(p)[:]
		if pt, isP := x.X.Type().Underlying().(*types.Pointer); isP && x.Low == nil && x.High == nil {
			if at, isA := pt.Elem().Underlying().(*types.Array); isA {
				if eb, isB := at.Elem().Underlying().(*types.Basic); isB && eb.Kind() == types.Uint8 {
					return fmt.Sprintf("B%d", at.Len())
				}
			}
		}
	}
	// []byte(s) conversion of a string (stripConv removed it): a string value
	if b, ok := v.Type().Underlying().(*types.Basic); ok && b.Info()&types.IsString != 0 {
		return "L"
	}
	if _, ok := v.Type().Underlying().(*types.Slice); ok {
		if _, isParam := v.(*ssa.Parameter); isParam {
			return "L"
		}
	}
	return "?bytes(" + strings.ReplaceAll(v.String(), " ", "") + ")"
}

// blockCountOrigins finds the Varint reads whose value is tested for sign
// inside the loop that reads it: the block counts of arrays and maps. It
// also returns those tests.
func blockCountOrigins(P *Program, fn *ssa.Function) (map[*ssa.Call]bool, []*ssa.If) {
	out := map[*ssa.Call]bool{}
	var ifs []*ssa.If
	for _, b := range fn.Blocks {
		iff, ok := b.Instrs[len(b.Instrs)-1].(*ssa.If)
		if !ok {
			continue
		}
		cmp, ok := asCmp(iff.Cond, true)
		if !ok || cmp.Op != token.LSS && cmp.Op != token.GEQ {
			continue
		}
		if k, isK := constInt(cmp.Y); !isK || k != 0 {
			continue
		}
		v := stripConv(cmp.X)
		if o := varintOrigin(P, v, 0); o != nil && inBlockLoop(iff, v) {
			out[o] = true
			ifs = append(ifs, iff)
		}
	}
	return out, ifs
}

// methodAutomaton builds the automaton of one codec method under a sign
// assumption for block counts (see waBuilder.assume).
func methodAutomaton(P *Program, fn *ssa.Function, mode string, assume int) (*NFA, []string, []*ssa.If) {
	w := &waBuilder{P: P, n: newNFA(), mode: mode, assume: assume, small: map[string]bool{}}
	w.countOrigins, w.negIfs = blockCountOrigins(P, fn)
	fr := &waFrame{fn: fn, recvConst: map[string]int64{}}
	exits := w.build(fr, w.n.start, ctxUnknown)
	for _, e := range exits {
		w.n.accept[e.state] = true
	}
	for l := range w.n.alphabet() {
		if strings.HasPrefix(l, "?") {
			w.problems = append(w.problems, "token not understood: "+l)
		}
	}
	return w.n, w.problems, w.negIfs
}

// inBlockLoop: the test is on the count of a block loop, i.e. it sits in a
// loop that also contains the read of the varint it tests (arrays and maps),
// as opposed to a one-off length or selector check.
func inBlockLoop(iff *ssa.If, v ssa.Value) bool {
	ex, ok := v.(*ssa.Extract)
	if !ok {
		return false
	}
	call, ok := ex.Tuple.(*ssa.Call)
	if !ok || call.Parent() != iff.Parent() {
		return false
	}
	l := innermostLoop(iff.Parent(), iff.Block())
	for l != nil {
		if l.Blocks[call.Block()] {
			return true
		}
		// try enclosing loops
		var outer *Loop
		for _, l2 := range loopsOf(iff.Parent()) {
			if l2 != l && l2.Blocks[l.Header] && len(l2.Blocks) > len(l.Blocks) && (outer == nil || len(l2.Blocks) < len(outer.Blocks)) {
				outer = l2
			}
		}
		l = outer
	}
	return false
}

// directBufferToken: the wire token of a store that moves the read cursor
// (cursor = cursor + n) or grows the write buffer (buf = append(buf, ...)),
// "" if the store is neither.
func (w *waBuilder) directBufferToken(fr *waFrame, st *ssa.Store) string {
	fa, ok := st.Addr.(*ssa.FieldAddr)
	if !ok {
		return ""
	}
	switch {
	case isReadBufPtr(fa.X.Type()):
		rbT := fa.X.Type().Underlying().(*types.Pointer).Elem()
		cur := uniqueFieldWhere(rbT, func(t types.Type) bool { return isBasicKind(t, types.Int) })
		if cur == "" || fieldName(fa.X.Type(), fa.Field) != cur {
			return ""
		}
		if z, isK := constInt(st.Val); isK && z == 0 {
			return "" // reset
		}
		bo, isBo := st.Val.(*ssa.BinOp)
		if !isBo || bo.Op != token.ADD {
			return "?cursor-assignment"
		}
		path := accessPath(fa)
		isCur := func(v ssa.Value) bool {
			ld, ok := v.(*ssa.UnOp)
			return ok && ld.Op == token.MUL && accessPath(ld.X) == path
		}
		var delta ssa.Value
		switch {
		case isCur(bo.X):
			delta = bo.Y
		case isCur(bo.Y):
			delta = bo.X
		default:
			return "?cursor-assignment"
		}
		return w.lengthToken(fr, delta)
	case isWriteBufPtr(fa.X.Type()):
		wbT := fa.X.Type().Underlying().(*types.Pointer).Elem()
		bufF := uniqueFieldWhere(wbT, func(t types.Type) bool {
			sl, ok := t.Underlying().(*types.Slice)
			return ok && isBasicKind(sl.Elem(), types.Byte)
		})
		if bufF == "" || fieldName(fa.X.Type(), fa.Field) != bufF {
			return ""
		}
		call, isCall := st.Val.(*ssa.Call)
		if !isCall {
			if sl, isSl := st.Val.(*ssa.Slice); isSl && sl.High != nil {
				if z, isK := constInt(sl.High); isK && z == 0 {
					return "" // truncation (Reset)
				}
			}
			return "?write-buffer-assignment"
		}
		if isBuiltinCall(call, "append") && len(call.Call.Args) == 2 {
			arg := call.Call.Args[1]
			if sl, isSl := arg.(*ssa.Slice); isSl {
				if a, isA := sl.X.(*ssa.Alloc); isA {
					if at, isArr := a.Type().Underlying().(*types.Pointer).Elem().Underlying().(*types.Array); isArr && sl.Low == nil && sl.High == nil {
						return fmt.Sprintf("B%d", at.Len()) // append(buf, b0, b1, ...)
					}
				}
			}
			return w.writeToken(fr, arg)
		}
		if sc := call.Call.StaticCallee(); sc != nil && qualName(sc) == "encoding/binary.AppendVarint" {
			if w.smallValue(call.Call.Args[1], st.Parent()) {
				return "Vs"
			}
			return "V"
		}
		return "?write-buffer-assignment"
	}
	return ""
}
