package main

// VAR-STD, second half: judging a hand-written varint encoder.
//
// When WriteBuf.Varint is not a single call of binary.AppendVarint, the rule
// tries to recognise the encoder by its shape instead of giving up:
//
//	zig-zag     z = uint64(v<<1) ^ uint64(v>>63)        (64-bit, arithmetic >> on the signed v)
//	LEB128      for z >= 0x80 { emit byte(z)|0x80; z >>= 7 }; emit byte(z)
//	fast path   under a guard that implies zigzag(v) < 0x80: emit byte(zigzag(v)) and return
//
// Everything the function puts on the buffer must be one of these. A fast
// path whose guard admits a value with a two-byte encoding is a violation;
// any other shape stays undecided.

import (
	"fmt"
	"go/token"
	"go/types"
	"strings"

	"golang.org/x/tools/go/ssa"
)

type bufAppend struct {
	instr ssa.Instruction
	val   ssa.Value // the single byte appended (nil: several bytes / not understood)
	blk   *ssa.BasicBlock
	std   bool // a call of the standard library's encoder on the buffer
}

// bufferChain: the values of fn that are "the write buffer with possibly
// more appended": loads of the buffer field, appends (builtin, or the
// standard library's binary.Append*) whose first argument is in the chain,
// and phis all of whose edges are in the chain.
func bufferChain(fn *ssa.Function, bufF string) map[ssa.Value]bool {
	chain := map[ssa.Value]bool{}
	for changed := true; changed; {
		changed = false
		for _, b := range fn.Blocks {
			for _, in := range b.Instrs {
				v, isV := in.(ssa.Value)
				if !isV || chain[v] {
					continue
				}
				ok := false
				switch x := in.(type) {
				case *ssa.UnOp:
					if fa, isFA := x.X.(*ssa.FieldAddr); isFA && x.Op == token.MUL && isWriteBufPtr(fa.X.Type()) && fieldName(fa.X.Type(), fa.Field) == bufF {
						ok = true
					}
				case *ssa.Call:
					if len(x.Call.Args) > 0 && chain[x.Call.Args[0]] {
						if isBuiltinCall(x, "append") {
							ok = true
						} else if g := x.Call.StaticCallee(); g != nil && strings.HasPrefix(qualName(g), "encoding/binary.Append") {
							ok = true
						}
					}
				case *ssa.Phi:
					// optimistic (a loop carries the buffer round): one edge in the chain; checked below
					for _, e := range x.Edges {
						if chain[e] {
							ok = true
						}
					}
				}
				if ok {
					chain[v] = true
					changed = true
				}
			}
		}
	}
	// prune what the optimism let in wrongly
	for changed := true; changed; {
		changed = false
		for v := range chain {
			bad := false
			switch x := v.(type) {
			case *ssa.Phi:
				for _, e := range x.Edges {
					if !chain[e] {
						bad = true
					}
				}
			case *ssa.Call:
				if len(x.Call.Args) == 0 || !chain[x.Call.Args[0]] {
					bad = true
				}
			}
			if bad {
				delete(chain, v)
				changed = true
			}
		}
	}
	return chain
}

// bufferAppends lists what fn appends to the write buffer: builtin appends in
// the buffer chain (whether stored back at once or carried in a local until
// the end) and calls of (*WriteBuf).Byte.
func bufferAppends(P *Program, fn *ssa.Function, bufF string) []bufAppend {
	var out []bufAppend
	chain := bufferChain(fn, bufF)
	for _, b := range fn.Blocks {
		for _, in := range b.Instrs {
			switch x := in.(type) {
			case *ssa.Call:
				if g := x.Call.StaticCallee(); g != nil && qualNameShort(g) == "(*WriteBuf).Byte" && len(x.Call.Args) == 2 {
					out = append(out, bufAppend{instr: in, val: x.Call.Args[1], blk: b})
					continue
				}
				if !chain[x] {
					continue
				}
				if !isBuiltinCall(x, "append") || len(x.Call.Args) != 2 {
					// the standard encoder applied to the buffer: accounted for by its caller
					out = append(out, bufAppend{instr: in, blk: b, std: true})
					continue
				}
				var bv ssa.Value
				if sl, isSl := x.Call.Args[1].(*ssa.Slice); isSl {
					if a, isA := sl.X.(*ssa.Alloc); isA {
						if at, isArr := a.Type().Underlying().(*types.Pointer).Elem().Underlying().(*types.Array); isArr && at.Len() == 1 {
							for _, r := range referrersOf(a) {
								if ia, ok := r.(*ssa.IndexAddr); ok {
									for _, r2 := range referrersOf(ia) {
										if es, ok := r2.(*ssa.Store); ok && es.Addr == ssa.Value(ia) {
											bv = es.Val
										}
									}
								}
							}
						}
					}
				}
				out = append(out, bufAppend{instr: in, val: bv, blk: b})
			case *ssa.Store:
				// a store into the buffer field of something that is not in the chain
				fa, ok := x.Addr.(*ssa.FieldAddr)
				if ok && isWriteBufPtr(fa.X.Type()) && fieldName(fa.X.Type(), fa.Field) == bufF && !chain[x.Val] {
					out = append(out, bufAppend{instr: in, blk: b})
				}
			}
		}
	}
	return out
}

func is64(t types.Type) bool {
	b, ok := t.Underlying().(*types.Basic)
	if !ok {
		return false
	}
	switch b.Kind() {
	case types.Int64, types.Uint64, types.Int, types.Uint, types.Uintptr:
		return true
	}
	return false
}

func isUnsigned64(t types.Type) bool {
	b, ok := t.Underlying().(*types.Basic)
	return ok && is64(t) && b.Info()&types.IsUnsigned != 0
}

// strip64: remove conversions between 64-bit integer types (they keep all bits).
func strip64(v ssa.Value) ssa.Value {
	for {
		switch x := v.(type) {
		case *ssa.ChangeType:
			v = x.X
		case *ssa.Convert:
			if is64(x.Type()) && is64(x.X.Type()) {
				v = x.X
				continue
			}
			return v
		default:
			return v
		}
	}
}

// isZigZag: e is (v << 1) ^ (v >> 63) computed on the signed 64-bit v, with
// conversions to unsigned anywhere after the shifts.
func isZigZag(e ssa.Value, v ssa.Value) bool {
	// the standard library's own spelling: ux := uint64(v) << 1; if v < 0 { ux = ^ux }
	if phi, isPhi := strip64(e).(*ssa.Phi); isPhi && len(phi.Edges) == 2 {
		shl1 := func(a ssa.Value) bool {
			b, ok := strip64(a).(*ssa.BinOp)
			if !ok || b.Op != token.SHL || strip64(b.X) != v || !is64(b.Type()) {
				return false
			}
			k, isK := constInt(b.Y)
			return isK && k == 1
		}
		for i := 0; i < 2; i++ {
			plain, flipped := phi.Edges[i], phi.Edges[1-i]
			if !shl1(plain) {
				continue
			}
			isCompl := false
			switch f := strip64(flipped).(type) {
			case *ssa.UnOp:
				isCompl = f.Op == token.XOR && strip64(f.X) == strip64(plain)
			case *ssa.BinOp:
				if f.Op == token.XOR && strip64(f.X) == strip64(plain) {
					if k, isK := constInt(f.Y); isK && k == -1 {
						isCompl = true
					}
				}
			}
			if !isCompl {
				continue
			}
			neg := func(facts []Cmp, want token.Token) bool {
				for _, c := range facts {
					if stripChange(c.X) == v {
						if k, isK := constInt(c.Y); isK && k == 0 && c.Op == want {
							return true
						}
					}
				}
				return false
			}
			pb := phi.Block()
			if neg(cmpFactsOnEdge(pb.Preds[1-i], pb), token.LSS) && neg(cmpFactsOnEdge(pb.Preds[i], pb), token.GEQ) {
				return true
			}
		}
		return false
	}
	x, ok := strip64(e).(*ssa.BinOp)
	if !ok || x.Op != token.XOR {
		return false
	}
	shl := func(a ssa.Value) bool {
		b, ok := strip64(a).(*ssa.BinOp)
		if !ok || b.Op != token.SHL || strip64(b.X) != v {
			return false
		}
		k, isK := constInt(b.Y)
		return isK && k == 1 && is64(b.Type())
	}
	sar := func(a ssa.Value) bool {
		b, ok := strip64(a).(*ssa.BinOp)
		if !ok || b.Op != token.SHR {
			return false
		}
		// the shift must be arithmetic: on the signed value itself
		if stripChange(b.X) != v || isUnsigned64(b.X.Type()) {
			return false
		}
		k, isK := constInt(b.Y)
		return isK && k == 63
	}
	return shl(x.X) && sar(x.Y) || shl(x.Y) && sar(x.X)
}

// byteOf: e is a conversion to an 8-bit type of inner; returns inner.
func byteOf(e ssa.Value) (ssa.Value, bool) {
	cv, ok := stripChange(e).(*ssa.Convert)
	if !ok {
		return nil, false
	}
	b, isB := cv.Type().Underlying().(*types.Basic)
	if !isB || (b.Kind() != types.Uint8 && b.Kind() != types.Int8) {
		return nil, false
	}
	return cv.X, true
}

// lebLoop: fn's appends are exactly the LEB128 emission of x0: a loop
// "while x >= 0x80 { emit byte(x)|0x80; x >>= 7 }" followed by "emit byte(x)".
func lebLoop(P *Program, fn *ssa.Function, x0 ssa.Value, apps []bufAppend) (ok bool, why string) {
	if len(apps) != 2 {
		return false, fmt.Sprintf("%d appends where the loop form has two", len(apps))
	}
	for _, l := range loopsOf(fn) {
		// the shifted value: a header phi fed by x0 from outside and by itself >> 7 from inside
		var X *ssa.Phi
		for _, in := range l.Header.Instrs {
			phi, isPhi := in.(*ssa.Phi)
			if !isPhi {
				break
			}
			fromOut, fromIn := false, false
			for i, ed := range phi.Edges {
				pred := l.Header.Preds[i]
				if l.Blocks[pred] {
					if sh, isSh := strip64(ed).(*ssa.BinOp); isSh && sh.Op == token.SHR && strip64(sh.X) == ssa.Value(phi) && isUnsigned64(sh.X.Type()) {
						if k, isK := constInt(sh.Y); isK && k == 7 {
							fromIn = true
						}
					}
				} else if strip64(ed) == strip64(x0) {
					fromOut = true
				}
			}
			if fromOut && fromIn && isUnsigned64(phi.Type()) {
				X = phi
			}
		}
		if X == nil {
			continue
		}
		iff, isIf := l.Header.Instrs[len(l.Header.Instrs)-1].(*ssa.If)
		if !isIf {
			return false, "the loop is not controlled by a test of the shifted value in its header"
		}
		cmp, isCmp := asCmp(iff.Cond, true)
		if !isCmp || strip64(cmp.X) != ssa.Value(X) {
			return false, "the loop condition does not test the shifted value"
		}
		k, isK := constInt(cmp.Y)
		if !isK {
			return false, "the loop condition does not compare with a constant"
		}
		var stay int // successor index taken while more bytes follow
		switch {
		case cmp.Op == token.GEQ && k == 0x80, cmp.Op == token.GTR && k == 0x7f:
			stay = 0
		case cmp.Op == token.LSS && k == 0x80, cmp.Op == token.LEQ && k == 0x7f:
			stay = 1
		default:
			return false, fmt.Sprintf("the loop continues on %s %d, not on >= 0x80", cmp.Op, k)
		}
		if !l.Blocks[l.Header.Succs[stay]] || l.Blocks[l.Header.Succs[1-stay]] {
			return false, "the loop does not continue exactly while the value is >= 0x80"
		}
		var inLoop, after *bufAppend
		for i := range apps {
			if l.Blocks[apps[i].blk] {
				inLoop = &apps[i]
			} else {
				after = &apps[i]
			}
		}
		if inLoop == nil || after == nil {
			return false, "one byte per iteration and one after the loop are expected"
		}
		// continuation byte: byte(x)|0x80, byte(x|0x80) or byte(x&0x7f)|0x80
		cont := false
		if or, isOr := stripChange(inLoop.val).(*ssa.BinOp); isOr && or.Op == token.OR {
			if kk, isKK := constInt(or.Y); isKK && kk == 0x80 {
				if inner, isB := byteOf(or.X); isB {
					if strip64(inner) == ssa.Value(X) {
						cont = true
					}
					if and, isAnd := strip64(inner).(*ssa.BinOp); isAnd && and.Op == token.AND && strip64(and.X) == ssa.Value(X) {
						if m, isM := constInt(and.Y); isM && m == 0x7f {
							cont = true
						}
					}
				}
			}
		}
		if inner, isB := byteOf(inLoop.val); isB {
			if or, isOr := strip64(inner).(*ssa.BinOp); isOr && or.Op == token.OR && strip64(or.X) == ssa.Value(X) {
				if kk, isKK := constInt(or.Y); isKK && kk == 0x80 {
					cont = true
				}
			}
		}
		if !cont {
			return false, "the byte emitted inside the loop is not the low seven bits with the continuation bit set"
		}
		if inner, isB := byteOf(after.val); !isB || strip64(inner) != ssa.Value(X) {
			return false, "the last byte emitted is not the remaining value"
		}
		if !l.Header.Dominates(after.blk) {
			return false, "the last byte is not emitted after the loop"
		}
		return true, ""
	}
	return false, "no loop shifting the value right by seven bits per byte was found"
}

// handVarint judges m = (*WriteBuf).Varint(v). Verdict: +1 recognised as the
// standard encoding, -1 provably not (msg says why), 0 not understood.
func handVarint(P *Program, m *ssa.Function, bufF string) (verdict int, msg string, helpers map[*ssa.Function]bool) {
	helpers = map[*ssa.Function]bool{}
	if len(m.Params) != 2 {
		return 0, "unexpected signature", helpers
	}
	v := ssa.Value(m.Params[1])
	apps := bufferAppends(P, m, bufF)
	// the main encoder: a call of the standard encoder, a LEB helper applied to zigzag(v), or the loop inline
	mainSeen := 0
	var mainBlk *ssa.BasicBlock
	for _, cs := range callsIn(m) {
		if cs.Static == nil {
			continue
		}
		switch q := qualName(cs.Static); {
		case q == "encoding/binary.AppendVarint" && len(cs.Common.Args) == 2 && cs.Common.Args[1] == v:
			mainSeen++
			mainBlk = cs.Block
		case q == "encoding/binary.AppendUvarint" && len(cs.Common.Args) == 2 && isZigZag(cs.Common.Args[1], v):
			mainSeen++
			mainBlk = cs.Block
		case P.isModuleFunc(cs.Static) && cs.Static.Blocks != nil && cs.Static.Signature.Recv() != nil && isWriteBufPtr(cs.Static.Signature.Recv().Type()) && len(cs.Common.Args) == 2 && len(cs.Static.Params) == 2 && isZigZag(cs.Common.Args[1], v):
			h := cs.Static
			if ok, why := lebLoop(P, h, h.Params[1], bufferAppends(P, h, bufF)); ok && calledOnlyFrom(P, h, map[*ssa.Function]bool{m: true}, 0) {
				mainSeen++
				mainBlk = cs.Block
				helpers[h] = true
			} else if !ok {
				return 0, "the helper " + h.Name() + " applied to the zig-zag value is not a recognised base-128 loop: " + why, helpers
			}
		}
	}
	// the results of the standard encoders are stored into the buffer: those stores are not hand-made appends
	var hand []bufAppend
	for _, a := range apps {
		if a.std {
			continue
		}
		hand = append(hand, a)
	}
	if mainSeen == 0 {
		// inline loop on a zig-zag value computed here
		var z ssa.Value
		for _, b := range m.Blocks {
			for _, in := range b.Instrs {
				if val, isV := in.(ssa.Value); isV && isZigZag(val, v) && is64(val.Type()) {
					z = val
				}
			}
		}
		if z == nil {
			return 0, "no zig-zag of the argument and no standard encoder found", helpers
		}
		var loopApps, rest []bufAppend
		for _, a := range hand {
			inL := false
			for _, l := range loopsOf(m) {
				if l.Blocks[a.blk] || l.Header.Dominates(a.blk) {
					inL = true
				}
			}
			if inL {
				loopApps = append(loopApps, a)
			} else {
				rest = append(rest, a)
			}
		}
		if ok, why := lebLoop(P, m, z, loopApps); !ok {
			return 0, "the loop over the zig-zag value is not a recognised base-128 loop: " + why, helpers
		}
		for _, l := range loopsOf(m) {
			mainBlk = l.Header
		}
		hand = rest
	} else if mainSeen > 1 {
		return 0, "more than one main encoder call", helpers
	}
	// what is left are fast paths: one byte, the zig-zag of v, under a guard that makes it fit in seven bits,
	// on a path that does not go on to the main encoder
	for _, a := range hand {
		if a.val == nil {
			return 0, "an append of something other than one byte at " + P.pos(a.instr.Pos()), helpers
		}
		if !isZigZagByte(a.val, v) {
			return 0, "a byte that is not the zig-zag form of the argument is appended at " + P.pos(a.instr.Pos()), helpers
		}
		if mainBlk != nil && reachableFrom(a.blk, nil)[mainBlk] {
			return -1, "the single-byte fast path at " + P.pos(a.instr.Pos()) + " goes on to the general encoder: the value is written twice", helpers
		}
		lo, hi, has := rangeFacts(a.blk, v)
		zlt, hasZ := zigzagBound(a.blk, v)
		switch {
		case hasZ && zlt <= 0x80:
		case has && lo >= -64 && hi <= 63:
		case has || hasZ:
			return -1, fmt.Sprintf("the single-byte fast path at %s is taken for values whose zig-zag form needs two bytes (guard admits %d..%d; one byte holds -64..63): the continuation bit of the byte written is set and the reader takes the next byte as part of this number", P.pos(a.instr.Pos()), lo, hi), helpers
		default:
			return 0, "the guard of the single-byte fast path at " + P.pos(a.instr.Pos()) + " is not a range test of the argument", helpers
		}
	}
	return 1, "", helpers
}

// isZigZagByte: e is the low byte of zigzag(v): byte(v<<1 ^ v>>63), or the
// xor taken after narrowing, byte(v<<1) ^ byte(v>>63).
func isZigZagByte(e ssa.Value, v ssa.Value) bool {
	if inner, ok := byteOf(e); ok && isZigZag(inner, v) {
		return true
	}
	x, ok := stripChange(e).(*ssa.BinOp)
	if !ok || x.Op != token.XOR {
		return false
	}
	part := func(a ssa.Value, op token.Token, k int64) bool {
		inner, ok := byteOf(a)
		if !ok {
			return false
		}
		b, ok := strip64(inner).(*ssa.BinOp)
		if !ok || b.Op != op {
			return false
		}
		if op == token.SHR && (stripChange(b.X) != v || isUnsigned64(b.X.Type())) {
			return false
		}
		if op == token.SHL && strip64(b.X) != v {
			return false
		}
		kk, isK := constInt(b.Y)
		return isK && kk == k
	}
	return part(x.X, token.SHL, 1) && part(x.Y, token.SHR, 63) || part(x.Y, token.SHL, 1) && part(x.X, token.SHR, 63)
}

// rangeFacts: the interval of v implied by comparisons with constants known at b.
func rangeFacts(b *ssa.BasicBlock, v ssa.Value) (lo, hi int64, has bool) {
	lo, hi = -1<<63, 1<<63-1
	hasLo, hasHi := false, false
	for _, cmp := range cmpFactsAt(b) {
		x, y, op := cmp.X, cmp.Y, cmp.Op
		if stripChange(y) == v {
			x, y, op = y, x, swapOp(op)
		}
		if stripChange(x) != v {
			continue
		}
		k, ok := constInt(y)
		if !ok {
			continue
		}
		switch op {
		case token.GEQ:
			if k > lo {
				lo = k
			}
			hasLo = true
		case token.GTR:
			if k+1 > lo {
				lo = k + 1
			}
			hasLo = true
		case token.LEQ:
			if k < hi {
				hi = k
			}
			hasHi = true
		case token.LSS:
			if k-1 < hi {
				hi = k - 1
			}
			hasHi = true
		case token.EQL:
			lo, hi, hasLo, hasHi = k, k, true, true
		}
	}
	return lo, hi, hasLo && hasHi
}

// zigzagBound: an upper bound (exclusive) on zigzag(v) known at b from an unsigned comparison.
func zigzagBound(b *ssa.BasicBlock, v ssa.Value) (int64, bool) {
	for _, cmp := range cmpFactsAt(b) {
		if !isZigZag(cmp.X, v) || !isUnsigned64(cmp.X.Type()) {
			continue
		}
		k, ok := constInt(cmp.Y)
		if !ok {
			continue
		}
		switch cmp.Op {
		case token.LSS:
			return k, true
		case token.LEQ:
			return k + 1, true
		}
	}
	return 0, false
}
