package main

// JS-TOTAL (C14): serialising a schema refuses nothing. "Serialising a schema
// yields valid JSON that parses back to an identical schema" is stated for
// every schema value produced by parsing or by generation, so the hand-written
// MarshalJSONTo may fail only by passing on an error of the JSON encoder: an
// error it makes up itself is a schema the parser accepted (or the generator
// produced) that cannot be written out again.

import (
	"fmt"
	"go/token"
	"strings"

	"golang.org/x/tools/go/ssa"
)

func ruleJSTotal(c *Ctx) {
	c.Rule("JS-TOTAL", "serialising a schema fails only when the JSON encoder fails: the marshaller constructs no error of its own", 1)
	P := c.P
	schemaT := P.NamedType(P.Avro, "Schema")
	var root *ssa.Function
	if schemaT != nil {
		root = P.Method(schemaT, "MarshalJSONTo")
	}
	if !c.Anchor(root != nil && root.Blocks != nil, "(*avro.Schema).MarshalJSONTo") {
		return
	}
	scope := []*ssa.Function{root}
	seen := map[*ssa.Function]bool{root: true}
	for i := 0; i < len(scope) && i < 32; i++ {
		for _, cs := range callsIn(scope[i]) {
			g := cs.Static
			if g == nil || !P.isModuleFunc(g) || g.Blocks == nil || seen[g] {
				continue
			}
			for _, a := range cs.Common.Args {
				if isJSONEncoderPtr(a.Type()) {
					seen[g] = true
					scope = append(scope, g)
					break
				}
			}
		}
	}
	for _, fn := range scope {
		key := fnKey(fn) + "/no-error-of-its-own"
		pos := P.pos(fn.Pos())
		var bad []string
		n := 0
		for _, r := range returnsOf(fn) {
			ev := errOperand(r)
			if ev == nil || isNilConst(ev) {
				continue
			}
			for _, s := range phiSources(ev) {
				if isNilConst(s) {
					continue
				}
				n++
				if ownError(s) {
					where := r.Pos()
					if in, ok := stripChange(s).(ssa.Instruction); ok && in.Pos().IsValid() {
						where = in.Pos()
					}
					bad = append(bad, fmt.Sprintf("an error of the marshaller's own making is returned at %s", P.pos(where)))
				}
			}
		}
		if len(bad) > 0 {
			c.Bad(key, pos, strings.Join(dedup(bad), "; ")+": a schema value that was parsed or generated cannot be serialised")
		} else {
			c.OK(key, pos, fmt.Sprintf("%d error returns, each passing on (or wrapping) an error of a JSON encoder call", n))
		}
	}
}

// JS-ACCEPT (C14): the hand-written parser refuses of its own accord only on the kind of the next JSON
// token. Whether a document is well-formed JSON is the JSON library's to say (its errors are passed on,
// ER-CHECK); what the schema parser adds is the dispatch on string / array / object. Any further refusal — a
// check of names, of attribute values — has to be shown to exclude nothing the specification allows, which
// this rule does not attempt: it is undecided.
func ruleJSAccept(c *Ctx) {
	c.Rule("JS-ACCEPT", "parsing a schema refuses of its own accord only on the kind of the next token (string, array, object, anything else): no valid schema document is turned away by a check of the parser's own", 1)
	P := c.P
	schemaT := P.NamedType(P.Avro, "Schema")
	var root *ssa.Function
	if schemaT != nil {
		root = P.Method(schemaT, "UnmarshalJSONFrom")
	}
	if !c.Anchor(root != nil && root.Blocks != nil, "(*avro.Schema).UnmarshalJSONFrom") {
		return
	}
	scope := []*ssa.Function{root}
	seen := map[*ssa.Function]bool{root: true}
	for i := 0; i < len(scope) && i < 32; i++ {
		for _, cs := range callsIn(scope[i]) {
			g := cs.Static
			if g == nil || !P.isModuleFunc(g) || g.Blocks == nil || seen[g] {
				continue
			}
			seen[g] = true
			scope = append(scope, g)
		}
	}
	var peekOnly func(v ssa.Value, d int) bool
	peekOnly = func(v ssa.Value, d int) bool {
		if d > 8 {
			return false
		}
		switch x := v.(type) {
		case *ssa.Const:
			return true
		case *ssa.Convert:
			return peekOnly(x.X, d+1)
		case *ssa.ChangeType:
			return peekOnly(x.X, d+1)
		case *ssa.UnOp:
			if x.Op == token.NOT {
				return peekOnly(x.X, d+1)
			}
			return false
		case *ssa.BinOp:
			return peekOnly(x.X, d+1) && peekOnly(x.Y, d+1)
		case *ssa.Call:
			g := x.Call.StaticCallee()
			return g != nil && g.Name() == "PeekKind" && len(x.Call.Args) == 1 && strings.HasSuffix(typeKey(x.Call.Args[0].Type()), "jsontext.Decoder")
		case *ssa.Extract:
			// "is there an entry for this kind" in a table that is only read after initialisation
			if lk, ok := x.Tuple.(*ssa.Lookup); ok && lk.CommaOk && x.Index == 1 {
				if ld, isLd := lk.X.(*ssa.UnOp); isLd && ld.Op == token.MUL {
					if g, isG := ld.X.(*ssa.Global); isG && initOnlyGlobals[g] {
						return peekOnly(lk.Index, d+1)
					}
				}
			}
		}
		return false
	}
	for _, fn := range scope {
		key := fnKey(fn) + "/refuses-on-token-kind-only"
		pos := P.pos(fn.Pos())
		var unk []string
		n := 0
		for _, r := range returnsOf(fn) {
			ev := errOperand(r)
			if ev == nil || isNilConst(ev) {
				continue
			}
			srcs := []ssa.Value{ev}
			var blocks []*ssa.BasicBlock
			if phi, ok := ev.(*ssa.Phi); ok {
				srcs = nil
				for i, ed := range phi.Edges {
					srcs = append(srcs, ed)
					blocks = append(blocks, phi.Block().Preds[i])
				}
			}
			for i, s := range srcs {
				if isNilConst(s) || !ownError(s) {
					continue
				}
				n++
				blk := r.Block()
				if blocks != nil {
					blk = blocks[i]
				} else if in, ok := stripChange(s).(ssa.Instruction); ok && in.Block() != nil {
					blk = in.Block()
				}
				for _, a := range guardAtoms(blk) {
					if a.dead() {
						continue
					}
					if !peekOnly(a.cond, 0) {
						unk = append(unk, fmt.Sprintf("%s refuses at %s on a test that is not of the kind of the next token: it is not shown that only documents the specification excludes are turned away", fn.Name(), P.pos(a.pos)))
					}
				}
			}
		}
		switch {
		case len(unk) > 0:
			c.Unk(key, pos, strings.Join(dedup(unk), "; "))
		case n == 0:
			c.OKTrivial(key, pos, "makes up no error of its own")
		default:
			c.OK(key, pos, fmt.Sprintf("%d error(s) of its own, each decided by the kind of the next token alone", n))
		}
	}
}
