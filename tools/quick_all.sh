#!/bin/bash
# run every property's quick (or $1) check in parallel on /repo; print failures
tier=${1:-quick}
cd /verif
tmp=$(mktemp -d)
for i in $(seq -w 1 20); do ( ./check C$i $tier > $tmp/C$i.out 2>&1; echo $? > $tmp/C$i.rc ) & done; wait
for i in $(seq -w 1 20); do rc=$(cat $tmp/C$i.rc); if [ "$rc" != 0 ]; then echo "C$i rc=$rc"; grep -E '^(VIOLATED|UNDECIDED|VIOLATION)' $tmp/C$i.out | head -8; fi; tail -1 $tmp/C$i.out; done
rm -rf $tmp
