package main

import (
	"fmt"
	"go/token"
	"go/types"
	"strings"

	"golang.org/x/tools/go/ssa"
)

// AL-OWNER: a bank that the library has handed to a callback (or returned) belongs to the user until the
// user closes it. The library may return a bank to the pool itself only when that bank cannot have been
// handed out: the receiver of a library-side Close is read from its holder at the moment of the call (the
// holder's current bank is the one installed after the last extraction, OD-BANK), not read earlier and
// closed later with hand-outs in between — which is what `defer holder.bank.Close()` before a delivery loop
// does, because a deferred call evaluates its receiver when the defer statement runs.

type libClose struct {
	in  ssa.Instruction
	bad bool
	unk bool
	why string
}

// handsOutBank: the instruction may give a bank to someone else: a call whose result is a bank pointer (an
// extraction), or a call through a function value that passes one.
func handsOutBank(in ssa.Instruction, isBankPtr func(types.Type) bool, isCloser func(*ssa.Function) bool) bool {
	ci, ok := in.(ssa.CallInstruction)
	if !ok {
		return false
	}
	cc := ci.Common()
	if g := cc.StaticCallee(); g != nil && isCloser(g) {
		return false
	}
	if v := ci.Value(); v != nil {
		if isBankPtr(v.Type()) {
			return true
		}
		if tup, ok := v.Type().(*types.Tuple); ok {
			for i := 0; i < tup.Len(); i++ {
				if isBankPtr(tup.At(i).Type()) {
					return true
				}
			}
		}
	}
	if cc.StaticCallee() == nil {
		for _, a := range cc.Args {
			if isBankPtr(a.Type()) {
				return true
			}
		}
	}
	return false
}

// privateHolderDecodes: the bank loaded by ld is a field of a holder that fn obtained itself (the result of a
// call, or an allocation of its own — not a parameter, a receiver or something loaded from one), and that holder
// is passed, as it is or merged with another reader, to a call that also receives a pointer (the destination).
// Returns such a call.
func privateHolderDecodes(fn *ssa.Function, ld *ssa.UnOp, isCloser func(*ssa.Function) bool) ssa.Instruction {
	fa, ok := ld.X.(*ssa.FieldAddr)
	if !ok {
		return nil
	}
	var roots func(v ssa.Value, d int) []ssa.Value
	roots = func(v ssa.Value, d int) []ssa.Value {
		if d > 6 {
			return []ssa.Value{v}
		}
		switch x := v.(type) {
		case *ssa.Phi:
			var out []ssa.Value
			for _, e := range x.Edges {
				out = append(out, roots(e, d+1)...)
			}
			return out
		case *ssa.ChangeType:
			return roots(x.X, d+1)
		case *ssa.UnOp:
			if x.Op == token.MUL {
				if a, isA := x.X.(*ssa.Alloc); isA {
					// a local variable: what is stored into it
					var out []ssa.Value
					for _, r := range referrersOf(a) {
						if st, isSt := r.(*ssa.Store); isSt && st.Addr == ssa.Value(a) {
							out = append(out, roots(st.Val, d+1)...)
						}
					}
					if len(out) > 0 {
						return out
					}
				}
			}
		}
		return []ssa.Value{v}
	}
	private := map[ssa.Value]bool{}
	for _, r := range roots(fa.X, 0) {
		switch x := r.(type) {
		case *ssa.Call:
			private[x] = true
		case *ssa.Alloc:
			if x.Heap {
				private[x] = true
			}
		case *ssa.Const:
			// nil before the holder is made
		default:
			return nil // a parameter, a field of one: not this function's own
		}
	}
	if len(private) == 0 {
		return nil
	}
	isHolder := func(v ssa.Value) bool {
		for _, r := range roots(v, 0) {
			if private[r] {
				return true
			}
		}
		return false
	}
	for _, b := range fn.Blocks {
		for _, in := range b.Instrs {
			ci, isCall := in.(ssa.CallInstruction)
			if !isCall {
				continue
			}
			cc := ci.Common()
			if g := cc.StaticCallee(); g != nil && isCloser(g) {
				continue
			}
			args := cc.Args
			holderArg, destArg := false, false
			for _, a := range args {
				if types.Identical(a.Type(), fa.X.Type()) && isHolder(a) {
					holderArg = true
					continue
				}
				switch t := a.Type().Underlying().(type) {
				case *types.Pointer:
					destArg = true
				case *types.Basic:
					if t.Kind() == types.UnsafePointer {
						destArg = true
					}
				}
			}
			if holderArg && destArg {
				return in
			}
		}
	}
	return nil
}

func libraryCloses(fns []*ssa.Function, isCloser func(*ssa.Function) bool, isBankPtr func(types.Type) bool) []libClose {
	var out []libClose
	for _, fn := range fns {
		if isCloser(fn) {
			continue
		}
		for _, b := range fn.Blocks {
			for idx, in := range b.Instrs {
				ci, ok := in.(ssa.CallInstruction)
				if !ok {
					continue
				}
				cc := ci.Common()
				g := cc.StaticCallee()
				if g == nil || !isCloser(g) || len(cc.Args) == 0 {
					continue
				}
				lc := libClose{in: in}
				recv := cc.Args[0]
				for {
					if ct, ok := recv.(*ssa.ChangeType); ok {
						recv = ct.X
						continue
					}
					break
				}
				if _, isGo := in.(*ssa.Go); isGo {
					lc.bad, lc.why = true, "a bank is closed on another goroutine"
					out = append(out, lc)
					continue
				}
				ld, isLoad := recv.(*ssa.UnOp)
				if !isLoad || ld.Op != token.MUL {
					// a bank this function made itself and gave to nobody is its own to close
					if cl, isCall := recv.(*ssa.Call); isCall {
						own := true
						for _, r := range referrersOf(cl) {
							if r != in {
								if _, dbg := r.(*ssa.DebugRef); !dbg {
									own = false
								}
							}
						}
						if own {
							lc.why = "closes a bank it has just obtained and given to nobody"
							out = append(out, lc)
							continue
						}
					}
					lc.unk, lc.why = true, "cannot tell whose bank is closed here (the receiver is not read from its holder at this point)"
					out = append(out, lc)
					continue
				}
				// a holder this function made for itself (a private reader): whatever is decoded through it is
				// allocated in the bank closed here, so it may not be decoded into memory that outlives the
				// function — which is what handing the holder to a decoder together with a destination does
				if use := privateHolderDecodes(fn, ld, isCloser); use != nil {
					lc.bad = true
					lc.why = fmt.Sprintf("the bank closed here belongs to a reader this function made for itself, and %s decodes through that reader into memory the function does not own: what was decoded lives in a bank that is back in the pool when the function returns, and the next record overwrites it", strings.TrimSpace(use.String()))
					out = append(out, lc)
					continue
				}
				if _, isDefer := in.(*ssa.Defer); isDefer {
					// the receiver was read when the defer statement ran; the close happens at exit
					var hand ssa.Instruction
					for _, x := range b.Instrs[idx+1:] {
						if handsOutBank(x, isBankPtr, isCloser) {
							hand = x
							break
						}
					}
					if hand == nil {
						for rb := range reachableFrom(b, nil) {
							if rb == b {
								// only through a cycle back to b: instructions before the defer
								cyc := false
								for _, s := range b.Succs {
									if reachableFrom(s, nil)[b] {
										cyc = true
									}
								}
								if !cyc {
									continue
								}
							}
							for _, x := range rb.Instrs {
								if rb == b && x == in {
									break
								}
								if handsOutBank(x, isBankPtr, isCloser) {
									hand = x
								}
							}
						}
					}
					if hand != nil {
						lc.bad = true
						lc.why = fmt.Sprintf("the receiver of this deferred Close is read when the defer statement runs, and %s can hand that very bank out before the function returns: the library closes (and returns to the pool) a bank the user still owns", strings.TrimSpace(hand.String()))
					} else {
						lc.why = "deferred close of the holder's bank with no hand-out afterwards"
					}
					out = append(out, lc)
					continue
				}
				// plain call: the read must be adjacent, with no hand-out between the read and the close
				if ld.Block() != b {
					lc.unk, lc.why = true, "the bank closed here was read from its holder in another block; hand-outs in between are not tracked"
					out = append(out, lc)
					continue
				}
				seenLoad := false
				for _, x := range b.Instrs[:idx] {
					if x == ssa.Instruction(ld) {
						seenLoad = true
						continue
					}
					if seenLoad && handsOutBank(x, isBankPtr, isCloser) {
						lc.bad, lc.why = true, fmt.Sprintf("%s hands the bank out between the read of the holder and this Close", strings.TrimSpace(x.String()))
					}
				}
				if !lc.bad {
					lc.why = "closes the holder's current bank, which has not been handed out"
					// ... and the holder must not go on holding it: a closed bank is in the pool, the next reader to
					// ask gets it. A holder that outlives this function (a receiver, a parameter) has to be given
					// another bank, or none, on every way out.
					if fa, isFA := ld.X.(*ssa.FieldAddr); isFA {
						if _, isParam := fa.X.(*ssa.Parameter); isParam {
							ap := accessPath(fa)
							var leak *ssa.Return
							visited := map[*ssa.BasicBlock]bool{}
							var walk func(bb *ssa.BasicBlock, from int)
							walk = func(bb *ssa.BasicBlock, from int) {
								if leak != nil {
									return
								}
								for _, x := range bb.Instrs[from:] {
									if st, isSt := x.(*ssa.Store); isSt && ap != "" && accessPath(st.Addr) == ap {
										return
									}
									if r, isR := x.(*ssa.Return); isR {
										leak = r
										return
									}
								}
								for _, sc := range bb.Succs {
									if !visited[sc] {
										visited[sc] = true
										walk(sc, 0)
									}
								}
							}
							walk(b, idx+1)
							if leak != nil {
								lc.bad = true
								lc.why = "the bank closed here (and so returned to the pool) is still held by " + ap + " when the function returns: the holder goes on decoding into a bank the next caller of the pool is given too"
							}
						}
					}
				}
				out = append(out, lc)
			}
		}
	}
	return out
}

func ruleALOwner(c *Ctx) {
	c.Rule("AL-OWNER", "only Close returns a bank to the pool, and the library itself closes a bank only when it cannot have been handed out (never one whose reference was taken before a delivery)", 1)
	P := c.P
	var pool *ssa.Global
	for _, g := range moduleGlobals(P) {
		if n, ok := types.Unalias(g.Type().(*types.Pointer).Elem()).(*types.Named); ok && n.Obj().Pkg() != nil && n.Obj().Pkg().Path() == "sync" && n.Obj().Name() == "Pool" {
			pool = g
		}
	}
	if !c.Anchor(pool != nil, "package-level sync.Pool of resource banks") {
		return
	}
	closers := map[*ssa.Function]bool{}
	var bankT types.Type
	n := 0
	for _, fn := range P.ModuleFuncs() {
		for _, cs := range callsIn(fn) {
			if cs.Static == nil || qualName(cs.Static) != "(*sync.Pool).Put" || len(cs.Common.Args) != 2 || cs.Common.Args[0] != ssa.Value(pool) {
				continue
			}
			n++
			key := fmt.Sprintf("%s/pool-put#%d", fnKey(fn), n)
			v := cs.Common.Args[1]
			if mi, ok := v.(*ssa.MakeInterface); ok {
				v = mi.X
			}
			if len(fn.Params) >= 1 && fn.Signature.Recv() != nil && v == ssa.Value(fn.Params[0]) {
				closers[fn] = true
				bankT = fn.Params[0].Type()
				c.OK(key, P.pos(cs.Instr.Pos()), fnKey(fn)+" puts its own receiver into the pool")
			} else {
				c.Bad(key, P.pos(cs.Instr.Pos()), "something other than the closing method's own receiver is put into the bank pool")
			}
		}
	}
	if len(closers) == 0 || bankT == nil {
		return
	}
	isCloser := func(g *ssa.Function) bool { return closers[g] || g.Origin() != nil && closers[g.Origin()] }
	isBankPtr := func(t types.Type) bool { return types.Identical(t, bankT) }
	k := 0
	for _, lc := range libraryCloses(P.ModuleFuncs(), isCloser, isBankPtr) {
		k++
		key := fmt.Sprintf("%s/library-close#%d", fnKey(lc.in.Parent()), k)
		switch {
		case lc.bad:
			c.Bad(key, P.pos(lc.in.Pos()), lc.why)
		case lc.unk:
			c.Unk(key, P.pos(lc.in.Pos()), lc.why)
		default:
			c.OK(key, P.pos(lc.in.Pos()), lc.why)
		}
	}
	if k == 0 {
		c.OK("module/no-library-close", "-", "nothing in the library closes a bank: banks are closed by their owners only")
	}
	fx := buildFixture(`package fx
type Bank struct{ n int }
func (b *Bank) Close() {}
type Buf struct{ rb *Bank }
func (r *Buf) Extract() *Bank { b := r.rb; r.rb = &Bank{}; return b }
func bad(r *Buf, cb func(*Bank)) { defer r.rb.Close(); for i := 0; i < 3; i++ { cb(r.Extract()) } }
func good(r *Buf, cb func(*Bank)) { defer func() { r.rb.Close() }(); for i := 0; i < 3; i++ { cb(r.Extract()) } }
func good2(r *Buf, cb func(*Bank)) { for i := 0; i < 3; i++ { cb(r.Extract()) }; r.rb.Close(); r.rb = nil }
func bad2(r *Buf) { r.rb.Close() }
func mk() *Buf { return &Buf{rb: &Bank{}} }
func bad3(r *Buf, n int, dst *int, dec func(*Buf, *int)) { var s *Buf; it := r; if n < 0 { s = mk(); defer s.rb.Close(); it = s }; dec(it, dst) }
`)
	if fx == nil {
		c.Unk("fixture/AL-OWNER", "-", "fixture package did not build")
		return
	}
	var ffns []*ssa.Function
	var fxClose *ssa.Function
	var fxBank types.Type
	for _, m := range fx.Members {
		if f, ok := m.(*ssa.Function); ok {
			ffns = append(ffns, f)
			ffns = append(ffns, f.AnonFuncs...)
		}
		if t, ok := m.(*ssa.Type); ok && t.Name() == "Bank" {
			fxBank = types.NewPointer(t.Type())
			fxClose = fx.Prog.LookupMethod(fxBank, fx.Pkg, "Close")
		}
	}
	hits := map[string]string{}
	for _, lc := range libraryCloses(ffns, func(g *ssa.Function) bool { return g == fxClose }, func(t types.Type) bool { return fxBank != nil && types.Identical(t, fxBank) }) {
		v := "ok"
		if lc.bad {
			v = "bad"
		} else if lc.unk {
			v = "unk"
		}
		hits[lc.in.Parent().Name()] = v
	}
	o := c.ob(Discharged, "fixture/AL-OWNER", "-", fmt.Sprintf("positive fixture: %v (expected bad in bad, bad2 and bad3 only)", hits), false)
	if !(len(hits) == 5 && hits["bad"] == "bad" && hits["bad2"] == "bad" && hits["bad3"] == "bad" && hits["good$1"] == "ok" && hits["good2"] == "ok") {
		o.Verdict, o.VerdictS = Undecided, "undecided"
	}
}
