package main

// E-LK: lock and sharing discipline (C12): LK-GUARD, LK-GLOBAL, LK-IMMUT,
// LK-POOL, LK-OWN.

import (
	"fmt"
	"go/token"
	"go/types"
	"sort"
	"strings"

	"golang.org/x/tools/go/ssa"
)

// guardedBy is the guarded-by table: package-level maps and the mutex that
// protects each. On the pinned tree it is {avro.registry: avro.registryMutex,
// avro.schemaRegistry: avro.schemaRegistryMutex, time.tzMap: time.tzLock}
// (6/6 consistent accesses, confirmed by reading). It is recomputed from the
// current source by computeGuardedBy so that renaming or moving these
// variables is not an event: a package-level map is guarded by the
// package-level mutex that is locked in the largest number of the functions
// touching the map (at least one). A map for which no such mutex exists is
// left to LK-GLOBAL, which rejects unsynchronised shared state; LK-GUARD then
// demands the inferred mutex at every single access.
var guardedBy = map[string]string{}

// role names of the two registries (set by computeGuardedBy): the map from
// reflect.Type to a codec builder, and the map from reflect.Type to a Schema.
var registryKey, schemaRegistryKey = "avro.registry", "avro.schemaRegistry"

// initOnlyGlobals: package-level variables written only by package initialisers and whose slices or maps are
// never handed on: constants in all but name (LK-GLOBAL decides exactly this for each of them).
var initOnlyGlobals map[*ssa.Global]bool

func computeGuardedBy(P *Program) {
	guardedBy = map[string]string{}
	isMutex := func(t types.Type) bool {
		n, ok := types.Unalias(t).(*types.Named)
		return ok && n.Obj().Pkg() != nil && n.Obj().Pkg().Path() == "sync" && (n.Obj().Name() == "Mutex" || n.Obj().Name() == "RWMutex")
	}
	writes := globalWrites(P, P.ModuleFuncs())
	escapes := globalAliasEscapes(P, P.ModuleFuncs())
	initOnlyGlobals = map[*ssa.Global]bool{}
	addrUsed := globalAddressUses(P)
	for _, g := range moduleGlobals(P) {
		if len(writes[g]) == 0 && len(escapes[g]) == 0 && !addrUsed[g] {
			initOnlyGlobals[g] = true
		}
	}
	for _, g := range moduleGlobals(P) {
		mt, isMap := g.Type().(*types.Pointer).Elem().Underlying().(*types.Map)
		if !isMap {
			continue
		}
		// a table filled by the package initialiser and only read afterwards needs no guard, whatever its readers lock
		if len(writes[g]) == 0 {
			continue
		}
		votes := map[string]int{}
		for _, fn := range P.ModuleFuncs() {
			if isInitFunc(fn) {
				continue
			}
			touches := false
			locked := map[string]bool{}
			for _, b := range fn.Blocks {
				for _, in := range b.Instrs {
					if ld, ok := in.(*ssa.UnOp); ok && ld.Op == token.MUL && ld.X == ssa.Value(g) {
						touches = true
					}
					if ci, ok := in.(ssa.CallInstruction); ok {
						if sc := ci.Common().StaticCallee(); sc != nil && len(ci.Common().Args) > 0 {
							switch qualName(sc) {
							case "(*sync.Mutex).Lock", "(*sync.RWMutex).Lock", "(*sync.RWMutex).RLock":
								if mg, ok := ci.Common().Args[0].(*ssa.Global); ok && isMutex(mg.Type().(*types.Pointer).Elem()) && mg.Pkg == g.Pkg {
									locked[globalKey(mg)] = true
								}
							}
						}
					}
				}
			}
			if touches {
				for m := range locked {
					votes[m]++
				}
			}
		}
		best, bestN := "", 0
		var ms []string
		for m := range votes {
			ms = append(ms, m)
		}
		sort.Strings(ms)
		for _, m := range ms {
			if votes[m] > bestN {
				best, bestN = m, votes[m]
			}
		}
		if best != "" {
			guardedBy[globalKey(g)] = best
		}
		// roles
		if isReflectType(mt.Key()) {
			if sig, ok := mt.Elem().Underlying().(*types.Signature); ok && isCodecErrorSig(P, sig) {
				registryKey = globalKey(g)
			}
			if typeKey(mt.Elem()) == "avro.Schema" {
				schemaRegistryKey = globalKey(g)
			}
		}
	}
}

func globalKey(g *ssa.Global) string { return g.Pkg.Pkg.Name() + "." + g.Name() }

// isInitBody: fn is a package initialiser itself; a closure it creates (the
// New function of a pool, say) runs later and is not part of initialisation.
func isInitBody(fn *ssa.Function) bool {
	return fn.Parent() == nil && (fn.Name() == "init" || strings.HasPrefix(fn.Name(), "init#"))
}

func isInitFunc(fn *ssa.Function) bool {
	for f := fn; f != nil; f = f.Parent() {
		if f.Name() == "init" || strings.HasPrefix(f.Name(), "init#") {
			return true
		}
	}
	return false
}

// rootOfAddr follows FieldAddr / IndexAddr / loads / slices back to the value
// an address is derived from, and reports whether a dereference of shared
// storage (pointer load, slice/map element) was crossed on the way.
func rootOfAddr(v ssa.Value) (root ssa.Value, deref bool) {
	for i := 0; i < 32; i++ {
		switch x := v.(type) {
		case *ssa.FieldAddr:
			v = x.X
		case *ssa.IndexAddr:
			if _, isSlice := x.X.Type().Underlying().(*types.Slice); isSlice {
				deref = true
			}
			v = x.X
		case *ssa.UnOp:
			if x.Op != token.MUL {
				return v, deref
			}
			// load of a pointer/slice/map held somewhere
			deref = true
			v = x.X
		case *ssa.Slice:
			v = x.X
		case *ssa.ChangeType:
			v = x.X
		case *ssa.Convert:
			v = x.X
		case *ssa.Field:
			v = x.X
		case *ssa.Phi:
			// follow the first non-self edge (used for loop cursors)
			var nx ssa.Value
			for _, e := range x.Edges {
				if e != ssa.Value(x) {
					nx = e
					break
				}
			}
			if nx == nil {
				return v, deref
			}
			v = nx
		default:
			return v, deref
		}
	}
	return v, deref
}

// ---------- must-hold lock dataflow

type lockState map[string]int // lock key -> 0 none, 1 read, 2 write

func (s lockState) clone() lockState {
	o := lockState{}
	for k, v := range s {
		o[k] = v
	}
	return o
}

func meetLock(a, b lockState) lockState {
	o := lockState{}
	for k, v := range a {
		if w, ok := b[k]; ok {
			if w < v {
				v = w
			}
			if v > 0 {
				o[k] = v
			}
		}
	}
	return o
}

func lockEq(a, b lockState) bool {
	if len(a) != len(b) {
		return false
	}
	for k, v := range a {
		if b[k] != v {
			return false
		}
	}
	return true
}

// lockKey names a mutex: a package-level one, or the mutex field of a struct
// reached from a value of this function (the receiver of a method of a type
// that bundles a mutex with what it guards).
func lockKey(v ssa.Value) string {
	switch x := v.(type) {
	case *ssa.Global:
		return "G:" + x.String()
	case *ssa.FieldAddr:
		if b := lockBaseKey(x.X); b != "" {
			return fmt.Sprintf("%s.%d", b, x.Field)
		}
	}
	return ""
}

func lockBaseKey(v ssa.Value) string {
	switch x := v.(type) {
	case *ssa.Global:
		return "G:" + x.String()
	case *ssa.Parameter:
		return "P:" + x.Name()
	case *ssa.FieldAddr:
		if b := lockBaseKey(x.X); b != "" {
			return fmt.Sprintf("%s.%d", b, x.Field)
		}
	}
	return ""
}

func lockOp(in ssa.Instruction) (key string, op string) {
	call, ok := in.(*ssa.Call) // a deferred Unlock releases at exit: not a release here
	if !ok {
		return "", ""
	}
	sc := call.Call.StaticCallee()
	if sc == nil || len(call.Call.Args) == 0 {
		return "", ""
	}
	q := qualName(sc)
	if !strings.HasPrefix(q, "(*sync.RWMutex).") && !strings.HasPrefix(q, "(*sync.Mutex).") {
		return "", ""
	}
	return lockKey(call.Call.Args[0]), sc.Name()
}

// heldLocks computes, for every instruction of fn, the locks that are held on
// every path reaching it (before the instruction executes).
func heldLocks(fn *ssa.Function) map[ssa.Instruction]lockState {
	in := map[*ssa.BasicBlock]lockState{}
	out := map[*ssa.BasicBlock]lockState{}
	res := map[ssa.Instruction]lockState{}
	transfer := func(b *ssa.BasicBlock, s lockState, record bool) lockState {
		s = s.clone()
		for _, i := range b.Instrs {
			if record {
				res[i] = s.clone()
			}
			if g, op := lockOp(i); g != "" {
				switch op {
				case "Lock":
					s[g] = 2
				case "RLock":
					if s[g] < 1 {
						s[g] = 1
					}
				case "Unlock", "RUnlock":
					delete(s, g)
				}
			}
		}
		return s
	}
	// initialise: entry none; others "top" = unknown (nil) until visited
	visited := map[*ssa.BasicBlock]bool{}
	changed := true
	for iter := 0; changed && iter < 100; iter++ {
		changed = false
		for _, b := range fn.Blocks {
			var s lockState
			if b == fn.Blocks[0] {
				s = lockState{}
			} else {
				first := true
				for _, p := range b.Preds {
					if !visited[p] {
						continue
					}
					if first {
						s = out[p].clone()
						first = false
					} else {
						s = meetLock(s, out[p])
					}
				}
				if first {
					continue // no visited pred yet
				}
			}
			o := transfer(b, s, false)
			if !visited[b] || !lockEq(in[b], s) || !lockEq(out[b], o) {
				changed = true
			}
			visited[b] = true
			in[b], out[b] = s, o
		}
	}
	for _, b := range fn.Blocks {
		if visited[b] {
			transfer(b, in[b], true)
		}
	}
	return res
}

func ruleLKGuard(c *Ctx) {
	c.Rule("LK-GUARD", "every access to a guarded package-level map happens with its mutex held (exclusively for writes), and the map value does not leave the critical section", 6)
	P := c.P
	globals := map[string]*ssa.Global{}
	for _, sp := range []*ssa.Package{P.Avro, P.Time, P.Null} {
		for _, m := range sp.Members {
			if g, ok := m.(*ssa.Global); ok {
				globals[globalKey(g)] = g
			}
		}
	}
	var names []string
	for v := range guardedBy {
		names = append(names, v)
	}
	sort.Strings(names)
	defer ruleLKMonitor(c)
	for _, vn := range names {
		if g := globals[vn]; g != nil && monitorTypes[typeKey(g.Type().(*types.Pointer).Elem())] != nil {
			continue // a struct bundling its own mutex: decided by ruleLKMonitor
		}
		v, mu := globals[vn], globals[guardedBy[vn]]
		if !c.Anchor(v != nil && mu != nil, vn+" guarded by "+guardedBy[vn]) {
			continue
		}
		for _, fn := range P.ModuleFuncs() {
			if isInitFunc(fn) {
				continue
			}
			var held map[ssa.Instruction]lockState
			n := 0
			for _, b := range fn.Blocks {
				for _, in := range b.Instrs {
					ld, ok := in.(*ssa.UnOp)
					if !ok || ld.Op != token.MUL || ld.X != ssa.Value(v) {
						continue
					}
					if held == nil {
						held = heldLocks(fn)
					}
					n = judgeGuardedUses(c, fn, ld, held, lockKey(mu), v.Name(), vn, guardedBy[vn], n)
				}
			}
		}
	}
}

// moduleGlobals lists the package-level variables of the module.
func moduleGlobals(P *Program) []*ssa.Global {
	var out []*ssa.Global
	for _, sp := range []*ssa.Package{P.Avro, P.Time, P.Null} {
		for _, m := range sp.Members {
			if g, ok := m.(*ssa.Global); ok && !strings.HasPrefix(g.Name(), "init$") {
				out = append(out, g)
			}
		}
	}
	sort.Slice(out, func(i, j int) bool { return globalKey(out[i]) < globalKey(out[j]) })
	return out
}

// isSyncType: a synchronisation primitive proper — something that orders accesses but holds no data of the
// program's own. sync.Map and the sync/atomic types are not: they are containers, race-free but shared, and
// what one goroutine (or one earlier call) put there is what the next one reads.
func isSyncType(t types.Type) bool {
	n, ok := types.Unalias(t).(*types.Named)
	if !ok || n.Obj().Pkg() == nil || n.Obj().Pkg().Path() != "sync" {
		return false
	}
	switch n.Obj().Name() {
	case "Mutex", "RWMutex", "Once", "WaitGroup", "Cond", "Pool":
		return true
	}
	return false
}

// isSharedContainerType: sync.Map or a sync/atomic value.
func isSharedContainerType(t types.Type) bool {
	n, ok := types.Unalias(t).(*types.Named)
	if !ok || n.Obj().Pkg() == nil {
		return false
	}
	return n.Obj().Pkg().Path() == "sync/atomic" || n.Obj().Pkg().Path() == "sync" && n.Obj().Name() == "Map"
}

// globalWrites returns the instructions outside package initialisers that
// may modify storage owned by a package-level variable.
func globalWrites(P *Program, fns []*ssa.Function) map[*ssa.Global][]ssa.Instruction {
	out := map[*ssa.Global][]ssa.Instruction{}
	for _, fn := range fns {
		if isInitBody(fn) {
			continue
		}
		for _, b := range fn.Blocks {
			for _, in := range b.Instrs {
				switch x := in.(type) {
				case *ssa.Store:
					if r, _ := rootOfAddr(x.Addr); r != nil {
						if g, ok := r.(*ssa.Global); ok {
							out[g] = append(out[g], in)
						}
					}
				case *ssa.MapUpdate:
					if r, _ := rootOfAddr(x.Map); r != nil {
						if g, ok := r.(*ssa.Global); ok {
							out[g] = append(out[g], in)
						}
					}
				case *ssa.Call:
					if bi, ok := x.Call.Value.(*ssa.Builtin); ok && (bi.Name() == "delete" || bi.Name() == "clear" || bi.Name() == "copy") && len(x.Call.Args) > 0 {
						if r, _ := rootOfAddr(x.Call.Args[0]); r != nil {
							if g, ok := r.(*ssa.Global); ok {
								out[g] = append(out[g], in)
							}
						}
					}
					// a method of a shared container (sync.Map, sync/atomic.*) applied to a package-level variable:
					// Store, Swap, CompareAndSwap, Add, LoadOrStore, Delete ... all may write; so, for the purposes of
					// "state shared between calls", does Load — it reads what another call wrote
					for _, a := range x.Call.Args {
						if g, ok := a.(*ssa.Global); ok && isSharedContainerType(g.Type().(*types.Pointer).Elem()) {
							out[g] = append(out[g], in)
						}
					}
				}
			}
		}
	}
	return out
}

func ruleLKGlobal(c *Ctx) {
	c.Rule("LK-GLOBAL", "package-level variables are either in the guarded-by table, of a sync type, or written only by package initialisers", 20)
	P := c.P
	writes := globalWrites(P, P.ModuleFuncs())
	for _, g := range moduleGlobals(P) {
		key := "global/" + globalKey(g)
		elem := g.Type().(*types.Pointer).Elem()
		if _, guarded := guardedBy[globalKey(g)]; guarded {
			c.OKTrivial(key, P.pos(g.Pos()), "in the guarded-by table (LK-GUARD decides its accesses)")
			continue
		}
		if isSyncType(elem) {
			c.OKTrivial(key, P.pos(g.Pos()), "a sync primitive: used through its methods")
			continue
		}
		if ws := writes[g]; len(ws) > 0 {
			c.Bad(key, P.pos(ws[0].Pos()), fmt.Sprintf("package-level variable %s is modified outside package initialisation (%s) and has no guard in the table: unsynchronised shared state", globalKey(g), ws[0].Parent().Name()))
			continue
		}
		c.OK(key, P.pos(g.Pos()), "written only by the package initialiser")
	}
	// aliasing: the slice or map a package-level variable holds must not be installed elsewhere (a field, a return
	// value, an append): writes through the copy would be unsynchronised writes to the shared storage
	esc := globalAliasEscapes(P, P.ModuleFuncs())
	for _, g := range moduleGlobals(P) {
		if _, guarded := guardedBy[globalKey(g)]; guarded {
			continue
		}
		if es := esc[g]; len(es) > 0 {
			c.Bad("global/"+globalKey(g)+"/alias", P.pos(es[0].Pos()), fmt.Sprintf("the slice or map held by package-level variable %s is handed on (%s in %s): whatever is written through that copy is shared, unsynchronised, by everything that got it", globalKey(g), strings.TrimSpace(es[0].String()), es[0].Parent().Name()))
		}
	}
	// fixture: the rule must see a write outside init in a tiny positive example
	fx := buildFixture(`package fx
var cache map[int]int
var arr [4]int
func put(k int) { cache[k] = k }
func set(i int) { arr[i] = 1 }
func init() { cache = map[int]int{} }
type bank struct{ types []int }
var base = []int{1, 2, 3}
func newBank() *bank { return &bank{types: base} }
func grow(x int) []int { return append(base, x) }
func sum() int { t := 0; for _, v := range base { t += v }; return t + len(base) + base[0] }
`)
	if fx == nil {
		c.Unk("fixture/LK-GLOBAL", "-", "fixture package did not build")
		return
	}
	var ffns []*ssa.Function
	for _, m := range fx.Members {
		if f, ok := m.(*ssa.Function); ok {
			ffns = append(ffns, f)
		}
	}
	fw := globalWrites(P, ffns)
	n := 0
	for _, ws := range fw {
		n += len(ws)
	}
	fa := 0
	faWhat := ""
	for _, es := range globalAliasEscapes(P, ffns) {
		fa += len(es)
		for _, e := range es {
			faWhat += e.Parent().Name() + ":" + strings.TrimSpace(e.String()) + "; "
		}
	}
	oa := c.ob(Discharged, "fixture/LK-GLOBAL/alias", "-", fmt.Sprintf("positive fixture: %d escapes of a package-level slice found in the fixture (expected 3: %s)", fa, faWhat), false)
	if fa != 3 {
		oa.Verdict, oa.VerdictS = Undecided, "undecided"
	}
	o := c.ob(Discharged, "fixture/LK-GLOBAL", "-", fmt.Sprintf("positive fixture: %d writes outside init found in the fixture (expected 2)", n), false)
	if n != 2 {
		o.Verdict, o.VerdictS = Undecided, "undecided"
	}
}

func ruleLKImmut(c *Ctx) {
	c.Rule("LK-IMMUT", "no method of a codec type writes through its receiver: built codecs are immutable and may be shared between goroutines", 100)
	P := c.P
	for _, ct := range P.CodecTypes() {
		// every method declared on the type, not only the five interface methods
		nt := ct.T.(*types.Named)
		seen := map[*ssa.Function]bool{}
		var fns []*ssa.Function
		for _, rt := range []types.Type{nt, types.NewPointer(nt)} {
			ms := P.Prog.MethodSets.MethodSet(rt)
			for i := 0; i < ms.Len(); i++ {
				if len(ms.At(i).Index()) != 1 {
					continue // promoted: checked on the embedded type
				}
				fn := P.Prog.MethodValue(ms.At(i))
				if fn == nil || fn.Synthetic != "" && !strings.Contains(fn.Synthetic, "instance") {
					continue
				}
				if !seen[fn] {
					seen[fn] = true
					fns = append(fns, fn)
				}
			}
		}
		sort.Slice(fns, func(i, j int) bool { return fnKey(fns[i]) < fnKey(fns[j]) })
		for _, fn := range fns {
			if len(fn.Params) == 0 || fn.Blocks == nil {
				continue
			}
			recv := fn.Params[0]
			_, ptrRecv := recv.Type().Underlying().(*types.Pointer)
			key := fnKey(fn) + "/receiver-writes"
			bad := ""
			check := func(addr ssa.Value, in ssa.Instruction) {
				root, deref := rootOfAddr(addr)
				isRecv := root == ssa.Value(recv)
				if a, ok := root.(*ssa.Alloc); ok && !isRecv {
					// value receiver spilled to a local: find store of recv into it
					for _, r := range referrersOf(a) {
						if st, ok := r.(*ssa.Store); ok && st.Addr == ssa.Value(a) && st.Val == ssa.Value(recv) {
							isRecv = true
						}
					}
				}
				if isRecv && (ptrRecv || deref) {
					bad = P.pos(in.Pos())
				}
			}
			for _, b := range fn.Blocks {
				for _, in := range b.Instrs {
					switch x := in.(type) {
					case *ssa.Store:
						check(x.Addr, in)
					case *ssa.MapUpdate:
						check(x.Map, in)
					}
				}
			}
			c.Check(bad == "", key, P.pos(fn.Pos()), "no store or map update is rooted at the receiver", "the method writes through its receiver at "+bad+": a codec shared between goroutines would race")
		}
	}
}

func ruleLKPool(c *Ctx) {
	c.Rule("LK-POOL", "the resource-bank pool is used only through Get and Put, and only hands out *ResourceBank", 3)
	P := c.P
	var pool *ssa.Global
	for _, g := range moduleGlobals(P) {
		if n, ok := types.Unalias(g.Type().(*types.Pointer).Elem()).(*types.Named); ok && n.Obj().Pkg() != nil && n.Obj().Pkg().Path() == "sync" && n.Obj().Name() == "Pool" {
			pool = g
		}
	}
	if !c.Anchor(pool != nil, "package-level sync.Pool of resource banks") {
		return
	}
	n := 0
	for _, fn := range P.ModuleFuncs() {
		for _, b := range fn.Blocks {
			for _, in := range b.Instrs {
				for _, op := range in.Operands(nil) {
					if *op != ssa.Value(pool) {
						continue
					}
					n++
					key := fmt.Sprintf("%s/pool-use#%d", fnKey(fn), n)
					if isInitFunc(fn) {
						// the New field initialiser
						if fa, ok := in.(*ssa.FieldAddr); ok && fieldName(fa.X.Type(), fa.Field) == "New" {
							okNew := false
							for _, r := range referrersOf(fa) {
								if st, ok := r.(*ssa.Store); ok {
									if f, ok := stripChange(st.Val).(*ssa.Function); ok {
										okNew = true
										for _, ret := range returnsOf(f) {
											mi, isMI := ret.Results[0].(*ssa.MakeInterface)
											if !isMI || typeKey(mi.X.Type()) != "*avro.ResourceBank" {
												okNew = false
											}
										}
									}
								}
							}
							c.Check(okNew, key, P.pos(in.Pos()), "Pool.New returns a fresh *ResourceBank", "Pool.New does not return a fresh *ResourceBank")
						} else {
							c.OKTrivial(key, P.pos(in.Pos()), "initialisation")
						}
						continue
					}
					call, isCall := in.(*ssa.Call)
					if isCall && call.Call.StaticCallee() != nil {
						q := qualName(call.Call.StaticCallee())
						if q == "(*sync.Pool).Get" || q == "(*sync.Pool).Put" {
							c.OK(key, P.pos(in.Pos()), q)
							continue
						}
					}
					c.Bad(key, P.pos(in.Pos()), "the pool is used other than through Get/Put: "+in.String())
				}
			}
		}
	}
}

func ruleLKOwn(c *Ctx) {
	c.Rule("LK-OWN", "stateful compressors are created per reader / per file writer and never live in package-level state", 3)
	P := c.P
	s := findReadFile(P)
	if !c.Anchor(s.compIface != nil, "compression interface") {
		return
	}
	stateful := map[string]bool{}
	for _, impl := range implementations(P, s.compIface) {
		if st, ok := impl.Underlying().(*types.Struct); ok && st.NumFields() > 0 {
			stateful[typeKey(impl)] = true
		}
	}
	mentions := func(t types.Type) bool {
		seen := map[types.Type]bool{}
		var rec func(t types.Type) bool
		rec = func(t types.Type) bool {
			if seen[t] {
				return false
			}
			seen[t] = true
			if types.Identical(t, s.compIface) || stateful[typeKey(t)] {
				return true
			}
			switch x := t.Underlying().(type) {
			case *types.Pointer:
				return rec(x.Elem())
			case *types.Slice:
				return rec(x.Elem())
			case *types.Array:
				return rec(x.Elem())
			case *types.Map:
				return rec(x.Elem()) || rec(x.Key())
			case *types.Struct:
				if n, ok := types.Unalias(t).(*types.Named); ok && n.Obj().Pkg() != nil && !P.isModulePkg(n.Obj().Pkg()) {
					return false
				}
				for i := 0; i < x.NumFields(); i++ {
					if rec(x.Field(i).Type()) {
						return true
					}
				}
			}
			return false
		}
		return rec(t)
	}
	for _, g := range moduleGlobals(P) {
		if mentions(g.Type().(*types.Pointer).Elem()) {
			c.Bad("global/"+globalKey(g), P.pos(g.Pos()), "a package-level variable holds a stateful compressor: concurrent readers/writers would share its buffers")
		}
	}
	c.OK("globals/no-compressor", "-", fmt.Sprintf("no package-level variable's type reaches a stateful compressor (%d stateful types)", len(stateful)))
	wfn := P.Func(P.Avro, "NewFileWriter")
	allowed := map[*ssa.Function]bool{s.fn: true, wfn: true}
	n := 0
	for _, fn := range P.ModuleFuncs() {
		for _, b := range fn.Blocks {
			for _, in := range b.Instrs {
				a, ok := in.(*ssa.Alloc)
				if !ok || !stateful[typeKey(a.Type().(*types.Pointer).Elem())] {
					continue
				}
				n++
				key := fmt.Sprintf("%s/new-compressor#%d", fnKey(fn), n)
				// a constructor literal kept in an initialisation-time table hands out a fresh compressor per call,
				// whoever calls it (that no package-level variable can hold one is checked above)
				tableCtor := fn.Parent() != nil && fn.Parent().Synthetic != "" && fn.Parent().Name() == "init"
				okOwn := allowed[fn] || onlyReturned(a) && (calledOnlyFrom(P, fn, allowed, 0) || tableCtor)
				c.Check(okOwn, key, P.pos(a.Pos()), "allocated per ReadFile call / per FileWriter (directly, or by a helper that only returns it to them)", "a stateful compressor is allocated outside ReadFile/NewFileWriter")
			}
		}
	}
}

// onlyReturned: the allocation's only uses are being returned (possibly as an
// interface value, possibly through phis) — it is not stored anywhere.
func onlyReturned(a ssa.Value) bool {
	seen := map[ssa.Value]bool{}
	var rec func(v ssa.Value) bool
	rec = func(v ssa.Value) bool {
		if seen[v] {
			return true
		}
		seen[v] = true
		for _, r := range referrersOf(v) {
			switch x := r.(type) {
			case *ssa.DebugRef, *ssa.Return:
			case *ssa.MakeInterface:
				if !rec(x) {
					return false
				}
			case *ssa.Phi:
				if !rec(x) {
					return false
				}
			case *ssa.FieldAddr:
				// initialising the fresh object's own fields
				for _, rr := range referrersOf(x) {
					if st, ok := rr.(*ssa.Store); !ok || st.Addr != ssa.Value(x) {
						return false
					}
				}
			default:
				return false
			}
		}
		return true
	}
	return rec(a)
}

// calledOnlyFrom: fn is never used as a value and every call of it is in an
// allowed function (or in a helper for which the same holds).
func calledOnlyFrom(P *Program, fn *ssa.Function, allowed map[*ssa.Function]bool, depth int) bool {
	if depth > 3 {
		return false
	}
	n := 0
	for _, g := range P.ModuleFuncs() {
		for _, b := range g.Blocks {
			for _, in := range b.Instrs {
				for _, op := range in.Operands(nil) {
					if *op != ssa.Value(fn) {
						continue
					}
					ci, isCall := in.(ssa.CallInstruction)
					if !isCall || ci.Common().Value != ssa.Value(fn) {
						return false
					}
					if _, plain := in.(*ssa.Call); !plain {
						return false
					}
					if !allowed[g] {
						// an intermediate helper that only hands the result on, itself called only from the owners
						cl := in.(*ssa.Call)
						passes := true
						for _, r := range referrersOf(cl) {
							switch x := r.(type) {
							case *ssa.DebugRef, *ssa.Return:
							case *ssa.Extract:
								if !onlyReturnedOrTested(x) {
									passes = false
								}
							default:
								passes = false
							}
						}
						if !passes || !calledOnlyFrom(P, g, allowed, depth+1) {
							return false
						}
					}
					n++
				}
			}
		}
	}
	return n > 0
}

// onlyReturnedOrTested: the value is only returned, compared or passed through phis.
func onlyReturnedOrTested(v ssa.Value) bool {
	seen := map[ssa.Value]bool{}
	var rec func(v ssa.Value) bool
	rec = func(v ssa.Value) bool {
		if seen[v] {
			return true
		}
		seen[v] = true
		for _, r := range referrersOf(v) {
			switch x := r.(type) {
			case *ssa.DebugRef, *ssa.Return:
			case *ssa.BinOp:
				if x.Op != token.EQL && x.Op != token.NEQ {
					return false
				}
			case *ssa.Phi:
				if !rec(x) {
					return false
				}
			default:
				return false
			}
		}
		return true
	}
	return rec(v)
}

// globalAliasEscapes: outside package initialisers, the places where the
// slice or map loaded from (a field of) a module package-level variable is
// stored somewhere other than a local, returned, appended to, handed to a
// module function, or written through.
func globalAliasEscapes(P *Program, fns []*ssa.Function) map[*ssa.Global][]ssa.Instruction {
	out := map[*ssa.Global][]ssa.Instruction{}
	for _, fn := range fns {
		if isInitBody(fn) {
			continue
		}
		for _, b := range fn.Blocks {
			for _, in := range b.Instrs {
				ld, ok := in.(*ssa.UnOp)
				if !ok || ld.Op != token.MUL {
					continue
				}
				switch ld.Type().Underlying().(type) {
				case *types.Slice, *types.Map:
				default:
					continue
				}
				// the address must lie inside the variable itself (no dereference on the way)
				addr := ld.X
				for {
					if fa, ok := addr.(*ssa.FieldAddr); ok {
						addr = fa.X
						continue
					}
					if ia, ok := addr.(*ssa.IndexAddr); ok {
						if _, isArr := ia.X.Type().Underlying().(*types.Pointer); isArr {
							addr = ia.X
							continue
						}
					}
					break
				}
				g, ok := addr.(*ssa.Global)
				if !ok || g.Pkg == nil || isSyncType(g.Type().(*types.Pointer).Elem()) {
					continue
				}
				seen := map[ssa.Value]bool{}
				var walk func(v ssa.Value)
				walk = func(v ssa.Value) {
					if seen[v] {
						return
					}
					seen[v] = true
					for _, r := range referrersOf(v) {
						switch x := r.(type) {
						case *ssa.Store:
							if x.Val == v {
								if a, isA := x.Addr.(*ssa.Alloc); isA && !a.Heap {
									continue
								}
								out[g] = append(out[g], r)
							}
						case *ssa.Return:
							out[g] = append(out[g], r)
						case *ssa.MapUpdate:
							if x.Map == v {
								out[g] = append(out[g], r)
							}
						case *ssa.Slice:
							walk(x)
						case *ssa.Phi:
							walk(x)
						case *ssa.ChangeType:
							walk(x)
						case *ssa.MakeInterface:
							walk(x)
						case *ssa.IndexAddr:
							for _, rr := range referrersOf(x) {
								if st, isSt := rr.(*ssa.Store); isSt {
									if root, _ := rootOfAddr(st.Addr); root == ssa.Value(g) || st.Addr == ssa.Value(x) {
										out[g] = append(out[g], rr)
									}
								}
							}
						case *ssa.Call:
							if bi, isB := x.Call.Value.(*ssa.Builtin); isB {
								if bi.Name() == "append" && len(x.Call.Args) > 0 && x.Call.Args[0] == v {
									out[g] = append(out[g], r)
								}
								continue
							}
							if callee := x.Call.StaticCallee(); callee != nil && P.isModuleFunc(callee) && callee.Blocks != nil {
								out[g] = append(out[g], r)
							}
						}
					}
				}
				walk(ld)
			}
		}
	}
	return out
}

// judgeGuardedUses decides every use of one load of a guarded map: the lock
// named muKey must be held (exclusively for writes) and the map value must
// not leave the critical section.
func judgeGuardedUses(c *Ctx, fn *ssa.Function, ld *ssa.UnOp, held map[ssa.Instruction]lockState, muKey, short, vn, muName string, n int) int {
	P := c.P
	for _, use := range referrersOf(ld) {
		n++
		key := fmt.Sprintf("%s/%s-access#%d", fnKey(fn), short, n)
		need, what := 1, ""
		switch u := use.(type) {
		case *ssa.DebugRef:
			n--
			continue
		case *ssa.MapUpdate:
			need, what = 2, "write"
			if u.Map != ssa.Value(ld) {
				need, what = 9, "the map value is stored into another map"
			}
		case *ssa.Lookup:
			what = "lookup"
		case *ssa.Range:
			what = "range"
		case *ssa.Call:
			if bi, ok := u.Call.Value.(*ssa.Builtin); ok && bi.Name() == "len" {
				what = "len"
			} else if ok && bi.Name() == "delete" {
				need, what = 2, "delete"
			} else {
				need, what = 9, "the map is passed to a call"
			}
		default:
			need, what = 9, "the map value escapes ("+use.String()+")"
		}
		lvl := held[use][muKey]
		switch {
		case need == 9:
			c.Bad(key, P.pos(use.Pos()), what+": the guarded map leaves the critical section")
		case lvl >= need:
			c.OK(key, P.pos(use.Pos()), fmt.Sprintf("%s of %s with %s held (%s)", what, vn, muName, map[int]string{1: "read lock", 2: "exclusive lock"}[lvl]))
		case lvl == 1 && need == 2:
			c.Bad(key, P.pos(use.Pos()), fmt.Sprintf("%s of %s under a read lock only", what, vn))
		default:
			c.Bad(key, P.pos(use.Pos()), fmt.Sprintf("%s of %s without %s held on every path", what, vn, muName))
		}
	}
	return n
}

// monitorType describes a module struct that bundles one mutex with the maps
// it guards (the same discipline as a package-level map with its
// package-level mutex, spelled as a type).
type monitorType struct {
	T    *types.Named
	Mu   int
	Maps []int
}

var monitorTypes map[string]*monitorType

func computeMonitorTypes(P *Program) {
	monitorTypes = map[string]*monitorType{}
	isMutex := func(t types.Type) bool {
		n, ok := types.Unalias(t).(*types.Named)
		return ok && n.Obj().Pkg() != nil && n.Obj().Pkg().Path() == "sync" && (n.Obj().Name() == "Mutex" || n.Obj().Name() == "RWMutex")
	}
	for _, sp := range []*ssa.Package{P.Avro, P.Time, P.Null} {
		if sp == nil {
			continue
		}
		sc := sp.Pkg.Scope()
		for _, name := range sc.Names() {
			tn, ok := sc.Lookup(name).(*types.TypeName)
			if !ok || tn.IsAlias() {
				continue
			}
			nt, ok := tn.Type().(*types.Named)
			if !ok {
				continue
			}
			st, ok := nt.Underlying().(*types.Struct)
			if !ok {
				continue
			}
			m := &monitorType{T: nt, Mu: -1}
			nMu := 0
			for i := 0; i < st.NumFields(); i++ {
				if isMutex(st.Field(i).Type()) {
					m.Mu = i
					nMu++
				}
				if _, isMap := st.Field(i).Type().Underlying().(*types.Map); isMap {
					m.Maps = append(m.Maps, i)
				}
			}
			if nMu == 1 && len(m.Maps) > 0 {
				monitorTypes[typeKey(nt)] = m
			}
		}
	}
	// a package-level variable of such a type is "guarded" by its own mutex
	for _, g := range moduleGlobals(P) {
		if m := monitorTypes[typeKey(g.Type().(*types.Pointer).Elem())]; m != nil {
			guardedBy[globalKey(g)] = globalKey(g) + "." + m.T.Underlying().(*types.Struct).Field(m.Mu).Name()
		}
	}
}

// ruleLKMonitor: LK-GUARD for maps held in a struct next to their mutex.
func ruleLKMonitor(c *Ctx) {
	P := c.P
	var names []string
	for k := range monitorTypes {
		names = append(names, k)
	}
	sort.Strings(names)
	for _, tk := range names {
		m := monitorTypes[tk]
		st := m.T.Underlying().(*types.Struct)
		for _, fn := range P.ModuleFuncs() {
			if isInitBody(fn) {
				continue
			}
			var held map[ssa.Instruction]lockState
			n := 0
			for _, b := range fn.Blocks {
				for _, in := range b.Instrs {
					fa, ok := in.(*ssa.FieldAddr)
					if !ok {
						continue
					}
					pt, ok := fa.X.Type().Underlying().(*types.Pointer)
					if !ok || !types.Identical(types.Unalias(pt.Elem()), m.T) {
						continue
					}
					isMapField := false
					for _, i := range m.Maps {
						if fa.Field == i {
							isMapField = true
						}
					}
					if !isMapField {
						continue
					}
					base := lockBaseKey(fa.X)
					vn := tk + "." + st.Field(fa.Field).Name()
					muName := tk + "." + st.Field(m.Mu).Name()
					if held == nil {
						held = heldLocks(fn)
					}
					for _, r := range referrersOf(fa) {
						switch x := r.(type) {
						case *ssa.DebugRef:
						case *ssa.UnOp:
							if x.Op == token.MUL {
								if base == "" {
									n++
									c.Bad(fmt.Sprintf("%s/%s-access#%d", fnKey(fn), st.Field(fa.Field).Name(), n), P.pos(x.Pos()), "the guarded map is reached through a value whose mutex cannot be named here")
									continue
								}
								n = judgeGuardedUses(c, fn, x, held, fmt.Sprintf("%s.%d", base, m.Mu), st.Field(fa.Field).Name(), vn, muName, n)
							}
						case *ssa.Store:
							// (re)initialising the map itself is a write
							n++
							key := fmt.Sprintf("%s/%s-access#%d", fnKey(fn), st.Field(fa.Field).Name(), n)
							lvl := 0
							if base != "" {
								lvl = held[r][fmt.Sprintf("%s.%d", base, m.Mu)]
							}
							// a freshly allocated value nobody else can see yet needs no lock
							if a, isA := fa.X.(*ssa.Alloc); isA && x.Addr == ssa.Value(fa) {
								_ = a
								c.OK(key, P.pos(x.Pos()), "initialising the map of a value under construction")
								continue
							}
							c.Check(lvl >= 2, key, P.pos(x.Pos()), "the map is replaced with the exclusive lock held", fmt.Sprintf("%s is assigned without %s held exclusively", vn, muName))
						default:
							n++
							c.Bad(fmt.Sprintf("%s/%s-access#%d", fnKey(fn), st.Field(fa.Field).Name(), n), P.pos(r.Pos()), "the address of the guarded map leaves the method ("+r.String()+")")
						}
					}
				}
			}
		}
	}
}

// globalAddressUses: the package-level variables whose address (or the
// address of a part) is, outside package initialisers, used for anything but
// loading from it: passed to a call (a method with a pointer receiver can
// write), stored, returned, converted.
func globalAddressUses(P *Program) map[*ssa.Global]bool {
	out := map[*ssa.Global]bool{}
	var onlyLoads func(addr ssa.Value, d int) bool
	onlyLoads = func(addr ssa.Value, d int) bool {
		if d > 6 {
			return false
		}
		for _, r := range referrersOf(addr) {
			switch x := r.(type) {
			case *ssa.DebugRef:
			case *ssa.UnOp:
				if x.Op != token.MUL {
					return false
				}
			case *ssa.FieldAddr, *ssa.IndexAddr:
				if !onlyLoads(x.(ssa.Value), d+1) {
					return false
				}
			default:
				return false
			}
		}
		return true
	}
	// a slice value is only read: indexed for loads, measured, re-sliced, or handed to a module function whose
	// parameter is itself only read (two levels)
	var sliceOnlyRead func(v ssa.Value, d int) bool
	sliceOnlyRead = func(v ssa.Value, d int) bool {
		if d > 3 {
			return false
		}
		for _, r := range referrersOf(v) {
			switch x := r.(type) {
			case *ssa.DebugRef:
			case *ssa.IndexAddr:
				if x.X != v || !onlyLoads(x, 0) {
					return false
				}
			case *ssa.Slice:
				if x.X != v || !sliceOnlyRead(x, d+1) {
					return false
				}
			case *ssa.Call:
				if bi, isB := x.Call.Value.(*ssa.Builtin); isB && (bi.Name() == "len" || bi.Name() == "cap") {
					continue
				}
				g := x.Call.StaticCallee()
				if g == nil || !P.isModuleFunc(g) || g.Blocks == nil {
					return false
				}
				for i, a := range x.Call.Args {
					if a == v && (i >= len(g.Params) || !sliceOnlyRead(g.Params[i], d+1)) {
						return false
					}
				}
			default:
				return false
			}
		}
		return true
	}
	for _, fn := range P.ModuleFuncs() {
		if isInitBody(fn) {
			continue
		}
		for _, b := range fn.Blocks {
			for _, in := range b.Instrs {
				for _, op := range in.Operands(nil) {
					g, ok := (*op).(*ssa.Global)
					if !ok || g.Pkg == nil || !P.isModulePkg(g.Pkg.Pkg) {
						continue
					}
					switch x := in.(type) {
					case *ssa.Slice:
						if x.X == ssa.Value(g) && sliceOnlyRead(x, 0) {
							continue
						}
					case *ssa.UnOp:
						if x.Op == token.MUL && x.X == ssa.Value(g) {
							continue
						}
					case *ssa.FieldAddr:
						if x.X == ssa.Value(g) && onlyLoads(x, 0) {
							continue
						}
					case *ssa.IndexAddr:
						if x.X == ssa.Value(g) && onlyLoads(x, 0) {
							continue
						}
					case *ssa.DebugRef:
						continue
					}
					out[g] = true
				}
			}
		}
	}
	return out
}

// ---------- LK-SHARED

// sharedWrites finds writes through references obtained from a shared
// (mutex-guarded, package-level) map: a value looked up there is shared with
// every other goroutine that looks it up, so its slices, maps and pointees
// must not be written once it has left the critical section (or inside it,
// under a read lock). Taint runs from the lookups through copies, fields,
// slices, locals, results and parameters of module functions.
func sharedWrites(P *Program, fns []*ssa.Function, isSource func(*ssa.Lookup) bool) []ssa.Instruction {
	holdsRef := func(t types.Type) bool {
		var rec func(t types.Type, d int) bool
		rec = func(t types.Type, d int) bool {
			if d > 4 {
				return true
			}
			switch u := t.Underlying().(type) {
			case *types.Basic:
				return u.Kind() == types.UnsafePointer
			case *types.Struct:
				for i := 0; i < u.NumFields(); i++ {
					if rec(u.Field(i).Type(), d+1) {
						return true
					}
				}
				return false
			case *types.Array:
				return rec(u.Elem(), d+1)
			case *types.Tuple:
				for i := 0; i < u.Len(); i++ {
					if rec(u.At(i).Type(), d+1) {
						return true
					}
				}
				return false
			case *types.Signature:
				return false
			case *types.Interface:
				return false // an interface value is replaced, not written through, by module code
			}
			return true // slice, map, pointer, chan
		}
		return rec(t, 0)
	}
	mutators := map[string]bool{"slices.Insert": true, "slices.Delete": true, "slices.DeleteFunc": true, "slices.Replace": true, "slices.Reverse": true, "slices.Sort": true, "slices.SortFunc": true, "slices.SortStableFunc": true, "slices.Compact": true, "slices.CompactFunc": true, "sort.Slice": true, "sort.SliceStable": true, "sort.Sort": true, "sort.Stable": true, "sort.Strings": true, "sort.Ints": true}
	taintedParam := map[*ssa.Parameter]bool{}
	taintedResult := map[*ssa.Function]map[int]bool{}
	var sinks []ssa.Instruction
	seenSink := map[ssa.Instruction]bool{}
	inSet := map[*ssa.Function]bool{}
	for _, f := range fns {
		inSet[f] = true
	}
	for iter := 0; iter < 8; iter++ {
		changed := false
		for _, fn := range fns {
			tainted := map[ssa.Value]bool{}
			var work []ssa.Value
			mark := func(v ssa.Value) {
				if v != nil && !tainted[v] && holdsRef(v.Type()) {
					tainted[v] = true
					work = append(work, v)
				}
			}
			for _, p := range fn.Params {
				if taintedParam[p] {
					mark(p)
				}
			}
			for _, b := range fn.Blocks {
				for _, in := range b.Instrs {
					switch x := in.(type) {
					case *ssa.Lookup:
						if isSource(x) {
							mark(x)
						}
					case *ssa.Call:
						if g := x.Call.StaticCallee(); g != nil && len(taintedResult[g]) > 0 {
							mark(x)
						}
					}
				}
			}
			sink := func(in ssa.Instruction) {
				if !seenSink[in] {
					seenSink[in] = true
					sinks = append(sinks, in)
				}
			}
			holder := map[*ssa.Alloc]bool{}
			for len(work) > 0 {
				v := work[len(work)-1]
				work = work[:len(work)-1]
				for _, r := range referrersOf(v) {
					switch x := r.(type) {
					case *ssa.Extract:
						if call, ok := x.Tuple.(*ssa.Call); ok {
							if g := call.Call.StaticCallee(); g != nil && inSet[g] && !taintedResult[g][x.Index] {
								continue
							}
						}
						mark(x)
					case *ssa.Phi, *ssa.ChangeType, *ssa.Slice, *ssa.Field, *ssa.MakeInterface, *ssa.Convert:
						mark(x.(ssa.Value))
					case *ssa.FieldAddr:
						// the address of a part of what a shared pointer points to
						if x.X == v {
							mark(x)
							for _, rr := range referrersOf(x) {
								if st, ok := rr.(*ssa.Store); ok && st.Addr == ssa.Value(x) {
									sink(rr)
								}
							}
						}
					case *ssa.IndexAddr:
						if x.X == v {
							for _, rr := range referrersOf(x) {
								switch y := rr.(type) {
								case *ssa.Store:
									if y.Addr == ssa.Value(x) {
										sink(rr)
									}
								case *ssa.FieldAddr:
									for _, r3 := range referrersOf(y) {
										if st, ok := r3.(*ssa.Store); ok && st.Addr == ssa.Value(y) {
											sink(r3)
										}
									}
									mark(y)
								case *ssa.UnOp:
									if y.Op == token.MUL {
										mark(y)
									}
								}
							}
						}
					case *ssa.UnOp:
						if x.Op == token.MUL {
							mark(x)
						}
					case *ssa.MapUpdate:
						if x.Map == v {
							sink(r)
						}
					case *ssa.Store:
						if x.Val == v {
							// a local copy: what is read back out of it is shared again
							root, _ := rootOfAddr(x.Addr)
							if a, ok := root.(*ssa.Alloc); ok && !holder[a] {
								holder[a] = true
								var walkAddr func(addr ssa.Value, d int)
								walkAddr = func(addr ssa.Value, d int) {
									if d > 5 {
										return
									}
									for _, rr := range referrersOf(addr) {
										switch y := rr.(type) {
										case *ssa.UnOp:
											if y.Op == token.MUL {
												mark(y)
											}
										case *ssa.FieldAddr:
											walkAddr(y, d+1)
										case *ssa.IndexAddr:
											walkAddr(y, d+1)
										}
									}
								}
								walkAddr(a, 0)
							}
						}
					case *ssa.Return:
						for i, rv := range x.Results {
							if rv == v {
								if taintedResult[fn] == nil {
									taintedResult[fn] = map[int]bool{}
								}
								if !taintedResult[fn][i] {
									taintedResult[fn][i] = true
									changed = true
								}
							}
						}
					case ssa.CallInstruction:
						cc := x.Common()
						if bi, ok := cc.Value.(*ssa.Builtin); ok {
							switch bi.Name() {
							case "append", "copy", "clear", "delete":
								if len(cc.Args) > 0 && cc.Args[0] == v {
									sink(r)
								}
							}
							continue
						}
						g := cc.StaticCallee()
						if g == nil {
							continue
						}
						if mutators[qualName(g)] || g.Origin() != nil && mutators[qualName(g.Origin())] {
							if len(cc.Args) > 0 && cc.Args[0] == v {
								sink(r)
							}
							continue
						}
						if inSet[g] {
							for i, a := range cc.Args {
								if a == v && i < len(g.Params) && !taintedParam[g.Params[i]] {
									taintedParam[g.Params[i]] = true
									changed = true
								}
							}
						}
					}
				}
			}
		}
		if !changed {
			break
		}
	}
	return sinks
}

func ruleLKShared(c *Ctx) {
	c.Rule("LK-SHARED", "what is looked up in a guarded package-level map is shared: its slices, maps and pointees are never written through by the code that obtained it", 0)
	P := c.P
	isSrc := func(l *ssa.Lookup) bool {
		ld, ok := l.X.(*ssa.UnOp)
		if !ok || ld.Op != token.MUL {
			return false
		}
		g, ok := ld.X.(*ssa.Global)
		if !ok {
			return false
		}
		_, guarded := guardedBy[globalKey(g)]
		return guarded
	}
	n := 0
	for _, in := range sharedWrites(P, P.ModuleFuncs(), isSrc) {
		n++
		c.Bad(fmt.Sprintf("%s/shared-write#%d", fnKey(in.Parent()), n), P.pos(in.Pos()), fmt.Sprintf("%s writes through a reference that came out of a guarded package-level map (a registered schema, say): every goroutine that looks the entry up shares that storage, the write is unsynchronised, and what others get afterwards is changed for good", strings.TrimSpace(in.String())))
	}
	if n == 0 {
		c.OK("module/no-shared-write", "-", "no write through a value looked up in a guarded map")
	}
	fx := buildFixture(`package fx
type S struct{ T string; U []S }
var reg = map[int]S{}
func get(k int) (S, bool) { s, ok := reg[k]; return s, ok }
func swap(u []S) { u[0], u[1] = u[1], u[0] }
func bad(k int) S { s, _ := get(k); swap(s.U); return s }
func good(k int) S { s, _ := get(k); s.T = "x"; return S{T: "w", U: []S{s}} }
`)
	if fx == nil {
		c.Unk("fixture/LK-SHARED", "-", "fixture package did not build")
		return
	}
	var ffns []*ssa.Function
	for _, m := range fx.Members {
		if f, ok := m.(*ssa.Function); ok {
			ffns = append(ffns, f)
		}
	}
	hits := map[string]bool{}
	for _, in := range sharedWrites(P, ffns, func(l *ssa.Lookup) bool { return true }) {
		hits[in.Parent().Name()] = true
	}
	o := c.ob(Discharged, "fixture/LK-SHARED", "-", fmt.Sprintf("positive fixture: writes found in %v (expected exactly swap)", hits), false)
	if !(len(hits) == 1 && hits["swap"]) {
		o.Verdict, o.VerdictS = Undecided, "undecided"
	}
}

// ---------- LK-REENT

// mayHeldLocks: like heldLocks, but the locks that are held on SOME path reaching each instruction (join is
// union). A deferred unlock releases at function exit, so a lock taken under `defer Unlock` inside a branch
// may be held on everything after the branch.
func mayHeldLocks(fn *ssa.Function) map[ssa.Instruction]lockState {
	in := map[*ssa.BasicBlock]lockState{}
	out := map[*ssa.BasicBlock]lockState{}
	res := map[ssa.Instruction]lockState{}
	transfer := func(b *ssa.BasicBlock, s lockState, record bool) lockState {
		s = s.clone()
		for _, i := range b.Instrs {
			if record {
				res[i] = s.clone()
			}
			if g, op := lockOp(i); g != "" {
				switch op {
				case "Lock":
					s[g] = 2
				case "RLock":
					if s[g] < 1 {
						s[g] = 1
					}
				case "Unlock", "RUnlock":
					delete(s, g)
				}
			}
		}
		return s
	}
	union := func(a, b lockState) lockState {
		o := a.clone()
		for k, v := range b {
			if o[k] < v {
				o[k] = v
			}
		}
		return o
	}
	for iter, changed := 0, true; changed && iter < 100; iter++ {
		changed = false
		for _, b := range fn.Blocks {
			s := lockState{}
			for _, p := range b.Preds {
				if o, ok := out[p]; ok {
					s = union(s, o)
				}
			}
			o := transfer(b, s, false)
			if prev, ok := out[b]; !ok || !lockEq(prev, o) || !lockEq(in[b], s) {
				changed = true
			}
			in[b], out[b] = s, o
		}
	}
	for _, b := range fn.Blocks {
		transfer(b, in[b], true)
	}
	return res
}

// ruleLKReent: a goroutine that holds one of the package-level locks must not come back for the same lock —
// sync.Mutex is not re-entrant, and a second RLock of a sync.RWMutex blocks for good as soon as a writer
// (a Register call on another goroutine) is waiting between the two — and must not run code it cannot see
// (a registered builder, a callback) with the lock held, since that code may build a codec or register one.
func ruleLKReent(c *Ctx) {
	c.Rule("LK-REENT", "no package-level lock is held across a call that can take the same lock again, or across a call of code the module cannot see (a registered builder): construction, registration and parsing on different goroutines cannot wedge each other", 3)
	P := c.P
	// which functions take which package-level locks, directly or through module callees
	acquires := map[*ssa.Function]map[string]bool{}
	fns := P.ModuleFuncs()
	for _, fn := range fns {
		for _, b := range fn.Blocks {
			for _, in := range b.Instrs {
				if g, op := lockOp(in); strings.HasPrefix(g, "G:") && (op == "Lock" || op == "RLock") {
					if acquires[fn] == nil {
						acquires[fn] = map[string]bool{}
					}
					acquires[fn][g] = true
				}
			}
		}
	}
	for changed := true; changed; {
		changed = false
		for _, fn := range fns {
			for _, cs := range callsIn(fn) {
				if cs.Static == nil {
					continue
				}
				for g := range acquires[cs.Static] {
					if acquires[fn] == nil {
						acquires[fn] = map[string]bool{}
					}
					if !acquires[fn][g] {
						acquires[fn][g] = true
						changed = true
					}
				}
			}
		}
	}
	n := 0
	for _, fn := range fns {
		direct := false
		for _, b := range fn.Blocks {
			for _, in := range b.Instrs {
				if g, _ := lockOp(in); strings.HasPrefix(g, "G:") {
					direct = true
				}
			}
		}
		if !direct {
			continue
		}
		n++
		key := fnKey(fn) + "/nothing-re-enters"
		held := mayHeldLocks(fn)
		var bad []string
		for _, cs := range callsIn(fn) {
			hs := held[cs.Instr]
			for g, lvl := range hs {
				if !strings.HasPrefix(g, "G:") || lvl == 0 {
					continue
				}
				name := strings.TrimPrefix(g, "G:")
				switch {
				case cs.Static != nil && P.isModuleFunc(cs.Static) && acquires[cs.Static][g]:
					bad = append(bad, fmt.Sprintf("%s is (or may be) held at %s across the call of %s, which takes it again: with a writer waiting in between, neither ever returns", name, P.pos(cs.Instr.Pos()), cs.Static.Name()))
				case cs.Static == nil && !cs.Common.IsInvoke():
					if _, isB := cs.Common.Value.(*ssa.Builtin); !isB {
						bad = append(bad, fmt.Sprintf("%s is (or may be) held at %s across a call of a function value (%s): code the module cannot see runs under the lock", name, P.pos(cs.Instr.Pos()), strings.TrimSpace(cs.Common.Value.String())))
					}
				case cs.Common.IsInvoke() && isCodecIface(P, cs.Common.Value.Type()):
					bad = append(bad, fmt.Sprintf("%s is (or may be) held at %s across a call of a codec's method", name, P.pos(cs.Instr.Pos())))
				}
			}
		}
		c.Check(len(bad) == 0, key, P.pos(fn.Pos()), "every call made while a package-level lock is, or may be, held is to code that does not take that lock and is visible to the analysis", strings.Join(dedup(bad), "; "))
	}
	if n == 0 {
		c.Unk("module/lock-users", "-", "no function takes a package-level lock")
	}
}
