package main

// Builder-table and pointee-contract rules: BT-WIDTH, BT-FIXED, BT-SUB,
// BT-REC, BT-ARR, BT-MAP, BT-OMIT, BT-REG, PC-METH, PC-NEW, PC-ARG, PC-CAST,
// PC-REG.

import (
	"fmt"
	"go/token"
	"go/types"
	"os"
	"reflect"
	"sort"
	"strings"

	"golang.org/x/tools/go/ssa"
)

// analysis shared by the rules of one run
type btEnv struct {
	P        *Program
	CE       *contractEnv
	Builders []*Builder
	byFn     map[*ssa.Function]*Builder
	Codecs   []*CodecType
	byType   map[string]*CodecType
}

var btCache *btEnv

func getBT(P *Program) *btEnv {
	if btCache != nil && btCache.P == P {
		return btCache
	}
	e := &btEnv{P: P, CE: newContractEnv(P), byFn: map[*ssa.Function]*Builder{}, byType: map[string]*CodecType{}}
	e.Builders = P.Builders()
	P.computeEntryKinds(e.Builders)
	for _, b := range e.Builders {
		e.byFn[b.Fn] = b
	}
	e.Codecs = P.CodecTypes()
	for _, ct := range e.Codecs {
		e.byType[ct.Name] = ct
	}
	btCache = e
	return e
}

func (e *btEnv) methodContract(ct *CodecType, m string) Contract {
	fn := ct.M[m]
	if fn == nil {
		return Contract{Kind: CUnknown, Why: "no method " + m}
	}
	if m == "New" {
		return e.CE.NewContract(fn)
	}
	return e.CE.ParamContract(fn, len(fn.Params)-1, nil)
}

// typedContract combines the contracts Read, Write and Omit impose on p into
// the strongest one: a typed PtrTo wins over Bytes, which wins over Sub/Record.
func (e *btEnv) typedContract(ct *CodecType) Contract {
	var cs []Contract
	for _, m := range []string{"Read", "Write", "Omit"} {
		cs = append(cs, e.methodContract(ct, m))
	}
	rank := func(c Contract) int {
		switch c.Kind {
		case CUnknown, CConflict:
			return 9
		case CMapHeader:
			return 1
		case CPtr:
			return 7
		case CBytes:
			return 6
		case CRecord:
			return 5
		case CSub:
			return 4
		case CDyn:
			return 3
		}
		return 0
	}
	best := cs[0]
	for _, c := range cs[1:] {
		if rank(c) > rank(best) || rank(c) == rank(best) && c.Kind == CPtr && c.MapUses {
			best = c
		}
	}
	return best
}

// ---------- compatibility of contracts

func (P *Program) pointerFree(t types.Type) bool {
	return !strings.Contains(P.layoutOf(t).Map, "P")
}

// compat reports whether two contracts on the same pointer can both hold.
func (P *Program) compat(a, b Contract) (ok bool, decided bool) {
	if a.Kind == CUnknown || b.Kind == CUnknown || a.Kind == CConflict || b.Kind == CConflict {
		return false, false
	}
	if a.Kind == CNone || b.Kind == CNone || a.Kind == CDyn || b.Kind == CDyn {
		return true, true
	}
	if a.Kind > b.Kind {
		a, b = b, a
	}
	switch {
	case a.Kind == CPtr && b.Kind == CPtr:
		return P.compatTypes(a.T, b.T), true
	case a.Kind == CPtr && b.Kind == CBytes:
		if b.N >= 0 {
			return P.Sizes.Sizeof(a.T) == b.N && P.pointerFree(a.T), true
		}
		return false, true
	case a.Kind == CBytes && b.Kind == CBytes:
		return a.N == b.N && a.Sym == b.Sym, true
	case a.Kind == CSub && b.Kind == CSub:
		return a.Field == b.Field, true
	case a.Kind == CRecord && b.Kind == CRecord:
		// the entry's codec field named from the codec ("fields[].codec") or from inside a helper method of the
		// entry itself ("codec") is the same field
		return a.Field == b.Field || strings.HasSuffix(a.Field, "."+b.Field) || strings.HasSuffix(b.Field, "."+a.Field), true
	case a.Kind == CMapHeader && b.Kind == CMapHeader:
		return true, true
	}
	return false, true
}

// ---------- PC-METH, PC-NEW

func rulePCMeth(c *Ctx) {
	c.Rule("PC-METH", "within one codec type, Read, Write and Omit treat the pointer they are given as the same kind of object", 27)
	e := getBT(c.P)
	for _, ct := range e.Codecs {
		r, w, o := e.methodContract(ct, "Read"), e.methodContract(ct, "Write"), e.methodContract(ct, "Omit")
		key := ct.Name + "/Read~Write~Omit"
		pos := c.P.pos(ct.M["Read"].Pos())
		bad, undec := "", ""
		for _, pr := range [][2]struct {
			n string
			c Contract
		}{{{"Read", r}, {"Write", w}}, {{"Read", r}, {"Omit", o}}, {{"Write", w}, {"Omit", o}}} {
			ok, dec := c.P.compat(pr[0].c, pr[1].c)
			if !dec {
				undec = fmt.Sprintf("%s uses p as %s, %s as %s", pr[0].n, pr[0].c, pr[1].n, pr[1].c)
			} else if !ok {
				bad = fmt.Sprintf("%s uses p as %s but %s uses it as %s", pr[0].n, pr[0].c, pr[1].n, pr[1].c)
			}
		}
		switch {
		case bad != "":
			c.Bad(key, pos, bad)
		case undec != "":
			c.Unk(key, pos, "contract not understood: "+undec)
		default:
			c.OK(key, pos, fmt.Sprintf("Read:%s Write:%s Omit:%s", r, w, o))
		}
	}
}

func rulePCNew(c *Ctx) {
	c.Rule("PC-NEW", "what New returns is what Read expects to be given: a typed allocation layout-compatible with Read's view of p, or the sub-codec's own New when Read forwards p", 27)
	e := getBT(c.P)
	for _, ct := range e.Codecs {
		r, n := e.methodContract(ct, "Read"), e.methodContract(ct, "New")
		key := ct.Name + "/New~Read"
		pos := c.P.pos(ct.M["New"].Pos())
		good := func(w string) { c.OK(key, pos, fmt.Sprintf("New:%s Read:%s — %s", n, r, w)) }
		bad := func(w string) {
			c.Bad(key, pos, fmt.Sprintf("New returns %s but Read uses its pointer as %s: %s", n, r, w))
		}
		switch {
		case r.Kind == CUnknown || r.Kind == CConflict || n.Kind == CUnknown || n.Kind == CConflict:
			c.Unk(key, pos, fmt.Sprintf("contract not understood: New:%s Read:%s", n, r))
		case r.Kind == CNone:
			good("Read never dereferences p")
		case r.Kind == CSub:
			if n.Kind == CSubNew && n.Field == r.Field {
				good("both forward to the same sub-codec")
			} else {
				bad("Read forwards p to the sub-codec, so New must return that sub-codec's New (a map value or pointer target allocated through this codec would be nil or mistyped)")
			}
		case r.Kind == CRecord:
			if n.Kind == CDest {
				good("allocated with the struct type the builder stored")
			} else {
				bad("a record needs an allocation of the destination struct type")
			}
		case n.Kind == CNil:
			bad("New returns nil although Read dereferences p")
		case r.Kind == CPtr && r.MapUses:
			if n.Kind == CPtr && c.P.compatTypes(n.T, r.T) {
				good("a zeroed map variable")
			} else {
				bad("Read treats p as a pointer to a map variable; New must allocate a (GC-visible) pointer-sized variable, not the map header itself")
			}
		default:
			ok, dec := c.P.compat(r, n)
			if !dec {
				c.Unk(key, pos, fmt.Sprintf("cannot relate New:%s to Read:%s", n, r))
			} else if ok {
				good("layout-compatible")
			} else {
				bad("layouts differ")
			}
		}
	}
}

// ---------- PC-ARG, PC-CAST

// addrOfVar: v = unsafe.Pointer(&x) (or a *X passed on); returns the static
// type X of the variable addressed.
func addrOfVar(v ssa.Value) (types.Type, bool) {
	cv, ok := v.(*ssa.Convert)
	if !ok || !isUnsafePointer(cv.Type()) {
		return nil, false
	}
	pt, ok := cv.X.Type().Underlying().(*types.Pointer)
	if !ok {
		return nil, false
	}
	switch cv.X.(type) {
	case *ssa.Alloc, *ssa.FieldAddr, *ssa.IndexAddr:
		return pt.Elem(), true
	}
	return nil, false
}

func rulePCArg(c *Ctx, onlyFuncs func(fn *ssa.Function) bool, minArg, minCast int) {
	c.Rule("PC-ARG", "a pointer to a local or field handed to another codec's method points at a variable laid out as that method expects", minArg)
	c.Rule("PC-CAST", "a local reinterpretation (*B)(unsafe.Pointer(&a)) reads no more than a holds and sees pointers where a has pointers", minCast)
	P := c.P
	e := getBT(P)
	for _, fn := range P.ModuleFuncs() {
		if onlyFuncs != nil && !onlyFuncs(fn) {
			continue
		}
		keys := callKeys(fn)
		nCast := 0
		for _, b := range fn.Blocks {
			for _, in := range b.Instrs {
				// PC-CAST
				if cv, ok := in.(*ssa.Convert); ok {
					if pt, isPtr := cv.Type().Underlying().(*types.Pointer); isPtr && isUnsafePointer(cv.X.Type()) {
						if X, ok := addrOfVar(cv.X); ok {
							nCast++
							c.Rule("PC-CAST", "", 0)
							key := fmt.Sprintf("%s/cast#%d[%s<-%s]", fnKey(fn), nCast, typeKey(pt.Elem()), typeKey(X))
							la, lb := P.layoutOf(X), P.layoutOf(pt.Elem())
							ok := lb.Size <= la.Size && strings.HasPrefix(la.Map, lb.Map)
							c.Check(ok, key, P.pos(cv.Pos()), fmt.Sprintf("%s (%s) viewed as %s (%s): a prefix with the same pointer words", typeKey(X), la, typeKey(pt.Elem()), lb),
								fmt.Sprintf("%s (%s) is reinterpreted as %s (%s), which is larger or has pointers where the variable has none", typeKey(X), la, typeKey(pt.Elem()), lb))
						}
					}
				}
				ci, ok := in.(ssa.CallInstruction)
				if !ok {
					continue
				}
				cc := ci.Common()
				callee := cc.StaticCallee()
				if cc.IsInvoke() {
					// &x handed to a method of a codec held in an interface parameter: every concrete codec a caller
					// passes for that parameter must use the pointer as a pointer to an x
					prm, isPrm := cc.Value.(*ssa.Parameter)
					if !isPrm || !isCodecIface(P, prm.Type()) {
						continue
					}
					pi := -1
					for i, q := range fn.Params {
						if q == prm {
							pi = i
						}
					}
					for ai, a := range cc.Args {
						X, ok := addrOfVar(a)
						if !ok || pi < 0 {
							continue
						}
						c.Rule("PC-ARG", "", 0)
						key := fmt.Sprintf("%s/arg%d[&%s]", keys[ci], ai, typeKey(X))
						bad, unk, seen := "", "", 0
						for _, site := range callersOf(P, fn) {
							sc := site.Common()
							if pi >= len(sc.Args) {
								continue
							}
							av := sc.Args[pi]
							mi, isMI := av.(*ssa.MakeInterface)
							if !isMI {
								unk = "a caller passes a codec whose concrete type is not visible at the call (" + P.pos(site.Pos()) + ")"
								continue
							}
							m := P.Prog.LookupMethod(mi.X.Type(), cc.Method.Pkg(), cc.Method.Name())
							if m == nil || m.Blocks == nil {
								unk = "method " + cc.Method.Name() + " of " + typeKey(mi.X.Type()) + " not found"
								continue
							}
							seen++
							// the method's parameters: receiver first, then the interface method's
							Y := e.CE.ParamContract(m, ai+1, map[string]int64{})
							ok2, dec := P.compat(Contract{Kind: CPtr, T: X}, Y)
							if !dec {
								unk = fmt.Sprintf("cannot relate &%s to the use %s makes of the pointer (%s)", typeKey(X), fnKey(m), Y)
							} else if !ok2 {
								bad = fmt.Sprintf("a pointer to a %s (%s) is passed to the codec parameter %s, for which %s passes a %s whose %s uses the pointer as %s", typeKey(X), P.layoutOf(X), prm.Name(), P.pos(site.Pos()), typeKey(mi.X.Type()), cc.Method.Name(), Y)
							}
						}
						switch {
						case bad != "":
							c.Bad(key, P.pos(in.Pos()), bad)
						case unk != "" || seen == 0:
							if unk == "" {
								unk = "no caller of " + fnKey(fn) + " found to say which codec is passed"
							}
							c.Unk(key, P.pos(in.Pos()), unk)
						default:
							c.OK(key, P.pos(in.Pos()), fmt.Sprintf("&%s passed to the codec parameter %s: each of the %d concrete codecs the callers pass uses the pointer as a pointer to such a variable", typeKey(X), prm.Name(), seen))
						}
					}
					continue
				}
				if callee == nil {
					continue
				}
				if !P.isModuleFunc(callee) && !isLinknameStub(callee) {
					continue
				}
				for ai, a := range cc.Args {
					X, ok := addrOfVar(a)
					if !ok {
						continue
					}
					c.Rule("PC-ARG", "", 0)
					key := fmt.Sprintf("%s/arg%d[&%s]", keys[ci], ai, typeKey(X))
					rc := map[string]int64{}
					if callee.Signature.Recv() != nil {
						rc = e.CE.literalRecvConsts(cc.Args[0])
					}
					Y := e.CE.ParamContract(callee, ai, rc)
					ok2, dec := P.compat(Contract{Kind: CPtr, T: X}, Y)
					switch {
					case !dec:
						c.Unk(key, P.pos(in.Pos()), fmt.Sprintf("cannot relate &%s to the callee's use of the pointer (%s)", typeKey(X), Y))
					case ok2:
						c.OK(key, P.pos(in.Pos()), fmt.Sprintf("&%s (%s) passed where the callee uses the pointer as %s", typeKey(X), P.layoutOf(X), Y))
					default:
						c.Bad(key, P.pos(in.Pos()), fmt.Sprintf("a pointer to a %s (%s) is passed to %s, which uses it as %s", typeKey(X), P.layoutOf(X), shortCallee(&CallSite{Static: callee, Common: cc}), Y))
					}
				}
			}
		}
	}
}

// ---------- kinds allowed by a typed contract

func kindSetOf(ks ...reflect.Kind) KindSet {
	var s KindSet
	for _, k := range ks {
		s |= 1 << uint(k)
	}
	return s
}

var basicKind = map[types.BasicKind]KindSet{
	types.Bool:          kindSetOf(reflect.Bool),
	types.Int8:          kindSetOf(reflect.Int8),
	types.Int16:         kindSetOf(reflect.Int16),
	types.Int32:         kindSetOf(reflect.Int32),
	types.Int64:         kindSetOf(reflect.Int64, reflect.Int), // int is 64 bits on the analysed configuration
	types.Int:           kindSetOf(reflect.Int, reflect.Int64),
	types.Uint8:         kindSetOf(reflect.Uint8),
	types.Uint16:        kindSetOf(reflect.Uint16),
	types.Uint32:        kindSetOf(reflect.Uint32),
	types.Uint64:        kindSetOf(reflect.Uint64, reflect.Uint, reflect.Uintptr),
	types.Uint:          kindSetOf(reflect.Uint, reflect.Uint64, reflect.Uintptr),
	types.Float32:       kindSetOf(reflect.Float32),
	types.Float64:       kindSetOf(reflect.Float64),
	types.String:        kindSetOf(reflect.String),
	types.UnsafePointer: kindSetOf(reflect.Ptr, reflect.UnsafePointer),
}

// kindsFor returns the Go kinds a destination may have for a codec whose
// methods view it as T, plus a constraint on the element kind (0 = none).
func (P *Program) kindsFor(c Contract) (k KindSet, elem KindSet, key KindSet, lenEq bool, ok bool) {
	switch c.Kind {
	case CPtr:
		if c.MapUses {
			return kindSetOf(reflect.Map), 0, kindSetOf(reflect.String), false, true
		}
		switch u := c.T.Underlying().(type) {
		case *types.Basic:
			ks, has := basicKind[u.Kind()]
			return ks, 0, 0, false, has
		case *types.Slice:
			if eb, isB := u.Elem().Underlying().(*types.Basic); isB {
				return kindSetOf(reflect.Slice), basicKind[eb.Kind()], 0, false, true
			}
			return kindSetOf(reflect.Slice), 0, 0, false, true
		case *types.Struct:
			// the module's slice-header shadow: any slice
			if P.layoutOf(c.T) == (Layout{24, "PSS"}) {
				return kindSetOf(reflect.Slice), 0, 0, false, true
			}
		}
	case CBytes:
		if c.N < 0 {
			return kindSetOf(reflect.Array), kindSetOf(reflect.Uint8), 0, true, true
		}
		var s KindSet
		for bk, ks := range basicKind {
			if bk == types.String || bk == types.UnsafePointer {
				continue
			}
			if P.Sizes.Sizeof(types.Typ[bk]) == c.N {
				s |= ks
			}
		}
		return s, 0, 0, false, true
	case CRecord:
		return kindSetOf(reflect.Struct), 0, 0, false, true
	}
	return 0, 0, 0, false, false
}

func builderIsRegistered(P *Program, b *Builder) bool {
	return b.Fn.Pkg != P.Avro
}

// subCodecFromSameTyp: v (a value stored into a codec field) is the codec
// result of buildCodec-like call whose reflect.Type argument is `typ`.
func builtFrom(P *Program, v ssa.Value) (call *ssa.Call, typArg ssa.Value, ok bool) {
	ex, isEx := v.(*ssa.Extract)
	if !isEx || ex.Index != 0 {
		return nil, nil, false
	}
	cl, isCall := ex.Tuple.(*ssa.Call)
	if !isCall || cl.Call.StaticCallee() == nil || !isCodecErrorSig(P, cl.Call.StaticCallee().Signature) {
		return nil, nil, false
	}
	for i, prm := range cl.Call.StaticCallee().Params {
		if isReflectType(prm.Type()) {
			return cl, cl.Call.Args[i], true
		}
	}
	return cl, nil, true
}

// assertedOnPath returns the comma-ok type assertions known to have succeeded
// on the path.
func assertedOnPath(p *BTPath) []*ssa.TypeAssert {
	var out []*ssa.TypeAssert
	for v, truth := range p.State.bools {
		if !truth {
			continue
		}
		if ex, ok := v.(*ssa.Extract); ok && ex.Index == 1 {
			if ta, ok := ex.Tuple.(*ssa.TypeAssert); ok && ta.CommaOk {
				out = append(out, ta)
			}
		}
	}
	return out
}

func ruleBTWidth(c *Ctx, full bool) {
	c.Rule("BT-WIDTH", "every accepting row of every codec builder pairs a Go kind with a codec whose methods view the destination as exactly that kind of object; all other kinds are rejected", 12)
	c.Rule("BT-FIXED", "a fixed codec is built for a Go type only if it is a byte array whose length equals the schema's size, and carries that same size", 1)
	c.Rule("BT-SUB", "a wrapper codec that forwards the destination pointer unchanged wraps a codec built for the same Go type", 2)
	P := c.P
	e := getBT(P)
	c.Rule("BT-WIDTH", "", 0)
	foldedWidth := btWidthByFold(c)
	for _, b := range e.Builders {
		if builderIsRegistered(P, b) {
			continue // decided by PC-REG against the registered type
		}
		if !b.Budget {
			if foldedWidth {
				continue
			}
			c.Rule("BT-WIDTH", "", 0)
			c.Unk(fnKey(b.Fn)+"/paths", P.pos(b.Fn.Pos()), "path budget exceeded")
			continue
		}
		tp := ""
		if b.TypParam != nil {
			tp = b.TypParam.Name()
		}
		type rowKey struct{ codec string }
		rows := map[string]KindSet{}
		rowPaths := map[string][]*BTPath{}
		rowRet := map[string]BTReturn{}
		for _, p := range b.Paths {
			if p.Panic {
				continue
			}
			r := P.classifyReturn(p)
			if r.Other != "" {
				if foldedWidth {
					continue
				}
				c.Rule("BT-WIDTH", "", 0)
				c.Unk(fnKey(b.Fn)+"/return", P.pos(p.Ret.Pos()), "a return of this builder is not understood: "+r.Other)
				continue
			}
			if r.Codec == nil {
				continue
			}
			name := typeKey(r.Codec)
			k := allRealKinds | 1<<nilKind
			if tp != "" {
				k = p.State.kindsOf(tp) & b.EntryK
			} else {
				k = b.EntryK // no type parameter: built for whatever its callers are building for
			}
			rows[name] |= k
			rowPaths[name] = append(rowPaths[name], p)
			rowRet[name] = r
		}
		var names []string
		for n := range rows {
			names = append(names, n)
		}
		sort.Strings(names)
		for _, name := range names {
			if c.Extra == nil || c.Extra["builder_dispatch_table"] == nil {
				c.Table("builder_dispatch_table", map[string]string{})
			}
			c.Extra["builder_dispatch_table"].(map[string]string)[fnKey(b.Fn)+" -> "+name] = rows[name].String()
		}
		for _, name := range names {
			ct := e.byType[name]
			key := fmt.Sprintf("%s/return[%s]", fnKey(b.Fn), name)
			pos := P.pos(rowPaths[name][0].Ret.Pos())
			if ct == nil {
				c.Rule("BT-WIDTH", "", 0)
				c.Unk(key, pos, "returned type is not a known codec type")
				continue
			}
			contract := e.typedContract(ct)
			K := rows[name] &^ (1 << nilKind)
			if os.Getenv("DBG_BTW") != "" {
				fmt.Fprintln(os.Stderr, "BTW", fnKey(b.Fn), name, rows[name].String(), contract.String())
			}
			if foldedWidth && contract.Kind != CSub {
				continue // which Go kinds get this codec was decided on the folded dispatch table
			}
			switch contract.Kind {
			case CNone:
				c.Rule("BT-WIDTH", "", 0)
				c.OKTrivial(key, pos, "the codec never touches the destination")
				continue
			case CSub:
				c.Rule("BT-SUB", "", 0)
				okAll := true
				why := ""
				for _, p := range rowPaths[name] {
					r := P.classifyReturn(p)
					fld := strings.TrimSuffix(contract.Field, "[]")
					v := r.Fields[fld]
					if strings.HasSuffix(contract.Field, "[]") {
						// every element store into the slice held by that field
						okEl, w := sliceElemsBuiltFrom(P, r.Lit, fld, b.TypParam)
						if !okEl {
							okAll, why = false, w
						}
						continue
					}
					_, ta, ok := builtFrom(P, v)
					if !ok || ta != ssa.Value(b.TypParam) {
						okAll = false
						why = fmt.Sprintf("field %s is not the result of building a codec for the same Go type", fld)
					}
				}
				c.Check(okAll, key, pos, fmt.Sprintf("forwards p to field %s, which holds a codec built from the same reflect.Type", contract.Field), why)
				continue
			case CUnknown, CConflict, CMapHeader, CDyn:
				c.Rule("BT-WIDTH", "", 0)
				c.Unk(key, pos, "the codec's view of the destination is not understood: "+contract.String())
				continue
			}
			allowed, elemK, keyK, lenEq, ok := P.kindsFor(contract)
			if !ok {
				c.Rule("BT-WIDTH", "", 0)
				c.Unk(key, pos, "no kind table for contract "+contract.String())
				continue
			}
			// delegation through a successful type assertion on a codec built for the same type
			if K&^allowed != 0 {
				viaAssert := true
				for _, p := range rowPaths[name] {
					found := false
					for _, ta := range assertedOnPath(p) {
						if _, targ, ok := builtFrom(P, ta.X); ok && targ == ssa.Value(b.TypParam) {
							if act := e.byType[typeKey(ta.AssertedType)]; act != nil {
								if okc, dec := P.compat(e.typedContract(act), contract); okc && dec {
									found = true
								}
							}
						}
					}
					if !found {
						viaAssert = false
					}
				}
				if viaAssert {
					c.Rule("BT-SUB", "", 0)
					c.OK(key, pos, fmt.Sprintf("returned only when a codec built for the same Go type was asserted to be a type with the same view of the destination (%s)", contract))
					continue
				}
			}
			c.Rule("BT-WIDTH", "", 0)
			badKinds := (K &^ allowed).kinds()
			for _, k := range badKinds {
				c.Bad(fmt.Sprintf("%s/kind=%s", key, k), pos, fmt.Sprintf("for Go kind %s the builder returns %s, whose methods use the destination as %s: a store of the wrong width or type into the field", k, name, contract))
			}
			// element / key / length constraints on every accepting path with a real kind
			extra := ""
			for _, p := range rowPaths[name] {
				if tp == "" || p.State.kindsOf(tp)&b.EntryK&allRealKinds == 0 {
					continue
				}
				if elemK != 0 && p.State.kindsOf(tp+".Elem()")&^elemK&allRealKinds != 0 {
					extra = fmt.Sprintf("the element kind is not restricted to %s", elemK)
				}
				if keyK != 0 && p.State.kindsOf(tp+".Key()")&^keyK&allRealKinds != 0 {
					extra = fmt.Sprintf("the map key kind is not restricted to %s", keyK)
				}
				if lenEq {
					c.Rule("BT-FIXED", "", 0)
					okLen := false
					for rel, v := range p.State.rel {
						if v && strings.Contains(rel, tp+".Len()") && strings.Contains(rel, "->Size)") {
							okLen = true
							// the Size stored in the codec is the same path
							sz := accessPath(rowRet[name].Fields["Size"])
							if !strings.Contains(rel, sz) {
								okLen = false
							}
						}
					}
					c.Check(okLen, key+"/len", pos, "reached only where typ.Len() == schema.Object.Size, and that same Size is stored in the codec", "a fixed codec is built without the array length having been found equal to the schema size stored in it")
					c.Rule("BT-WIDTH", "", 0)
				}
			}
			if extra != "" {
				c.Bad(key+"/elem", pos, extra+" ("+contract.String()+")")
			}
			if len(badKinds) == 0 && extra == "" {
				c.OK(key, pos, fmt.Sprintf("accepted kinds %s ⊆ %s allowed by %s", K, allowed, contract))
			}
		}
	}
	_ = full
}

// sliceElemsBuiltFrom: every store through an element address of the slice
// held in field fld of the literal lit has a value built from typ.
func sliceElemsBuiltFrom(P *Program, lit ssa.Value, fld string, typ *ssa.Parameter) (bool, string) {
	a, ok := lit.(*ssa.Alloc)
	if !ok || a == nil {
		return false, "literal not found"
	}
	n := 0
	for _, r := range referrersOf(a) {
		fa, ok := r.(*ssa.FieldAddr)
		if !ok || fieldName(fa.X.Type(), fa.Field) != fld {
			continue
		}
		for _, rr := range referrersOf(fa) {
			var ld ssa.Value
			if u, ok := rr.(*ssa.UnOp); ok {
				ld = u
			} else if st, ok := rr.(*ssa.Store); ok && st.Addr == ssa.Value(fa) {
				// the slice is filled through a local before being put in the field
				ld = st.Val
			} else {
				continue
			}
			// the slice may be grown by append: each appended element is a store into append's argument array, and
			// what is appended to (through the loop's phi) is the same slice
			if st, isSt := rr.(*ssa.Store); isSt && st.Addr == ssa.Value(fa) {
				seenV := map[ssa.Value]bool{}
				var walkApp func(v ssa.Value, d int) bool
				walkApp = func(v ssa.Value, d int) bool {
					if seenV[v] || d > 8 {
						return true
					}
					seenV[v] = true
					switch x := v.(type) {
					case *ssa.Phi:
						for _, e := range x.Edges {
							if !walkApp(e, d+1) {
								return false
							}
						}
					case *ssa.Call:
						bi, isB := x.Call.Value.(*ssa.Builtin)
						if !isB || bi.Name() != "append" || len(x.Call.Args) != 2 {
							return true
						}
						if !walkApp(x.Call.Args[0], d+1) {
							return false
						}
						if sl, isSl := x.Call.Args[1].(*ssa.Slice); isSl {
							if arr, isA := sl.X.(*ssa.Alloc); isA {
								for _, ra := range referrersOf(arr) {
									ia, isIA := ra.(*ssa.IndexAddr)
									if !isIA {
										continue
									}
									for _, r4 := range referrersOf(ia) {
										if st4, ok := r4.(*ssa.Store); ok && st4.Addr == ssa.Value(ia) {
											n++
											if _, ta, ok := builtFrom(P, st4.Val); !ok || ta != ssa.Value(typ) {
												return false
											}
										}
									}
								}
							}
						}
					}
					return true
				}
				if !walkApp(st.Val, 0) {
					return false, "an element appended to ." + fld + " is not built from the same Go type"
				}
			}
			for _, r3 := range referrersOf(ld) {
				ia, ok := r3.(*ssa.IndexAddr)
				if !ok {
					continue
				}
				for _, r4 := range referrersOf(ia) {
					if st, ok := r4.(*ssa.Store); ok && st.Addr == ssa.Value(ia) {
						n++
						_, ta, ok := builtFrom(P, st.Val)
						if !ok || ta != ssa.Value(typ) {
							return false, "an element of ." + fld + " is not built from the same Go type"
						}
					}
				}
			}
		}
	}
	if n == 0 {
		return false, "no element stores found for ." + fld
	}
	return true, ""
}

// ---------- BT-REC, BT-ARR, BT-MAP

func ruleBTRec(c *Ctx) {
	c.Rule("BT-REC", "a record field's offset and the Go type its codec is built for come from the same struct field, and both end up in the same field entry", 3)
	if rf := recordByFold(c.P); rf.ok {
		P := c.P
		key := fnKey(rf.builder)
		pos := P.pos(rf.builder.Pos())
		msg := "the record builder folded for schema (a, gone, b, n1, n2, c) and struct {B, A, X, N1, N2, C chan}: each entry's offset and the Go type its codec is built for are those of the struct field of the schema field's name; an absent field gets a nil type"
		c.Check(rf.problems["pair"] == "", key+"/offset~type", pos, msg, rf.problems["pair"])
		c.Check(rf.problems["list"] == "" && rf.problems["entry"] == "", key+"/entry", pos, msg, rf.problems["list"]+rf.problems["entry"])
		c.Check(rf.problems["pair"] == "", key+"/field-source", pos, msg, rf.problems["pair"])
		return
	}
	P := c.P
	fn := P.Func(P.Avro, "buildRecordCodec")
	if !c.Anchor(fn != nil, "record codec builder") {
		return
	}
	var typ *ssa.Parameter
	for _, p := range fn.Params {
		if isReflectType(p.Type()) {
			typ = p
		}
	}
	key := fnKey(fn)
	// the record builder may delegate to helpers that are not builders themselves (one per field, one for the
	// name map): the rule follows the group. mapFn is where the name map is filled; fn becomes the function that
	// builds a field's codec and entry.
	group := recordBuilderGroup(P, fn)
	root, rootTyp := fn, typ
	mapFn := fn
	// the buildCodec call for a field
	var bc *ssa.Call
	for _, g := range group {
		for _, cs := range callsIn(g) {
			if cs.Static != nil && isCodecErrorSig(P, cs.Static.Signature) && cs.Value() != nil {
				bc, fn = cs.Value(), g
			}
		}
		for _, b := range g.Blocks {
			for _, in := range b.Instrs {
				if mu, ok := in.(*ssa.MapUpdate); ok {
					if mt, ok := mu.Map.Type().Underlying().(*types.Map); ok && typeKey(mt.Elem()) == "reflect.StructField" {
						mapFn = g
					}
				}
			}
		}
	}
	if !c.Anchor(bc != nil && typ != nil, "recursive codec construction in the record builder") {
		return
	}
	// the type the name map is built from: the builder's own typ, directly or as the helper's argument
	mapTyp := rootTyp
	if mapFn != root {
		mapTyp = nil
		for _, cs := range callsIn(root) {
			if cs.Static == mapFn {
				for i, prm := range mapFn.Params {
					if isReflectType(prm.Type()) && i < len(cs.Common.Args) && cs.Common.Args[i] == ssa.Value(rootTyp) {
						mapTyp = prm
					}
				}
			}
		}
	}
	typ = mapTyp
	var typeArg ssa.Value
	for i, prm := range bc.Call.StaticCallee().Params {
		if isReflectType(prm.Type()) {
			typeArg = bc.Call.Args[i]
		}
	}
	tphi, _ := typeArg.(*ssa.Phi)
	// the literal: stores of codec and offset into a record field entry
	rfT, rfOff, rfCodec := recordFieldRoles(P)
	var offVal, codecVal ssa.Value
	var offStores []*ssa.Store
	var codecBase ssa.Value
	for _, b := range fn.Blocks {
		for _, in := range b.Instrs {
			st, ok := in.(*ssa.Store)
			if !ok {
				continue
			}
			if fa, ok := st.Addr.(*ssa.FieldAddr); ok {
				if n, isN := types.Unalias(fa.X.Type().Underlying().(*types.Pointer).Elem()).(*types.Named); isN && rfT != nil && n.Obj() == rfT.Obj() {
					switch fieldName(fa.X.Type(), fa.Field) {
					case rfOff:
						offVal = st.Val
						offStores = append(offStores, st)
					case rfCodec:
						codecVal = st.Val
						codecBase = fa.X
					}
				}
			}
		}
	}
	ophi, _ := offVal.(*ssa.Phi)
	// the offset that reaches each incoming edge of the type phi: the matching edge of an offset phi in the same
	// block, or (an entry initialised with the sentinel and overwritten where the field is found) the last store
	// to the entry's offset on the way to that edge
	var oEdges []ssa.Value
	sameEntry := false
	switch {
	case tphi != nil && ophi != nil && tphi.Block() == ophi.Block() && len(tphi.Edges) == len(ophi.Edges):
		oEdges = ophi.Edges
		sameEntry = true
	case tphi != nil && len(offStores) > 0:
		// a composite-literal temporary copied as a whole into the entry counts as the entry, at the copy
		entryOf := func(v ssa.Value) (ssa.Value, *ssa.BasicBlock) {
			a, ok := v.(*ssa.Alloc)
			if !ok {
				return v, nil
			}
			for _, r := range referrersOf(a) {
				if ld, ok := r.(*ssa.UnOp); ok && ld.Op == token.MUL {
					for _, rr := range referrersOf(ld) {
						if st, ok := rr.(*ssa.Store); ok && st.Val == ssa.Value(ld) {
							if dst, ok := st.Addr.(*ssa.Alloc); ok {
								return dst, st.Block()
							}
						}
					}
				}
			}
			return v, nil
		}
		type offSt struct {
			val ssa.Value
			blk *ssa.BasicBlock
		}
		var sts []offSt
		var base ssa.Value
		one := true
		for _, st := range offStores {
			b, at := entryOf(st.Addr.(*ssa.FieldAddr).X)
			if at == nil {
				at = st.Block()
			}
			if base != nil && b != base {
				one = false
			}
			base = b
			sts = append(sts, offSt{st.Val, at})
		}
		if one {
			cb, _ := entryOf(codecBase)
			sameEntry = cb == base
			for _, pred := range tphi.Block().Preds {
				var found ssa.Value
				for b := pred; b != nil && found == nil; b = b.Idom() {
					for _, st := range sts {
						if st.blk == b {
							found = st.val // the last one in block order wins
						}
					}
				}
				oEdges = append(oEdges, found)
			}
		}
	}
	if tphi == nil || len(oEdges) != len(tphi.Edges) {
		c.Unk(key+"/offset~type", P.pos(bc.Pos()), "offset and field type are not a pair of phis in one block, nor an entry's offset overwritten where the type is taken (idiom not understood)")
		return
	}
	okPair := true
	why := ""
	var sentinel ssa.Value
	var sfSource ssa.Value
	for i := range tphi.Edges {
		te, oe := tphi.Edges[i], oEdges[i]
		if oe == nil {
			okPair, why = false, "no offset is stored on one way to the codec construction"
			continue
		}
		if isNilConst(te) {
			if _, isC := oe.(*ssa.Const); !isC {
				okPair, why = false, "a field without a Go type does not get the constant sentinel offset"
			}
			sentinel = oe
			continue
		}
		tb, ob := structFieldBase(te, "Type"), structFieldBase(oe, "Offset")
		if tb == nil || ob == nil || tb != ob {
			okPair, why = false, "offset and type are not taken from the same reflect.StructField value"
		}
		sfSource = tb
	}
	c.Check(okPair && sentinel != nil, key+"/offset~type", P.pos(bc.Pos()), "offset = sf.Offset and type = sf.Type of the same sf on the found edge; sentinel offset and nil type otherwise", why)
	cok := false
	if ex, ok := codecVal.(*ssa.Extract); ok && ex.Tuple == ssa.Value(bc) && ex.Index == 0 {
		cok = true
	}
	c.Check(cok && sameEntry && (ophi == nil || offVal == ssa.Value(ophi)), key+"/entry", P.pos(bc.Pos()), "the entry stores the codec built for that type together with that offset", "the field entry does not pair the codec with the offset of the same struct field")
	// sf comes from typ.Field(i) of the builder's own typ, via the name map
	srcOK := false
	if sfSource != nil {
		// sfSource is an Alloc (sf local) filled from a map lookup; the map's values are typ.Field(i)
		for _, b := range mapFn.Blocks {
			for _, in := range b.Instrs {
				if mu, ok := in.(*ssa.MapUpdate); ok {
					if call, ok := mu.Value.(*ssa.Call); ok && typ != nil && call.Call.IsInvoke() && call.Call.Method.Name() == "Field" && call.Call.Value == ssa.Value(typ) {
						srcOK = true
					} else {
						srcOK = false
					}
				}
			}
		}
	}
	c.Check(srcOK, key+"/field-source", P.pos(fn.Pos()), "the struct fields come from typ.Field(i) of the type the record codec is built for", "the struct fields used for offsets do not come from typ.Field(i) of the builder's own type")
}

// structFieldBase: v is a load of field `name` of a reflect.StructField held
// in a local; returns the local.
func structFieldBase(v ssa.Value, name string) ssa.Value {
	switch x := v.(type) {
	case *ssa.UnOp:
		if fa, ok := x.X.(*ssa.FieldAddr); ok && x.Op == token.MUL && fieldName(fa.X.Type(), fa.Field) == name {
			return fa.X
		}
	case *ssa.Field:
		if fieldNameT(x.X.Type(), x.Field) == name {
			return x.X
		}
	case *ssa.Convert:
		return structFieldBase(x.X, name)
	}
	return nil
}

func ruleBTArrMap(c *Ctx) {
	P := c.P
	e := getBT(P)
	c.Rule("BT-ARR", "an array codec's element type, element codec, strides and backing-array allocations all refer to the same element type", 4)
	c.Rule("BT-MAP", "a map codec's value codec is built for the map type's element type and its runtime type is the map type itself", 1)
	fieldsByFold := btArrMapFieldsByFold(c)
	for _, b := range e.Builders {
		if fieldsByFold {
			break
		}
		for _, p := range b.Paths {
			r := P.classifyReturn(p)
			if r.Codec == nil || b.TypParam == nil {
				continue
			}
			name := typeKey(r.Codec)
			pos := P.pos(p.Ret.Pos())
			elemOf := func(v ssa.Value) bool {
				// v is nil or typ.Elem() (possibly a phi of both)
				for _, s := range phiSources(v) {
					if isNilConst(s) {
						continue
					}
					call, ok := s.(*ssa.Call)
					if !ok || !call.Call.IsInvoke() || call.Call.Method.Name() != "Elem" || call.Call.Value != ssa.Value(b.TypParam) {
						return false
					}
				}
				return true
			}
			switch name {
			case "avro.arrayCodec":
				c.Rule("BT-ARR", "", 0)
				it, ic := r.Fields["itemType"], r.Fields["itemCodec"]
				_, ta, ok := builtFrom(P, ic)
				c.Check(ok && it != nil && ta == it && elemOf(it), fnKey(b.Fn)+"/arrayCodec-fields", pos, "itemType is typ.Elem() and itemCodec is built from that same value", "itemType and the type itemCodec was built for are not the same typ.Elem() value")
			case "avro.MapCodec":
				c.Rule("BT-MAP", "", 0)
				vc, rt := r.Fields["valueCodec"], r.Fields["rtype"]
				_, ta, ok := builtFrom(P, vc)
				c.Check(ok && ta != nil && elemOf(ta) && rt == ssa.Value(b.TypParam), fnKey(b.Fn)+"/MapCodec-fields", pos, "valueCodec is built from typ.Elem() and rtype is typ", "the map codec's value codec or runtime type does not come from the map type it is built for")
			}
		}
	}
	// strides in arrayCodec methods: every multiplication feeding pointer arithmetic uses recv.itemType.Size()
	c.Rule("BT-ARR", "", 0)
	ct := e.byType["avro.arrayCodec"]
	if !c.Anchor(ct != nil, "avro.arrayCodec") {
		return
	}
	nt := ct.T.(*types.Named)
	ms := P.Prog.MethodSets.MethodSet(types.NewPointer(nt))
	for i := 0; i < ms.Len(); i++ {
		fn := P.Prog.MethodValue(ms.At(i))
		if fn == nil || fn.Blocks == nil {
			continue
		}
		n := 0
		for _, b := range fn.Blocks {
			for _, in := range b.Instrs {
				bo, ok := in.(*ssa.BinOp)
				if !ok || bo.Op != token.MUL {
					continue
				}
				if bt, isB := bo.Type().Underlying().(*types.Basic); !isB || bt.Kind() != types.Uintptr {
					continue
				}
				n++
				key := fmt.Sprintf("%s/stride#%d", fnKey(fn), n)
				isSize := func(v ssa.Value) bool {
					call, ok := v.(*ssa.Call)
					return ok && call.Call.IsInvoke() && call.Call.Method.Name() == "Size" && recvPathOfValue(fn, call.Call.Value, 0) == "itemType"
				}
				c.Check(isSize(bo.X) || isSize(bo.Y), key, P.pos(bo.Pos()), "element stride is rc.itemType.Size()", "an element address is computed with a stride other than rc.itemType.Size()")
			}
		}
		// allocations use the same itemType
		for _, cs := range callsIn(fn) {
			if cs.Static != nil && cs.Static.Name() == "unsafe_NewArray" {
				src := rtypeSource(cs.Common.Args[0])
				key := fnKey(fn) + "/backing-array-type"
				c.Check(src != nil && recvPathOfValue(fn, src, 0) == "itemType", key, P.pos(cs.Instr.Pos()), "the backing array is allocated with rc.itemType", "the backing array is allocated with a type other than rc.itemType")
				continue
			}
			// ... also when the allocation sits in a plain helper function that is handed the type
			h := cs.Static
			if h == nil || !P.isModuleFunc(h) || h.Blocks == nil || h.Signature.Recv() != nil {
				continue
			}
			for _, hcs := range callsIn(h) {
				if hcs.Static == nil || hcs.Static.Name() != "unsafe_NewArray" {
					continue
				}
				key := fnKey(fn) + "/backing-array-type"
				ok := false
				if hp, isP := hcs.Common.Args[0].(*ssa.Parameter); isP {
					for i, p := range h.Params {
						if p == hp && i < len(cs.Common.Args) {
							src := rtypeSource(cs.Common.Args[i])
							ok = src != nil && recvPathOfValue(fn, src, 0) == "itemType"
						}
					}
				}
				c.Check(ok, key, P.pos(cs.Instr.Pos()), "the backing array is allocated (in "+fnKey(h)+") with the rc.itemType it is handed", "the backing array is allocated with a type other than rc.itemType")
			}
		}
	}
}

// ---------- BT-OMIT

func hasOmitField(P *Program, T types.Type) (string, bool) {
	st, ok := T.Underlying().(*types.Struct)
	if !ok {
		return "", false
	}
	for i := 0; i < st.NumFields(); i++ {
		f := st.Field(i)
		if f.Name() == "omitEmpty" {
			return "omitEmpty", true
		}
		if f.Embedded() {
			if p, ok := hasOmitField(P, f.Type()); ok {
				return f.Name() + "." + p, true
			}
		}
	}
	return "", false
}

func ruleBTOmit(c *Ctx) {
	c.Rule("BT-OMIT", "the builder's omit flag reaches the codec whose Omit the enclosing union consults", 12)
	P := c.P
	e := getBT(P)
	for _, b := range e.Builders {
		if builderIsRegistered(P, b) {
			continue
		}
		seen := map[string]bool{}
		for _, p := range b.Paths {
			r := P.classifyReturn(p)
			if r.Codec == nil {
				continue
			}
			name := typeKey(r.Codec)
			key := fmt.Sprintf("%s/return[%s]", fnKey(b.Fn), name)
			if seen[key] {
				// keep the worst verdict: handled by ob()
			}
			seen[key] = true
			pos := P.pos(p.Ret.Pos())
			// specialisation on an asserted sub-codec: the asserted value must be the one stored
			if tas := assertedOnPath(p); len(tas) > 0 {
				for _, ta := range tas {
					for fld, v := range r.Fields {
						if strings.Contains(fld, ".") {
							continue
						}
						if types.Identical(v.Type(), ta.AssertedType) {
							stored := v
							want := extractOf(ta, 0)
							c.Check(want != nil && stored == ssa.Value(want), key+"/asserted-"+fld, pos,
								"the specialised codec stores the sub-codec value that was asserted (so its omit flag is kept)",
								fmt.Sprintf("the specialised codec stores a fresh %s instead of the asserted sub-codec: the omit flag the sub-codec was built with is lost, so an empty omitempty value is written as non-null", typeKey(ta.AssertedType)))
						}
					}
				}
			}
			path, has := hasOmitField(P, r.Codec)
			if !has {
				continue
			}
			if b.Omit == nil {
				c.Bad(key, pos, "the codec has an omitEmpty field but its builder has no omit parameter")
				continue
			}
			v := r.Fields[path]
			c.Check(v == ssa.Value(b.Omit), key, pos, "omitEmpty is initialised from the omit parameter", fmt.Sprintf("%s.%s is not initialised from the builder's omit parameter: omitempty fields of this type are never written as null", name, path))
		}
	}
	// pass-through: the root dispatcher hands omit on to the per-type builders
	root := e.byFn[P.Func(P.Avro, "buildCodec")]
	if c.Anchor(root != nil && root.Omit != nil, "root dispatcher with an omit parameter") {
		for _, cs := range callsIn(root.Fn) {
			callee := e.byFn[cs.Static]
			if cs.Static == nil || callee == nil || callee.Omit == nil {
				continue
			}
			// the pointer case built in the dispatcher itself: the element's codec is built by a recursive call on
			// typ.Elem(), and whether a pointer is written as null is the pointer's own business (nil or not), not
			// the element's — the pinned helper for pointers passes false there as well
			if cs.Static == root.Fn && root.TypParam != nil {
				elemRec := false
				for _, a := range cs.Common.Args {
					if call, isCall := a.(*ssa.Call); isCall && call.Call.IsInvoke() && call.Call.Method.Name() == "Elem" && call.Call.Value == ssa.Value(root.TypParam) {
						elemRec = true
					}
				}
				if elemRec {
					continue
				}
			}
			for i, prm := range cs.Static.Params {
				if prm == callee.Omit {
					c.Check(cs.Common.Args[i] == ssa.Value(root.Omit), fmt.Sprintf("%s/pass-omit[%s]", fnKey(root.Fn), cs.Static.Name()), P.pos(cs.Instr.Pos()), "omit is handed on unchanged", "the dispatcher does not hand its omit flag to "+cs.Static.Name())
				}
			}
		}
	}
}

// ---------- BT-PURE

// ruleBTPure: a codec is a function of (schema, Go type, omit flag) and the
// locked registry only. A builder that consults or fills any other
// package-level container (a cache keyed by less than the whole schema, say)
// can hand back a codec built for a different schema.
func ruleBTPure(c *Ctx) {
	c.Rule("BT-PURE", "codec construction depends only on its arguments and the locked registry: no builder touches another package-level container (cache, pool, map)", 10)
	P := c.P
	e := getBT(P)
	for _, b := range e.Builders {
		key := fnKey(b.Fn) + "/pure"
		bad := ""
		// the builder itself and the non-builder helpers it calls
		seenF := map[*ssa.Function]bool{}
		var scan func(f *ssa.Function, d int)
		scan = func(f *ssa.Function, d int) {
			if f == nil || seenF[f] || f.Blocks == nil || d > 3 {
				return
			}
			seenF[f] = true
			for _, blk := range f.Blocks {
				for _, in := range blk.Instrs {
					if g := mutableStateOperand(P, in); g != nil {
						bad = "uses the package-level container " + globalKey(g) + " at " + P.pos(in.Pos())
					}
				}
			}
			for _, cs := range callsIn(f) {
				if cs.Static != nil && P.isModuleFunc(cs.Static) && e.byFn[cs.Static] == nil {
					scan(cs.Static, d+1)
				}
			}
		}
		scan(b.Fn, 0)
		c.Check(bad == "", key, P.pos(b.Fn.Pos()), "no package-level state besides the registry", "a codec builder "+bad+": the codec returned can be one built earlier for a different schema (or type)")
	}
}

// recordBuilderGroup: the record builder and the module helpers it calls that
// are not codec builders themselves (depth 2).
func recordBuilderGroup(P *Program, root *ssa.Function) []*ssa.Function {
	seen := map[*ssa.Function]bool{}
	var out []*ssa.Function
	var add func(f *ssa.Function, d int)
	add = func(f *ssa.Function, d int) {
		if f == nil || seen[f] || f.Blocks == nil || d > 2 {
			return
		}
		seen[f] = true
		out = append(out, f)
		for _, cs := range callsIn(f) {
			if cs.Static != nil && P.isModuleFunc(cs.Static) && cs.Static.Pkg == root.Pkg && !isCodecErrorSig(P, cs.Static.Signature) && cs.Static.Signature.Recv() == nil {
				add(cs.Static, d+1)
			}
		}
	}
	add(root, 0)
	return out
}

// ---------- BT-SUBNIL

// ruleBTSubNil: a codec that delegates to a sub-codec held in an interface
// field calls its methods unconditionally when decoding. Wherever a module
// function lets such a codec literal out (as an interface value or a result),
// the field must be definitely assigned a non-nil codec: a forward
// must-analysis over the function's blocks.
func ruleBTSubNil(c *Ctx) {
	c.Rule("BT-SUBNIL", "wherever a codec literal with a sub-codec field leaves the function that builds it, that field is definitely assigned a non-nil codec on every path: decoding calls it without a nil check", 4)
	P := c.P
	mayBeNil := func(v ssa.Value) bool {
		for _, s := range phiSources(v) {
			if isNilConst(s) {
				return true
			}
		}
		return false
	}
	for _, fn := range P.ModuleFuncs() {
		if fn.Blocks == nil {
			continue
		}
		for _, b0 := range fn.Blocks {
			for _, in0 := range b0.Instrs {
				a, ok := in0.(*ssa.Alloc)
				if !ok {
					continue
				}
				T := a.Type().(*types.Pointer).Elem()
				st, ok := T.Underlying().(*types.Struct)
				if !ok || !P.isModuleType(T) {
					continue
				}
				// escape points: the literal (or its value) becomes an interface value or a result
				var outs []ssa.Instruction
				for _, r := range referrersOf(a) {
					switch x := r.(type) {
					case *ssa.MakeInterface, *ssa.Return:
						outs = append(outs, r)
					case *ssa.UnOp:
						if x.Op == token.MUL {
							for _, rr := range referrersOf(x) {
								switch rr.(type) {
								case *ssa.MakeInterface, *ssa.Return:
									outs = append(outs, rr)
								}
							}
						}
					}
				}
				if len(outs) == 0 {
					continue
				}
				for i := 0; i < st.NumFields(); i++ {
					f := st.Field(i)
					if !isCodecIface(P, f.Type()) {
						continue
					}
					// per block, in instruction order: a store of a non-nil value to the field sets it, a store of the
					// zero value to the whole literal (how a composite literal with omitted fields starts) clears it
					type eff struct{ set, clear bool } // the net effect of a block: last one wins
					effect := map[*ssa.BasicBlock]eff{}
					whole := false
					wholeWhat := ""
					for _, b := range fn.Blocks {
						var e eff
						for _, in := range b.Instrs {
							st, ok := in.(*ssa.Store)
							if !ok {
								continue
							}
							if st.Addr == ssa.Value(a) {
								if k, isK := st.Val.(*ssa.Const); isK && k.Value == nil {
									e = eff{clear: true}
								} else if ld, isLd := st.Val.(*ssa.UnOp); isLd && ld.Op == token.MUL {
									// a copy of a composite-literal temporary: set exactly when the temporary's field was
									tmp, isTmp := ld.X.(*ssa.Alloc)
									if !isTmp {
										whole = true
										continue
									}
									has := false
									for _, r := range referrersOf(tmp) {
										if fa, ok := r.(*ssa.FieldAddr); ok && fa.Field == i {
											for _, rr := range referrersOf(fa) {
												if s2, ok := rr.(*ssa.Store); ok && s2.Addr == ssa.Value(fa) && !mayBeNil(s2.Val) {
													has = true
												}
											}
										}
									}
									e = eff{set: has, clear: !has}
								} else {
									whole = true
									wholeWhat = " (" + st.String() + ")"
								}
								continue
							}
							if fa, ok := st.Addr.(*ssa.FieldAddr); ok && fa.X == ssa.Value(a) && fa.Field == i {
								if mayBeNil(st.Val) {
									e = eff{clear: true}
								} else {
									e = eff{set: true}
								}
							}
						}
						effect[b] = e
					}
					key := fmt.Sprintf("%s/literal[%s]/%s", fnKey(fn), typeKey(T), f.Name())
					if whole {
						c.Unk(key, P.pos(a.Pos()), "the literal is assigned as a whole from another value: field-wise definite assignment does not apply"+wholeWhat)
						continue
					}
					out := map[*ssa.BasicBlock]bool{}
					for _, b := range fn.Blocks {
						out[b] = true
					}
					inOf := func(b *ssa.BasicBlock) bool {
						if b == fn.Blocks[0] || len(b.Preds) == 0 {
							return false
						}
						for _, p := range b.Preds {
							if !out[p] {
								return false
							}
						}
						return true
					}
					for changed := true; changed; {
						changed = false
						for _, b := range fn.Blocks {
							v := inOf(b)
							if effect[b].set {
								v = true
							} else if effect[b].clear {
								v = false
							}
							if v != out[b] {
								out[b] = v
								changed = true
							}
						}
					}
					var bad ssa.Instruction
					for _, o := range outs {
						if !out[o.Block()] {
							bad = o
						}
					}
					if bad != nil {
						c.Bad(key, P.pos(a.Pos()), fmt.Sprintf("the sub-codec field %s of this %s is not assigned a non-nil codec on every path before the literal leaves %s: decoding a value through it is a nil-pointer panic", f.Name(), typeKey(T), fn.Name()))
					} else {
						c.OK(key, P.pos(a.Pos()), fmt.Sprintf("definitely assigned a non-nil codec before each of the %d places the literal leaves the function", len(outs)))
					}
				}
			}
		}
	}
}
