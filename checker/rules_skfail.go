package main

// SK-FAIL (C04, C03): a codec's Skip — and its Read — may fail of its own
// accord only on what it has decoded from the wire. "Skipping a value consumes
// exactly the bytes decoding it would" has a failure side: an input Read
// accepts must not be refused by Skip. Two clauses, both about the error
// returns a method constructs itself (as opposed to passing on the error of a
// buffer call or of a sub-codec):
//
//   - state clause (Read and Skip): a test of how much input is left may refuse
//     only for lack of the bytes that are about to be consumed — the other side
//     of the comparison is the amount a consuming call of the same function
//     takes. A presumption about sizes ("every field takes at least a byte")
//     refuses zero-width values at the end of a buffer.
//   - sibling clause (Skip): a test of a decoded value that makes Skip fail is a
//     test Read makes too (same decoded token, same operator, same bound).

import (
	"fmt"
	"go/token"
	"go/types"
	"sort"
	"strings"

	"golang.org/x/tools/go/ssa"
)

// readBufConsuming: methods of *ReadBuf that move the cursor (store to an
// integer field of the receiver, directly or through another such method).
func readBufConsuming(P *Program) map[*ssa.Function]bool {
	out := map[*ssa.Function]bool{}
	var ms []*ssa.Function
	for _, fn := range P.ModuleFuncs() {
		if fn.Signature.Recv() != nil && isReadBufPtr(fn.Signature.Recv().Type()) && fn.Blocks != nil {
			ms = append(ms, fn)
		}
	}
	for changed := true; changed; {
		changed = false
		for _, fn := range ms {
			if out[fn] {
				continue
			}
			hit := false
			for _, b := range fn.Blocks {
				for _, in := range b.Instrs {
					switch x := in.(type) {
					case *ssa.Store:
						if fa, ok := x.Addr.(*ssa.FieldAddr); ok && fa.X == ssa.Value(fn.Params[0]) {
							if bt, ok := x.Val.Type().Underlying().(*types.Basic); ok && bt.Info()&types.IsInteger != 0 {
								hit = true
							}
						}
					case ssa.CallInstruction:
						if g := x.Common().StaticCallee(); g != nil && out[g] && len(x.Common().Args) > 0 && x.Common().Args[0] == ssa.Value(fn.Params[0]) {
							hit = true
						}
					}
				}
			}
			if hit {
				out[fn] = true
				changed = true
			}
		}
	}
	return out
}

// ownError: v is an error the function makes up itself — errors.New, a
// package-level sentinel, or fmt.Errorf that wraps no error obtained from a
// call (wrapping a sentinel does not make it somebody else's error).
func ownError(v ssa.Value) bool {
	v = stripChange(v)
	if _, args, ok := errorfInfo(v); ok {
		for _, a := range args {
			a = stripChange(a)
			if !isErrorType(a.Type()) {
				continue
			}
			if u, isU := a.(*ssa.UnOp); isU && u.Op == token.MUL {
				if _, isG := u.X.(*ssa.Global); isG {
					continue
				}
			}
			return false
		}
		return true
	}
	if call, ok := v.(*ssa.Call); ok {
		if g := call.Call.StaticCallee(); g != nil {
			switch qualName(g) {
			case "errors.New":
				return true
			}
		}
	}
	if u, ok := v.(*ssa.UnOp); ok && u.Op == token.MUL {
		if _, isG := u.X.(*ssa.Global); isG && isErrorType(u.Type()) {
			return true
		}
	}
	return false
}

type skAtom struct {
	cond  ssa.Value
	truth bool
	pos   token.Pos
	from  *ssa.BasicBlock
}

var cmpSet = map[token.Token]int{token.LSS: 1, token.LEQ: 3, token.EQL: 2, token.NEQ: 5, token.GEQ: 6, token.GTR: 4}

// dead: the edge cannot be taken — a comparison that dominates the branch already settles the same two
// operands the other way (a "belt and braces" re-test of something established above).
func (a skAtom) dead() bool {
	if a.from == nil {
		return false
	}
	me, ok := asCmp(a.cond, a.truth)
	if !ok {
		for _, f := range factsAt(a.from) {
			if f.Cond == a.cond && f.Truth != a.truth {
				return true
			}
		}
		return false
	}
	for _, f := range cmpFactsAt(a.from) {
		op := f.Op
		switch {
		case sameValue(f.X, me.X) && sameValue(f.Y, me.Y):
		case sameValue(f.X, me.Y) && sameValue(f.Y, me.X):
			op = swapOp(op)
		default:
			continue
		}
		if cmpSet[op]&cmpSet[me.Op] == 0 && cmpSet[op] != 0 && cmpSet[me.Op] != 0 {
			return true
		}
	}
	return false
}

// guardAtoms: the branch conditions on the edges into block b (through
// unconditional jumps and blocks that only compute the error).
func guardAtoms(b *ssa.BasicBlock) []skAtom {
	var out []skAtom
	seen := map[*ssa.BasicBlock]bool{}
	var walk func(x *ssa.BasicBlock, d int)
	walk = func(x *ssa.BasicBlock, d int) {
		if seen[x] || d > 4 {
			return
		}
		seen[x] = true
		for _, p := range x.Preds {
			last := p.Instrs[len(p.Instrs)-1]
			switch t := last.(type) {
			case *ssa.If:
				if p.Succs[0] == x && p.Succs[1] == x {
					continue
				}
				pos := t.Pos()
				if !pos.IsValid() {
					pos = t.Cond.Pos()
				}
				if !pos.IsValid() {
					for _, in := range p.Instrs {
						if in.Pos().IsValid() {
							pos = in.Pos()
						}
					}
				}
				out = append(out, skAtom{cond: t.Cond, truth: p.Succs[0] == x, pos: pos, from: p})
			case *ssa.Jump:
				walk(p, d+1)
			}
		}
	}
	walk(b, 0)
	return out
}

type skEnv struct {
	P         *Program
	consuming map[*ssa.Function]bool
}

// leafKinds classifies what a condition is computed from.
type skLeaves struct{ wire, state, other bool }

func (e *skEnv) isBufParam(fn *ssa.Function, v ssa.Value) bool {
	p, ok := v.(*ssa.Parameter)
	return ok && isReadBufPtr(p.Type())
}

func (e *skEnv) leaves(fn *ssa.Function, v ssa.Value, d int, out *skLeaves) {
	if d > 10 {
		out.other = true
		return
	}
	switch x := v.(type) {
	case *ssa.Const:
	case *ssa.Convert:
		e.leaves(fn, x.X, d+1, out)
	case *ssa.ChangeType:
		e.leaves(fn, x.X, d+1, out)
	case *ssa.BinOp:
		e.leaves(fn, x.X, d+1, out)
		e.leaves(fn, x.Y, d+1, out)
	case *ssa.UnOp:
		if x.Op == token.MUL {
			if fa, ok := x.X.(*ssa.FieldAddr); ok && e.isBufParam(fn, fa.X) {
				out.state = true
				return
			}
			out.other = true
			return
		}
		e.leaves(fn, x.X, d+1, out)
	case *ssa.Phi:
		for _, ed := range x.Edges {
			e.leaves(fn, ed, d+1, out)
		}
	case *ssa.Extract:
		if call, ok := x.Tuple.(*ssa.Call); ok {
			e.callLeaves(fn, call, d, out)
			return
		}
		out.other = true
	case *ssa.Call:
		e.callLeaves(fn, x, d, out)
	case *ssa.Parameter:
		// a number handed to a helper together with the buffer: it is whatever its callers computed
		if bt, ok := x.Type().Underlying().(*types.Basic); ok && bt.Info()&types.IsInteger != 0 && fn.Signature.Recv() == nil {
			idx := -1
			for i, p := range fn.Params {
				if p == x {
					idx = i
				}
			}
			sites := callersOf(e.P, fn)
			if idx >= 0 && len(sites) > 0 {
				for _, site := range sites {
					if idx < len(site.Common().Args) {
						e.leaves(site.Parent(), site.Common().Args[idx], d+1, out)
					}
				}
				return
			}
		}
		out.other = true
	default:
		out.other = true
	}
}

func (e *skEnv) callLeaves(fn *ssa.Function, call *ssa.Call, d int, out *skLeaves) {
	if bi, ok := call.Call.Value.(*ssa.Builtin); ok {
		if (bi.Name() == "len" || bi.Name() == "cap") && len(call.Call.Args) == 1 {
			// len(r.buf) is state, len(anything else) is configuration or data
			a := call.Call.Args[0]
			if u, isU := a.(*ssa.UnOp); isU && u.Op == token.MUL {
				if fa, isF := u.X.(*ssa.FieldAddr); isF && e.isBufParam(fn, fa.X) {
					out.state = true
					return
				}
			}
			out.other = true
			return
		}
		out.other = true
		return
	}
	g := call.Call.StaticCallee()
	if g == nil {
		out.other = true
		return
	}
	if g.Signature.Recv() != nil && isReadBufPtr(g.Signature.Recv().Type()) {
		if e.consuming[g] {
			out.wire = true
		} else {
			out.state = true
		}
		return
	}
	// a module helper handed the buffer: what it returns is decoded from it
	for _, a := range call.Call.Args {
		if isReadBufPtr(a.Type()) {
			out.wire = true
			return
		}
	}
	out.other = true
}

// consumedAmounts: the values a function hands to consuming calls as a byte
// count, or adds to the cursor.
func (e *skEnv) consumedAmounts(fn *ssa.Function) []ssa.Value {
	var out []ssa.Value
	for _, b := range fn.Blocks {
		for _, in := range b.Instrs {
			switch x := in.(type) {
			case ssa.CallInstruction:
				cc := x.Common()
				g := cc.StaticCallee()
				if g == nil {
					continue
				}
				takesBuf := false
				for _, a := range cc.Args {
					if isReadBufPtr(a.Type()) {
						takesBuf = true
					}
				}
				if !takesBuf {
					continue
				}
				for _, a := range cc.Args {
					if bt, ok := a.Type().Underlying().(*types.Basic); ok && bt.Info()&types.IsInteger != 0 {
						out = append(out, a)
					}
				}
			case *ssa.Store:
				if fa, ok := x.Addr.(*ssa.FieldAddr); ok && e.isBufParam(fn, fa.X) {
					if bo, ok := x.Val.(*ssa.BinOp); ok && bo.Op == token.ADD {
						out = append(out, bo.X, bo.Y)
					}
				}
			}
		}
	}
	return out
}

func (e *skEnv) desc(fn *ssa.Function, v ssa.Value, d int) string {
	if d > 10 {
		return "?"
	}
	switch x := v.(type) {
	case *ssa.Const:
		if x.Value == nil {
			return "nil"
		}
		return x.Value.ExactString()
	case *ssa.Convert:
		return e.desc(fn, x.X, d+1)
	case *ssa.ChangeType:
		return e.desc(fn, x.X, d+1)
	case *ssa.BinOp:
		return "(" + e.desc(fn, x.X, d+1) + x.Op.String() + e.desc(fn, x.Y, d+1) + ")"
	case *ssa.UnOp:
		if x.Op == token.MUL {
			if p := recvPathOfValue(fn, x, 0); p != "" {
				return "recv." + p
			}
			return "?"
		}
		return x.Op.String() + e.desc(fn, x.X, d+1)
	case *ssa.Extract:
		if call, ok := x.Tuple.(*ssa.Call); ok {
			if g := call.Call.StaticCallee(); g != nil {
				return fmt.Sprintf("tok.%s#%d", g.Name(), x.Index)
			}
		}
		return "?"
	case *ssa.Call:
		if bi, ok := x.Call.Value.(*ssa.Builtin); ok && len(x.Call.Args) == 1 {
			return bi.Name() + "(" + e.desc(fn, x.Call.Args[0], d+1) + ")"
		}
		if g := x.Call.StaticCallee(); g != nil {
			if g.Signature.Recv() != nil && isReadBufPtr(g.Signature.Recv().Type()) && !e.consuming[g] {
				return "buffer." + g.Name() + "()"
			}
			return "tok." + g.Name()
		}
		return "?"
	case *ssa.Parameter:
		for i, p := range fn.Params {
			if p == x {
				// a number a helper is handed: described as what its callers pass, when they all pass the same
				if bt, ok := x.Type().Underlying().(*types.Basic); ok && bt.Info()&types.IsInteger != 0 && fn.Signature.Recv() == nil {
					var ds []string
					for _, site := range callersOf(e.P, fn) {
						if i < len(site.Common().Args) {
							ds = append(ds, e.desc(site.Parent(), site.Common().Args[i], d+1))
						}
					}
					if ds = dedup(ds); len(ds) == 1 {
						return ds[0]
					}
				}
				return fmt.Sprintf("param%d", i)
			}
		}
	case *ssa.Phi:
		var ds []string
		for _, ed := range x.Edges {
			ds = append(ds, e.desc(fn, ed, d+1))
		}
		sort.Strings(ds)
		return "phi(" + strings.Join(dedup(ds), "|") + ")"
	}
	return "?"
}

func (e *skEnv) canon(fn *ssa.Function, a skAtom) string {
	if cmp, ok := asCmp(a.cond, a.truth); ok {
		x, y, op := e.desc(fn, cmp.X, 0), e.desc(fn, cmp.Y, 0), cmp.Op
		// constants and configuration to the right
		if _, isK := stripConv(cmp.X).(*ssa.Const); isK {
			x, y, op = y, x, swapOp(op)
		}
		return x + " " + op.String() + " " + y
	}
	return fmt.Sprintf("%s is %v", e.desc(fn, a.cond, 0), a.truth)
}

// skLin is a linear form over named atoms plus a constant. The atoms LEN (len of the buffer), I (the
// cursor) and LEFT (bytes left) are the buffer's state; any other value is an atom of its own.
type skLin struct {
	c map[string]int64
	k int64
	v map[string]ssa.Value
}

func newLin() skLin { return skLin{c: map[string]int64{}, v: map[string]ssa.Value{}} }

func (l skLin) add(o skLin, sign int64) skLin {
	for a, c := range o.c {
		l.c[a] += sign * c
		if o.v[a] != nil {
			l.v[a] = o.v[a]
		}
	}
	l.k += sign * o.k
	return l
}

func (l skLin) clean() {
	for a, c := range l.c {
		if c == 0 {
			delete(l.c, a)
		}
	}
}

func (l skLin) equal(o skLin) bool {
	l.clean()
	o.clean()
	if l.k != o.k || len(l.c) != len(o.c) {
		return false
	}
	for a, c := range l.c {
		if o.c[a] != c {
			return false
		}
	}
	return true
}

func (e *skEnv) linOf(fn *ssa.Function, v ssa.Value, d int) (skLin, bool) {
	l := newLin()
	if d > 8 {
		return l, false
	}
	switch x := v.(type) {
	case *ssa.Const:
		k, ok := constInt(x)
		if !ok {
			return l, false
		}
		l.k = k
		return l, true
	case *ssa.Convert:
		return e.linOf(fn, x.X, d+1)
	case *ssa.ChangeType:
		return e.linOf(fn, x.X, d+1)
	case *ssa.BinOp:
		if x.Op == token.ADD || x.Op == token.SUB {
			a, ok1 := e.linOf(fn, x.X, d+1)
			b, ok2 := e.linOf(fn, x.Y, d+1)
			if !ok1 || !ok2 {
				return l, false
			}
			sign := int64(1)
			if x.Op == token.SUB {
				sign = -1
			}
			return a.add(b, sign), true
		}
	case *ssa.UnOp:
		if x.Op == token.SUB {
			a, ok := e.linOf(fn, x.X, d+1)
			if !ok {
				return l, false
			}
			return newLin().add(a, -1), true
		}
		if x.Op == token.MUL {
			if fa, ok := x.X.(*ssa.FieldAddr); ok && e.isBufParam(fn, fa.X) {
				if bt, ok := x.Type().Underlying().(*types.Basic); ok && bt.Info()&types.IsInteger != 0 {
					l.c["I"] = 1
					return l, true
				}
			}
		}
	case *ssa.Call:
		if bi, ok := x.Call.Value.(*ssa.Builtin); ok && bi.Name() == "len" && len(x.Call.Args) == 1 {
			if u, isU := x.Call.Args[0].(*ssa.UnOp); isU && u.Op == token.MUL {
				if fa, isF := u.X.(*ssa.FieldAddr); isF && e.isBufParam(fn, fa.X) {
					l.c["LEN"] = 1
					return l, true
				}
			}
		}
		if g := x.Call.StaticCallee(); g != nil && g.Signature.Recv() != nil && isReadBufPtr(g.Signature.Recv().Type()) && !e.consuming[g] && len(x.Call.Args) == 1 {
			// the buffer's own "bytes left"
			l.c["LEN"], l.c["I"] = 1, -1
			return l, true
		}
	}
	// any other value is an atom of its own (named by its access path when it has one, so that two loads
	// of the same field are the same atom)
	name := accessPath(stripConv(v))
	if name == "" || strings.Contains(name, "@") {
		name = fmt.Sprintf("%p", stripConv(v))
	}
	l.c["v:"+name] = 1
	l.v["v:"+name] = v
	return l, true
}

// lackOfConsumed: the atom says "fewer than N bytes are left" for an N that the function goes on to consume.
func (e *skEnv) lackOfConsumed(fn *ssa.Function, a skAtom, amounts []ssa.Value) bool {
	cmp, ok := asCmp(a.cond, a.truth)
	if !ok {
		return false
	}
	x, ok1 := e.linOf(fn, cmp.X, 0)
	y, ok2 := e.linOf(fn, cmp.Y, 0)
	if !ok1 || !ok2 {
		return false
	}
	d := x.add(y, -1) // X - Y  op  0
	op := cmp.Op
	d.clean()
	// want  LEN - I - N  op  0  with op in {<, <=}
	if d.c["LEN"] == -1 && d.c["I"] == 1 {
		d = newLin().add(d, -1)
		op = swapOp(op)
	}
	if d.c["LEN"] != 1 || d.c["I"] != -1 {
		return false
	}
	delete(d.c, "LEN")
	delete(d.c, "I")
	n := newLin().add(d, -1) // left - N op 0
	switch op {
	case token.LSS:
	case token.LEQ:
		n.k++
	default:
		return false
	}
	for _, am := range amounts {
		al, ok := e.linOf(fn, am, 0)
		if !ok {
			continue
		}
		if _, isState := al.c["I"]; isState {
			continue
		}
		if al.equal(n) {
			return true
		}
	}
	return false
}

type skSite struct {
	fn    *ssa.Function
	ret   *ssa.Return
	atoms []skAtom
}

// ownErrorSites: the places where fn, or a module helper it hands the buffer
// to (not a method of the buffer itself), returns an error of its own making.
func (e *skEnv) ownErrorSites(fn *ssa.Function) []skSite {
	var out []skSite
	seen := map[*ssa.Function]bool{}
	var visit func(g *ssa.Function, d int)
	visit = func(g *ssa.Function, d int) {
		if g == nil || g.Blocks == nil || seen[g] || d > 2 {
			return
		}
		seen[g] = true
		for _, r := range returnsOf(g) {
			ev := errOperand(r)
			if ev == nil || isNilConst(ev) {
				continue
			}
			if phi, ok := ev.(*ssa.Phi); ok {
				for i, ed := range phi.Edges {
					if ownError(ed) {
						out = append(out, skSite{g, r, guardAtoms(phi.Block().Preds[i])})
					}
				}
				continue
			}
			if ownError(ev) {
				blk := r.Block()
				if in, ok := stripChange(ev).(ssa.Instruction); ok && in.Block() != nil {
					blk = in.Block()
				}
				out = append(out, skSite{g, r, guardAtoms(blk)})
			}
		}
		for _, cs := range callsIn(g) {
			if cs.Static == nil || !e.P.isModuleFunc(cs.Static) {
				continue
			}
			if cs.Static.Signature.Recv() != nil && isReadBufPtr(cs.Static.Signature.Recv().Type()) {
				continue
			}
			for _, a := range cs.Common.Args {
				if isReadBufPtr(a.Type()) {
					visit(cs.Static, d+1)
				}
			}
		}
	}
	visit(fn, 0)
	return out
}

func ruleSKFail(c *Ctx) {
	c.Rule("SK-FAIL", "Read and Skip refuse input of their own accord only on what they decoded: a test of the input left may refuse only for lack of the bytes about to be consumed, and a test that makes Skip fail is one Read makes too", 20)
	P := c.P
	e := &skEnv{P: P, consuming: readBufConsuming(P)}
	if len(e.consuming) < 3 {
		c.Unk("avro.ReadBuf/consuming-methods", "-", "the read buffer's consuming methods were not found")
		return
	}
	bt := getBT(P)
	done := map[*ssa.Function]bool{}
	for _, ct := range bt.Codecs {
		rd, sk := ct.M["Read"], ct.M["Skip"]
		if rd == nil || sk == nil {
			continue
		}
		readCanon := map[string]bool{}
		for _, s := range e.ownErrorSites(rd) {
			for _, a := range s.atoms {
				readCanon[e.canon(s.fn, a)] = true
			}
		}
		for _, m := range []string{"Read", "Skip"} {
			fn := ct.M[m]
			if !ct.Declared[m] || done[fn] {
				continue
			}
			done[fn] = true
			key := ct.Name + "." + m + "/own-failures"
			pos := P.pos(fn.Pos())
			sites := e.ownErrorSites(fn)
			if len(sites) == 0 {
				c.OKTrivial(key, pos, "fails only by passing on the error of a buffer or sub-codec call")
				continue
			}
			var bad, unk []string
			for _, s := range sites {
				amounts := e.consumedAmounts(s.fn)
				if len(s.atoms) == 0 {
					unk = append(unk, fmt.Sprintf("the error made at %s is not under a branch the rule can read", P.pos(s.ret.Pos())))
					continue
				}
				for _, a := range s.atoms {
					if a.dead() {
						continue
					}
					var lv skLeaves
					e.leaves(s.fn, a.cond, 0, &lv)
					where := P.pos(a.pos)
					switch {
					case lv.state:
						// "refuse when fewer than N bytes are left": N must be an amount about to be consumed
						if !e.lackOfConsumed(s.fn, a, amounts) {
							bad = append(bad, fmt.Sprintf("%s refuses at %s on the amount of input left (%s), compared with something that is not the number of bytes it is about to consume: a value that needs fewer bytes is rejected", m, where, e.canon(s.fn, a)))
						}
					case lv.wire && m == "Skip":
						// "the amount about to be consumed is negative" in the function that consumes it is the
						// buffer's own refusal written out (Next refuses a negative length too), not a test of a
						// decoded value that Read would have to make as well
						if cmp, isCmp := asCmp(a.cond, a.truth); isCmp {
							isAmount := func(v ssa.Value) bool {
								for _, am := range amounts {
									if stripConv(am) == stripConv(v) {
										return true
									}
								}
								return false
							}
							kx, isKx := constInt(stripConv(cmp.X))
							ky, isKy := constInt(stripConv(cmp.Y))
							if isKy && ky == 0 && cmp.Op == token.LSS && isAmount(cmp.X) || isKx && kx == 0 && cmp.Op == token.GTR && isAmount(cmp.Y) {
								continue
							}
						}
						cn := e.canon(s.fn, a)
						if strings.Contains(cn, "?") {
							unk = append(unk, fmt.Sprintf("the test at %s (%s) could not be put in a form comparable with Read's", where, cn))
						} else if !readCanon[cn] {
							var have []string
							for k := range readCanon {
								have = append(have, k)
							}
							sort.Strings(have)
							bad = append(bad, fmt.Sprintf("Skip refuses at %s on %q, a test Read does not make (Read's own refusals: %v): input that decodes cannot be skipped", where, cn, have))
						}
					}
				}
			}
			switch {
			case len(bad) > 0:
				c.Bad(key, pos, strings.Join(bad, "; "))
			case len(unk) > 0:
				c.Unk(key, pos, strings.Join(unk, "; "))
			default:
				c.OK(key, pos, fmt.Sprintf("%d error(s) of its own, each on a decoded value (and, for Skip, on a test Read makes too) or for lack of exactly the bytes about to be consumed", len(sites)))
			}
		}
	}
}
