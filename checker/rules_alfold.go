package main

// The bank's allocator decided by folding (E-CP): Alloc is folded on a bank
// whose arena table holds two entries with known counters — one with room,
// one full — and a requested type the fold knows nothing about, so that the
// search forks into "first entry matches", "second entry matches" and "no
// entry matches". What each outcome returns, clears, allocates and leaves in
// the table decides AL-BUMP (slot address, pre-increment index, growth) and
// where AL-CLR's clear goes, however Alloc is split into helpers. Close is
// folded on the same bank for AL-CLOSE.

import (
	"fmt"
	"go/types"
	"os"
	"reflect"
	"strings"

	"golang.org/x/tools/go/ssa"
)

type alFold struct {
	ok       bool
	why      string
	problems map[string]string
	clearFn  *ssa.Function // what Alloc clears the slot with
	detail   string
}

var alFoldCache = map[*Program]*alFold{}

func mkBank(P *Program, R *bankRoles, rbT types.Type, e0, e1 map[string]cpVal) (cpPtr, *cpCell, *cpCell) {
	entT := types.Type(R.entry)
	c0 := &cpCell{V: cpStructOf(entT, e0), T: entT}
	c1 := &cpCell{V: cpStructOf(entT, e1), T: entT}
	var sliceT types.Type
	st := rbT.Underlying().(*types.Struct)
	for i := 0; i < st.NumFields(); i++ {
		if st.Field(i).Name() == R.types {
			sliceT = st.Field(i).Type()
		}
	}
	bank := cpStructOf(rbT, map[string]cpVal{
		R.types: cpSlice{T: sliceT, Elems: []*cpCell{c0, c1}},
		R.sData: cpUnk{ID: "bank.sData"},
	})
	return cpPtrTo(bank, rbT), c0, c1
}

func allocByFold(P *Program) *alFold {
	if r, ok := alFoldCache[P]; ok {
		return r
	}
	r := &alFold{problems: map[string]string{}}
	alFoldCache[P] = r
	fail := func(why string) *alFold {
		r.why = why
		return r
	}
	R := resourceRoles(P)
	rbN := P.NamedType(P.Avro, "ResourceBank")
	if !R.ok || rbN == nil || R.entry == nil {
		return fail("bank roles not resolved")
	}
	rbT := types.Type(rbN)
	al := P.Method(rbN, "Alloc")
	if al == nil || len(al.Params) != 2 {
		return fail("Alloc not found")
	}
	ent := func(p, a string, cap, ln, size int64) map[string]cpVal {
		return map[string]cpVal{R.ptyp: cpUnk{ID: p}, R.array: cpUnk{ID: a}, R.cap: cpInt{cap}, R.len: cpInt{ln}, R.size: cpInt{size}}
	}
	rb, c0, c1 := mkBank(P, R, rbT, ent("P0", "A0", 4, 2, 24), ent("P1", "A1", 4, 4, 8))
	_ = c0
	_ = c1
	rt := cpRTypeOfKind(reflect.Struct, false)
	rt.Size = 40
	// the run-time type word of the requested type is whatever unpackEFace says: unknown to the fold
	opaque := func(g *ssa.Function) bool {
		if g.Blocks == nil {
			return true
		}
		// a helper that reinterprets an interface value (unsafe cast) cannot be folded; its result is unknown anyway
		for _, p := range g.Params {
			if isReflectType(p.Type()) && g.Signature.Recv() == nil && g.Signature.Results().Len() == 1 {
				if _, isS := g.Signature.Results().At(0).Type().Underlying().(*types.Struct); isS {
					return true
				}
			}
		}
		return false
	}
	cpMaxOutcomes = 64
	defer func() { cpMaxOutcomes = 96 }()
	outs, _, ok, why := cpFoldOpt(P, al, []cpVal{rb, rt}, opaque)
	if !ok {
		return fail("folding Alloc: " + why)
	}
	type seen struct{ first, second, fresh bool }
	var sn seen
	// AL-KEY: what the search compared with what. req is the one unknown both arenas' type words were compared with.
	req := ""
	other := func(id, p string) string {
		id = strings.TrimPrefix(id, "cmp:")
		ab := strings.SplitN(id, "==", 2)
		if len(ab) != 2 {
			return ""
		}
		switch p {
		case ab[0]:
			return ab[1]
		case ab[1]:
			return ab[0]
		}
		return ""
	}
	keyOf := func(o *cpOutcome, p string) (x string, truth, found bool) {
		for id, t := range o.Decided {
			if y := other(id, p); y != "" {
				return y, t, true
			}
		}
		return "", false, false
	}
	lin := func(v cpVal) (id string, add int64, ok bool) {
		switch x := v.(type) {
		case cpUnk:
			return x.ID, 0, true
		case cpLin:
			if x.Mul == 1 {
				return x.ID, x.Add, true
			}
		}
		return "", 0, false
	}
	intOf := func(v cpVal) (int64, bool) {
		if v == nil {
			return 0, true
		}
		i, ok := v.(cpInt)
		return i.V, ok
	}
	bad := func(clause, msg string) {
		if r.problems[clause] == "" {
			r.problems[clause] = msg
		}
	}
	for _, o := range outs {
		if o.Panics {
			bad("shape", "a path of Alloc ends in a run-time panic for a bank with two arenas")
			continue
		}
		if len(o.Results) != 1 {
			return fail("Alloc does not return one value")
		}
		// the bank after the call: the fold copies its arguments per run, so read the table back through the calls' view: the
		// typed clear's arguments and the allocation's arguments, and the final table through the returned pointer's arena
		var clr, grow *cpCall
		for i := range o.Calls {
			cl := &o.Calls[i]
			var g *ssa.Function
			if cl.Instr != nil {
				g = cl.Instr.Common().StaticCallee()
			}
			if g == nil {
				continue
			}
			switch {
			case isTypedClearCandidate(g) || strings.Contains(linkTargetOf(P, g), "typedmemclr"):
				clr = cl
				r.clearFn = g
			case strings.Contains(linkTargetOf(P, g), "unsafe_NewArray") || g.Name() == "unsafe_NewArray":
				if grow != nil {
					bad("growth", "one allocation creates more than one array")
				}
				grow = cl
			}
		}
		if os.Getenv("AVROCHECK_ALFOLD") != "" {
			fmt.Printf("  outcome: result=%v decided=%v\n", o.Results[0], o.Decided)
			for _, cl := range o.Calls {
				fmt.Printf("     call %s args=%v result=%v\n", cl.Callee, cl.Args, cl.Result)
			}
		}
		rid, radd, rok := lin(o.Results[0])
		if !rok {
			bad("slot-address", "the pointer returned is not an arena's array plus a known offset")
			continue
		}
		x0, t0, f0 := keyOf(&o, "P0")
		x1, t1, f1 := keyOf(&o, "P1")
		if f0 {
			if req == "" {
				req = x0
			} else if req != x0 {
				bad("key", "the arena types are compared with different things on different paths")
			}
		}
		if f1 && req != "" && x1 != req {
			bad("key", "the two arenas' type words are compared with different things")
		}
		switch {
		case rid == "A0":
			if !(f0 && t0) {
				bad("key", "the first arena is handed out without its type word having been found equal to the requested type's")
			}
			sn.first = true
			if radd != 2*24 {
				bad("pre-increment-index", fmt.Sprintf("an arena holding 2 values of 24 bytes hands out offset %d, not 48: the slot is not array + (length before the increment)*size", radd))
			}
			if grow != nil {
				bad("growth", "an arena with room (2 of 4) allocates a new array")
			}
		case rid == "A1":
			bad("growth", "a full arena (4 of 4) hands out a slot of its old array: a slot in use is given out again, or one past the end")
		default:
			// a slot of a freshly allocated array: the second (full) arena, or a new arena
			if grow == nil || len(grow.Args) != 2 {
				bad("slot-address", "the pointer returned belongs to no arena's array")
				continue
			}
			nid, _, _ := lin(grow.Result)
			if nid == "" || rid != nid {
				bad("slot-address", "the pointer returned is not inside the array just allocated")
				continue
			}
			n, nIsInt := grow.Args[1].(cpInt)
			pid, _, _ := lin(grow.Args[0])
			switch pid {
			case "P1":
				if !(f1 && t1) || (f0 && t0) {
					bad("key", "the second arena is used without its type word having been found equal to the requested type's (and the first's found different)")
				}
				sn.second = true
				if radd != 4*8 {
					bad("pre-increment-index", fmt.Sprintf("a full arena of 4 values of 8 bytes, once grown, hands out offset %d, not 32", radd))
				}
				if !nIsInt || n.V <= 4 {
					bad("growth", "the array allocated for a full arena of 4 is not larger than 4")
				}
			default:
				if (f0 && t0) || (f1 && t1) || !f0 || !f1 {
					bad("key", "a new arena is made although an existing arena's type word was not found different from the requested type's")
				}
				if req != "" && pid != req {
					bad("key", "the new arena's array is allocated with a type word other than the one the search looked for")
				}
				sn.fresh = true
				if radd != 0 {
					bad("pre-increment-index", fmt.Sprintf("the first value of a new arena is at offset %d, not 0", radd))
				}
				if !nIsInt || n.V < 1 {
					bad("growth", "the array allocated for a new arena has no room")
				}
			}
		}
		// the clear: the runtime type of the arena and the very pointer returned
		if clr == nil || len(clr.Args) != 2 {
			bad("clear", "the slot handed out is not cleared with its type before it is returned")
		} else {
			cid, cadd, cok := lin(clr.Args[1])
			if !cok || cid != rid || cadd != radd {
				bad("clear", "what is cleared is not the slot that is returned")
			}
			tid, _, _ := lin(clr.Args[0])
			want := map[string]string{"A0": "P0"}[rid]
			if grow != nil {
				want, _, _ = lin(grow.Args[0])
			}
			if want != "" && tid != want {
				bad("clear", "the slot is cleared with a run-time type other than its arena's")
			}
		}
	}
	if !sn.first || !sn.second || !sn.fresh {
		return fail(fmt.Sprintf("the fold did not reach all three cases (arena with room %v, full arena %v, new arena %v)", sn.first, sn.second, sn.fresh))
	}
	r.ok = true
	r.detail = fmt.Sprintf("Alloc folded on a bank with an arena holding 2 of 4 values of 24 bytes and a full arena of 4 values of 8 bytes, for a requested type unknown to the fold: %d outcomes (first arena, second arena grown, new arena)", len(outs))
	// the table after the call is checked in a second fold whose result is the bank itself
	tableAfterAlloc(P, r, al, R, rbT, ent, rt, opaque, intOf)
	return r
}

// tableAfterAlloc re-folds Alloc and reads the arena table back afterwards: lengths grow by exactly one in the
// arena used, the capacity recorded is the size allocated, nothing else changes.
func tableAfterAlloc(P *Program, r *alFold, al *ssa.Function, R *bankRoles, rbT types.Type, ent func(p, a string, cap, ln, size int64) map[string]cpVal, rt *cpRType, opaque func(*ssa.Function) bool, intOf func(cpVal) (int64, bool)) {
	e := &cpEngine{P: P, MaxOut: 64, MaxSteps: 40000, MaxForks: cpMaxForks, MaxDepth: 8, opaque: opaque, visited: map[*ssa.Function]bool{}}
	e.globals = cpInitGlobals(P)
	e.pending = [][]bool{nil}
	bad := func(clause, msg string) {
		if r.problems[clause] == "" {
			r.problems[clause] = msg
		}
	}
	for len(e.pending) > 0 {
		d := e.pending[len(e.pending)-1]
		e.pending = e.pending[:len(e.pending)-1]
		e.decisions, e.taken, e.steps, e.calls, e.uid, e.decided = d, nil, 0, nil, 0, map[string]bool{}
		e.bytes, e.constraints, e.onceDone = nil, nil, nil
		rb, c0, c1 := mkBank(P, R, rbT, ent("P0", "A0", 4, 2, 24), ent("P1", "A1", 4, 4, 8))
		var res []cpVal
		aborted := ""
		func() {
			defer func() {
				if x := recover(); x != nil {
					if a, ok := x.(cpAbort); ok {
						aborted = a.why
						return
					}
					panic(x)
				}
			}()
			res = e.call(al, []cpVal{rb, rt}, 0)
		}()
		if aborted != "" || len(res) != 1 {
			continue
		}
		get := func(c *cpCell, f string) cpVal {
			v, _ := cpFieldByName(c.V, f)
			return v
		}
		l0, _ := intOf(get(c0, R.len))
		l1, _ := intOf(get(c1, R.len))
		cap1, cap1ok := intOf(get(c1, R.cap))
		var grow *cpCall
		for i := range e.calls {
			cl := &e.calls[i]
			if cl.Instr != nil {
				if g := cl.Instr.Common().StaticCallee(); g != nil && (g.Name() == "unsafe_NewArray" || strings.Contains(linkTargetOf(P, g), "unsafe_NewArray")) {
					grow = cl
				}
			}
		}
		rid := ""
		switch x := res[0].(type) {
		case cpUnk:
			rid = x.ID
		case cpLin:
			rid = x.ID
		}
		switch {
		case rid == "A0":
			if l0 != 3 || l1 != 4 {
				bad("pre-increment-index", fmt.Sprintf("after one allocation from the arena that held 2 values its length is %d (and the other arena's %d): the length is not incremented by exactly one in the arena used", l0, l1))
			}
		case grow != nil:
			pid := ""
			if u, ok := grow.Args[0].(cpUnk); ok {
				pid = u.ID
			}
			if pid == "P1" {
				if l1 != 5 || l0 != 2 {
					bad("pre-increment-index", fmt.Sprintf("after one allocation from the full arena its length is %d (the other's %d), not 5", l1, l0))
				}
				n, _ := grow.Args[1].(cpInt)
				if !cap1ok || cap1 != n.V {
					bad("growth", fmt.Sprintf("the capacity recorded after growth (%d) is not the number of elements allocated (%d)", cap1, n.V))
				}
				arr := get(c1, R.array)
				au, _ := arr.(cpUnk)
				gu, _ := grow.Result.(cpUnk)
				if au.ID == "" || au.ID != gu.ID {
					bad("growth", "the array allocated on growth is not installed as the arena's array")
				}
			} else if l0 != 2 || l1 != 4 {
				bad("pre-increment-index", "an allocation from a new arena changes the lengths of the existing ones")
			}
		}
	}
}

// closeByFold: Close folded on the same bank: every arena's length is 0 afterwards, arrays and capacities stay,
// the string store is the old one cut to length 0, and the bank goes to the pool.
func closeByFold(P *Program) (problems []string, ok bool) {
	R := resourceRoles(P)
	rbN := P.NamedType(P.Avro, "ResourceBank")
	if !R.ok || rbN == nil || R.entry == nil {
		return nil, false
	}
	cl := P.Method(rbN, "Close")
	if cl == nil {
		return nil, false
	}
	ent := func(p, a string, cap, ln, size int64) map[string]cpVal {
		return map[string]cpVal{R.ptyp: cpUnk{ID: p}, R.array: cpUnk{ID: a}, R.cap: cpInt{cap}, R.len: cpInt{ln}, R.size: cpInt{size}}
	}
	e := &cpEngine{P: P, MaxOut: 16, MaxSteps: 40000, MaxForks: cpMaxForks, MaxDepth: 8, visited: map[*ssa.Function]bool{}}
	e.globals = cpInitGlobals(P)
	e.pending = [][]bool{nil}
	n := 0
	for len(e.pending) > 0 {
		d := e.pending[len(e.pending)-1]
		e.pending = e.pending[:len(e.pending)-1]
		e.decisions, e.taken, e.steps, e.calls, e.uid, e.decided = d, nil, 0, nil, 0, map[string]bool{}
		rb, c0, c1 := mkBank(P, R, types.Type(rbN), ent("P0", "A0", 4, 2, 24), ent("P1", "A1", 4, 4, 8))
		// a string store of known length
		bank := rb.C.V.(cpStruct)
		st := types.Type(rbN).Underlying().(*types.Struct)
		for i := 0; i < st.NumFields(); i++ {
			if st.Field(i).Name() == R.sData {
				cells := make([]*cpCell, 5)
				for k := range cells {
					cells[k] = &cpCell{V: cpUnk{ID: fmt.Sprintf("s%d", k)}}
				}
				bank.F[i] = &cpCell{V: cpSlice{T: st.Field(i).Type(), Elems: cells}, T: st.Field(i).Type()}
			}
		}
		aborted := ""
		func() {
			defer func() {
				if x := recover(); x != nil {
					if a, ok := x.(cpAbort); ok {
						aborted = a.why
						return
					}
					panic(x)
				}
			}()
			e.call(cl, []cpVal{rb}, 0)
		}()
		if aborted != "" {
			return nil, false
		}
		n++
		for i, c := range []*cpCell{c0, c1} {
			ln, _ := cpFieldByName(c.V, R.len)
			if li, isI := ln.(cpInt); ln != nil && (!isI || li.V != 0) {
				problems = append(problems, fmt.Sprintf("after Close arena %d still has a non-zero length: its slots are not reused, or reused out of step", i))
			}
			arr, _ := cpFieldByName(c.V, R.array)
			if u, isU := arr.(cpUnk); !isU || u.ID != fmt.Sprintf("A%d", i) {
				problems = append(problems, "Close replaces or drops an arena's array")
			}
			cp, _ := cpFieldByName(c.V, R.cap)
			if ci, isI := cp.(cpInt); !isI || ci.V != 4 {
				problems = append(problems, "Close changes an arena's capacity")
			}
		}
		put := 0
		for _, cl := range e.calls {
			if strings.HasSuffix(cl.Callee, "sync.Pool).Put") {
				put++
				if len(cl.Args) != 2 {
					continue
				}
				iv, isI := cl.Args[1].(cpIface)
				if !isI {
					problems = append(problems, "something other than the bank is put into the pool")
					continue
				}
				if p, isP := iv.V.(cpPtr); !isP || p.C != rb.C {
					problems = append(problems, "something other than the bank being closed is put into the pool")
				}
				// the bank as it is when it goes into the pool
				sd, _ := cpFieldByName(cl.Deref[1], R.sData)
				if sl, isS := sd.(cpSlice); !isS || len(sl.Elems) != 0 {
					problems = append(problems, "the bank goes into the pool with a string store that is not empty")
				}
			}
		}
		if put != 1 {
			problems = append(problems, fmt.Sprintf("Close puts the bank into the pool %d times", put))
		}
	}
	return dedup(problems), n > 0
}
