package main

// Shared SSA utilities: call resolution, constant folding, structural value
// equality, edge facts (guard dominance), reachability inside a function.

import (
	"fmt"
	"go/constant"
	"go/token"
	"go/types"
	"strings"

	"golang.org/x/tools/go/ssa"
)

// ---------- calls

type CallSite struct {
	Instr  ssa.CallInstruction
	Common *ssa.CallCommon
	Static *ssa.Function // statically resolved callee, if any
	Iface  *types.Func   // interface method, if invoke mode
	Block  *ssa.BasicBlock
}

func (cs *CallSite) Value() *ssa.Call {
	v, _ := cs.Instr.(*ssa.Call)
	return v
}

// CalleeName returns a package-qualified name for matching stdlib callees,
// e.g. "io.ReadFull", "(*bytes.Buffer).ReadFrom", "encoding/binary.ReadVarint".
func (cs *CallSite) CalleeName() string {
	if cs.Static != nil {
		return qualName(cs.Static)
	}
	if cs.Iface != nil {
		return "iface:" + cs.Iface.FullName()
	}
	if b, ok := cs.Common.Value.(*ssa.Builtin); ok {
		return "builtin:" + b.Name()
	}
	return "dynamic"
}

func qualName(fn *ssa.Function) string {
	if fn == nil {
		return ""
	}
	if o := fn.Origin(); o != nil {
		fn = o
	}
	if fn.Object() != nil {
		if f, ok := fn.Object().(*types.Func); ok {
			return f.FullName()
		}
	}
	return fn.String()
}

func callsIn(fn *ssa.Function) []*CallSite {
	var out []*CallSite
	if fn == nil {
		return nil
	}
	for _, b := range fn.Blocks {
		for _, in := range b.Instrs {
			ci, ok := in.(ssa.CallInstruction)
			if !ok {
				continue
			}
			cc := ci.Common()
			cs := &CallSite{Instr: ci, Common: cc, Block: b}
			if cc.IsInvoke() {
				cs.Iface = cc.Method
			} else {
				cs.Static = cc.StaticCallee()
			}
			out = append(out, cs)
		}
	}
	return out
}

// allArgs returns receiver (for invoke) + args.
func (cs *CallSite) allArgs() []ssa.Value {
	if cs.Common.IsInvoke() {
		return append([]ssa.Value{cs.Common.Value}, cs.Common.Args...)
	}
	return cs.Common.Args
}

// ---------- value helpers

// stripConv removes value-preserving wrappers: ChangeType, Convert between
// integer types of the same or wider size (kept simple: any Convert),
// MakeInterface, ChangeInterface.
func stripConv(v ssa.Value) ssa.Value {
	for {
		switch x := v.(type) {
		case *ssa.ChangeType:
			v = x.X
		case *ssa.Convert:
			v = x.X
		case *ssa.MakeInterface:
			v = x.X
		case *ssa.ChangeInterface:
			v = x.X
		default:
			return v
		}
	}
}

// stripChange removes only representation-preserving wrappers (not numeric
// conversions).
func stripChange(v ssa.Value) ssa.Value {
	for {
		switch x := v.(type) {
		case *ssa.ChangeType:
			v = x.X
		case *ssa.MakeInterface:
			v = x.X
		case *ssa.ChangeInterface:
			v = x.X
		default:
			return v
		}
	}
}

func isNilConst(v ssa.Value) bool {
	c, ok := v.(*ssa.Const)
	return ok && c.Value == nil && !isBasic(c.Type())
}

func isBasic(t types.Type) bool {
	_, ok := t.Underlying().(*types.Basic)
	return ok
}

func constInt(v ssa.Value) (int64, bool) {
	c, ok := v.(*ssa.Const)
	if !ok || c.Value == nil {
		return 0, false
	}
	if c.Value.Kind() != constant.Int {
		if c.Value.Kind() == constant.Float {
			f, _ := constant.Float64Val(c.Value)
			if f == float64(int64(f)) {
				return int64(f), true
			}
		}
		return 0, false
	}
	if i, ok := constant.Int64Val(c.Value); ok {
		return i, true
	}
	if u, ok := constant.Uint64Val(c.Value); ok {
		return int64(u), true
	}
	return 0, false
}

func constString(v ssa.Value) (string, bool) {
	v = stripChange(v)
	if cv, ok := v.(*ssa.Convert); ok {
		// string-typed conversion of a constant of a named string type
		v = cv.X
	}
	c, ok := v.(*ssa.Const)
	if !ok || c.Value == nil || c.Value.Kind() != constant.String {
		return "", false
	}
	return constant.StringVal(c.Value), true
}

// Folder evaluates integer-valued SSA expressions to constants where the
// operands are constants, conversions, arithmetic, or the Sizeof builtin on an
// instantiated type.
type Folder struct{ P *Program }

func (f Folder) Fold(v ssa.Value) (constant.Value, bool) {
	return f.fold(v, 0)
}

func (f Folder) FoldInt(v ssa.Value) (int64, bool) {
	c, ok := f.Fold(v)
	if !ok || c.Kind() != constant.Int {
		return 0, false
	}
	if i, ok := constant.Int64Val(c); ok {
		return i, true
	}
	if u, ok := constant.Uint64Val(c); ok {
		return int64(u), true
	}
	return 0, false
}

func (f Folder) fold(v ssa.Value, depth int) (constant.Value, bool) {
	if depth > 24 {
		return nil, false
	}
	switch x := v.(type) {
	case *ssa.Const:
		if x.Value == nil {
			return nil, false
		}
		if x.Value.Kind() == constant.Float {
			if fl, _ := constant.Float64Val(x.Value); fl == float64(int64(fl)) {
				return constant.MakeInt64(int64(fl)), true
			}
		}
		return x.Value, true
	case *ssa.ChangeType:
		return f.fold(x.X, depth+1)
	case *ssa.Convert:
		c, ok := f.fold(x.X, depth+1)
		if !ok {
			return nil, false
		}
		return f.wrap(c, x.Type())
	case *ssa.UnOp:
		if x.Op == token.SUB || x.Op == token.XOR {
			c, ok := f.fold(x.X, depth+1)
			if !ok || c.Kind() != constant.Int {
				return nil, false
			}
			r := constant.UnaryOp(x.Op, c, 0)
			return f.wrap(r, x.Type())
		}
	case *ssa.BinOp:
		a, ok1 := f.fold(x.X, depth+1)
		b, ok2 := f.fold(x.Y, depth+1)
		if !ok1 || !ok2 || a.Kind() != constant.Int || b.Kind() != constant.Int {
			return nil, false
		}
		switch x.Op {
		case token.ADD, token.SUB, token.MUL, token.AND, token.OR, token.XOR:
			return f.wrap(constant.BinaryOp(a, x.Op, b), x.Type())
		case token.QUO:
			if constant.Sign(b) == 0 {
				return nil, false
			}
			return f.wrap(constant.BinaryOp(a, token.QUO_ASSIGN, b), x.Type())
		case token.SHL, token.SHR:
			s, ok := constant.Uint64Val(b)
			if !ok || s > 200 {
				return nil, false
			}
			return f.wrap(constant.Shift(a, x.Op, uint(s)), x.Type())
		}
	case *ssa.Call:
		if b, ok := x.Call.Value.(*ssa.Builtin); ok && len(x.Call.Args) == 1 {
			switch b.Name() {
			case "Sizeof":
				t := x.Call.Args[0].Type()
				if hasTypeParam(t) {
					return nil, false
				}
				return constant.MakeInt64(f.P.Sizes.Sizeof(t)), true
			case "len":
				if s, ok := constString(x.Call.Args[0]); ok {
					return constant.MakeInt64(int64(len(s))), true
				}
				if at, ok := x.Call.Args[0].Type().Underlying().(*types.Array); ok {
					return constant.MakeInt64(at.Len()), true
				}
				if pt, ok := x.Call.Args[0].Type().Underlying().(*types.Pointer); ok {
					if at, ok := pt.Elem().Underlying().(*types.Array); ok {
						return constant.MakeInt64(at.Len()), true
					}
				}
			}
		}
		return f.foldHelperCall(x, 0, depth)
	case *ssa.Extract:
		if call, ok := x.Tuple.(*ssa.Call); ok {
			return f.foldHelperCall(call, x.Index, depth)
		}
	}
	return nil, false
}

// foldHelperCall: result #idx of a call of a module function without
// parameters (a generic instantiation such as width[float32](), or a plain
// constant-returning helper) whose every live return yields the same constant.
func (f Folder) foldHelperCall(call *ssa.Call, idx int, depth int) (constant.Value, bool) {
	callee := call.Call.StaticCallee()
	if callee == nil || f.P == nil || !f.P.isModuleFunc(callee) || callee.Blocks == nil || len(callee.Params) != 0 || len(call.Call.Args) != 0 || depth > 12 {
		return nil, false
	}
	if idx >= callee.Signature.Results().Len() {
		return nil, false
	}
	for _, b := range callee.Blocks {
		for _, in := range b.Instrs {
			switch in.(type) {
			case *ssa.Store, *ssa.MapUpdate, *ssa.Send, *ssa.Go, *ssa.Defer:
				return nil, false
			}
		}
	}
	rets, _ := liveReturns(f.P, callee)
	var out constant.Value
	for _, r := range rets {
		c, ok := f.fold(resolvedResults(r)[idx], depth+1)
		if !ok {
			return nil, false
		}
		if out != nil && !constant.Compare(out, token.EQL, c) {
			return nil, false
		}
		out = c
	}
	return out, out != nil
}

func hasTypeParam(t types.Type) bool {
	switch x := t.(type) {
	case *types.TypeParam:
		return true
	case *types.Pointer:
		return hasTypeParam(x.Elem())
	case *types.Slice:
		return hasTypeParam(x.Elem())
	case *types.Array:
		return hasTypeParam(x.Elem())
	case *types.Named:
		for i := 0; i < x.TypeArgs().Len(); i++ {
			if hasTypeParam(x.TypeArgs().At(i)) {
				return true
			}
		}
	}
	return false
}

// wrap truncates c to the integer type t (two's complement), so folded
// constants behave like the machine values.
func (f Folder) wrap(c constant.Value, t types.Type) (constant.Value, bool) {
	if c.Kind() != constant.Int {
		return c, true
	}
	b, ok := t.Underlying().(*types.Basic)
	if !ok || b.Info()&types.IsInteger == 0 {
		return c, true
	}
	if b.Kind() == types.UntypedInt {
		return c, true
	}
	bits := uint(f.P.Sizes.Sizeof(t) * 8)
	mod := constant.Shift(constant.MakeInt64(1), token.SHL, bits)
	// r = c mod 2^bits in [0, 2^bits)
	r := constant.BinaryOp(c, token.AND, constant.BinaryOp(mod, token.SUB, constant.MakeInt64(1)))
	if b.Info()&types.IsUnsigned == 0 {
		half := constant.Shift(constant.MakeInt64(1), token.SHL, bits-1)
		if constant.Compare(r, token.GEQ, half) {
			r = constant.BinaryOp(r, token.SUB, mod)
		}
	}
	return r, true
}

// ---------- access paths and structural equality

// accessPath renders a pure value as a canonical string: parameters,
// constants, field loads, calls of pure accessor methods, conversions. Two
// values with the same non-empty path denote the same runtime value provided
// no store to the path intervenes (callers that need that check use
// noStoreTo).
func accessPath(v ssa.Value) string {
	return accessPathD(v, 0)
}

func accessPathD(v ssa.Value, d int) string {
	if d > 16 {
		return ""
	}
	switch x := v.(type) {
	case *ssa.Parameter:
		return x.Name()
	case *ssa.FreeVar:
		return "free:" + x.Name()
	case *ssa.Global:
		return "global:" + x.Pkg.Pkg.Name() + "." + x.Name()
	case *ssa.Const:
		if x.Value == nil {
			return "nil"
		}
		return "const:" + x.Value.ExactString()
	case *ssa.Alloc:
		if x.Comment != "" {
			return "&" + x.Comment
		}
		return fmt.Sprintf("&alloc@%d", x.Pos())
	case *ssa.FieldAddr:
		p := accessPathD(x.X, d+1)
		if p == "" {
			return ""
		}
		return p + "->" + fieldName(x.X.Type(), x.Field)
	case *ssa.Field:
		p := accessPathD(x.X, d+1)
		if p == "" {
			return ""
		}
		return p + "." + fieldNameT(x.X.Type(), x.Field)
	case *ssa.IndexAddr:
		p, i := accessPathD(x.X, d+1), accessPathD(x.Index, d+1)
		if p == "" || i == "" {
			return ""
		}
		return p + "[" + i + "]&"
	case *ssa.Index:
		p, i := accessPathD(x.X, d+1), accessPathD(x.Index, d+1)
		if p == "" || i == "" {
			return ""
		}
		return p + "[" + i + "]"
	case *ssa.UnOp:
		p := accessPathD(x.X, d+1)
		if p == "" {
			return ""
		}
		if x.Op == token.MUL {
			return "*(" + p + ")"
		}
		return x.Op.String() + "(" + p + ")"
	case *ssa.BinOp:
		a, b := accessPathD(x.X, d+1), accessPathD(x.Y, d+1)
		if a == "" || b == "" {
			return ""
		}
		return "(" + a + x.Op.String() + b + ")"
	case *ssa.ChangeType:
		return accessPathD(x.X, d+1)
	case *ssa.Convert:
		p := accessPathD(x.X, d+1)
		if p == "" {
			return ""
		}
		return "conv<" + x.Type().String() + ">(" + p + ")"
	case *ssa.MakeInterface:
		return accessPathD(x.X, d+1)
	case *ssa.ChangeInterface:
		return accessPathD(x.X, d+1)
	case *ssa.Extract:
		p := accessPathD(x.Tuple, d+1)
		if p == "" {
			return ""
		}
		return fmt.Sprintf("%s#%d", p, x.Index)
	case *ssa.Slice:
		p := accessPathD(x.X, d+1)
		if p == "" {
			return ""
		}
		lo, hi := "", ""
		if x.Low != nil {
			lo = accessPathD(x.Low, d+1)
		}
		if x.High != nil {
			hi = accessPathD(x.High, d+1)
		}
		return p + "[" + lo + ":" + hi + "]"
	case *ssa.Call:
		// Pure accessors on reflect.Type / builtin len/cap.
		if b, ok := x.Call.Value.(*ssa.Builtin); ok && (b.Name() == "len" || b.Name() == "cap") && len(x.Call.Args) == 1 {
			p := accessPathD(x.Call.Args[0], d+1)
			if p == "" {
				return ""
			}
			return b.Name() + "(" + p + ")"
		}
		if x.Call.IsInvoke() && isReflectType(x.Call.Value.Type()) && len(x.Call.Args) == 0 {
			p := accessPathD(x.Call.Value, d+1)
			if p == "" {
				return ""
			}
			return p + "." + x.Call.Method.Name() + "()"
		}
		return fmt.Sprintf("call@%p", x)
	case *ssa.Phi:
		return fmt.Sprintf("phi@%p", x)
	case *ssa.Lookup:
		p, i := accessPathD(x.X, d+1), accessPathD(x.Index, d+1)
		if p == "" || i == "" {
			return ""
		}
		return p + "[" + i + "]m"
	}
	return fmt.Sprintf("%T@%p", v, v)
}

func isReflectType(t types.Type) bool {
	n, ok := types.Unalias(t).(*types.Named)
	return ok && n.Obj().Pkg() != nil && n.Obj().Pkg().Path() == "reflect" && n.Obj().Name() == "Type"
}

func fieldName(ptrT types.Type, idx int) string {
	t := ptrT.Underlying()
	if p, ok := t.(*types.Pointer); ok {
		t = p.Elem().Underlying()
	}
	if s, ok := t.(*types.Struct); ok && idx < s.NumFields() {
		return s.Field(idx).Name()
	}
	return fmt.Sprintf("f%d", idx)
}

func fieldNameT(structT types.Type, idx int) string {
	if s, ok := structT.Underlying().(*types.Struct); ok && idx < s.NumFields() {
		return s.Field(idx).Name()
	}
	return fmt.Sprintf("f%d", idx)
}

func sameValue(a, b ssa.Value) bool {
	if a == b {
		return true
	}
	pa, pb := accessPath(a), accessPath(b)
	return pa != "" && pa == pb && !strings.Contains(pa, "@")
}

// ---------- edge facts

// Fact is a branch condition known to hold on entry to a block.
type Fact struct {
	Cond   ssa.Value // the condition of the If
	Truth  bool      // which branch was taken
	If     *ssa.If
	Target *ssa.BasicBlock
}

// edgeOnly reports whether block s can be entered only through the edge p->s
// (other predecessors, if any, are dominated by s, i.e. back edges).
func edgeOnly(p, s *ssa.BasicBlock) bool {
	n := 0
	for _, q := range s.Preds {
		if q == p {
			n++
			continue
		}
		if !s.Dominates(q) {
			return false
		}
	}
	return n >= 1
}

// factsAt returns the branch facts that hold whenever control is in block b:
// for every block d on b's dominator chain that is entered only via one edge
// of an If, that If's condition with the edge's truth value.
func factsAt(b *ssa.BasicBlock) []Fact {
	var out []Fact
	for d := b; d != nil; d = d.Idom() {
		// find unique non-back-edge predecessor
		var pred *ssa.BasicBlock
		cnt := 0
		for _, q := range d.Preds {
			if d.Dominates(q) {
				continue
			}
			if pred != q {
				cnt++
			}
			pred = q
		}
		if cnt != 1 || pred == nil {
			continue
		}
		iff, ok := pred.Instrs[len(pred.Instrs)-1].(*ssa.If)
		if !ok {
			continue
		}
		if pred.Succs[0] == d && pred.Succs[1] == d {
			continue
		}
		out = append(out, Fact{Cond: iff.Cond, Truth: pred.Succs[0] == d, If: iff, Target: d})
	}
	return out
}

// Cmp is a normalised comparison "X op Y".
type Cmp struct {
	X, Y ssa.Value
	Op   token.Token
}

// asCmp normalises a boolean condition with a truth value to a comparison,
// pushing negation into the operator. ok=false if cond is not a comparison.
func asCmp(cond ssa.Value, truth bool) (Cmp, bool) {
	for {
		if u, ok := cond.(*ssa.UnOp); ok && u.Op == token.NOT {
			cond = u.X
			truth = !truth
			continue
		}
		break
	}
	b, ok := cond.(*ssa.BinOp)
	if !ok {
		return Cmp{}, false
	}
	op := b.Op
	switch op {
	case token.EQL, token.NEQ, token.LSS, token.LEQ, token.GTR, token.GEQ:
	default:
		return Cmp{}, false
	}
	if !truth {
		op = negateOp(op)
	}
	return Cmp{X: b.X, Y: b.Y, Op: op}, true
}

func negateOp(op token.Token) token.Token {
	switch op {
	case token.EQL:
		return token.NEQ
	case token.NEQ:
		return token.EQL
	case token.LSS:
		return token.GEQ
	case token.GEQ:
		return token.LSS
	case token.GTR:
		return token.LEQ
	case token.LEQ:
		return token.GTR
	}
	return op
}

func swapOp(op token.Token) token.Token {
	switch op {
	case token.LSS:
		return token.GTR
	case token.GTR:
		return token.LSS
	case token.LEQ:
		return token.GEQ
	case token.GEQ:
		return token.LEQ
	}
	return op
}

// cmpFactsAt returns the comparisons known to hold at block b.
func cmpFactsAt(b *ssa.BasicBlock) []Cmp {
	var out []Cmp
	for _, f := range factsAt(b) {
		if c, ok := asCmp(f.Cond, f.Truth); ok {
			out = append(out, c)
		}
	}
	return out
}

// errNonNilEdge: given an error-typed value e, find blocks entered only when
// e != nil (true) and only when e == nil (false).
func knownNonNil(b *ssa.BasicBlock, e ssa.Value) (nonNil, isNil bool) {
	for _, c := range cmpFactsAt(b) {
		var other ssa.Value
		if c.X == e {
			other = c.Y
		} else if c.Y == e {
			other = c.X
		} else {
			continue
		}
		if !isNilConst(other) {
			continue
		}
		if c.Op == token.NEQ {
			nonNil = true
		}
		if c.Op == token.EQL {
			isNil = true
		}
	}
	return
}

// ---------- intra-function reachability

// reachableFrom returns the set of blocks reachable from start (inclusive),
// not passing through blocks in stop.
func reachableFrom(start *ssa.BasicBlock, stop map[*ssa.BasicBlock]bool) map[*ssa.BasicBlock]bool {
	seen := map[*ssa.BasicBlock]bool{}
	var st []*ssa.BasicBlock
	st = append(st, start)
	for len(st) > 0 {
		b := st[len(st)-1]
		st = st[:len(st)-1]
		if seen[b] || stop[b] {
			continue
		}
		seen[b] = true
		st = append(st, b.Succs...)
	}
	return seen
}

func instrBlock(in ssa.Instruction) *ssa.BasicBlock { return in.Block() }

// instrIndex returns the index of in within its block.
func instrIndex(in ssa.Instruction) int {
	for i, x := range in.Block().Instrs {
		if x == in {
			return i
		}
	}
	return -1
}

// dominatesInstr reports whether instruction a dominates instruction b
// (executes before b on every path to b).
func dominatesInstr(a, b ssa.Instruction) bool {
	if a.Block() == b.Block() {
		return instrIndex(a) < instrIndex(b)
	}
	return a.Block().Dominates(b.Block())
}

// returnsOf lists the Return instructions of fn (excluding the synthetic
// recover block of functions with defers).
func returnsOf(fn *ssa.Function) []*ssa.Return {
	var out []*ssa.Return
	for _, b := range fn.Blocks {
		if len(b.Instrs) == 0 || b == fn.Recover {
			continue
		}
		if r, ok := b.Instrs[len(b.Instrs)-1].(*ssa.Return); ok {
			out = append(out, r)
		}
	}
	return out
}

// referrersOf is nil-safe.
func referrersOf(v ssa.Value) []ssa.Instruction {
	r := v.Referrers()
	if r == nil {
		return nil
	}
	return *r
}

// extractOf returns the Extract #idx of tuple value v, if present.
func extractOf(v ssa.Value, idx int) *ssa.Extract {
	for _, r := range referrersOf(v) {
		if e, ok := r.(*ssa.Extract); ok && e.Index == idx {
			return e
		}
	}
	return nil
}

// errorResultIndex returns the index of the (last) error result in sig, or -1.
func errorResultIndex(sig *types.Signature) int {
	res := sig.Results()
	for i := res.Len() - 1; i >= 0; i-- {
		if isErrorType(res.At(i).Type()) {
			return i
		}
	}
	return -1
}

func isErrorType(t types.Type) bool {
	n, ok := types.Unalias(t).(*types.Named)
	return ok && n.Obj().Pkg() == nil && n.Obj().Name() == "error"
}

// errValueOfCall returns the SSA value holding the error result of call c, or
// nil if the result is discarded.
func errValueOfCall(c *ssa.Call) ssa.Value {
	sig := c.Call.Signature()
	idx := errorResultIndex(sig)
	if idx < 0 {
		return nil
	}
	if sig.Results().Len() == 1 {
		return c
	}
	if e := extractOf(c, idx); e != nil {
		return e
	}
	return nil
}

// phiClosure returns v plus all values v flows into through phis (forward).
func phiForward(v ssa.Value) map[ssa.Value]bool {
	out := map[ssa.Value]bool{v: true}
	work := []ssa.Value{v}
	for len(work) > 0 {
		x := work[len(work)-1]
		work = work[:len(work)-1]
		for _, r := range referrersOf(x) {
			if p, ok := r.(*ssa.Phi); ok && !out[p] {
				out[p] = true
				work = append(work, p)
			}
		}
	}
	return out
}

// phiSources returns the non-phi values that may flow into v through phis.
func phiSources(v ssa.Value) []ssa.Value {
	seen := map[ssa.Value]bool{}
	var out []ssa.Value
	var rec func(x ssa.Value)
	rec = func(x ssa.Value) {
		if seen[x] {
			return
		}
		seen[x] = true
		if p, ok := x.(*ssa.Phi); ok {
			for _, e := range p.Edges {
				rec(e)
			}
			return
		}
		out = append(out, x)
	}
	rec(v)
	return out
}

// resolvedResults returns the operands of r, looking through go/ssa's
// defer-induced spilling of results: in a function with defers each return
// stores its operands to result locals, runs the defers and returns loads of
// those locals. The stored values are returned instead of the loads.
func resolvedResults(r *ssa.Return) []ssa.Value {
	out := make([]ssa.Value, len(r.Results))
	for i, v := range r.Results {
		out[i] = v
		ld, ok := v.(*ssa.UnOp)
		if !ok || ld.Op != token.MUL {
			continue
		}
		al, ok := ld.X.(*ssa.Alloc)
		if !ok || al.Heap {
			continue
		}
		// latest store to al in the same block before the load
		instrs := r.Block().Instrs
		for j := instrIndex(ld) - 1; j >= 0; j-- {
			if st, ok := instrs[j].(*ssa.Store); ok && st.Addr == al {
				out[i] = st.Val
				break
			}
		}
	}
	return out
}

// ---------- fields by role (so that renaming an unexported field is not an event)

// uniqueFieldWhere returns the name of the only field of struct type T whose
// type satisfies pred ("" if there is none or more than one).
func uniqueFieldWhere(T types.Type, pred func(types.Type) bool) string {
	st, ok := T.Underlying().(*types.Struct)
	if !ok {
		return ""
	}
	name := ""
	for i := 0; i < st.NumFields(); i++ {
		if pred(st.Field(i).Type()) {
			if name != "" {
				return ""
			}
			name = st.Field(i).Name()
		}
	}
	return name
}

func isBasicKind(t types.Type, k types.BasicKind) bool {
	b, ok := t.Underlying().(*types.Basic)
	return ok && b.Kind() == k
}

// nonNullFieldOf: for a nullable-union codec type — a struct with one
// sub-codec field (the Codec interface or a concrete codec type) and exactly
// one uint8 field — the name of the uint8 field, the index of the value
// branch; "" otherwise.
func nonNullFieldOf(P *Program, T types.Type) string {
	nn := uniqueFieldWhere(T, func(t types.Type) bool { return isBasicKind(t, types.Uint8) })
	if nn == "" || subCodecFieldOf(P, T) == "" {
		return ""
	}
	return nn
}

// subCodecFieldOf: the only field of T that holds a codec (the Codec
// interface or a concrete type with the codec method set).
func subCodecFieldOf(P *Program, T types.Type) string {
	return uniqueFieldWhere(T, func(t types.Type) bool {
		if isCodecIface(P, t) {
			return true
		}
		if ci, ok := P.NamedType(P.Avro, "Codec").Underlying().(*types.Interface); ok {
			if _, isIface := t.Underlying().(*types.Interface); !isIface {
				return types.Implements(t, ci) || types.Implements(types.NewPointer(t), ci)
			}
		}
		return false
	})
}

// recordFieldRoles finds the per-field entry type of the record codec: the
// module struct with exactly one Codec-interface field and exactly one
// uintptr field (the field's offset in the Go struct).
func recordFieldRoles(P *Program) (T *types.Named, offset, codec string) {
	if P.Avro == nil {
		return nil, "", ""
	}
	sc := P.Avro.Pkg.Scope()
	for _, n := range sc.Names() {
		tn, ok := sc.Lookup(n).(*types.TypeName)
		if !ok {
			continue
		}
		nt, ok := types.Unalias(tn.Type()).(*types.Named)
		if !ok {
			continue
		}
		off := uniqueFieldWhere(nt, func(t types.Type) bool { return isBasicKind(t, types.Uintptr) })
		cd := uniqueFieldWhere(nt, func(t types.Type) bool { return isCodecIface(P, t) })
		if off != "" && cd != "" {
			if T != nil {
				return nil, "", "" // ambiguous
			}
			T, offset, codec = nt, off, cd
		}
	}
	return
}

// ---------- roles of the bank's and the file writer's fields

type bankRoles struct {
	ok                          bool
	types, sData                string // ResourceBank: the arena table, the string store
	ptyp, array, cap, len, size string // the arena entry
	rb                          string // ReadBuf: its bank
	entry                       *types.Named
}

var bankRoleCache = map[*Program]*bankRoles{}

// resourceRoles names the fields of the resource bank by what they are:
// types/sData by type; within an arena entry, array is the pointer field that
// receives unsafe_NewArray's result, ptyp the other pointer field, cap the int
// field that receives that call's count, len the int field that is
// incremented by one, size the remaining int field.
func resourceRoles(P *Program) *bankRoles {
	if r, ok := bankRoleCache[P]; ok {
		return r
	}
	r := &bankRoles{}
	bankRoleCache[P] = r
	rbT := P.NamedType(P.Avro, "ResourceBank")
	rdT := P.NamedType(P.Avro, "ReadBuf")
	if rbT == nil || rdT == nil {
		return r
	}
	r.rb = uniqueFieldWhere(rdT, func(t types.Type) bool {
		pt, ok := t.Underlying().(*types.Pointer)
		return ok && types.Identical(pt.Elem(), rbT)
	})
	r.sData = uniqueFieldWhere(rbT, func(t types.Type) bool {
		sl, ok := t.Underlying().(*types.Slice)
		return ok && isBasicKind(sl.Elem(), types.Byte)
	})
	r.types = uniqueFieldWhere(rbT, func(t types.Type) bool {
		sl, ok := t.Underlying().(*types.Slice)
		if !ok {
			return false
		}
		n, isN := types.Unalias(sl.Elem()).(*types.Named)
		if _, isS := sl.Elem().Underlying().(*types.Struct); isN && isS {
			r.entry = n
			return true
		}
		return false
	})
	if r.entry == nil {
		return r
	}
	isEntryField := func(v ssa.Value) (string, bool) {
		fa, ok := v.(*ssa.FieldAddr)
		if !ok {
			return "", false
		}
		pt, ok := fa.X.Type().Underlying().(*types.Pointer)
		if !ok || !types.Identical(pt.Elem(), r.entry) {
			return "", false
		}
		return fieldName(fa.X.Type(), fa.Field), true
	}
	for _, fn := range P.ModuleFuncs() {
		for _, b := range fn.Blocks {
			for _, in := range b.Instrs {
				st, ok := in.(*ssa.Store)
				if !ok {
					continue
				}
				name, isE := isEntryField(st.Addr)
				if !isE {
					continue
				}
				if call, ok := st.Val.(*ssa.Call); ok && call.Call.StaticCallee() != nil && call.Call.StaticCallee().Name() == "unsafe_NewArray" {
					r.array = name
					// the count handed to the allocator is what is stored as the capacity
					for _, b2 := range fn.Blocks {
						for _, in2 := range b2.Instrs {
							if st2, ok := in2.(*ssa.Store); ok && st2.Val == call.Call.Args[1] {
								if n2, isE2 := isEntryField(st2.Addr); isE2 {
									r.cap = n2
								}
							}
						}
					}
				}
				if bo, ok := st.Val.(*ssa.BinOp); ok && bo.Op == token.ADD {
					if one, isK := constInt(bo.Y); isK && one == 1 {
						if ld, ok := bo.X.(*ssa.UnOp); ok && ld.Op == token.MUL {
							if n2, isE2 := isEntryField(ld.X); isE2 && n2 == name {
								r.len = name
							}
						}
					}
				}
			}
		}
	}
	st := r.entry.Underlying().(*types.Struct)
	// where usage does not identify a role (the very statement that would is what a faulty edit removed), fall
	// back to the pinned tree's name for it, if the entry still has a field of that name that no role has taken
	taken := func(n string) bool { return n == r.array || n == r.cap || n == r.len }
	for role, pinned := range map[*string]string{&r.array: "array", &r.cap: "cap", &r.len: "len"} {
		if *role != "" {
			continue
		}
		for i := 0; i < st.NumFields(); i++ {
			if st.Field(i).Name() == pinned && !taken(pinned) {
				*role = pinned
			}
		}
	}
	for i := 0; i < st.NumFields(); i++ {
		f := st.Field(i)
		switch {
		case isUnsafePointer(f.Type()) && f.Name() != r.array && r.ptyp == "":
			r.ptyp = f.Name()
		case isBasicKind(f.Type(), types.Int) && f.Name() != r.cap && f.Name() != r.len && r.size == "":
			r.size = f.Name()
		}
	}
	r.ok = r.rb != "" && r.sData != "" && r.types != "" && r.array != "" && r.ptyp != "" && r.cap != "" && r.len != "" && r.size != ""
	return r
}

type writerRoles struct {
	ok                                    bool
	sync, schema, compression, compressor string
}

// fileWriterRoles: sync is the [16]byte field, schema the []byte field,
// compression the field of the module's named string type, compressor the
// field of (module) interface type.
func fileWriterRoles(P *Program) *writerRoles {
	r := &writerRoles{}
	fwT := P.NamedType(P.Avro, "FileWriter")
	if fwT == nil {
		return r
	}
	r.sync = uniqueFieldWhere(fwT, func(t types.Type) bool {
		at, ok := t.Underlying().(*types.Array)
		return ok && at.Len() == 16 && isBasicKind(at.Elem(), types.Byte)
	})
	r.schema = uniqueFieldWhere(fwT, func(t types.Type) bool {
		sl, ok := t.Underlying().(*types.Slice)
		return ok && isBasicKind(sl.Elem(), types.Byte)
	})
	r.compression = uniqueFieldWhere(fwT, func(t types.Type) bool {
		n, ok := types.Unalias(t).(*types.Named)
		return ok && n.Obj().Pkg() != nil && P.isModulePkg(n.Obj().Pkg()) && isBasicKind(t, types.String)
	})
	r.compressor = uniqueFieldWhere(fwT, func(t types.Type) bool {
		n, ok := types.Unalias(t).(*types.Named)
		if !ok || n.Obj().Pkg() == nil || !P.isModulePkg(n.Obj().Pkg()) {
			return false
		}
		_, isI := t.Underlying().(*types.Interface)
		return isI
	})
	r.ok = r.sync != "" && r.schema != "" && r.compression != "" && r.compressor != ""
	return r
}

// callersOf: the call instructions in the module whose static callee is fn (a method called through an
// interface is not found: such a function has no listed callers).
func callersOf(P *Program, fn *ssa.Function) []ssa.CallInstruction {
	var out []ssa.CallInstruction
	for _, g := range P.ModuleFuncs() {
		for _, cs := range callsIn(g) {
			if cs.Static == fn {
				out = append(out, cs.Instr)
			}
		}
	}
	return out
}

// pkgPathOf: the import path of the package a named type is declared in ("" for other types).
func pkgPathOf(t types.Type) string {
	if n, ok := types.Unalias(t).(*types.Named); ok && n.Obj().Pkg() != nil {
		return n.Obj().Pkg().Path()
	}
	return ""
}
