package main

func init() {
	register("C05",
		"Decides C05's structural content as tables and contracts extracted from the source: for every codec builder, every accepting path pairs the Go kinds it admits with a codec whose Read/Write/Omit view the destination as exactly that kind (BT-WIDTH, with element, key and fixed-length side conditions BT-FIXED), wrapper codecs wrap a codec built for the same type (BT-SUB), record offsets and field types come from the same struct field (BT-REC), array/map codecs use one element type for codec, stride and allocation (BT-ARR, BT-MAP), every &x handed to another codec's method and every local reinterpretation is layout-compatible (PC-ARG, PC-CAST), registered builders return codecs for exactly the registered type (PC-REG). "+
			"Not decided: values; arithmetic overflow of offsets; behaviour of user-registered codecs.",
		func(c *Ctx) {
			ruleBTWidth(c, true)
			ruleBTRec(c)
			ruleBTArrMap(c)
			rulePCArg(c, nil)
			rulePCReg(c)
			c.Assume = append(c.Assume, "reflect.Int is 64 bits wide (linux/amd64); on a 32-bit target the Int -> Int64Codec row would be a finding")
		})
}

func init() {
	register("C11",
		"Decides the structural preconditions of GC visibility: every runtime allocation/clear/copy/map call gets the real run-time type (GC-TYPED); no pointer is parked in a uintptr across a call or stored as an integer (GC-UINTPTR); the shadow structs and the stack map iterator match the layouts of the toolchain go.mod declares, and all ten linkname pulls resolve there with matching shapes (GC-SHADOW, GC-ITER, GC-LINKSIG); ReadFile's target is the caller's typed memory or a typed allocation (GC-TARGET); every codec's New returns a typed allocation layout-compatible with what its Read expects, or the sub-codec's New when Read forwards the pointer (PC-NEW); element storage is allocated with the element's own type (BT-ARR, BT-MAP). "+
			"Not decided: equality of results under concurrent collection as a schedule property.",
		func(c *Ctx) {
			ruleGCTyped(c)
			ruleGCUintptr(c)
			ruleGCLink(c)
			ruleGCTarget(c)
			rulePCNew(c)
			ruleBTArrMap(c)
		})
}
