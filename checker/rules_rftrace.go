package main

// The container reader read off its traces. readFileTrace (rules_rffold.go) folds ReadFile into linear traces
// of the calls made and the comparisons branched on; this file parses every trace against the reader's
// protocol
//
//	header  ( count length payload decompress ( clear decode deliver )*  sync )*
//
// and decides, clause by clause, what the reader rules state — whatever way ReadFile is split into helpers,
// whether the buffer's methods are called or written out in place, whichever loop form is used. A clause that
// the traces decide replaces the reading of the source that the rule otherwise makes (which needs the calls
// to sit in ReadFile itself).

import (
	"fmt"
	"go/token"
	"go/types"
	"sort"
	"strings"

	"golang.org/x/tools/go/ssa"
)

type rfEv struct {
	kind string // hdr varint readfull rawread decompress clear read cb
	i    int    // index in the outcome's calls
	c    *cpCall
	val  string // identity of the value result, if any
	err  string // identity of the error result, if any
}

type rfRec struct {
	clear, read, cb *rfEv
}

type rfBlock struct {
	count, length, payload, decomp, sync *rfEv
	recs                                 []*rfRec
}

// rfVerdict: per clause, the problems found over all traces (empty: the clause holds on every trace) and how
// many trace positions the clause was checked at.
type rfVerdict struct {
	ok       bool
	why      string
	problems map[string][]string
	checked  map[string]int
	nTraces  int
	nCut     int
	// lengthCalls: the calls that decode a block's byte length (the second number of a block) on some trace
	lengthCalls map[*ssa.Call]bool
}

var rfVerdictCache = map[*Program]*rfVerdict{}

func rfIdent(v cpVal) string {
	switch x := v.(type) {
	case cpUnk:
		return x.ID
	case cpLin:
		if x.Mul == 1 && x.Add == 0 {
			return x.ID
		}
	case cpPtr:
		if x.C != nil {
			return fmt.Sprintf("cell:%p", x.C)
		}
	case cpIface:
		return rfIdent(x.V)
	}
	return ""
}

func rfResult(c *cpCall, k int) string {
	if t, ok := c.Result.(cpTuple); ok {
		if k < 0 {
			k = len(t.Vs) + k
		}
		if k >= 0 && k < len(t.Vs) {
			return rfIdent(t.Vs[k])
		}
		return ""
	}
	if k == 0 || k == -1 {
		return rfIdent(c.Result)
	}
	return ""
}

func rfCallee(c *cpCall) *ssa.Function {
	if c.Instr == nil {
		return nil
	}
	return c.Instr.Common().StaticCallee()
}

func rfMentions(v cpVal, id string, d int) bool {
	if d > 3 {
		return false
	}
	switch x := v.(type) {
	case cpUnk:
		return x.ID == id
	case cpIface:
		return rfMentions(x.V, id, d+1)
	case cpSlice:
		for _, c := range x.Elems {
			if c != nil && rfMentions(c.V, id, d+1) {
				return true
			}
		}
	}
	return false
}

type rfAnchorSet struct {
	headerFn, schemaFn *ssa.Function
	compIface          *types.Named
	// the read buffer's fields, found by their types: the bank (*ResourceBank), the bytes ([]byte), the cursor (int)
	fBank, fBuf, fCur string
}

// rfAnchors finds, anywhere in the module, the header reader (a function of the Reader returning
// (FileHeader, error)), the schema accessor (a FileHeader method returning (Schema, error)) and the
// compression interface (compress and decompress).
func rfAnchors(P *Program) rfAnchorSet {
	var a rfAnchorSet
	fhT := P.NamedType(P.Avro, "FileHeader")
	for _, fn := range P.ModuleFuncs() {
		if fn.Parent() != nil || fn.Blocks == nil || fhT == nil {
			continue
		}
		sig := fn.Signature
		res := sig.Results()
		if res.Len() != 2 {
			continue
		}
		if sig.Recv() == nil && types.Identical(res.At(0).Type(), fhT) && sig.Params().Len() == 1 {
			a.headerFn = fn
		}
		if sig.Recv() != nil && typeKey(derefType(sig.Recv().Type())) == "avro.FileHeader" && typeKey(res.At(0).Type()) == "avro.Schema" {
			a.schemaFn = fn
		}
	}
	if rbT := P.NamedType(P.Avro, "ReadBuf"); rbT != nil {
		a.fBank = uniqueFieldWhere(rbT, func(t types.Type) bool { return typeKey(derefType(t)) == "avro.ResourceBank" })
		a.fBuf = uniqueFieldWhere(rbT, func(t types.Type) bool {
			sl, ok := t.Underlying().(*types.Slice)
			return ok && isBasicKind(sl.Elem(), types.Byte)
		})
		a.fCur = uniqueFieldWhere(rbT, func(t types.Type) bool { return isBasicKind(t, types.Int) })
	}
	sc := P.Avro.Pkg.Scope()
	for _, n := range sc.Names() {
		tn, ok := sc.Lookup(n).(*types.TypeName)
		if !ok {
			continue
		}
		it, ok := tn.Type().Underlying().(*types.Interface)
		if !ok {
			continue
		}
		has := map[string]bool{}
		for i := 0; i < it.NumMethods(); i++ {
			has[it.Method(i).Name()] = true
		}
		if has["compress"] && has["decompress"] {
			a.compIface, _ = tn.Type().(*types.Named)
		}
	}
	return a
}

func rfClassify(o *rfOutcome, an rfAnchorSet) []*rfEv {
	var evs []*rfEv
	codecID := ""
	for i := range o.calls {
		c := &o.calls[i]
		g := rfCallee(c)
		var og *ssa.Function
		if g != nil {
			og = g
			if g.Origin() != nil {
				og = g.Origin()
			}
		}
		readsInput := false
		for _, a := range c.Args {
			if rfIdent(a) == "arg:r" {
				readsInput = true
			}
		}
		ev := &rfEv{i: i, c: c}
		switch {
		case og != nil && og == an.headerFn:
			ev.kind, ev.val, ev.err = "hdr", rfResult(c, 0), rfResult(c, 1)
		case og != nil && og.Name() == "Codec" && og.Signature.Recv() != nil && typeKey(derefType(og.Signature.Recv().Type())) == "avro.Schema":
			codecID = rfResult(c, 0)
			continue
		case c.Callee == "encoding/binary.ReadVarint" || c.Callee == "encoding/binary.ReadUvarint":
			ev.kind, ev.val, ev.err = "varint", rfResult(c, 0), rfResult(c, 1)
		case c.Callee == "io.ReadFull":
			ev.kind, ev.val, ev.err = "readfull", rfResult(c, 0), rfResult(c, 1)
		case c.Callee == "invoke:decompress" || og != nil && og.Name() == "decompress":
			ev.kind, ev.val, ev.err = "decompress", rfResult(c, 0), rfResult(c, 1)
		case og != nil && og.Name() == "typedmemclr":
			ev.kind = "clear"
		case c.Callee == "invoke:Read" && len(c.Args) == 3 && !readsInput:
			ev.kind, ev.err = "read", rfResult(c, 0)
			if codecID == "" || rfIdent(c.Args[0]) != codecID {
				ev.val = "not-the-codec"
			}
		case c.Callee == "dynamic" && rfIdent(c.Fun) == "arg:cb":
			ev.kind, ev.err = "cb", rfResult(c, 0)
		case readsInput:
			ev.kind = "rawread"
		default:
			continue
		}
		evs = append(evs, ev)
	}
	return evs
}

// errState: what the path assumed about an error result: "nil", "non-nil" or "" (never tested)
func (o *rfOutcome) errState(id string) (string, int) {
	if id == "" {
		return "", 0
	}
	for _, a := range o.atoms {
		if a.ID == "cmp:"+id+"==nil" {
			if a.Truth {
				return "nil", a.NCalls
			}
			return "non-nil", a.NCalls
		}
	}
	return "", 0
}

// interval of an unknown integer from the atoms decided before call index upto
func (o *rfOutcome) interval(id string, upto int) (lo, hi int64) {
	const inf = int64(1) << 60
	lo, hi = -inf, inf
	for _, a := range o.atoms {
		if !a.Known || a.NCalls > upto {
			continue
		}
		lin := func(v cpVal) (mul, add int64, ok bool) {
			switch x := v.(type) {
			case cpUnk:
				if x.ID == id {
					return 1, 0, true
				}
			case cpLin:
				if x.ID == id {
					return x.Mul, x.Add, true
				}
			}
			return 0, 0, false
		}
		op := a.Op
		if !a.Truth {
			op = negOp(op)
		}
		var mul, add, k int64
		if m, ad, ok := lin(a.X); ok {
			kk, isK := a.Y.(cpInt)
			if !isK {
				continue
			}
			mul, add, k = m, ad, kk.V
		} else if m, ad, ok := lin(a.Y); ok {
			kk, isK := a.X.(cpInt)
			if !isK {
				continue
			}
			mul, add, k, op = m, ad, kk.V, swapOp(op)
		} else {
			continue
		}
		// mul*u + add op k
		var v int64
		switch mul {
		case 1:
			v = k - add
		case -1:
			v, op = add-k, swapOp(op)
		default:
			continue
		}
		switch op {
		case token.EQL:
			if v > lo {
				lo = v
			}
			if v < hi {
				hi = v
			}
		case token.NEQ:
			if v == lo {
				lo++
			}
			if v == hi {
				hi--
			}
		case token.LSS:
			if v-1 < hi {
				hi = v - 1
			}
		case token.LEQ:
			if v < hi {
				hi = v
			}
		case token.GTR:
			if v+1 > lo {
				lo = v + 1
			}
		case token.GEQ:
			if v > lo {
				lo = v
			}
		}
	}
	return lo, hi
}

func rfTraceVerdict(P *Program) *rfVerdict {
	if v, ok := rfVerdictCache[P]; ok {
		return v
	}
	v := &rfVerdict{problems: map[string][]string{}, checked: map[string]int{}}
	rfVerdictCache[P] = v
	an := rfAnchors(P)
	if an.headerFn == nil || an.schemaFn == nil {
		v.why = "the header reader or the schema accessor was not found"
		return v
	}
	if an.fBank == "" || an.fBuf == "" || an.fCur == "" {
		v.why = "the read buffer's bank, bytes and cursor fields could not be told apart by their types"
		return v
	}
	t := readFileTrace(P, an)
	if !t.ok {
		v.why = t.why
		return v
	}
	if why := rfKeepFieldsSound(P, an); why != "" {
		v.why = why
		return v
	}
	v.ok = true
	add := func(clause, msg string) {
		for _, m := range v.problems[clause] {
			if m == msg {
				return
			}
		}
		if len(v.problems[clause]) < 6 {
			v.problems[clause] = append(v.problems[clause], msg)
		}
	}
	pos := func(e *rfEv) string {
		if e == nil || e.c.Instr == nil {
			return "-"
		}
		return P.pos(e.c.Instr.Pos())
	}
	for oi := range t.outs {
		o := &t.outs[oi]
		v.nTraces++
		if o.cut {
			v.nCut++
		}
		evs := rfClassify(o, an)
		// ---- parse
		var blocks []*rfBlock
		var cur *rfBlock
		var rec *rfRec
		state := "start"
		var hdr *rfEv
		bad := false
		for _, e := range evs {
			if bad {
				break
			}
			if e.kind == "rawread" {
				add("rawread", fmt.Sprintf("the input is read by %s at %s: neither io.ReadFull nor binary.ReadVarint, so a short read can go unnoticed", e.c.Callee, pos(e)))
				continue
			}
			v.checked["order"]++
			switch state {
			case "start":
				if e.kind != "hdr" {
					add("loop", fmt.Sprintf("%s at %s comes before the header is read", e.kind, pos(e)))
					bad = true
					break
				}
				hdr, state = e, "blockstart"
			case "blockstart":
				if e.kind != "varint" {
					add("loop", fmt.Sprintf("a block starts with %s at %s, not with its record count", e.kind, pos(e)))
					bad = true
					break
				}
				cur = &rfBlock{count: e}
				blocks = append(blocks, cur)
				state = "count"
			case "count":
				if e.kind != "varint" {
					add("loop", fmt.Sprintf("the record count is followed by %s at %s, not by the block's byte length", e.kind, pos(e)))
					bad = true
					break
				}
				cur.length, state = e, "length"
			case "length":
				if e.kind != "readfull" {
					add("loop", fmt.Sprintf("the byte length is followed by %s at %s, not by the read of the payload", e.kind, pos(e)))
					bad = true
					break
				}
				cur.payload, state = e, "payload"
			case "payload":
				if e.kind != "decompress" {
					add("deliver", fmt.Sprintf("the payload read is followed by %s at %s, not by the decompressor", e.kind, pos(e)))
					bad = true
					break
				}
				cur.decomp, state = e, "records"
			case "records":
				switch e.kind {
				case "clear":
					rec = &rfRec{clear: e}
					cur.recs = append(cur.recs, rec)
					state = "cleared"
				case "readfull":
					cur.sync, state = e, "blockstart"
				case "read":
					add("clear", fmt.Sprintf("the record decoded at %s goes into a target that was not cleared since the previous record", pos(e)))
					rec = &rfRec{read: e}
					cur.recs = append(cur.recs, rec)
					state = "decoded"
				case "cb":
					add("deliver", fmt.Sprintf("the callback at %s is called without a record having been decoded since the previous call", pos(e)))
					bad = true
				default:
					add("loop", fmt.Sprintf("%s at %s where a record or the block's sync marker is due", e.kind, pos(e)))
					bad = true
				}
			case "cleared":
				if e.kind != "read" {
					add("loop", fmt.Sprintf("clearing the target is followed by %s at %s, not by decoding the record", e.kind, pos(e)))
					bad = true
					break
				}
				rec.read, state = e, "decoded"
			case "decoded":
				if e.kind != "cb" {
					add("deliver", fmt.Sprintf("a decoded record is followed by %s at %s, not by the callback: the record is not delivered", e.kind, pos(e)))
					bad = true
					break
				}
				rec.cb, state = e, "records"
			}
		}
		if bad {
			continue
		}
		// ---- every error is tested before the next step, and a failed step is the last one
		for k, e := range evs {
			if e.kind == "rawread" || e.kind == "clear" {
				continue
			}
			var next *rfEv
			for _, f := range evs[k+1:] {
				if f.kind != "rawread" {
					next = f
					break
				}
			}
			st, at := o.errState(e.err)
			v.checked["stop"]++
			clause := "deliver"
			if e.kind == "readfull" && cur != nil && next != nil && next.kind == "varint" || e.kind == "varint" {
				clause = "sync"
			}
			if e.kind == "cb" {
				clause = "errpass"
			}
			switch {
			case next != nil && st == "":
				add(clause, fmt.Sprintf("the error of %s at %s is not tested before %s at %s", e.kind, pos(e), next.kind, pos(next)))
			case next != nil && st == "non-nil":
				add(clause, fmt.Sprintf("after %s at %s failed the reader goes on to %s at %s", e.kind, pos(e), next.kind, pos(next)))
			case next != nil && at > next.i:
				add(clause, fmt.Sprintf("the error of %s at %s is tested only after %s at %s", e.kind, pos(e), next.kind, pos(next)))
			}
			if st == "non-nil" && !o.cut {
				// the failure is what comes back (EOF where a block would start aside)
				if _, isNil := o.result.(cpNil); isNil {
					if !(e.kind == "varint" && len(blocks) > 0 && blocks[len(blocks)-1].count == e && blocks[len(blocks)-1].length == nil) {
						add("eof", fmt.Sprintf("%s at %s failed and ReadFile returns nil", e.kind, pos(e)))
					}
				}
				if e.kind == "cb" {
					v.checked["errpass"]++
					if rfIdent(o.result) != e.err {
						add("errpass", fmt.Sprintf("the callback's error (call at %s) is not what ReadFile returns", pos(e)))
					}
				}
			}
		}
		// ---- success only at a block boundary
		if !o.cut {
			if _, isNil := o.result.(cpNil); isNil {
				v.checked["eof"]++
				okEOF := false
				if len(blocks) > 0 {
					last := blocks[len(blocks)-1]
					if last.length == nil && len(evs) > 0 && evs[len(evs)-1] == last.count {
						if st, _ := o.errState(last.count.err); st == "non-nil" && o.isEOF(last.count.err, last.count.i) {
							okEOF = true
						}
					}
				}
				if !okEOF {
					where := "before any block"
					if len(evs) > 0 {
						where = "after " + evs[len(evs)-1].kind + " at " + pos(evs[len(evs)-1])
					}
					add("eof", "ReadFile returns nil "+where+", which is not the input ending where a block would start")
				}
			}
		}
		_ = hdr
		// ---- per block
		for _, b := range blocks {
			if b.length != nil {
				if call, isCall := b.length.c.Instr.(*ssa.Call); isCall {
					if v.lengthCalls == nil {
						v.lengthCalls = map[*ssa.Call]bool{}
					}
					v.lengthCalls[call] = true
				}
			}
			countID := b.count.val
			// never more records than declared
			for j, r := range b.recs {
				if r.read == nil {
					continue
				}
				v.checked["count"]++
				lo, _ := o.interval(countID, r.read.i)
				if countID == "" || lo < int64(j+1) {
					add("count", fmt.Sprintf("record %d of a block is decoded at %s without the block's count having been found to be at least %d", j+1, pos(r.read), j+1))
				}
			}
			// never fewer
			if b.sync != nil {
				v.checked["count"]++
				n := 0
				for _, r := range b.recs {
					if r.cb != nil {
						n++
					}
				}
				_, hi := o.interval(countID, b.sync.i)
				if countID == "" || hi > int64(n) {
					add("count", fmt.Sprintf("the block's sync marker is read at %s after %d record(s) without the count having been found to be no more than that", pos(b.sync), n))
				}
			}
			// the payload buffer has the declared length
			if b.payload != nil && b.length != nil {
				v.checked["len"]++
				okLen := false
				if len(b.payload.c.Args) == 2 {
					if u, isU := b.payload.c.Args[1].(cpUnk); isU {
						if bi, has := o.bufs[u.ID]; has && bi.Low == nil && rfIdent(bi.Len) == b.length.val && b.length.val != "" {
							okLen = true
						}
					}
				}
				if !okLen {
					add("len", fmt.Sprintf("the buffer filled at %s is not one of exactly the declared block length", pos(b.payload)))
				}
			}
			// what was read is what is decompressed is what is decoded
			if b.decomp != nil && b.payload != nil {
				v.checked["flow"]++
				n := len(b.decomp.c.Args)
				if n == 0 || rfIdent(b.decomp.c.Args[n-1]) == "" || rfIdent(b.decomp.c.Args[n-1]) != rfIdent(b.payload.c.Args[1]) {
					add("flow", fmt.Sprintf("what is handed to the decompressor at %s is not the buffer filled at %s", pos(b.decomp), pos(b.payload)))
				}
				// the receiver is a compressor that is there
				v.checked["codec"]++
				{
					var pc *cpCell
					switch rv := b.decomp.c.Args[0].(type) {
					case cpIface:
						if p, isP := rv.V.(cpPtr); isP {
							pc = p.C
						}
					case cpPtr:
						pc = rv.C
					}
					if pc != nil && t.globalCells[pc] {
						if st, isS := pc.T.Underlying().(*types.Struct); pc.T != nil && isS && st.NumFields() > 0 {
							add("codec", fmt.Sprintf("the decompressor called at %s is an object kept in package-level state (%s): its buffers are shared by every reader, nested or concurrent", pos(b.decomp), typeKey(pc.T)))
						}
					}
				}
				switch rv := b.decomp.c.Args[0].(type) {
				case cpIface:
					if _, isNil := rv.V.(cpNil); isNil || rv.T == nil {
						add("codec", fmt.Sprintf("the decompressor called at %s can be a nil interface", pos(b.decomp)))
					}
				case cpPtr, cpStruct:
				default:
					if b.decomp.c.Callee == "invoke:decompress" {
						add("codec", fmt.Sprintf("the decompressor called at %s is not a value constructed on this path (%T)", pos(b.decomp), rv))
					}
				}
			}
			for j, r := range b.recs {
				if r.read == nil {
					continue
				}
				v.checked["flow"]++
				if r.read.val == "not-the-codec" {
					add("flow", fmt.Sprintf("the record at %s is not decoded by the codec built from the header's schema", pos(r.read)))
				}
				if len(r.read.c.Deref) > 1 && b.decomp != nil {
					bufV, _ := cpFieldByName(r.read.c.Deref[1], an.fBuf)
					if rfIdent(bufV) == "" || rfIdent(bufV) != b.decomp.val {
						add("flow", fmt.Sprintf("the buffer the record is decoded from at %s is not what the decompressor returned for this block", pos(r.read)))
					}
					if j == 0 {
						iv, _ := cpFieldByName(r.read.c.Deref[1], an.fCur)
						if k, isK := iv.(cpInt); !(isK && k.V == 0) && iv != nil {
							add("flow", fmt.Sprintf("the first record of a block is decoded at %s from a buffer whose position is not at the start", pos(r.read)))
						}
					}
				} else {
					add("flow", fmt.Sprintf("the read buffer handed to the codec at %s could not be followed", pos(r.read)))
				}
				target := rfIdent(r.read.c.Args[2])
				if r.clear != nil {
					v.checked["clear"]++
					if len(r.clear.c.Args) != 2 || rfIdent(r.clear.c.Args[1]) != target || target == "" {
						add("clear", fmt.Sprintf("what is cleared at %s is not the target decoded into at %s", pos(r.clear), pos(r.read)))
					}
				}
				if r.cb != nil {
					v.checked["flow"]++
					if len(r.cb.c.Args) != 2 || rfIdent(r.cb.c.Args[0]) != target || target == "" {
						add("flow", fmt.Sprintf("what the callback gets at %s is not the target decoded into at %s", pos(r.cb), pos(r.read)))
					}
				}
			}
			// the sync marker
			if b.sync != nil {
				v.checked["sync"]++
				if msg := o.syncProblem(b.sync, hdr, evs); msg != "" {
					add("sync", fmt.Sprintf("sync marker read at %s: %s", pos(b.sync), msg))
				}
			}
		}
		// ---- banks: each callback gets the bank its record was decoded with, and no bank is seen again
		given := map[string]string{}
		for _, b := range blocks {
			for _, r := range b.recs {
				if r.read == nil {
					continue
				}
				v.checked["bank"]++
				bank := ""
				if len(r.read.c.Deref) > 1 {
					rb, _ := cpFieldByName(r.read.c.Deref[1], an.fBank)
					if _, isNil := rb.(cpNil); isNil || rb == nil {
						add("bank", fmt.Sprintf("the record at %s is decoded with no resource bank in the read buffer", pos(r.read)))
						continue
					}
					bank = rfIdent(rb)
				}
				if bank == "" {
					add("bank", fmt.Sprintf("the resource bank in use at %s could not be followed", pos(r.read)))
					continue
				}
				if at, dup := given[bank]; dup {
					add("bank", fmt.Sprintf("the record at %s is decoded with the resource bank that was already handed to the callback at %s", pos(r.read), at))
				}
				if r.cb != nil {
					if len(r.cb.c.Args) != 2 || rfIdent(r.cb.c.Args[1]) != bank {
						add("bank", fmt.Sprintf("the callback at %s does not get the resource bank its record was decoded with", pos(r.cb)))
					}
					given[bank] = pos(r.cb)
				}
			}
		}
		// ---- the target: the caller's own pointer with its element type, or fresh memory of the value's type
		o.targetCheck(evs, blocks, add, v, pos)
	}
	return v
}

// isEOF: the path found err to be io.EOF (errors.Is or a comparison) after call index from
func (o *rfOutcome) isEOF(errID string, from int) bool {
	for i := from + 1; i < len(o.calls); i++ {
		c := &o.calls[i]
		if c.Callee == "errors.Is" && len(c.Args) == 2 && rfIdent(c.Args[0]) == errID && rfIsGlobal(c.Args[1], "io.EOF") {
			if t, ok := o.decided[rfIdent(c.Result)]; ok && t {
				return true
			}
		}
	}
	for _, a := range o.atoms {
		if !a.Known || a.NCalls <= from {
			continue
		}
		eq := a.Op == token.EQL && a.Truth || a.Op == token.NEQ && !a.Truth
		if eq && (rfIdent(a.X) == errID && rfIsGlobal(a.Y, "io.EOF") || rfIdent(a.Y) == errID && rfIsGlobal(a.X, "io.EOF")) {
			return true
		}
	}
	return false
}

func rfIsGlobal(v cpVal, name string) bool {
	switch x := v.(type) {
	case cpIface:
		return rfIsGlobal(x.V, name)
	case cpUnk:
		return x.ID == "*global:"+name || x.ID == "global:"+name
	}
	return false
}

// syncProblem: the 16 bytes read are compared with the header's marker, another block follows only when they
// are equal, and unequal ends the read with an error.
func (o *rfOutcome) syncProblem(sy, hdr *rfEv, evs []*rfEv) string {
	if len(sy.c.Args) != 2 {
		return "not understood"
	}
	sl, isSl := sy.c.Args[1].(cpSlice)
	if !isSl || len(sl.Elems) != 16 {
		return "the buffer is not 16 bytes"
	}
	var next *rfEv
	for k, e := range evs {
		if e == sy {
			for _, f := range evs[k+1:] {
				if f.kind != "rawread" {
					next = f
					break
				}
			}
		}
	}
	upto := len(o.calls)
	if next != nil {
		upto = next.i
	}
	want := ""
	if hdr != nil {
		want = hdr.val + ".Sync"
	}
	same := func(v cpVal) bool {
		a, ok := v.(cpArr)
		if !ok || len(a.Elems) != 16 {
			return false
		}
		for i := range a.Elems {
			if a.Elems[i] == nil || sl.Elems[i] == nil {
				return false
			}
			if a.Elems[i] == sl.Elems[i] {
				continue
			}
			x, y := rfIdent(a.Elems[i].V), rfIdent(sl.Elems[i].V)
			if x == "" || x != y {
				return false
			}
		}
		return true
	}
	for _, a := range o.atoms {
		if !a.Known || a.NCalls <= sy.i || a.NCalls > upto {
			continue
		}
		if a.Op != token.EQL && a.Op != token.NEQ {
			continue
		}
		var other cpVal
		switch {
		case same(a.X):
			other = a.Y
		case same(a.Y):
			other = a.X
		default:
			continue
		}
		if rfIdent(other) != want || want == ".Sync" {
			return "the bytes read are compared with something other than the marker from the header"
		}
		eq := a.Op == token.EQL && a.Truth || a.Op == token.NEQ && !a.Truth
		if !eq {
			if next != nil {
				return "reading goes on although the marker differs from the header's"
			}
			if _, isNil := o.result.(cpNil); isNil && !o.cut {
				return "a marker that differs from the header's ends the read without an error"
			}
		}
		return ""
	}
	// the comparison made by bytes.Equal on the whole of both
	for i := sy.i + 1; i < upto && i < len(o.calls); i++ {
		c := &o.calls[i]
		if c.Callee != "bytes.Equal" || len(c.Args) != 2 {
			continue
		}
		isRead := func(v cpVal) bool {
			s2, ok := v.(cpSlice)
			if !ok || len(s2.Elems) != 16 {
				return false
			}
			for k := range s2.Elems {
				if s2.Elems[k] != sl.Elems[k] {
					return false
				}
			}
			return true
		}
		var other cpVal
		switch {
		case isRead(c.Args[0]):
			other = c.Args[1]
		case isRead(c.Args[1]):
			other = c.Args[0]
		default:
			continue
		}
		if rfIdent(other) != want+"[:]" || want == ".Sync" {
			return "the bytes read are compared with something other than the marker from the header"
		}
		eq, decided := o.decided[rfIdent(c.Result)]
		if !decided {
			continue
		}
		if !eq {
			if next != nil {
				return "reading goes on although the marker differs from the header's"
			}
			if _, isNil := o.result.(cpNil); isNil && !o.cut {
				return "a marker that differs from the header's ends the read without an error"
			}
		}
		return ""
	}
	if st, _ := o.errState(sy.err); st == "non-nil" {
		return "" // the read itself failed: nothing to compare
	}
	if next == nil && o.cut {
		return ""
	}
	return "the 16 bytes read are not compared with the header's marker before the next step"
}

func (o *rfOutcome) targetCheck(evs []*rfEv, blocks []*rfBlock, add func(string, string), v *rfVerdict, pos func(*rfEv) string) {
	var first *rfRec
	for _, b := range blocks {
		for _, r := range b.recs {
			if r.read != nil && r.clear != nil && first == nil {
				first = r
			}
		}
	}
	if first == nil {
		return
	}
	v.checked["target"]++
	typeOf, elem, kind, newed, newArg := "", "", "", "", ""
	for i := range o.calls {
		c := &o.calls[i]
		switch {
		case c.Callee == "reflect.TypeOf" && len(c.Args) == 1 && rfIdent(c.Args[0]) == "arg:out":
			typeOf = rfResult(c, 0)
		case c.Callee == "invoke:Elem" && len(c.Args) == 1 && typeOf != "" && rfIdent(c.Args[0]) == typeOf:
			elem = rfResult(c, 0)
		case c.Callee == "invoke:Kind" && len(c.Args) == 1 && typeOf != "" && rfIdent(c.Args[0]) == typeOf:
			kind = rfResult(c, 0)
		case rfCallee(c) != nil && rfCallee(c).Name() == "unsafe_New" && len(c.Args) == 1:
			newed, newArg = rfResult(c, 0), rfIdent(c.Args[0])
		}
	}
	rtyp := rfIdent(first.clear.c.Args[0])
	p := rfIdent(first.read.c.Args[2])
	isPtr, decided := false, false
	if kind != "" {
		for _, a := range o.atoms {
			if !a.Known || (a.Op != token.EQL && a.Op != token.NEQ) {
				continue
			}
			var k cpInt
			var isK bool
			switch {
			case rfIdent(a.X) == kind:
				k, isK = a.Y.(cpInt)
			case rfIdent(a.Y) == kind:
				k, isK = a.X.(cpInt)
			}
			if isK && k.V == 22 {
				isPtr, decided = (a.Op == token.EQL) == a.Truth, true
			}
		}
	}
	switch {
	case typeOf == "" || !decided:
		add("target", fmt.Sprintf("how the target decoded into at %s is derived from the caller's value could not be followed", pos(first.read)))
	case isPtr:
		if rtyp != elem+".data" || elem == "" || p != "arg:out.data" {
			add("target", fmt.Sprintf("for a pointer the target at %s is not the caller's own pointer cleared with its element type", pos(first.read)))
		}
	default:
		if rtyp != typeOf+".data" || p != newed || newed == "" || newArg != rtyp {
			add("target", fmt.Sprintf("for a value the target at %s is not fresh memory of the value's own type", pos(first.read)))
		}
	}
}

// rfKeepFieldsSound: the trace fold takes a codec's Read to leave the read buffer's rb and buf fields as they
// are. That holds when nothing a codec method can reach stores to them.
func rfKeepFieldsSound(P *Program, an rfAnchorSet) string {
	bt := getBT(P)
	seen := map[*ssa.Function]bool{}
	why := ""
	var scan func(f *ssa.Function, d int)
	scan = func(f *ssa.Function, d int) {
		if f == nil || seen[f] || f.Blocks == nil || d > 6 || why != "" {
			return
		}
		seen[f] = true
		for _, b := range f.Blocks {
			for _, in := range b.Instrs {
				st, ok := in.(*ssa.Store)
				if !ok {
					continue
				}
				fa, ok := st.Addr.(*ssa.FieldAddr)
				if !ok || typeKey(derefType(fa.X.Type())) != "avro.ReadBuf" {
					continue
				}
				switch fieldName(fa.X.Type(), fa.Field) {
				case an.fBank, an.fBuf:
					why = fmt.Sprintf("%s, which a codec method can reach, stores to the read buffer's %s at %s: the trace fold's assumption about codec.Read does not hold", fnKey(f), fieldName(fa.X.Type(), fa.Field), P.pos(in.Pos()))
				}
			}
		}
		for _, cs := range callsIn(f) {
			if cs.Static != nil && P.isModuleFunc(cs.Static) {
				scan(cs.Static, d+1)
			}
		}
	}
	for _, ct := range bt.Codecs {
		for _, m := range []string{"Read", "Skip", "New"} {
			if ct.Declared[m] {
				scan(ct.M[m], 0)
			}
		}
	}
	return why
}

// rfClauseText: what each clause states, for the witness of a discharged obligation
var rfClauseText = map[string]string{
	"loop":    "every trace is header (count length payload decompress (clear decode deliver)* sync)*, cut short only by a return",
	"count":   "record j of a block is decoded only after the count was found >= j, and the sync marker is read only after the count was found <= the records delivered",
	"deliver": "the callback follows each decoded record, nothing is delivered otherwise, and no step follows a failed payload read, decompression or decode",
	"clear":   "the target handed to the codec is cleared, with the very same pointer, since the previous record",
	"len":     "the buffer filled for the payload is made or cut to exactly the declared length",
	"flow":    "the buffer filled is the one decompressed, the decompressor's result is the buffer decoded from (position 0 for the first record), the codec is the one built from the header's schema, the callback gets the target decoded into",
	"sync":    "the 16 bytes read are compared with the header's marker, unequal ends the read with an error, and no block follows an unchecked or failed read",
	"eof":     "nil is returned only when the count of a block could not be read because the input ended (io.EOF)",
	"errpass": "a callback error ends the read and is returned as it is",
	"bank":    "each callback gets the bank its record was decoded with, and no later record is decoded with a bank already handed out",
	"rawread": "the input is consumed only through io.ReadFull and binary.ReadVarint",
	"codec":   "the decompressor called is a value constructed on the path, never a nil interface",
	"target":  "the target is the caller's own pointer cleared with its element type, or fresh memory of the value's own type",
}

// rfDecide: when the traces decide them, emits one obligation per clause under the rule being run and returns
// true (the caller then skips its reading of the source).
func rfDecide(c *Ctx, clauses ...string) bool {
	v := rfTraceVerdict(c.P)
	if !v.ok {
		c.Note("the container reader could not be folded into traces (%s): the rule reads the source of ReadFile instead", v.why)
		return false
	}
	fn := c.P.Func(c.P.Avro, "ReadFile")
	where := "-"
	if fn != nil {
		where = c.P.pos(fn.Pos())
	}
	if c.cur != nil {
		c.cur.Min = len(clauses)
	}
	for _, cl := range clauses {
		key := "avro.ReadFile/trace:" + cl
		probs := v.problems[cl]
		n := v.checked[cl]
		if cl == "loop" || cl == "deliver" || cl == "rawread" {
			n = v.checked["order"]
		}
		if cl == "errpass" && n == 0 {
			n = v.checked["stop"]
		}
		switch {
		case len(probs) > 0:
			sort.Strings(probs)
			c.Bad(key, where, strings.Join(probs, "; "))
		case n < 20:
			c.Unk(key, where, fmt.Sprintf("the traces of the container reader reach only %d point(s) where this clause is checked: fewer than confirmed by hand", n))
		default:
			c.OK(key, where, fmt.Sprintf("%d traces of ReadFile (%d cut after two turns of a loop), %d positions: %s", v.nTraces, v.nCut, n, rfClauseText[cl]))
		}
	}
	return true
}

// ctAgreeByTrace decides CT-AGREE with the reader's side read off the traces: for every trace that reaches
// the decompressor, which codec name the path found in the header (or that it found no entry) and which
// concrete type receives the call.
func ctAgreeByTrace(c *Ctx) bool {
	P := c.P
	an := rfAnchors(P)
	if an.compIface == nil {
		return false
	}
	t := readFileTrace(P, an)
	if !t.ok {
		return false
	}
	type sel struct {
		present, known bool // the path looked the codec entry up and found one / the lookup was seen at all
		names          []string
		recv           string
		where          string
	}
	var sels []sel
	for oi := range t.outs {
		o := &t.outs[oi]
		var dc *cpCall
		for i := range o.calls {
			if o.calls[i].Callee == "invoke:decompress" || rfCallee(&o.calls[i]) != nil && rfCallee(&o.calls[i]).Name() == "decompress" {
				dc = &o.calls[i]
				break
			}
		}
		if dc == nil || len(dc.Args) == 0 {
			continue
		}
		s := sel{where: "-"}
		if dc.Instr != nil {
			s.where = P.pos(dc.Instr.Pos())
		}
		switch x := dc.Args[0].(type) {
		case cpIface:
			if x.T != nil {
				s.recv = typeKey(x.T)
				if p, isP := x.T.(*types.Pointer); isP {
					s.recv = "*" + typeKey(p.Elem())
				}
			}
		case cpPtr:
			if x.C != nil && x.C.T != nil {
				s.recv = "*" + typeKey(x.C.T)
			}
		case cpStruct:
			s.recv = typeKey(x.T)
		}
		if s.recv == "" {
			return false
		}
		for i := range o.calls {
			cl := &o.calls[i]
			if cl.Callee != "maplookup" || len(cl.Args) != 2 {
				continue
			}
			if k, isK := cl.Args[1].(cpStr); !isK || k.V != "avro.codec" {
				continue
			}
			s.known = true
			if tup, isT := cl.Result.(cpTuple); isT && len(tup.Vs) == 2 {
				if tr, dec := o.decided[rfIdent(tup.Vs[1])]; dec {
					s.present = tr
				} else {
					s.present = true // the entry is used without asking whether it is there: "" when absent
					s.known = false
				}
			} else {
				s.known = false
			}
		}
		for _, a := range o.atoms {
			if !a.Known || a.NCalls > indexOfCall(o, dc) {
				continue
			}
			eq := a.Op == token.EQL && a.Truth || a.Op == token.NEQ && !a.Truth
			if !eq {
				continue
			}
			if k, isK := a.Y.(cpStr); isK {
				if _, isU := a.X.(cpUnk); isU {
					s.names = append(s.names, k.V)
				}
			} else if k, isK := a.X.(cpStr); isK {
				if _, isU := a.Y.(cpUnk); isU {
					s.names = append(s.names, k.V)
				}
			}
		}
		sels = append(sels, s)
	}
	if len(sels) == 0 {
		return false
	}
	rt := &compTable{byName: map[string]string{}, where: map[string]string{}}
	var defaults, unknownName []string
	conflict := ""
	for _, s := range sels {
		switch {
		case len(s.names) == 1:
			if prev, has := rt.byName[s.names[0]]; has && prev != s.recv {
				conflict = fmt.Sprintf("codec name %q selects both %s and %s", s.names[0], prev, s.recv)
			}
			rt.byName[s.names[0]], rt.where[s.names[0]] = s.recv, s.where
		case len(s.names) > 1:
			return false
		case s.known && !s.present:
			defaults = append(defaults, s.recv)
		default:
			unknownName = append(unknownName, s.recv)
		}
	}
	c.Rule("CT-AGREE", "reader and writer map the same codec names to the same compressor types; unknown names are errors; an absent entry means the null codec", 8)
	if conflict != "" {
		c.Bad("avro.ReadFile/decoder-source", "-", conflict)
	}
	wt, wfn := writerCompTable(P, an.compIface)
	if ft, folded := writerCompTableByFold(P); folded {
		wt = ft
	}
	if !c.Anchor(wt != nil, "NewFileWriter") {
		return true
	}
	for _, p := range wt.problems {
		c.Unk(fnKey(wfn)+"/compressor-source", "-", p)
	}
	for _, n := range specCompression {
		r, okr := rt.byName[n]
		w, okw := wt.byName[n]
		key := "codec-name/" + n
		switch {
		case !okr:
			c.Bad(key+"/reader", "-", fmt.Sprintf("no trace of ReadFile reaches the decompressor having found the specification's codec name %q in the header", n))
		case !okw:
			c.Bad(key+"/writer", "-", fmt.Sprintf("NewFileWriter has no case for the specification's codec name %q", n))
		case r != w:
			c.Bad(key, rt.where[n], fmt.Sprintf("codec name %q selects %s in ReadFile but %s in NewFileWriter", n, r, w))
		default:
			c.OK(key, rt.where[n], fmt.Sprintf("%q -> %s in both ReadFile (read off its traces) and NewFileWriter", n, r))
		}
	}
	for n, w := range wt.byName {
		if !contains(specCompression, n) {
			c.Bad("codec-name/"+n+"/writer", wt.where[n], fmt.Sprintf("NewFileWriter accepts the codec name %q (giving %s) and the header carries the name as given: that is not one of the specification's codec names, so no conformant reader can open the file", n, w))
		}
	}
	for n, r := range rt.byName {
		if !contains(specCompression, n) {
			if w, ok := wt.byName[n]; !ok || w != r {
				c.Bad("codec-name/"+n, rt.where[n], fmt.Sprintf("ReadFile accepts codec name %q which the writer does not produce with the same type", n))
			}
		}
	}
	roles := compressorRoles(P, an.compIface)
	for _, n := range specCompression {
		if ty, ok := rt.byName[n]; ok {
			want := roles[ty]
			c.Check(want == n, "codec-role/"+n, rt.where[n],
				fmt.Sprintf("%s implements the %s codec (decided from the decoder it calls)", ty, n),
				fmt.Sprintf("codec name %q selects %s, whose decompress implements %q", n, ty, want))
		}
	}
	nullTy := rt.byName["null"]
	okDef := len(defaults) > 0
	for _, d := range defaults {
		if d != nullTy {
			okDef = false
		}
	}
	sort.Strings(defaults)
	c.Check(okDef, "avro.ReadFile/default-decoder", "-",
		fmt.Sprintf("on the traces that find no avro.codec entry the decompressor is the null codec's %s", nullTy),
		fmt.Sprintf("with no avro.codec entry in the header the decompressor is %v, not the null codec's %s (or no trace gets there)", dedup(defaults), nullTy))
	c.Check(len(unknownName) == 0, "avro.ReadFile/unknown-codec", "-",
		"every trace that reaches the decompressor found one of the recognised names, or no entry at all",
		fmt.Sprintf("a trace reaches the decompressor (%v) with a codec entry present and none of the recognised names matched", dedup(unknownName)))
	return true
}

func indexOfCall(o *rfOutcome, c *cpCall) int {
	for i := range o.calls {
		if &o.calls[i] == c {
			return i
		}
	}
	return len(o.calls)
}

// rfEOFDecided: fn is part of the container reader as folded into traces, and on those traces success is
// reported only for an io.EOF where a block would start. A helper of the reader that answers such an EOF with
// a nil error is then doing what ReadFile itself is allowed to do.
func rfEOFDecided(P *Program, fn *ssa.Function) bool {
	v := rfTraceVerdict(P)
	if !v.ok || len(v.problems["eof"]) > 0 || v.checked["eof"] == 0 {
		return false
	}
	t := readFileTrace(P, rfAnchors(P))
	return t.ok && t.visited[fn]
}

// writerCompTableByFold reads NewFileWriter's codec table off a fold of it (schema and codec name unknown):
// for each outcome that succeeds, which name the path found the argument equal to (a comparison, or an entry
// of a table of constructors) and which concrete compressor the writer it returns holds.
func writerCompTableByFold(P *Program) (*compTable, bool) {
	fn := P.Func(P.Avro, "NewFileWriter")
	if fn == nil || fn.Blocks == nil || len(fn.Params) != 2 {
		return nil, false
	}
	e := &cpEngine{P: P, MaxOut: 200, MaxSteps: 20000, MaxForks: 24, MaxDepth: 6, visited: map[*ssa.Function]bool{}, trackAtoms: true, foldAll: true, forkLookups: true}
	e.globals = cpInitGlobals(P)
	e.pending = [][]bool{nil}
	t := &compTable{byName: map[string]string{}, where: map[string]string{}, fns: map[*ssa.Function]bool{fn: true}}
	nOK := 0
	for len(e.pending) > 0 {
		d := e.pending[len(e.pending)-1]
		e.pending = e.pending[:len(e.pending)-1]
		e.decisions, e.taken, e.steps, e.calls, e.uid, e.decided = d, nil, 0, nil, 0, map[string]bool{}
		e.bytes, e.constraints, e.onceDone, e.varintBufs = nil, nil, nil, nil
		e.atoms, e.atomInfo, e.bufInfo = nil, nil, nil
		var res []cpVal
		why := ""
		func() {
			defer func() {
				if x := recover(); x != nil {
					if a, ok := x.(cpAbort); ok {
						why = a.why
						return
					}
					panic(x)
				}
			}()
			res = e.call(fn, []cpVal{cpUnk{ID: "arg:schema"}, cpUnk{ID: "arg:compression"}}, 0)
		}()
		if why == "panic-instr" {
			continue
		}
		if why != "" || len(res) != 2 {
			return nil, false
		}
		if _, errNil := res[1].(cpNil); !errNil {
			continue
		}
		nOK++
		fw, ok := res[0].(cpPtr)
		if !ok || fw.C == nil {
			return nil, false
		}
		// the field of the compression interface's type
		recv := ""
		if st, isS := fw.C.V.(cpStruct); isS {
			for _, cell := range st.F {
				if iv, isI := cell.V.(cpIface); isI && iv.T != nil && cell.T != nil {
					if _, isIface := cell.T.Underlying().(*types.Interface); isIface {
						recv = typeKey(iv.T)
						if p, isP := iv.T.(*types.Pointer); isP {
							recv = "*" + typeKey(p.Elem())
						}
					}
				}
			}
		}
		var names []string
		for _, a := range e.atoms {
			if !a.Known {
				continue
			}
			eq := a.Op == token.EQL && a.Truth || a.Op == token.NEQ && !a.Truth
			if !eq {
				continue
			}
			if k, isK := a.Y.(cpStr); isK && rfIdent(a.X) == "arg:compression" {
				names = append(names, k.V)
			} else if k, isK := a.X.(cpStr); isK && rfIdent(a.Y) == "arg:compression" {
				names = append(names, k.V)
			}
		}
		if recv == "" {
			t.nilSrc = true
			continue
		}
		if len(names) != 1 {
			t.defaults = append(t.defaults, recv)
			continue
		}
		if prev, has := t.byName[names[0]]; has && prev != recv {
			t.problems = append(t.problems, fmt.Sprintf("codec name %q gives both %s and %s", names[0], prev, recv))
		}
		t.byName[names[0]] = recv
		t.where[names[0]] = P.pos(fn.Pos())
		if len(e.pending) > 400 {
			return nil, false
		}
	}
	if nOK == 0 {
		return nil, false
	}
	return t, true
}
