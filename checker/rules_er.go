package main

// E-ER: error discipline. ER-CHECK, ER-WRAP, ER-STOP, ER-PASS.

import (
	"fmt"
	"go/constant"
	"go/token"
	"go/types"
	"strings"

	"golang.org/x/tools/go/ssa"
)

// ErrUse is the analysis of one error-returning call site.
type ErrUse struct {
	Site      *CallSite
	Key       string
	Err       ssa.Value // nil if discarded
	Discarded bool
	// DirectReturn: the error value is an operand of a Return in an error
	// position (possibly after flowing through phis).
	DirectReturn bool
	// Regions entered only when Err != nil.
	Regions []*ErrRegion
	// Inspected: some If compares it with nil.
	Inspected bool
	Problems  []string // idioms not understood
}

type ErrRegion struct {
	Entry   *ssa.BasicBlock
	Blocks  map[*ssa.BasicBlock]bool
	Escapes []*ssa.BasicBlock // blocks reachable from Entry not dominated by it
	Returns []*ssa.Return
}

// callKey builds a stable construct key for the k-th call to a callee in fn.
func callKeys(fn *ssa.Function) map[ssa.CallInstruction]string {
	out := map[ssa.CallInstruction]string{}
	n := map[string]int{}
	for _, cs := range callsIn(fn) {
		name := shortCallee(cs)
		n[name]++
		out[cs.Instr] = fmt.Sprintf("%s/call[%s]#%d", fnKey(fn), name, n[name])
	}
	return out
}

func shortCallee(cs *CallSite) string {
	if cs.Static != nil {
		s := qualName(cs.Static)
		s = strings.ReplaceAll(s, modPath+"/", "")
		s = strings.ReplaceAll(s, modPath, "avro")
		return s
	}
	if cs.Iface != nil {
		return "iface " + cs.Iface.Name()
	}
	if b, ok := cs.Common.Value.(*ssa.Builtin); ok {
		return "builtin " + b.Name()
	}
	if p, ok := cs.Common.Value.(*ssa.Parameter); ok {
		return "param " + p.Name()
	}
	return "dynamic"
}

func analyseErrUses(fn *ssa.Function) []*ErrUse {
	var out []*ErrUse
	keys := callKeys(fn)
	for _, cs := range callsIn(fn) {
		sig := cs.Common.Signature()
		if errorResultIndex(sig) < 0 {
			continue
		}
		u := &ErrUse{Site: cs, Key: keys[cs.Instr]}
		out = append(out, u)
		call := cs.Value()
		if call == nil { // defer / go
			u.Discarded = true
			continue
		}
		u.Err = errValueOfCall(call)
		if u.Err == nil || len(referrersOf(u.Err)) == 0 {
			// assigned to the blank identifier or never extracted
			u.Err = nil
			u.Discarded = true
			continue
		}
		flows := phiForward(u.Err)
		for v := range flows {
			for _, r := range referrersOf(v) {
				switch r := r.(type) {
				case *ssa.Return:
					for _, op := range r.Results {
						if op == v && isErrorType(op.Type()) {
							u.DirectReturn = true
						}
					}
				case *ssa.Store:
					// defer-spilled result: stored to a result local that the return reloads
					if r.Val == v {
						for _, ret := range returnsOf(fn) {
							if ret.Block() == r.Block() {
								for _, op := range resolvedResults(ret) {
									if op == v && isErrorType(op.Type()) {
										u.DirectReturn = true
									}
								}
							}
						}
					}
				case *ssa.BinOp:
					if r.Op != token.NEQ && r.Op != token.EQL {
						continue
					}
					other := r.Y
					if r.Y == v {
						other = r.X
					}
					if !isNilConst(other) {
						continue
					}
					for _, rr := range referrersOf(r) {
						iff, ok := rr.(*ssa.If)
						if !ok {
							u.Problems = append(u.Problems, "nil comparison of the error is used as a value, not as a branch condition")
							continue
						}
						u.Inspected = true
						b := iff.Block()
						nn := b.Succs[0]
						if r.Op == token.EQL {
							nn = b.Succs[1]
						}
						if !edgeOnly(b, nn) && returnsValue(nn, v) {
							// the non-nil edge joins a block that returns the error itself: propagated
							continue
						}
						if !edgeOnly(b, nn) {
							u.Problems = append(u.Problems, fmt.Sprintf("non-nil edge of the error test joins other control flow at block %d (idiom not understood)", nn.Index))
							continue
						}
						u.Regions = append(u.Regions, buildRegion(nn))
					}
				}
			}
		}
	}
	return out
}

func buildRegion(entry *ssa.BasicBlock) *ErrRegion {
	rg := &ErrRegion{Entry: entry, Blocks: map[*ssa.BasicBlock]bool{}}
	for b := range reachableFrom(entry, nil) {
		if !entry.Dominates(b) {
			rg.Escapes = append(rg.Escapes, b)
			continue
		}
		rg.Blocks[b] = true
		if len(b.Instrs) > 0 {
			if r, ok := b.Instrs[len(b.Instrs)-1].(*ssa.Return); ok {
				rg.Returns = append(rg.Returns, r)
			}
		}
	}
	return rg
}

// errOperand returns the error-typed operand of a Return (last error result).
func errOperand(r *ssa.Return) ssa.Value {
	res := resolvedResults(r)
	for i := len(res) - 1; i >= 0; i-- {
		if isErrorType(res[i].Type()) {
			return res[i]
		}
	}
	return nil
}

// errorfInfo: if v is a call of fmt.Errorf with a constant format, returns
// the format and the variadic arguments (unwrapped from their interface
// conversions).
func errorfInfo(v ssa.Value) (format string, args []ssa.Value, ok bool) {
	call, isCall := v.(*ssa.Call)
	if !isCall {
		return "", nil, false
	}
	callee := call.Call.StaticCallee()
	if callee == nil || qualName(callee) != "fmt.Errorf" {
		return "", nil, false
	}
	f, isConst := constString(call.Call.Args[0])
	if !isConst {
		return "", nil, false
	}
	format = f
	if len(call.Call.Args) < 2 {
		return format, nil, true
	}
	// variadic: slice t[:] of new [n]any with stores *(&t[i]) = make any <- x
	sl, isSlice := call.Call.Args[1].(*ssa.Slice)
	if !isSlice {
		return format, nil, true
	}
	alloc, isAlloc := sl.X.(*ssa.Alloc)
	if !isAlloc {
		return format, nil, true
	}
	byIdx := map[int64]ssa.Value{}
	max := int64(-1)
	for _, r := range referrersOf(alloc) {
		ia, ok := r.(*ssa.IndexAddr)
		if !ok {
			continue
		}
		idx, ok := constInt(ia.Index)
		if !ok {
			continue
		}
		for _, rr := range referrersOf(ia) {
			if st, ok := rr.(*ssa.Store); ok && st.Addr == ia {
				byIdx[idx] = stripChange(st.Val)
				if idx > max {
					max = idx
				}
			}
		}
	}
	for i := int64(0); i <= max; i++ {
		args = append(args, byIdx[i])
	}
	return format, args, true
}

// wrapsWithW reports whether v is fmt.Errorf whose constant format binds a %w
// verb to e.
func wrapsWithW(v ssa.Value, e ssa.Value) bool {
	format, args, ok := errorfInfo(v)
	if !ok {
		return false
	}
	// walk verbs
	argi := 0
	for i := 0; i < len(format); i++ {
		if format[i] != '%' {
			continue
		}
		i++
		for i < len(format) && strings.ContainsRune("+-# 0123456789.", rune(format[i])) {
			i++
		}
		if i >= len(format) {
			break
		}
		if format[i] == '%' {
			continue
		}
		if format[i] == 'w' && argi < len(args) && args[argi] == e {
			return true
		}
		argi++
	}
	return false
}

func isFreshError(v ssa.Value) bool {
	if _, _, ok := errorfInfo(v); ok {
		return true
	}
	if call, ok := v.(*ssa.Call); ok {
		if callee := call.Call.StaticCallee(); callee != nil {
			switch qualName(callee) {
			case "fmt.Errorf", "errors.New":
				return true
			}
		}
	}
	// load of a package-level error variable (errors.New sentinel)
	if u, ok := v.(*ssa.UnOp); ok && u.Op == token.MUL {
		if _, ok := u.X.(*ssa.Global); ok {
			return true
		}
	}
	return false
}

// eofGuard reports whether block b is entered only through the true edge of
// errors.Is(e, io.EOF).
func eofGuard(b *ssa.BasicBlock, e ssa.Value) bool {
	for _, f := range factsAt(b) {
		if !f.Truth {
			continue
		}
		call, ok := f.Cond.(*ssa.Call)
		if !ok {
			continue
		}
		callee := call.Call.StaticCallee()
		if callee == nil || qualName(callee) != "errors.Is" || len(call.Call.Args) != 2 {
			continue
		}
		if call.Call.Args[0] != e {
			continue
		}
		if ld, ok := call.Call.Args[1].(*ssa.UnOp); ok && ld.Op == token.MUL {
			if g, ok := ld.X.(*ssa.Global); ok && g.Pkg.Pkg.Path() == "io" && g.Name() == "EOF" {
				return true
			}
		}
	}
	return false
}

type erOpts struct {
	// allowEOFNil: a `return nil` guarded by errors.Is(e, io.EOF) on the
	// error of encoding/binary.ReadVarint is accepted (C08 decides which one).
	allowEOFNil bool
	wrap        bool // ER-WRAP
	stop        bool // ER-STOP
	// skipCallee: call sites whose error is outside this rule's scope.
	skipCallee func(cs *CallSite) bool
}

// allowed callee names inside an error region for ER-STOP.
var errRegionAllowed = map[string]bool{"fmt.Errorf": true, "errors.New": true, "errors.Is": true, "fmt.Sprintf": true, "errors.As": true}

// erCheck applies ER-CHECK (and optionally ER-WRAP/ER-STOP) to fn under the
// current rule(s). Rule IDs must have been declared by the caller via c.Rule.
func erCheck(c *Ctx, fn *ssa.Function, o erOpts, ruleCheck, ruleWrap, ruleStop string, clauses map[string]string) {
	P := c.P
	fold := Folder{P}
	for _, u := range analyseErrUses(fn) {
		if o.skipCallee != nil && o.skipCallee(u.Site) {
			continue
		}
		pos := P.pos(u.Site.Instr.Pos())
		c.Rule(ruleCheck, clauses[ruleCheck], 0)
		name := u.Site.CalleeName()
		if u.Discarded {
			// Exception 1: defer Close() of a file opened read-only with os.Open in this function.
			if d, ok := u.Site.Instr.(*ssa.Defer); ok {
				if u.Site.Static != nil && qualName(u.Site.Static) == "(*os.File).Close" && len(d.Call.Args) > 0 {
					if ex, ok := d.Call.Args[0].(*ssa.Extract); ok {
						if oc, ok := ex.Tuple.(*ssa.Call); ok && oc.Call.StaticCallee() != nil && qualName(oc.Call.StaticCallee()) == "os.Open" {
							c.OK(u.Key, pos, "deferred Close of a file opened read-only by os.Open in the same function: its error cannot lose data")
							continue
						}
					}
				}
			}
			// Exception 2: flate.NewWriter with a constant valid level.
			if name == "compress/flate.NewWriter" && len(u.Site.Common.Args) == 2 {
				if lvl, ok := fold.FoldInt(u.Site.Common.Args[1]); ok && lvl >= -2 && lvl <= 9 {
					c.OK(u.Key, pos, fmt.Sprintf("flate.NewWriter's only error is an invalid level; the level folds to the constant %d in [-2,9]", lvl))
					continue
				}
			}
			c.Bad(u.Key, pos, fmt.Sprintf("the error result of %s is discarded", name))
			continue
		}
		if len(u.Problems) > 0 {
			c.Unk(u.Key, pos, fmt.Sprintf("error of %s: %s", name, strings.Join(u.Problems, "; ")))
			continue
		}
		if !u.DirectReturn && !u.Inspected {
			c.Bad(u.Key, pos, fmt.Sprintf("the error result of %s is neither returned nor compared with nil", name))
			continue
		}
		ok := true
		for _, rg := range u.Regions {
			if len(rg.Escapes) > 0 {
				c.Bad(u.Key, pos, fmt.Sprintf("after %s fails, control continues past the error branch (block %d rejoins normal flow)", name, rg.Escapes[0].Index))
				ok = false
				break
			}
			if len(rg.Returns) == 0 {
				c.Bad(u.Key, pos, fmt.Sprintf("the error branch of %s never returns", name))
				ok = false
				break
			}
			for _, r := range rg.Returns {
				ev := errOperand(r)
				if ev == nil {
					c.Unk(u.Key, pos, "function returns no error value on the error branch")
					ok = false
					break
				}
				if isNilConst(ev) {
					if o.allowEOFNil && name == "encoding/binary.ReadVarint" && eofGuard(r.Block(), u.Err) {
						continue
					}
					c.Bad(u.Key, pos, fmt.Sprintf("the error branch of %s returns a nil error at %s", name, P.pos(r.Pos())))
					ok = false
					break
				}
				if ev != u.Err && !isFreshError(ev) {
					// could be a phi or another variable: is it known non-nil here?
					nn, _ := knownNonNil(r.Block(), ev)
					if !nn {
						c.Unk(u.Key, pos, fmt.Sprintf("cannot show the value returned on the error branch of %s is non-nil (%s)", name, ev.String()))
						ok = false
						break
					}
				}
			}
			if !ok {
				break
			}
		}
		if !ok {
			continue
		}
		how := "returned directly"
		if u.Inspected {
			how = fmt.Sprintf("compared with nil; every path from the non-nil edge returns a non-nil error (%d region(s))", len(u.Regions))
		}
		c.OK(u.Key, pos, fmt.Sprintf("error of %s is %s", name, how))

		if o.wrap && ruleWrap != "" {
			c.Rule(ruleWrap, clauses[ruleWrap], 0)
			wok := true
			for _, rg := range u.Regions {
				for _, r := range rg.Returns {
					ev := errOperand(r)
					if ev == u.Err || wrapsWithW(ev, u.Err) {
						continue
					}
					wok = false
					c.Bad(u.Key, P.pos(r.Pos()), fmt.Sprintf("the error returned after %s fails neither is that error nor wraps it with %%w", name))
				}
			}
			if wok {
				c.OK(u.Key, pos, "returned as is or wrapped with %w on every error path")
			}
		}
		if o.stop && ruleStop != "" {
			c.Rule(ruleStop, clauses[ruleStop], 0)
			sok := true
			for _, rg := range u.Regions {
				for b := range rg.Blocks {
					for _, in := range b.Instrs {
						ci, isCall := in.(ssa.CallInstruction)
						if !isCall {
							continue
						}
						cc := ci.Common()
						if _, isB := cc.Value.(*ssa.Builtin); isB {
							continue
						}
						if sc := cc.StaticCallee(); sc != nil && errRegionAllowed[qualName(sc)] {
							continue
						}
						sok = false
						c.Bad(u.Key, P.pos(in.Pos()), fmt.Sprintf("after %s fails the error path performs a further call (%s) before returning", name, cc.String()))
					}
				}
			}
			if sok {
				c.OK(u.Key, pos, "no call other than error formatting between the failure and the return")
			}
		}
	}
}

var _ = constant.MakeInt64
var _ types.Type

// returnsValue: block b does nothing but return, and one of its (error) results is v.
func returnsValue(b *ssa.BasicBlock, v ssa.Value) bool {
	ret, ok := b.Instrs[len(b.Instrs)-1].(*ssa.Return)
	if !ok {
		return false
	}
	for _, in := range b.Instrs {
		if _, isCall := in.(ssa.CallInstruction); isCall {
			return false // something else happens first
		}
	}
	for _, op := range resolvedResults(ret) {
		if op == v && isErrorType(op.Type()) {
			return true
		}
	}
	return false
}

// ---------- ER-UEOF

// ueofTakenAsSuccess lists, in fns, the comparisons of an error with
// io.ErrUnexpectedEOF (== / != / errors.Is) whose "it is that error" edge can
// reach a return that reports success (nil error, or no error result with the
// data returned). ErrUnexpectedEOF is how every reader says "the input ended
// in the middle of something": treating it as a normal end accepts truncated
// or unterminated data.
func ueofTakenAsSuccess(fns []*ssa.Function) []ssa.Instruction {
	isUEOF := func(v ssa.Value) bool {
		ld, ok := stripConv(v).(*ssa.UnOp)
		if !ok || ld.Op != token.MUL {
			return false
		}
		g, ok := ld.X.(*ssa.Global)
		return ok && g.Name() == "ErrUnexpectedEOF"
	}
	var out []ssa.Instruction
	for _, fn := range fns {
		for _, b := range fn.Blocks {
			for _, in := range b.Instrs {
				var cond ssa.Value
				onTrue := true
				switch x := in.(type) {
				case *ssa.BinOp:
					if (x.Op == token.EQL || x.Op == token.NEQ) && (isUEOF(x.X) || isUEOF(x.Y)) {
						cond, onTrue = x, x.Op == token.EQL
					}
				case *ssa.Call:
					if g := x.Call.StaticCallee(); g != nil && qualName(g) == "errors.Is" && len(x.Call.Args) == 2 && isUEOF(x.Call.Args[1]) {
						cond = x
					}
				}
				if cond == nil {
					continue
				}
				for _, r := range referrersOf(cond) {
					iff, ok := r.(*ssa.If)
					if !ok {
						continue
					}
					start := iff.Block().Succs[0]
					if !onTrue {
						start = iff.Block().Succs[1]
					}
					for rb := range reachableFrom(start, nil) {
						ret, ok := rb.Instrs[len(rb.Instrs)-1].(*ssa.Return)
						if !ok {
							continue
						}
						ev := errOperand(ret)
						if ev == nil && errorResultIndex(fn.Signature) < 0 && len(ret.Results) > 0 || ev != nil && isNilConst(ev) {
							out = append(out, in)
						}
					}
				}
			}
		}
	}
	return out
}

func ruleERUEOF(c *Ctx) {
	c.Rule("ER-UEOF", "io.ErrUnexpectedEOF is never taken for a normal end of input: no comparison with it leads to a return that reports success", 0)
	P := c.P
	seen := map[ssa.Instruction]bool{}
	n := 0
	for _, in := range ueofTakenAsSuccess(P.ModuleFuncs()) {
		if seen[in] {
			continue
		}
		seen[in] = true
		n++
		c.Bad(fmt.Sprintf("%s/unexpected-eof-as-success#%d", fnKey(in.Parent()), n), P.pos(in.Pos()), "an error equal to io.ErrUnexpectedEOF is treated as a normal end and success is reported: input that stops in the middle of a block (or a compressed stream without its final block) is accepted as complete")
	}
	if n == 0 {
		c.OK("module/no-unexpected-eof-as-success", "-", "no comparison with io.ErrUnexpectedEOF leads to a success return")
	}
	// fixture: the rule must still see the pattern
	fx := buildFixture(`package fx
type E struct{}
func (E) Error() string { return "" }
var ErrUnexpectedEOF error = E{}
var EOF error = E{}
func read() error { return nil }
func bad() ([]byte, error) {
	for {
		err := read()
		if err == EOF || err == ErrUnexpectedEOF { break }
		if err != nil { return nil, err }
	}
	return []byte{1}, nil
}
func good() ([]byte, error) {
	err := read()
	if err == ErrUnexpectedEOF { return nil, E{} }
	if err == EOF { return []byte{1}, nil }
	return nil, err
}
`)
	if fx == nil {
		c.Unk("fixture/ER-UEOF", "-", "fixture package did not build")
		return
	}
	var ffns []*ssa.Function
	for _, m := range fx.Members {
		if f, ok := m.(*ssa.Function); ok {
			ffns = append(ffns, f)
		}
	}
	hits := map[string]bool{}
	for _, in := range ueofTakenAsSuccess(ffns) {
		hits[in.Parent().Name()] = true
	}
	o := c.ob(Discharged, "fixture/ER-UEOF", "-", fmt.Sprintf("positive fixture: flagged %v (expected exactly bad)", hits), false)
	if !(len(hits) == 1 && hits["bad"]) {
		o.Verdict, o.VerdictS = Undecided, "undecided"
	}
}
