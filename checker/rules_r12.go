package main

// Rules added with seed round 12.

import (
	"fmt"
	"go/token"
	"go/types"
	"sort"
	"strings"

	"golang.org/x/tools/go/ssa"
)

// ---------- NIL-NEW

// ruleNilNew: a codec's New may hand back nil — the null codec has nothing to allocate, and a union of nothing
// but nulls forwards that. Whoever passes the result of New on to something that reads through it (the
// run-time's map assignment, a typed move or clear — the module's body-less functions — or a load or store of
// its own) has to have found it non-nil first. Handing it to the same codec's Read is fine: the codecs that
// return nil from New do not touch the pointer.
func ruleNilNew(c *Ctx) {
	c.Rule("NIL-NEW", "the result of a codec's New is read through (run-time map assignment, typed move or clear, a load or store) only where it was found non-nil: the null codec's New returns nil", 3)
	P := c.P
	// which New methods can return nil
	bt := getBT(P)
	var nilNews []string
	for _, ct := range bt.Codecs {
		fn := ct.M["New"]
		if fn == nil || fn.Blocks == nil || !ct.Declared["New"] {
			continue
		}
		for _, r := range returnsOf(fn) {
			if len(r.Results) == 1 && isNilOrNilPointer(r.Results[0]) {
				nilNews = append(nilNews, ct.Name)
				break
			}
		}
	}
	c.Check(len(nilNews) > 0, "module/new-may-be-nil", "-", fmt.Sprintf("New returns nil in: %s", strings.Join(nilNews, ", ")), "no codec's New returns nil any more: the rule's premise has gone")
	n := 0
	for _, fn := range P.ModuleFuncs() {
		for _, cs := range callsIn(fn) {
			if cs.Iface == nil || cs.Iface.Name() != "New" || cs.Value() == nil || !isCodecIface(P, cs.Common.Value.Type()) {
				continue
			}
			n++
			key := fmt.Sprintf("%s/new-result#%d", fnKey(fn), n)
			res := cs.Value()
			why := ""
			seen := map[ssa.Value]bool{}
			// guarded: at block b the value v is known to be non-nil, v being the New result itself
			var follow func(v ssa.Value, from *ssa.BasicBlock)
			follow = func(v ssa.Value, from *ssa.BasicBlock) {
				if seen[v] || why != "" {
					return
				}
				seen[v] = true
				for _, r := range referrersOf(v) {
					in, _ := r.(ssa.Instruction)
					blk := in.Block()
					nonNil := false
					if nn, _ := nonNilPtrAt(blk, res); nn {
						nonNil = true
					}
					switch x := r.(type) {
					case *ssa.DebugRef, *ssa.Return, *ssa.BinOp, *ssa.If:
					case *ssa.Phi:
						// the edge this value comes in on: is the value known non-nil at the end of that predecessor?
						okEdge := true
						for i, e := range x.Edges {
							if e != v {
								continue
							}
							if nn, _ := nonNilPtrAt(x.Block().Preds[i], res); !nn && !edgeNonNil(x.Block().Preds[i], x.Block(), res) {
								okEdge = false
							}
						}
						if !okEdge {
							follow(x, blk)
						}
					case *ssa.ChangeType:
						follow(x, blk)
					case *ssa.Convert:
						follow(x, blk)
					case *ssa.Store:
						if x.Addr == v && !nonNil {
							why = "a store through it at " + P.pos(x.Pos())
						}
					case *ssa.UnOp:
						if !nonNil {
							why = "a load through it at " + P.pos(x.Pos())
						}
					case *ssa.FieldAddr, *ssa.IndexAddr:
						if !nonNil {
							why = "a field or element of what it points to is addressed at " + P.pos(in.Pos())
						}
					case ssa.CallInstruction:
						cc := x.Common()
						if cc.IsInvoke() {
							continue // handed to a codec method: the codecs whose New returns nil do not touch the pointer
						}
						g := cc.StaticCallee()
						if g != nil && P.isModuleFunc(g) && g.Blocks == nil && !nonNil {
							why = fmt.Sprintf("it is handed to %s at %s", g.Name(), P.pos(x.Pos()))
						}
					}
				}
			}
			follow(res, cs.Block)
			c.Check(why == "", key, P.pos(cs.Instr.Pos()), "the result is stored, tested, or handed to codec methods; nothing reads through it without a nil test", "the result of New can be nil (the null codec, a union of nulls) and "+why+" without a nil test: a nil-pointer fault for such a schema")
		}
	}
}

// isNilOrNilPointer: the nil constant of any type, unsafe.Pointer included (which is a basic type to go/types)
func isNilOrNilPointer(v ssa.Value) bool {
	c, ok := v.(*ssa.Const)
	if !ok || c.Value != nil {
		return false
	}
	if b, isB := c.Type().Underlying().(*types.Basic); isB {
		return b.Kind() == types.UnsafePointer || b.Kind() == types.UntypedNil
	}
	return true
}

// nonNilPtrAt: at block b the value was compared with nil and found different (second result: found equal)
func nonNilPtrAt(b *ssa.BasicBlock, e ssa.Value) (nonNil, isNil bool) {
	for _, c := range cmpFactsAt(b) {
		var other ssa.Value
		switch {
		case c.X == e:
			other = c.Y
		case c.Y == e:
			other = c.X
		default:
			continue
		}
		if !isNilOrNilPointer(other) {
			continue
		}
		if c.Op == token.NEQ {
			nonNil = true
		}
		if c.Op == token.EQL {
			isNil = true
		}
	}
	return
}

// edgeNonNil: the edge pred -> succ is the "differs from nil" outcome of a test of e that ends pred
func edgeNonNil(pred, succ *ssa.BasicBlock, e ssa.Value) bool {
	if len(pred.Instrs) == 0 || len(pred.Succs) != 2 {
		return false
	}
	iff, ok := pred.Instrs[len(pred.Instrs)-1].(*ssa.If)
	if !ok {
		return false
	}
	cmp, ok := iff.Cond.(*ssa.BinOp)
	if !ok {
		return false
	}
	var other ssa.Value
	switch {
	case cmp.X == e:
		other = cmp.Y
	case cmp.Y == e:
		other = cmp.X
	default:
		return false
	}
	if !isNilOrNilPointer(other) {
		return false
	}
	switch cmp.Op {
	case token.EQL:
		return pred.Succs[1] == succ && pred.Succs[0] != succ
	case token.NEQ:
		return pred.Succs[0] == succ && pred.Succs[1] != succ
	}
	return false
}

// ---------- CP-NODICT

// ruleCPNoDict: a block is inflated from its own bytes alone. The inflater is re-armed for each block through
// flate.Resetter.Reset(r, dict); a non-nil dict gives the stream a preset history, so a damaged block whose
// back-references reach before its start is resolved against it instead of being refused. No reader or writer
// with a preset dictionary is constructed either.
func ruleCPNoDict(c *Ctx) {
	c.Rule("CP-NODICT", "the deflate decompressor is reset with no preset dictionary, and nothing constructs a flate reader or writer with one: a block is inflated from its own bytes alone", 1)
	P := c.P
	n := 0
	for _, fn := range P.ModuleFuncs() {
		for _, cs := range callsIn(fn) {
			cc := cs.Common
			if cc.IsInvoke() && cc.Method.Name() == "Reset" && cc.Method.Pkg() != nil && cc.Method.Pkg().Path() == "compress/flate" && len(cc.Args) == 2 {
				n++
				key := fmt.Sprintf("%s/flate-reset#%d", fnKey(fn), n)
				c.Check(isNilOrNilPointer(cc.Args[1]) || isNilConst(cc.Args[1]), key, P.pos(cs.Instr.Pos()), "Reset(r, nil): no preset dictionary", "the inflater is reset with a preset dictionary ("+cc.Args[1].String()+"): data outside the block becomes valid history for its back-references, so a damaged block can inflate without error")
			}
			if cs.Static != nil {
				switch qualName(cs.Static) {
				case "compress/flate.NewReaderDict", "compress/flate.NewWriterDict", "compress/zlib.NewReaderDict", "compress/zlib.NewWriterLevelDict":
					n++
					c.Bad(fmt.Sprintf("%s/flate-dict#%d", fnKey(fn), n), P.pos(cs.Instr.Pos()), "a flate stream is set up with a preset dictionary: the blocks written or read are no longer self-contained deflate streams")
				}
			}
		}
	}
}

// ---------- REG-ARG

// ruleRegArg: a registered builder is handed the schema, the type and the omit flag that the codec dispatcher
// itself was called with — not a normalised or rewritten copy. A builder that tells "int" from "long" (the date
// codec) must see the type name as the schema has it.
func ruleRegArg(c *Ctx) {
	c.Rule("REG-ARG", "a builder looked up in the registry is called with the dispatcher's own schema, type and omit parameters, unmodified", 1)
	P := c.P
	// resolves v to a parameter of fn: directly, or as a load of a local that only ever holds that parameter
	paramOf := func(fn *ssa.Function, v ssa.Value) *ssa.Parameter {
		v = stripChange(v)
		if p, ok := v.(*ssa.Parameter); ok {
			return p
		}
		u, ok := v.(*ssa.UnOp)
		if !ok || u.Op != token.MUL {
			return nil
		}
		a, ok := u.X.(*ssa.Alloc)
		if !ok {
			return nil
		}
		var only *ssa.Parameter
		for _, r := range referrersOf(a) {
			switch x := r.(type) {
			case *ssa.Store:
				if x.Addr != ssa.Value(a) {
					return nil
				}
				p, isP := x.Val.(*ssa.Parameter)
				if !isP || only != nil && only != p {
					return nil
				}
				only = p
			case *ssa.UnOp, *ssa.DebugRef:
			case *ssa.FieldAddr:
				// a field of the local: it may be read, not written
				for _, r2 := range referrersOf(x) {
					if st, isSt := r2.(*ssa.Store); isSt && st.Addr == ssa.Value(x) {
						return nil
					}
				}
			default:
				return nil
			}
		}
		return only
	}
	n := 0
	for _, fn := range P.ModuleFuncs() {
		for _, cs := range callsIn(fn) {
			if cs.Static != nil || cs.Iface != nil || cs.Value() == nil {
				continue
			}
			// the callee is what a lookup in a package-level map of functions gave
			callee := cs.Common.Value
			if ex, ok := callee.(*ssa.Extract); ok {
				callee = ex.Tuple
			}
			lk, ok := callee.(*ssa.Lookup)
			if !ok {
				continue
			}
			ld, ok := lk.X.(*ssa.UnOp)
			if !ok {
				continue
			}
			g, ok := ld.X.(*ssa.Global)
			if !ok || !P.isModulePkg(g.Pkg.Pkg) {
				continue
			}
			if mt, isM := ld.Type().Underlying().(*types.Map); !isM || !isSignature(mt.Elem()) {
				continue
			}
			n++
			key := fmt.Sprintf("%s/registered-builder-args#%d", fnKey(fn), n)
			var bad []string
			for i, a := range cs.Common.Args {
				p := paramOf(fn, a)
				if p == nil {
					bad = append(bad, fmt.Sprintf("argument %d (%s) is not the dispatcher's own parameter as it was received", i+1, a.Name()))
					continue
				}
				if !types.Identical(p.Type(), a.Type()) {
					bad = append(bad, fmt.Sprintf("argument %d is parameter %s of another type", i+1, p.Name()))
				}
			}
			c.Check(len(bad) == 0, key, P.pos(cs.Instr.Pos()), fmt.Sprintf("the builder from %s is called with the function's own parameters, unmodified", globalKey(g)), strings.Join(bad, "; ")+": a registered builder sees something other than the schema and type the caller supplied")
		}
	}
}

func isSignature(t types.Type) bool {
	_, ok := t.Underlying().(*types.Signature)
	return ok
}

// ---------- ER-USE

// ruleERUse: what a module function hands back next to an error is a failure value when the error is not nil
// (a nil slice from ReadBuf.Next, say). It may be returned, measured or copied from — copy and len accept
// nil — but anything that reads through it (an index, a re-slice with bounds, a standard-library decoder such
// as binary.LittleEndian.Uint32, which indexes b[3]) must come after the error was found nil.
func ruleERUse(c *Ctx) {
	c.Rule("ER-USE", "a slice or string returned next to an error is indexed, re-sliced or handed to other code only where that error was found nil", 5)
	P := c.P
	n := 0
	for _, fn := range P.ModuleFuncs() {
		for _, cs := range callsIn(fn) {
			g := cs.Static
			call := cs.Value()
			if g == nil || call == nil || !P.isModuleFunc(g) {
				continue
			}
			res := g.Signature.Results()
			if res.Len() != 2 || !isErrorType(res.At(1).Type()) {
				continue
			}
			switch res.At(0).Type().Underlying().(type) {
			case *types.Slice:
			case *types.Basic:
				if !isBasicKind(res.At(0).Type(), types.String) {
					continue
				}
			default:
				continue
			}
			val, errv := extractOf(call, 0), extractOf(call, 1)
			if val == nil {
				continue
			}
			n++
			key := fmt.Sprintf("%s/result-of-%s#%d", fnKey(fn), g.Name(), n)
			why := ""
			seen := map[ssa.Value]bool{}
			var follow func(v ssa.Value)
			follow = func(v ssa.Value) {
				if seen[v] || why != "" {
					return
				}
				seen[v] = true
				for _, r := range referrersOf(v) {
					in := r.(ssa.Instruction)
					okHere := false
					if errv != nil {
						if _, isNil := knownNonNil(in.Block(), errv); isNil {
							okHere = true
						}
					}
					switch x := r.(type) {
					case *ssa.DebugRef, *ssa.Return, *ssa.Store:
					case *ssa.Phi:
						follow(x)
					case *ssa.ChangeType:
						follow(x)
					case *ssa.MakeInterface:
						// handed to error formatting and the like as a value
					case *ssa.Call:
						if bi, isB := x.Call.Value.(*ssa.Builtin); isB {
							switch bi.Name() {
							case "len", "cap", "copy", "append":
								continue
							}
						}
						if !okHere {
							why = fmt.Sprintf("it is handed to %s at %s", calleeName(x), P.pos(x.Pos()))
						}
					case *ssa.Slice:
						if (x.Low != nil || x.High != nil) && !okHere {
							why = "it is re-sliced at " + P.pos(x.Pos())
						} else {
							follow(x)
						}
					default:
						if !okHere {
							why = fmt.Sprintf("it is used by %s at %s", r.String(), P.pos(in.Pos()))
						}
					}
				}
			}
			follow(val)
			c.Check(why == "", key, P.pos(call.Pos()), "returned, measured or copied from, and otherwise used only after the error was found nil", "before the error of "+g.Name()+" was found nil "+why+": with the failure value (nil, empty) that reads out of range")
		}
	}
}

func calleeName(call *ssa.Call) string {
	if g := call.Call.StaticCallee(); g != nil {
		return qualNameShort(g)
	}
	if call.Call.IsInvoke() {
		return "method " + call.Call.Method.Name()
	}
	return "a function value"
}

// ---------- TS-STR

// ruleTSStr: the time codec for string schemas writes, on every path, the RFC 3339 text of the value with
// nanosecond precision — nothing else, and never nothing. Write is folded (E-CP) with the time unknown; the
// avro package's functions are opaque. Each outcome must format the value once with the layout
// time.RFC3339Nano and hand exactly that text to the string writer.
func ruleTSStr(c *Ctx) {
	c.Rule("TS-STR", "the string time codec writes the RFC3339Nano text of the value on every path: no value is written as anything else, or as nothing", 1)
	P := c.P
	var wr *ssa.Function
	if t := P.NamedType(P.Time, "StringCodec"); t != nil {
		wr = P.Method(t, "Write")
	}
	if !c.Anchor(wr != nil && wr.Blocks != nil && len(wr.Params) == 3, "time.StringCodec.Write") {
		return
	}
	key := fnKey(wr) + "/formats-rfc3339nano"
	timeT := wr.Params[2].Type()
	_ = timeT
	var tt types.Type
	if tn := P.Time.Pkg.Imports(); tn != nil {
		for _, imp := range tn {
			if imp.Path() == "time" {
				if o := imp.Scope().Lookup("Time"); o != nil {
					tt = o.Type()
				}
			}
		}
	}
	if tt == nil {
		c.Unk(key, P.pos(wr.Pos()), "the standard library's time.Time was not found among the package's imports")
		return
	}
	opaque := func(g *ssa.Function) bool { return g.Pkg == P.Avro }
	recv := cpStructUnknownExcept(wr.Params[0].Type(), nil)
	args := []cpVal{recv, cpUnk{ID: "arg:w"}, cpPtrTo(cpUnk{ID: "arg:t"}, tt)}
	outs, _, ok, why := cpFoldOpt(P, wr, args, opaque)
	if !ok {
		c.Unk(key, P.pos(wr.Pos()), "Write could not be folded: "+why)
		return
	}
	const layout = "2006-01-02T15:04:05.999999999Z07:00"
	var bad []string
	n := 0
	for _, o := range outs {
		if o.Panics {
			bad = append(bad, "a path of Write panics")
			continue
		}
		n++
		var fm *cpCall
		nfm := 0
		var writes []*cpCall
		for i := range o.Calls {
			cl := &o.Calls[i]
			switch cl.Callee {
			case "(time.Time).Format", "(time.Time).AppendFormat":
				fm = cl
				nfm++
			default:
				if g := rfCallee(cl); g != nil && g.Pkg == P.Avro {
					writes = append(writes, cl)
				}
			}
		}
		switch {
		case nfm == 0:
			bad = append(bad, fmt.Sprintf("on a path of Write (decisions %v) the value is not formatted at all: %d call(s) into the write buffer without the timestamp text", decisionList(o.Decided), len(writes)))
			continue
		case nfm > 1:
			bad = append(bad, "a path of Write formats the value more than once")
			continue
		}
		lay, _ := fm.Args[len(fm.Args)-1].(cpStr)
		if lay.V != layout {
			bad = append(bad, fmt.Sprintf("the value is formatted with layout %q, not time.RFC3339Nano", lay.V))
		}
		if rfIdent(fm.Args[0]) != "arg:t" {
			bad = append(bad, "what is formatted is not the value at the pointer handed to Write")
		}
		// the text reaches the string writer: some call into the avro package gets it, directly or behind a pointer
		text := rfIdent(fm.Result)
		got := false
		for _, w := range writes {
			for i, a := range w.Args {
				if rfIdent(a) == text {
					got = true
				}
				if i < len(w.Deref) && w.Deref[i] != nil && rfIdent(w.Deref[i]) == text {
					got = true
				}
			}
		}
		if !got || text == "" {
			bad = append(bad, "the formatted text is not what is handed to the string writer")
		}
		if len(writes) != 1 {
			bad = append(bad, fmt.Sprintf("%d calls into the write buffer on one path, one is expected (the string writer)", len(writes)))
		}
	}
	if n == 0 {
		bad = append(bad, "no path of Write returns")
	}
	c.Check(len(bad) == 0, key, P.pos(wr.Pos()), fmt.Sprintf("%d path(s): each formats the value at p once with time.RFC3339Nano and hands that text, and nothing else, to the string writer", n), strings.Join(dedup(bad), "; "))
}

func decisionList(d map[string]bool) []string {
	var out []string
	for k, v := range d {
		out = append(out, fmt.Sprintf("%s=%v", k, v))
	}
	sort.Strings(out)
	return out
}
