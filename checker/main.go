package main

// avrocheck: repository-specific static checker for philpearl/avro.
//
//	avrocheck -repo /repo -verif /verif -property C07 -tier quick|thorough
//
// Loads the current working tree of -repo, runs the rules mapped to the
// property, prints one line per rule, writes evidence/<id>.json and exits 0/1.
// It never executes library code.

import (
	"flag"
	"fmt"
	"go/token"
	"os"

	"golang.org/x/tools/go/ssa"
	"sort"
	"strconv"
	"strings"
	"time"
)

type propSpec struct {
	ID          string
	Explanation string
	Run         func(c *Ctx)
}

var props = map[string]*propSpec{}

// explainMore: clauses added after the explanation texts in the props_*.go files were written (seed round 9).
var explainMore = map[string]string{
	"C10": " OD-BANK, OD-CLEAR by the trace fold of ReadFile (DESIGN 11.9); AL-BLOCK follows the decompressor's result through helpers. Also decided (seed round 14): a holder does not keep a bank the library closed (AL-OWNER holder clause).",
	"C08": " OD-EOF, OD-LOOP, OD-DELIVER, OD-SYNC are decided on the traces ReadFile folds into, and by reading ReadFile's source when the fold does not go through (DESIGN 11.9).",
	"C18": " Also decided (seed round 11): NIL-LOC. Also decided (seed round 13): TS-STR (the formatting half of the round trip: Write formats with RFC3339Nano on every path).",
	"C17": " Also decided: UV-FOLD (the varint decoder folded on buffers of 1 to 11 named bytes is exactly unsigned LEB128 with the 64-bit overflow rule); VAL-FOLD. Also decided (seed round 14): Skip accepts exactly what Read accepts for every codec (WA-RS); CD-NUM.",
	"C07": " Also decided (seed round 11): OD-ACCEPT. The reader clauses (OD-SYNC, OD-LEN, OD-FLOW, OD-LOOP, ER-PASS, NIL-IFACE, CT-AGREE's reader side) are decided on the traces ReadFile folds into — every combination of branch outcomes over the first two turns of each loop — and by reading ReadFile's source when the fold does not go through (DESIGN 11.9). Also decided (seed round 13): CP-NODICT; OD-CRC by folding the snappy decompressor.",
	"C06": " Also decided (seed round 11): NIL-LOC; UV-FOLD (no path of the varint decoder over buffers of up to 11 bytes panics). Also decided (seed round 12): NIL-NEW (the result of a codec's New is read through only after a nil test; reported D25, fixed). Also decided (seed round 13): ER-USE. Also decided (seed round 14): no record is decoded without a bank in the read buffer and the reader's steps come in protocol order (OD-BANK, OD-DELIVER on the traces). Also decided (seed round 15): LK-PAIR (no lock is left held on any path: the library cannot be made to stop answering).",
	"C04": " Also decided (seed round 11): SEL-FOLD. Also decided (seed round 13): SK-FAIL follows numbers handed to buffer helpers back to what the callers pass.",
	"C12": " Also decided (seed round 10): no package-level lock is or may be held across a call that takes it again or across unseen code (LK-REENT); atomics and sync.Map are shared state (LK-GLOBAL); CD-PURE. Also decided (seed round 14): no view of a read buffer reaches shared state (AL-BUF). Also decided (seed round 15): LK-PAIR; no finalizer or cleanup recycles a bank (AL-FINAL).",
	"C01": " Also decided (seed round 9): the address of every item the array codec writes depends on every loop the write sits in (WA-IDX). Also decided (seed round 11): FL-TOTAL; VAL-FOLD. Also decided (seed round 12): SG-REPEAT. The container-reader clauses (OD-CLEAR, OD-LEN, OD-FLOW) are decided on the traces ReadFile folds into (DESIGN 11.9) when the fold goes through. Also decided (seed round 13): SK-FAIL (reading back refuses nothing on a presumption about item widths). Also decided (seed round 14): SG-COMP. Also decided (seed round 15): STR-TOTAL.",
	"C02": " Also decided (seed round 9): WA-IDX. Also decided (seed round 10): BT-WIDTH, signedness included. Also decided (seed round 11): WA-ZERO; VAL-FOLD. Also decided (seed round 13): TS-MULT/TS-UNIT and TS-STR for time fields; CRC-BE by folding the snappy compressor. Also decided (seed round 14): every codec name NewFileWriter accepts is one of the specification's (CT-AGREE, writer clause).",
	"C03": " Also decided (seed round 9): the bank's slot discipline, including that no pointer into the growable arena table is kept (AL-BUMP, AL-CLR, AL-CLOSE, AL-STALE). Also decided (seed round 10): codec methods reach no mutable package state (CD-PURE). Also decided (seed round 11): OD-ACCEPT; SEL-FOLD; FL-TOTAL. Also decided (seed round 12): BT-REC, SG-NAMES, REC-LIST, BT-SENTINEL (a record field is stored at the offset of the target's own field of that name). CT-AGREE (reader side), OD-LOOP, OD-CLEAR by the trace fold of ReadFile (DESIGN 11.9). Also decided (seed round 14): element stores only through the item codec, backing array of the item type (ARR-BOUND, BT-ARR); a nested record held through a pointer is a present field (record fold, sixth shape). Also decided (seed round 15): STR-TOTAL, UN-TOTAL.",
	"C05": " Also decided (seed round 9): the registries are read by exact-key lookup only, so a registered builder is never handed another type (REG-EXACT).",
	"C09": " Also decided (seed round 9): the threshold is the constructor's block-size parameter, stored unchanged (ENC-SIZE). Also decided (seed round 11): nothing but the size test gates the flush (ENC-2); OD-BLOCK by folding WriteBlock. Also decided (seed round 12): the compressor whose output becomes the payload belongs to this writer alone (LK-OWN) and nothing on the writing path uses package-level state (ENC-PURE). Also decided (seed round 13): CRC-BE. Also decided (seed round 15): ENC-BUF0.",
	"C11": " Also decided (seed round 9): a bank handed out is no longer the reader's and only Close pools a bank (OD-BANK, AL-OWNER). Also decided (seed round 10): AL-STALE through helper results. OD-BANK and GC-TARGET by the trace fold of ReadFile (DESIGN 11.9). Also decided (seed round 14): AL-STR.",
	"C13": " Also decided (seed round 9): WA-WR and WA-SPEC-W for all 27 codec types, WA-IDX, and floor division of time-derived counts (TS-FLOOR). Also decided (seed round 10): CD-PURE. Also decided (seed round 11): SG-NAMES, WA-ZERO, SEL-FOLD, VAL-FOLD. Also decided (seed round 13): FL-TOTAL. Also decided (seed round 14): CD-NUM. Also decided (seed round 15): what the string time codec writes the parser accepts (the parser fold of C18: PT-ACCEPT and its companions).",
	"C14": " Also decided (seed round 9): the JSON tags carry no option that changes name matching (JS-TAG-OPT). Also decided (seed round 10): the parser's own refusals are on the token kind only (JS-ACCEPT). Also decided (seed round 12): JS-PURE (nothing the parse entry points or the marshal/unmarshal pair reach uses package-level state).",
	"C15": " Also decided (seed round 9): REG-EXACT for the schema registry. Also decided (seed round 11): REG-OVERWRITE. Also decided (seed round 12): SG-REPEAT. Also decided (seed round 14): SG-COMP. Also decided (seed round 15): SG-TYPEONLY.",
	"C19": " Also decided (seed round 9): Read refuses a decoded integer only on a comparison with MaxInt64/mult or MinInt64/mult, anything else being undecided (TS-TOTAL); quotients of time-derived counts are floor-corrected (TS-FLOOR). Also decided (seed round 10): the time codecs reach no package state besides the locked zone cache (CD-PURE). Also decided: VAL-FOLD for DateCodec.Read.",
	"C20": " Also decided (seed round 9): REG-EXACT; RegisterCodecs registers unconditionally on every call (REG-ALWAYS). Also decided (seed round 10): OM-ZERO. Also decided (seed round 13): REG-ARG. Also decided (seed round 14): DST-FRESH (a registered type as a map value is decoded into storage of its own). Also decided (seed round 15): REG-ENTRY.",
}

func register(id, explanation string, run func(c *Ctx)) {
	props[id] = &propSpec{ID: id, Explanation: explanation + explainMore[id], Run: run}
}

func main() {
	repo := flag.String("repo", "/repo", "repository root")
	verif := flag.String("verif", "/verif", "verification root (evidence, known findings)")
	prop := flag.String("property", "", "property id (C01..C20) or 'all'")
	tier := flag.String("tier", "quick", "quick|thorough")
	explain := flag.String("explain", "", "replay file: re-derive and print that obligation")
	dump := flag.String("dump", "", "debug: dump SSA of functions whose key contains this string")
	list := flag.Bool("list", false, "list codec types and builders and exit")
	outDir := flag.String("out", "", "directory for evidence/ output (default: -verif)")
	nocanary := flag.Bool("nocanary", false, "thorough tier without canaries (used by the canary runner itself)")
	flag.Parse()

	seed := 0
	if s := os.Getenv("VERIF_SEED"); s != "" {
		if n, err := strconv.Atoi(s); err == nil {
			seed = n
		}
	}
	if *tier != "quick" && *tier != "thorough" {
		fmt.Fprintln(os.Stderr, "tier must be quick or thorough")
		os.Exit(2)
	}
	if *outDir == "" {
		*outDir = *verif
	}
	start := time.Now()
	P, err := loadProgram(*repo)
	if err != nil {
		// A tree that does not load is not a tree on which the property was
		// shown to hold.
		fmt.Printf("checker could not load %s: %v\n", *repo, err)
		if *prop != "" {
			fmt.Printf("VIOLATION property=%s replay=%s\n", *prop, "load-failure")
		}
		os.Exit(1)
	}
	computeGuardedBy(P)
	computeMonitorTypes(P)
	if *dump != "" {
		for _, fn := range P.ModuleFuncs() {
			if strings.Contains(fnKey(fn), *dump) {
				fmt.Printf("### %s   synthetic=%q\n", fnKey(fn), fn.Synthetic)
				fn.WriteTo(os.Stdout)
			}
		}
		return
	}
	if os.Getenv("AVROCHECK_REGFOLD") != "" {
		for _, pkg := range []*ssa.Package{P.Time, P.Null} {
			rc := pkg.Func("RegisterCodecs")
			outs, _, ok, why := cpFoldOpt(P, rc, nil, func(g *ssa.Function) bool { return g.Pkg == P.Avro && token.IsExported(g.Name()) })
			fmt.Printf("%s: ok=%v why=%q outcomes=%d\n", pkg.Pkg.Name(), ok, why, len(outs))
			for _, o := range outs {
				for _, cl := range o.Calls {
					fmt.Printf("   call %s args=%v\n", cl.Callee, cl.Args)
				}
			}
		}
		rs, ok := registrationsByFold(P)
		fmt.Printf("registrationsByFold ok=%v n=%d\n", ok, len(rs))
		return
	}
	if os.Getenv("AVROCHECK_RFFOLD") != "" {
		rfDebug(P)
		return
	}
	if os.Getenv("AVROCHECK_BLOCKFOLD") != "" {
		r := blockByFold(P)
		fmt.Printf("block fold ok=%v why=%q problems=%v detail=%q\n", r.ok, r.why, r.problems, r.detail)
		return
	}
	if os.Getenv("AVROCHECK_ALFOLD") != "" {
		r := allocByFold(P)
		fmt.Printf("alloc fold ok=%v why=%q detail=%q problems=%v clearFn=%v\n", r.ok, r.why, r.detail, r.problems, r.clearFn)
		probs, ok := closeByFold(P)
		fmt.Printf("close fold ok=%v problems=%v\n", ok, probs)
		return
	}
	if os.Getenv("AVROCHECK_CONTRACTS") != "" {
		e := newContractEnv(P)
		for _, ct := range P.CodecTypes() {
			fmt.Printf("%-30s", ct.Name)
			for _, m := range []string{"Read", "Write", "Omit"} {
				fn := ct.M[m]
				if fn == nil {
					continue
				}
				pi := len(fn.Params) - 1
				fmt.Printf(" %s:%s", m, e.ParamContract(fn, pi, nil))
			}
			fmt.Printf(" New:%s\n", e.NewContract(ct.M["New"]))
		}
		return
	}
	if os.Getenv("AVROCHECK_TABLES") != "" {
		bs := P.Builders()
		P.computeEntryKinds(bs)
		for _, b := range bs {
			fmt.Printf("== %s entryK=%s paths=%d budget=%v\n", fnKey(b.Fn), b.EntryK, len(b.Paths), b.Budget)
			seen := map[string]bool{}
			for _, p := range b.Paths {
				r := P.classifyReturn(p)
				tp := "typ"
				if b.TypParam != nil {
					tp = b.TypParam.Name()
				}
				desc := ""
				switch {
				case r.Reject:
					desc = "reject"
				case r.Delegate != nil:
					desc = "-> " + r.Delegate.Call.Value.String()
				case r.Codec != nil:
					desc = "codec " + typeKey(r.Codec)
				default:
					desc = "? " + r.Other
				}
				st, ex, excl := "", false, []string(nil)
				if b.Schema != nil {
					st, ex, excl = p.State.strOf(b.Schema.Name() + ".Type")
					if !ex {
						st = "!" + strings.Join(excl, ",")
					}
				}
				line := fmt.Sprintf("  K=%s EK=%s ST=%s  %s", p.State.kindsOf(tp), p.State.kindsOf(tp+".Elem()"), st, desc)
				if !seen[line] {
					seen[line] = true
					fmt.Println(line)
				}
			}
		}
		return
	}
	if os.Getenv("AVROCHECK_WA") != "" {
		for _, ct := range P.CodecTypes() {
			for _, m := range []string{"Read", "Skip", "Write"} {
				n, probs, _ := methodAutomaton(P, ct.M[m], m, 0)
				fmt.Printf("%-30s %-5s %v %v\n", ct.Name, m, n.words(6, 12), probs)
			}
		}
		return
	}
	if *list {
		for _, ct := range P.CodecTypes() {
			fmt.Printf("%-34s ptr=%v", ct.Name, ct.Ptr)
			for _, m := range codecMethodNames {
				fmt.Printf("  %s=%s(decl=%v)", m, fnKey(ct.M[m]), ct.Declared[m])
			}
			fmt.Println()
		}
		return
	}
	ids := []string{*prop}
	if *prop == "all" {
		ids = ids[:0]
		for id := range props {
			ids = append(ids, id)
		}
		sort.Strings(ids)
	}
	exit := 0
	for _, id := range ids {
		ps := props[id]
		if ps == nil {
			fmt.Fprintf(os.Stderr, "no check registered for property %q\n", id)
			os.Exit(2)
		}
		t0 := time.Now()
		if *prop != "all" {
			t0 = start
		}
		c := newCtx(P, id, *tier)
		func() {
			defer func() {
				if r := recover(); r != nil {
					c.Rule("CHECKER-PANIC", "the checker itself must not fail", 0)
					c.Unk("checker", "-", fmt.Sprintf("checker panicked: %v", r))
					if os.Getenv("AVROCHECK_DEBUG") != "" {
						panic(r)
					}
				}
			}()
			ps.Run(c)
		}()
		extra := map[string]any{}
		if *tier == "thorough" && !*nocanary {
			runCanaries(c, *repo, *verif, seed, extra)
		}
		if *explain != "" {
			explainReplay(c, *explain)
			return
		}
		code := c.finish(*verif, *outDir, seed, time.Since(t0).Seconds(), ps.Explanation, extra)
		if code > exit {
			exit = code
		}
	}
	os.Exit(exit)
}

// explainReplay re-derives the obligation named in a replay file on the
// current tree and prints its diagnosis.
func explainReplay(c *Ctx, path string) {
	b, err := os.ReadFile(path)
	if err != nil {
		fmt.Fprintf(os.Stderr, "cannot read %s: %v\n", path, err)
		os.Exit(2)
	}
	s := string(b)
	found := false
	for _, o := range c.Obs {
		if strings.Contains(s, strconv.Quote(o.Rule)) && strings.Contains(s, strconv.Quote(o.Construct)) {
			fmt.Printf("%s %s\n  construct: %s\n  at: %s\n  verdict on the current tree: %s\n  %s\n", c.Property, o.Rule, o.Construct, o.Pos, o.VerdictS, o.Witness)
			found = true
		}
	}
	if !found {
		fmt.Println("the obligation named in the replay file no longer exists on the current tree")
	}
}
