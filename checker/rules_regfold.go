package main

// The library's own registrations, read off a fold (E-CP) of RegisterCodecs
// in the time and null packages: avro.Register and avro.RegisterSchema are
// opaque, reflect.TypeOf of a statically typed value is modelled, package
// tables filled by initialisers are known. What is registered is then the
// same however the registrations are written — one call per line, a loop over
// a table, helpers.

import (
	"go/token"
	"go/types"

	"golang.org/x/tools/go/ssa"
)

// foldedSchema is a Schema value as the fold sees it.
type foldedSchema struct {
	Type   string
	Union  []foldedSchema
	HasObj bool
	ok     bool
}

func foldedSchemaOf(v cpVal, d int) foldedSchema {
	var fs foldedSchema
	if d > 4 {
		return fs
	}
	st, isS := v.(cpStruct)
	if !isS {
		return fs
	}
	tv, _ := cpFieldByName(st, "Type")
	switch t := tv.(type) {
	case cpStr:
		fs.Type = t.V
	case nil:
		fs.Type = ""
	default:
		return fs
	}
	fs.ok = true
	if ov, _ := cpFieldByName(st, "Object"); ov != nil {
		if _, isNil := ov.(cpNil); !isNil {
			fs.HasObj = true
		}
	}
	if uv, _ := cpFieldByName(st, "Union"); uv != nil {
		switch u := uv.(type) {
		case cpSlice:
			for _, c := range u.Elems {
				b := foldedSchemaOf(c.V, d+1)
				if !b.ok {
					fs.ok = false
				}
				fs.Union = append(fs.Union, b)
			}
		case cpNil:
		default:
			fs.ok = false
		}
	}
	return fs
}

func registrationsByFold(P *Program) ([]*registration, bool) {
	var out []*registration
	for _, pkg := range []*ssa.Package{P.Time, P.Null} {
		if pkg == nil {
			continue
		}
		rc := pkg.Func("RegisterCodecs")
		if rc == nil || rc.Blocks == nil || len(rc.Params) != 0 {
			return nil, false
		}
		opaque := func(g *ssa.Function) bool {
			return g.Pkg == P.Avro && token.IsExported(g.Name())
		}
		outs, _, ok, _ := cpFoldOpt(P, rc, nil, opaque)
		if !ok || len(outs) != 1 || outs[0].Panics {
			return nil, false
		}
		byType := map[string]*registration{}
		var order []string
		for _, cl := range outs[0].Calls {
			if cl.Instr == nil {
				continue
			}
			g := cl.Instr.Common().StaticCallee()
			if g == nil || g.Pkg != P.Avro || (g.Name() != "Register" && g.Name() != "RegisterSchema") || len(cl.Args) != 2 {
				continue
			}
			rt, isRT := cl.Args[0].(*cpRType)
			if !isRT || rt.Go == nil {
				return nil, false
			}
			k := typeKey(rt.Go)
			r := byType[k]
			if r == nil {
				r = &registration{In: rc, T: rt.Go}
				byType[k] = r
				order = append(order, k)
			}
			if g.Name() == "Register" {
				switch f := cl.Args[1].(type) {
				case cpFn:
					r.Builder = f.Fn
				case cpClosure:
					r.Builder = f.Fn
				default:
					return nil, false
				}
				r.Pos = cl.Instr.Pos()
			} else {
				fs := foldedSchemaOf(cl.Args[1], 0)
				if !fs.ok {
					return nil, false
				}
				r.Folded = &fs
				r.SPos = cl.Instr.Pos()
			}
		}
		if len(order) == 0 {
			return nil, false
		}
		for _, k := range order {
			out = append(out, byType[k])
		}
	}
	return out, len(out) > 0
}

// typeStrings: the type names found in the registered schema (outermost first).
func (r *registration) typeStrings() []string {
	if r.Folded != nil {
		var out []string
		var walk func(f foldedSchema)
		walk = func(f foldedSchema) {
			out = append(out, f.Type)
			for _, b := range f.Union {
				walk(b)
			}
		}
		walk(*r.Folded)
		return out
	}
	return schemaTypeStrings(r.Schema, 0)
}

func (r *registration) hasSchema() bool { return r.Folded != nil || r.Schema != nil }

var _ = types.Identical
