package main

import (
	"golang.org/x/tools/go/ssa"
)

// writerFuncs: the encoder entry points, every FileWriter method taking an
// io.Writer, and every compress implementation.
func writerFuncs(P *Program) []*ssa.Function {
	var out []*ssa.Function
	seen := map[*ssa.Function]bool{}
	add := func(f *ssa.Function) {
		if f != nil && !seen[f] && f.Blocks != nil {
			seen[f] = true
			out = append(out, f)
		}
	}
	e := findEncoder(P)
	add(e.ctor)
	add(e.encode)
	add(e.flush)
	for _, fn := range P.ModuleFuncs() {
		if fn.Signature.Recv() == nil {
			continue
		}
		if typeKey(fn.Signature.Recv().Type()) != "*avro.FileWriter" {
			continue
		}
		for _, p := range fn.Params {
			if isIOWriter(p.Type()) {
				add(fn)
			}
		}
	}
	s := findReadFile(P)
	if s.compIface != nil {
		for _, impl := range implementations(P, s.compIface) {
			add(P.Method(impl, "compress"))
		}
	}
	return out
}

func init() {
	register("C09",
		"The encoder's state is two fields (count, wb) touched by two methods; the rules read the complete transition relation off the source: Encode appends exactly one encoding and counts it on every path before testing the size (ENC-1), flushes exactly on Len() >= approxBlockSize (ENC-2); Flush writes a block exactly when count > 0 (ENC-3) with (w, count, wb.Bytes()) (ENC-4), resets count and buffer exactly on the success edge (ENC-5); nothing else in the module touches that state (ENC-6); the buffer is append-only between resets (WB-APPEND); each block is varint(count) varint(len(compressed)) compressed sync (OD-BLOCK); the compressor whose output buffer becomes the payload belongs to this writer alone — created per file writer, never in package state (LK-OWN) — and nothing on the writing path uses package-level state (ENC-PURE), so the payload written is the one compressed from this writer's records. "+
			"This is the induction step of C09 for every call history; payload correctness is C02's and is not decided here.",
		func(c *Ctx) {
			ruleENC(c)
			ruleWBAppend(c)
			ruleODBlock(c)
			ruleCPFresh(c, findReadFile(c.P))
			ruleENCSize(c)
			ruleLKOwn(c)
			ruleEncPure(c)
			ruleEncBuf0(c)
			ruleCRCCompress(c, findReadFile(c.P))
			c.Note("not decided: contents of the encodings appended by codec.Write (C01/C02); determinism of the compressors")
		})

	register("C16",
		"Every error-returning call on the writing path (NewEncoderFor, Encode, Flush, WriteHeader, WriteBlock, the varint helper, the compressors) is checked (ER-CHECK), returned as is or wrapped with %w (ER-WRAP), and nothing but error formatting happens between a failed write and the return, so no later write is issued by that call (ER-STOP); encoder state is reset only on the success edge (ENC-5) and the block's writes happen in the fault-free order (OD-BLOCK), which makes the accepted bytes a prefix of the fault-free output. Not decided: determinism of compressors; panics inside codec.Write for caller-supplied multi-branch unions.",
		func(c *Ctx) {
			c.Rule("ER-CHECK", erClauses["ER-CHECK"], 14)
			c.Rule("ER-WRAP", erClauses["ER-WRAP"], 10)
			c.Rule("ER-STOP", erClauses["ER-STOP"], 10)
			for _, fn := range writerFuncs(c.P) {
				erCheck(c, fn, erOpts{wrap: true, stop: true}, "ER-CHECK", "ER-WRAP", "ER-STOP", erClauses)
			}
			ruleODBlock(c)
			ruleODHdr(c)
			// ENC-5 only
			ruleENC(c)
		})
}
