package main

// Container reader rules (file.go): OD-MAGIC, OD-SCHEMA, CT-AGREE, NIL-IFACE,
// OD-SYNC, OD-CRC/CRC-BE, OD-LEN, OD-FLOW, ER-PASS, OD-LOOP, OD-EOF,
// OD-READFULL, OD-DELIVER, OD-CLEAR, OD-BANK.

import (
	"fmt"
	"go/token"
	"go/types"
	"sort"
	"strings"

	"golang.org/x/tools/go/ssa"
)

// readFileShape locates, by role, the constructs of ReadFile the rules talk
// about. A nil field is an unresolved anchor.
type readFileShape struct {
	fn          *ssa.Function
	rParam      *ssa.Parameter // the Reader
	cbParam     *ssa.Parameter // the callback
	headerCall  *ssa.Call      // call of the header reader
	headerFn    *ssa.Function
	fhAlloc     *ssa.Alloc // local holding the FileHeader
	schemaCall  *ssa.Call  // (FileHeader).schema
	schemaFn    *ssa.Function
	codecCall   *ssa.Call // (Schema).Codec
	decompress  *ssa.Call // invoke decompress
	compIface   *types.Named
	varints     []*ssa.Call // binary.ReadVarint calls in order of dominance
	readFulls   []*ssa.Call // io.ReadFull calls
	payloadRF   *ssa.Call
	syncRF      *ssa.Call
	codecRead   *ssa.Call
	cbCall      *ssa.Call
	memclr      *ssa.Call
	reset       *ssa.Call
	extractBank *ssa.Call
	outer       *Loop
	records     *Counted
}

func findReadFile(P *Program) *readFileShape {
	s := &readFileShape{fn: P.Func(P.Avro, "ReadFile")}
	fn := s.fn
	if fn == nil {
		return s
	}
	for _, p := range fn.Params {
		if n, ok := types.Unalias(p.Type()).(*types.Named); ok && n.Obj().Name() == "Reader" && P.isModulePkg(n.Obj().Pkg()) {
			s.rParam = p
		}
		if _, ok := p.Type().Underlying().(*types.Signature); ok {
			s.cbParam = p
		}
	}
	fhT := P.NamedType(P.Avro, "FileHeader")
	for _, cs := range callsIn(fn) {
		call := cs.Value()
		if call == nil {
			continue
		}
		switch {
		case cs.Static != nil && P.isModuleFunc(cs.Static):
			sig := cs.Static.Signature
			res := sig.Results()
			if res.Len() == 2 && fhT != nil && types.Identical(res.At(0).Type(), fhT) {
				s.headerCall, s.headerFn = call, cs.Static
			}
			if sig.Recv() != nil && fhT != nil && (types.Identical(sig.Recv().Type(), fhT) || types.Identical(sig.Recv().Type(), types.NewPointer(fhT))) && res.Len() == 2 && typeKey(res.At(0).Type()) == "avro.Schema" {
				s.schemaCall, s.schemaFn = call, cs.Static
			}
			if cs.Static.Name() == "Codec" && sig.Recv() != nil {
				s.codecCall = call
			}
			switch qualNameShort(cs.Static) {
			case "typedmemclr":
				s.memclr = call
			case "(*ReadBuf).Reset":
				s.reset = call
			case "(*ReadBuf).ExtractResourceBank":
				s.extractBank = call
			}
		case cs.Static != nil:
			switch qualName(cs.Static) {
			case "encoding/binary.ReadVarint":
				s.varints = append(s.varints, call)
			case "io.ReadFull":
				s.readFulls = append(s.readFulls, call)
			}
		case cs.Iface != nil:
			if cs.Iface.Name() == "decompress" {
				s.decompress = call
				if n, ok := types.Unalias(call.Call.Value.Type()).(*types.Named); ok {
					s.compIface = n
				}
			}
			if cs.Iface.Name() == "Read" && len(call.Call.Args) == 2 && isCodecIface(P, call.Call.Value.Type()) {
				s.codecRead = call
			}
		default:
			if p, ok := call.Call.Value.(*ssa.Parameter); ok && p == s.cbParam {
				s.cbCall = call
			}
		}
	}
	if s.headerCall != nil {
		if ex := extractOf(s.headerCall, 0); ex != nil {
			for _, r := range referrersOf(ex) {
				if st, ok := r.(*ssa.Store); ok && st.Val == ex {
					if a, ok := st.Addr.(*ssa.Alloc); ok {
						s.fhAlloc = a
					}
				}
			}
		}
	}
	// Loops.
	if len(s.varints) > 0 {
		sort.Slice(s.varints, func(i, j int) bool { return dominatesInstr(s.varints[i], s.varints[j]) })
		s.outer = innermostLoop(fn, s.varints[0].Block())
	}
	if s.codecRead != nil {
		if l := innermostLoop(fn, s.codecRead.Block()); l != nil {
			s.records = countedLoop(l)
		}
	}
	// Which ReadFull reads the payload (its buffer is passed to decompress)
	// and which the sync marker (buffer is a slice of a [16]byte local).
	for _, rf := range s.readFulls {
		if s.decompress != nil && len(s.decompress.Call.Args) == 1 && rf.Call.Args[1] == s.decompress.Call.Args[0] {
			s.payloadRF = rf
		}
		if sl, ok := rf.Call.Args[1].(*ssa.Slice); ok {
			if a, ok := sl.X.(*ssa.Alloc); ok {
				if at, ok := a.Type().Underlying().(*types.Pointer).Elem().Underlying().(*types.Array); ok && at.Len() == 16 {
					s.syncRF = rf
				}
			}
		}
	}
	if s.compIface == nil {
		// the decompress call sits in a helper: the interface is found by its methods
		s.compIface = rfAnchors(P).compIface
	}
	return s
}

func qualNameShort(fn *ssa.Function) string {
	s := qualName(fn)
	s = strings.ReplaceAll(s, modPath+".", "")
	s = strings.ReplaceAll(s, modPath+"/", "")
	return s
}

func isCodecIface(P *Program, t types.Type) bool {
	ct := P.NamedType(P.Avro, "Codec")
	return ct != nil && types.Identical(t, ct)
}

// successReturns returns the returns of fn whose error operand is the nil
// constant (definite success) and those whose operand is not provably non-nil
// (possible success).
func successReturns(fn *ssa.Function) (definite, possible []*ssa.Return) {
	for _, r := range returnsOf(fn) {
		ev := errOperand(r)
		if ev == nil {
			continue
		}
		if isNilConst(ev) {
			definite = append(definite, r)
			continue
		}
		if isFreshError(ev) {
			continue
		}
		if nn, _ := knownNonNil(r.Block(), ev); nn {
			continue
		}
		possible = append(possible, r)
	}
	return
}

// ---------- OD-MAGIC

func ruleODMagic(c *Ctx, s *readFileShape) {
	c.Rule("OD-MAGIC", "a header is accepted only if the four bytes read equal FileMagic", 1)
	P := c.P
	if !c.Anchor(s.headerFn != nil, "header reader (callee of ReadFile returning FileHeader)") {
		return
	}
	fn := s.headerFn
	def, poss := successReturns(fn)
	all := append(def, poss...)
	if !c.Anchor(len(all) > 0, "success return of the header reader") {
		return
	}
	for i, r := range all {
		key := fmt.Sprintf("%s/success-return#%d", fnKey(fn), i+1)
		ok := false
		var why string
		for _, cmp := range cmpFactsAt(r.Block()) {
			if cmp.Op != token.EQL {
				continue
			}
			px, py := accessPath(cmp.X), accessPath(cmp.Y)
			isMagicField := func(p string) bool { return strings.HasSuffix(p, "->Magic)") && strings.HasPrefix(p, "*(") }
			isGlobal := func(p string) bool { return p == "*(global:avro.FileMagic)" }
			var fieldLoad ssa.Value
			if isMagicField(px) && isGlobal(py) {
				fieldLoad = cmp.X
			} else if isMagicField(py) && isGlobal(px) {
				fieldLoad = cmp.Y
			} else {
				continue
			}
			// the field must have been filled by io.ReadFull(r, field[:]) before the load
			ld := fieldLoad.(*ssa.UnOp)
			filled := false
			for _, cs := range callsIn(fn) {
				if cs.Static == nil || qualName(cs.Static) != "io.ReadFull" || cs.Value() == nil {
					continue
				}
				if sl, ok := cs.Common.Args[1].(*ssa.Slice); ok && sl.Low == nil && sl.High == nil && accessPath(sl.X) == accessPath(ld.X) && dominatesInstr(cs.Value(), ld) {
					if _, isNil := knownNonNil(r.Block(), errValueOfCall(cs.Value())); isNil {
						filled = true
					}
				}
			}
			if filled {
				ok = true
				why = fmt.Sprintf("dominated by the equal edge of %s == FileMagic, the field having been filled by a successful io.ReadFull of all %d bytes", px, 4)
			}
		}
		c.Check(ok, key, P.pos(r.Pos()), why, "a success return of the header reader is not dominated by the equal edge of a comparison of the bytes read with FileMagic")
	}
}

// ---------- OD-SCHEMA

func ruleODSchema(c *Ctx, s *readFileShape) {
	c.Rule("OD-SCHEMA", "the schema is parsed from the avro.schema metadata entry; its absence is an error", 2)
	P := c.P
	if !c.Anchor(s.schemaFn != nil, "schema lookup method of FileHeader") {
		return
	}
	fn := s.schemaFn
	var lk *ssa.Lookup
	for _, b := range fn.Blocks {
		for _, in := range b.Instrs {
			if l, ok := in.(*ssa.Lookup); ok && l.CommaOk {
				if k, ok := constString(l.Index); ok && k == "avro.schema" {
					lk = l
				}
			}
		}
	}
	if !c.Anchor(lk != nil, "comma-ok lookup of \"avro.schema\"") {
		return
	}
	okv := extractOf(lk, 1)
	val := extractOf(lk, 0)
	var um *ssa.Call
	isUnmarshal := func(g *ssa.Function) bool {
		return g != nil && strings.HasSuffix(qualName(g), "go-json-experiment/json.Unmarshal")
	}
	for _, cs := range callsIn(fn) {
		if cs.Static == nil || cs.Value() == nil {
			continue
		}
		if isUnmarshal(cs.Static) {
			um = cs.Value()
		}
		// a module helper that parses its first parameter with json.Unmarshal and hands back the error
		if P.isModuleFunc(cs.Static) && cs.Static.Blocks != nil && len(cs.Static.Params) >= 1 && errorResultIndex(cs.Static.Signature) >= 0 {
			for _, ics := range callsIn(cs.Static) {
				if isUnmarshal(ics.Static) && len(ics.Common.Args) > 0 && ics.Common.Args[0] == ssa.Value(cs.Static.Params[0]) && ics.Value() != nil {
					// the helper's error is nil only where Unmarshal's is
					faithful := true
					ei := errorResultIndex(cs.Static.Signature)
					for _, r := range returnsOf(cs.Static) {
						ev := resolvedResults(r)[ei]
						if ev == ssa.Value(ics.Value()) {
							continue
						}
						if nn, _ := knownNonNil(r.Block(), ev); nn || isFreshError(ev) {
							continue
						}
						if _, isNil := knownNonNil(r.Block(), ssa.Value(ics.Value())); isNil {
							continue
						}
						faithful = false
					}
					if faithful {
						um = cs.Value()
					}
				}
			}
		}
	}
	if !c.Anchor(um != nil && okv != nil && val != nil, "json.Unmarshal call and lookup results") {
		return
	}
	key := fnKey(fn) + "/unmarshal"
	found := false
	for _, f := range factsAt(um.Block()) {
		if f.Cond == okv && f.Truth {
			found = true
		}
	}
	c.Check(found && um.Call.Args[0] == val, key, P.pos(um.Pos()),
		"json.Unmarshal parses the looked-up value and is dominated by the found edge of the lookup",
		"json.Unmarshal is not dominated by the found edge of the avro.schema lookup, or parses a different value")
	// not-found edge returns an error
	key2 := fnKey(fn) + "/not-found"
	def, poss := successReturns(fn)
	bad := ""
	for _, r := range append(def, poss...) {
		okFact := false
		for _, f := range factsAt(r.Block()) {
			if f.Cond == okv && f.Truth {
				okFact = true
			}
		}
		if !okFact {
			bad = P.pos(r.Pos())
		}
		// and the unmarshal must have succeeded
		if _, isNil := knownNonNil(r.Block(), errValueOfCall(um)); !isNil {
			bad = P.pos(r.Pos())
		}
	}
	c.Check(bad == "", key2, P.pos(lk.Pos()), "every success return is dominated by the found edge and by the success edge of json.Unmarshal", "a success return at "+bad+" is reachable without a schema entry or without a successful parse")
}

// ---------- CT-AGREE / NIL-IFACE

type compTable struct {
	byName   map[string]string // codec name -> concrete type
	defaults []string          // concrete types installed without a name guard
	nilSrc   bool
	where    map[string]string
	problems []string
	fns      map[*ssa.Function]bool // the functions the selection happens in
	srcs     []compSrc
}

// nameFacts returns the constant strings s such that "x == s" holds at b.
func stringEqAt(b *ssa.BasicBlock) (eq []string, subj []ssa.Value) {
	for _, cmp := range cmpFactsAt(b) {
		if cmp.Op != token.EQL {
			continue
		}
		if k, ok := constString(cmp.Y); ok {
			eq = append(eq, k)
			subj = append(subj, cmp.X)
		} else if k, ok := constString(cmp.X); ok {
			eq = append(eq, k)
			subj = append(subj, cmp.Y)
		}
	}
	return
}

func concreteOfMakeIface(v ssa.Value) (string, bool) {
	mi, ok := v.(*ssa.MakeInterface)
	if !ok {
		return "", false
	}
	return typeKey(mi.X.Type()), true
}

// compSrc is one origin of a compressor value.
type compSrc struct {
	ty    string   // concrete type put in the interface
	names []string // codec names known to equal the selector where it is created
	isNil bool
	mi    *ssa.MakeInterface
	prob  string
	via   []*ssa.Call // calls of selector helpers the value was returned through
}

// compSources lists where a compressor value comes from, looking through
// phis and through module functions that return it (a selector helper). A
// helper's returns with a definitely non-nil error are not origins: the
// caller must then have checked the error (see errNilAtUse).
func compSources(P *Program, v ssa.Value, via []*ssa.Call, fns map[*ssa.Function]bool) []compSrc {
	var out []compSrc
	for _, src := range phiSources(v) {
		if isNilConst(src) {
			out = append(out, compSrc{isNil: true, via: via})
			continue
		}
		if mi, ok := src.(*ssa.MakeInterface); ok {
			names, _ := stringEqAt(mi.Block())
			out = append(out, compSrc{ty: typeKey(mi.X.Type()), names: names, mi: mi, via: via})
			continue
		}
		var call *ssa.Call
		idx := 0
		if ex, ok := src.(*ssa.Extract); ok {
			call, _ = ex.Tuple.(*ssa.Call)
			idx = ex.Index
		} else if cl, ok := src.(*ssa.Call); ok {
			call = cl
		}
		if call != nil && len(via) < 2 {
			if g := call.Call.StaticCallee(); g != nil && P.isModuleFunc(g) && g.Blocks != nil {
				fns[g] = true
				ei := errorResultIndex(g.Signature)
				for _, b := range g.Blocks {
					if b == g.Recover {
						continue
					}
					ret, ok := b.Instrs[len(b.Instrs)-1].(*ssa.Return)
					if !ok {
						continue
					}
					rs := resolvedResults(ret)
					if ei >= 0 {
						if isFreshError(rs[ei]) {
							continue
						}
						if nn, _ := knownNonNil(b, rs[ei]); nn {
							continue
						}
					}
					out = append(out, compSources(P, rs[idx], append(append([]*ssa.Call{}, via...), call), fns)...)
				}
				continue
			}
		}
		out = append(out, compSrc{prob: src.String(), via: via})
	}
	return out
}

// errNilAtUse: every selector-helper call the source came through has its
// error known nil at block b.
func errNilAtUse(src compSrc, b *ssa.BasicBlock) bool {
	if len(src.via) == 0 {
		return true
	}
	call := src.via[0]
	ev := errValueOfCall(call)
	if ev == nil {
		return true
	}
	_, isNil := knownNonNil(b, ev)
	return isNil
}

func readerCompTable(P *Program, s *readFileShape) *compTable {
	t := &compTable{byName: map[string]string{}, where: map[string]string{}, fns: map[*ssa.Function]bool{s.fn: true}}
	for _, src := range compSources(P, s.decompress.Call.Value, nil, t.fns) {
		switch {
		case src.isNil:
			t.nilSrc = true
		case src.prob != "":
			t.problems = append(t.problems, "decoder may come from "+src.prob)
		case !errNilAtUse(src, s.decompress.Block()):
			t.problems = append(t.problems, "a decoder returned by a helper is used where the helper's error is not known to be nil")
		case len(src.names) == 0:
			t.defaults = append(t.defaults, src.ty)
			t.srcs = append(t.srcs, src)
		default:
			for _, n := range src.names {
				t.byName[n] = src.ty
				t.where[n] = P.pos(src.mi.Pos())
			}
			t.srcs = append(t.srcs, src)
		}
	}
	return t
}

func writerCompTable(P *Program, iface types.Type) (*compTable, *ssa.Function) {
	fn := P.Func(P.Avro, "NewFileWriter")
	if fn == nil {
		return nil, nil
	}
	t := &compTable{byName: map[string]string{}, where: map[string]string{}, fns: map[*ssa.Function]bool{fn: true}}
	def, poss := successReturns(fn)
	for _, b := range fn.Blocks {
		for _, in := range b.Instrs {
			st, ok := in.(*ssa.Store)
			if !ok || !types.Identical(st.Val.Type(), iface) {
				continue
			}
			for _, src := range compSources(P, st.Val, nil, t.fns) {
				switch {
				case src.isNil:
					t.nilSrc = true
					continue
				case src.prob != "":
					t.problems = append(t.problems, "compressor may come from "+src.prob)
					continue
				}
				// a compressor handed back by a helper counts only where the writer can succeed: there the helper's error must be nil
				okErr := true
				for _, r := range append(append([]*ssa.Return{}, def...), poss...) {
					if !errNilAtUse(src, r.Block()) {
						okErr = false
					}
				}
				if !okErr {
					t.problems = append(t.problems, "a compressor returned by a helper is kept although the helper's error is not known to be nil when the writer succeeds")
					continue
				}
				names := src.names
				if len(src.via) == 0 && len(names) == 0 {
					names, _ = stringEqAt(b)
				}
				if len(names) == 0 {
					t.defaults = append(t.defaults, src.ty)
				}
				for _, n := range names {
					t.byName[n] = src.ty
					t.where[n] = P.pos(st.Pos())
				}
			}
		}
	}
	return t, fn
}

// specCompression is the Avro specification's list of codec names the
// library supports, with the role of each implementation.
var specCompression = []string{"null", "deflate", "snappy"}

func ruleCTAgree(c *Ctx, s *readFileShape) {
	P := c.P
	c.Rule("NIL-IFACE", "no nil interface value can reach the receiver of the decompress call", 1)
	if rfDecide(c, "codec") && ctAgreeByTrace(c) {
		return
	}
	if !c.Anchor(s.decompress != nil && s.compIface != nil, "decompress call in ReadFile") {
		return
	}
	rt := readerCompTable(P, s)
	c.Check(!rt.nilSrc, fnKey(s.fn)+"/decompress-receiver", P.pos(s.decompress.Pos()),
		"every value flowing into the receiver of decompress is a non-nil concrete compressor",
		"a nil interface flows into the receiver of decompress (header without avro.codec): nil-pointer panic instead of treating the file as uncompressed")

	c.Rule("CT-AGREE", "reader and writer map the same codec names to the same compressor types; unknown names are errors; an absent entry means the null codec", 8)
	for _, p := range rt.problems {
		c.Unk(fnKey(s.fn)+"/decoder-source", "-", p)
	}
	wt, wfn := writerCompTable(P, s.compIface)
	if ft, folded := writerCompTableByFold(P); folded {
		wt = ft
	}
	if !c.Anchor(wt != nil, "NewFileWriter") {
		return
	}
	for _, p := range wt.problems {
		c.Unk(fnKey(wfn)+"/compressor-source", "-", p)
	}
	for _, n := range specCompression {
		r, okr := rt.byName[n]
		w, okw := wt.byName[n]
		key := "codec-name/" + n
		switch {
		case !okr:
			c.Bad(key+"/reader", "-", fmt.Sprintf("ReadFile has no case for the specification's codec name %q", n))
		case !okw:
			c.Bad(key+"/writer", "-", fmt.Sprintf("NewFileWriter has no case for the specification's codec name %q", n))
		case r != w:
			c.Bad(key, rt.where[n], fmt.Sprintf("codec name %q selects %s in ReadFile but %s in NewFileWriter", n, r, w))
		default:
			c.OK(key, rt.where[n], fmt.Sprintf("%q -> %s in both ReadFile and NewFileWriter", n, r))
		}
	}
	for n, w := range wt.byName {
		if !contains(specCompression, n) {
			c.Bad("codec-name/"+n+"/writer", wt.where[n], fmt.Sprintf("NewFileWriter accepts the codec name %q (giving %s) and the header carries the name as given: that is not one of the specification's codec names, so no conformant reader can open the file", n, w))
		}
	}
	for n, r := range rt.byName {
		if !contains(specCompression, n) {
			if w, ok := wt.byName[n]; !ok || w != r {
				c.Bad("codec-name/"+n, rt.where[n], fmt.Sprintf("ReadFile accepts codec name %q which the writer does not produce with the same type", n))
			}
		}
	}
	// roles: which type is which codec, decided by what its methods call.
	roles := compressorRoles(P, s.compIface)
	for _, n := range specCompression {
		if ty, ok := rt.byName[n]; ok {
			want := roles[ty]
			c.Check(want == n, "codec-role/"+n, rt.where[n],
				fmt.Sprintf("%s implements the %s codec (decided from the decoder it calls)", ty, n),
				fmt.Sprintf("codec name %q selects %s, whose decompress implements %q", n, ty, want))
		}
	}
	// Defaults: a decoder installed without a name guard must be the null codec's type.
	nullTy := rt.byName["null"]
	okDef := true
	for _, d := range rt.defaults {
		if d != nullTy {
			okDef = false
		}
	}
	c.Check(okDef, fnKey(s.fn)+"/default-decoder", P.pos(s.decompress.Pos()),
		fmt.Sprintf("decoders installed without a codec-name guard: %v (only the null codec's type %s is allowed)", rt.defaults, nullTy),
		fmt.Sprintf("a decoder other than the null codec is installed when no codec name matched: %v", rt.defaults))
	// Unknown name -> error in the reader: from the found edge of the
	// avro.codec lookup, the decompress call is reachable only through one of
	// the guarded sources.
	var lk *ssa.Lookup
	var lkFn *ssa.Function
	for g := range rt.fns {
		for _, b := range g.Blocks {
			for _, in := range b.Instrs {
				if l, ok := in.(*ssa.Lookup); ok && l.CommaOk {
					if k, ok := constString(l.Index); ok && k == "avro.codec" {
						lk, lkFn = l, g
					}
				}
			}
		}
	}
	if c.Anchor(lk != nil, "comma-ok lookup of \"avro.codec\" in ReadFile") {
		okv := extractOf(lk, 1)
		var found *ssa.BasicBlock
		for _, r := range referrersOf(okv) {
			if iff, ok := r.(*ssa.If); ok {
				found = iff.Block().Succs[0]
			}
			if not, ok := r.(*ssa.UnOp); ok && not.Op == token.NOT {
				for _, rr := range referrersOf(not) {
					if iff, ok := rr.(*ssa.If); ok {
						found = iff.Block().Succs[1]
					}
				}
			}
		}
		stop := map[*ssa.BasicBlock]bool{}
		for _, src := range rt.srcs {
			if len(src.names) > 0 {
				stop[src.mi.Block()] = true
			}
		}
		if found == nil {
			c.Unk(fnKey(s.fn)+"/unknown-codec", P.pos(lk.Pos()), "the ok result of the avro.codec lookup is not a branch condition")
		} else {
			reach := reachableFrom(found, stop)
			bad := false
			if lkFn == s.fn {
				bad = reach[s.decompress.Block()]
			} else {
				// the selection lives in a helper: none of its possibly-successful returns may be reached, unless it
				// hands back what a further selection helper returned, which is then held to the same from its entry
				var unguarded func(g *ssa.Function, reach map[*ssa.BasicBlock]bool, depth int) bool
				unguarded = func(g *ssa.Function, reach map[*ssa.BasicBlock]bool, depth int) bool {
					def, poss := successReturns(g)
					for _, r := range append(def, poss...) {
						if !reach[r.Block()] || stop[r.Block()] {
							continue
						}
						var inner *ssa.Function
						for _, rv := range resolvedResults(r) {
							if !types.Identical(rv.Type(), s.compIface) {
								continue
							}
							var call *ssa.Call
							if ex, ok := rv.(*ssa.Extract); ok {
								call, _ = ex.Tuple.(*ssa.Call)
							} else if cl, ok := rv.(*ssa.Call); ok {
								call = cl
							}
							if call != nil {
								if h := call.Call.StaticCallee(); h != nil && rt.fns[h] && h != g && h.Blocks != nil {
									inner = h
								}
							}
						}
						if inner == nil || depth >= 2 {
							return true
						}
						if unguarded(inner, reachableFrom(inner.Blocks[0], stop), depth+1) {
							return true
						}
					}
					return false
				}
				bad = unguarded(lkFn, reach, 0)
			}
			c.Check(!bad, fnKey(s.fn)+"/unknown-codec", P.pos(lk.Pos()),
				"with a codec entry present, blocks are decoded only after one of the recognised names matched (every other path returns an error)",
				"with a codec entry present but not recognised, control can still reach the block decoder")
		}
	}
	// Writer: unknown name -> error: NewFileWriter's success returns need a name fact or all stores dominate.
	def, poss := successReturns(wfn)
	for i, r := range append(def, poss...) {
		stop := map[*ssa.BasicBlock]bool{}
		for _, b := range wfn.Blocks {
			for _, in := range b.Instrs {
				if st, ok := in.(*ssa.Store); ok && types.Identical(st.Val.Type(), s.compIface) {
					stop[b] = true
				}
			}
		}
		reach := reachableFrom(wfn.Blocks[0], stop)
		c.Check(!reach[r.Block()], fmt.Sprintf("%s/success-return#%d", fnKey(wfn), i+1), P.pos(r.Pos()),
			"NewFileWriter succeeds only after installing a compressor under a recognised name",
			"NewFileWriter can succeed without installing a compressor")
	}
}

func contains(xs []string, s string) bool {
	for _, x := range xs {
		if x == s {
			return true
		}
	}
	return false
}

// compressorRoles classifies each implementation of the compression
// interface by what its decompress method does: "snappy" if it calls
// snappy.Decode, "deflate" if it uses compress/flate, "null" if it returns
// its argument unchanged.
func compressorRoles(P *Program, iface *types.Named) map[string]string {
	out := map[string]string{}
	for _, impl := range implementations(P, iface) {
		fn := P.Method(impl, "decompress")
		if fn == nil {
			continue
		}
		role := ""
		// the calls of decompress and of the module helpers it calls (two levels)
		var calls []*CallSite
		seenFn := map[*ssa.Function]bool{}
		var gather func(f *ssa.Function, d int)
		gather = func(f *ssa.Function, d int) {
			if seenFn[f] || d > 2 {
				return
			}
			seenFn[f] = true
			for _, cs := range callsIn(f) {
				calls = append(calls, cs)
				if cs.Static != nil && P.isModuleFunc(cs.Static) && cs.Static.Blocks != nil {
					gather(cs.Static, d+1)
				}
			}
		}
		gather(fn, 0)
		for _, cs := range calls {
			if cs.Static == nil {
				continue
			}
			q := qualName(cs.Static)
			if q == "github.com/golang/snappy.Decode" {
				role = "snappy"
			}
			if strings.HasPrefix(q, "compress/flate.") && role == "" {
				role = "deflate"
			}
		}
		if role == "" {
			rs := returnsOf(fn)
			if len(rs) == 1 && len(fn.Params) >= 1 && resolvedResults(rs[0])[0] == fn.Params[len(fn.Params)-1] && isNilConst(resolvedResults(rs[0])[1]) {
				role = "null"
			}
		}
		key := typeKey(impl)
		if P.Prog.MethodSets.MethodSet(impl).Lookup(P.Avro.Pkg, "decompress") == nil {
			key = "*" + key
		}
		out[key] = role
	}
	return out
}

// implementations returns the module's named non-interface types T such that
// T or *T implements iface.
func implementations(P *Program, iface *types.Named) []types.Type {
	it, ok := iface.Underlying().(*types.Interface)
	if !ok {
		return nil
	}
	var out []types.Type
	for _, sp := range []*ssa.Package{P.Avro, P.Time, P.Null} {
		sc := sp.Pkg.Scope()
		for _, n := range sc.Names() {
			tn, ok := sc.Lookup(n).(*types.TypeName)
			if !ok || tn.IsAlias() {
				continue
			}
			nt, ok := tn.Type().(*types.Named)
			if !ok || nt.TypeParams().Len() > 0 {
				continue
			}
			if _, isI := nt.Underlying().(*types.Interface); isI {
				continue
			}
			if types.Implements(nt, it) || types.Implements(types.NewPointer(nt), it) {
				out = append(out, nt)
			}
		}
	}
	return out
}

// ---------- OD-SYNC

// syncReadFull finds, in fn, the io.ReadFull whose buffer is a slice of a
// local [16]byte.
func syncReadFull(fn *ssa.Function) *ssa.Call {
	var out *ssa.Call
	for _, cs := range callsIn(fn) {
		if cs.Static == nil || qualName(cs.Static) != "io.ReadFull" || cs.Value() == nil {
			continue
		}
		if sl, ok := cs.Common.Args[1].(*ssa.Slice); ok {
			if a, ok := sl.X.(*ssa.Alloc); ok {
				if at, ok := a.Type().Underlying().(*types.Pointer).Elem().Underlying().(*types.Array); ok && at.Len() == 16 {
					out = cs.Value()
				}
			}
		}
	}
	return out
}

// syncFacts: among facts, is the marker read known to have succeeded, and are
// the 16 bytes read known equal to a value accepted by isWant?
func syncFacts(facts []Fact, rf *ssa.Call, isWant func(ssa.Value) bool) (okErr, okEq bool) {
	sl := rf.Call.Args[1].(*ssa.Slice)
	sigAlloc := sl.X.(*ssa.Alloc)
	rfErr := errValueOfCall(rf)
	for _, f := range facts {
		// bytes.Equal(sig[:], want[:]) known true: the same comparison spelled on slices of the two arrays
		if call, isCall := f.Cond.(*ssa.Call); isCall && f.Truth {
			if g := call.Call.StaticCallee(); g != nil && qualName(g) == "bytes.Equal" && len(call.Call.Args) == 2 {
				wholeOf := func(v ssa.Value) ssa.Value {
					sl, ok := v.(*ssa.Slice)
					if !ok || sl.Low != nil || sl.High != nil {
						return nil
					}
					return sl.X
				}
				a, b := wholeOf(call.Call.Args[0]), wholeOf(call.Call.Args[1])
				isSigA := func(v ssa.Value) bool { return v == ssa.Value(sigAlloc) && dominatesInstr(rf, call) }
				isWantA := func(v ssa.Value) bool {
					// the address of the wanted array: what a load from it would be must satisfy isWant
					if v == nil {
						return false
					}
					if al, ok := v.(*ssa.Alloc); ok {
						// a by-value array parameter spilled to a local
						for _, r := range referrersOf(al) {
							if st, ok := r.(*ssa.Store); ok && st.Addr == ssa.Value(al) && isWant(st.Val) {
								return true
							}
						}
						return false
					}
					return isWant(&ssa.UnOp{Op: token.MUL, X: v})
				}
				if a != nil && b != nil && (isSigA(a) && isWantA(b) || isSigA(b) && isWantA(a)) {
					okEq = true
				}
			}
			continue
		}
		cmp, ok := asCmp(f.Cond, f.Truth)
		if !ok || cmp.Op != token.EQL {
			continue
		}
		if cmp.X == rfErr && isNilConst(cmp.Y) || cmp.Y == rfErr && isNilConst(cmp.X) {
			okErr = true
		}
		isSig := func(v ssa.Value) bool {
			u, ok := v.(*ssa.UnOp)
			return ok && u.Op == token.MUL && u.X == ssa.Value(sigAlloc) && dominatesInstr(rf, u)
		}
		if isSig(cmp.X) && isWant(cmp.Y) || isSig(cmp.Y) && isWant(cmp.X) {
			okEq = true
		}
	}
	return
}

func ruleODSync(c *Ctx, s *readFileShape) {
	c.Rule("OD-SYNC", "another block is read only after 16 bytes were read in full and found equal to the header's sync marker", 1)
	if rfDecide(c, "sync") {
		return
	}
	P := c.P
	// the marker check may sit in ReadFile's loop or in a helper called from it
	var helperCall *ssa.Call
	rf := s.syncRF
	if rf == nil && s.fn != nil && s.outer != nil {
		for _, cs := range callsIn(s.fn) {
			if cs.Static != nil && P.isModuleFunc(cs.Static) && cs.Value() != nil && s.outer.Blocks[cs.Block] && errorResultIndex(cs.Static.Signature) >= 0 {
				if h := syncReadFull(cs.Static); h != nil {
					helperCall, rf = cs.Value(), h
				}
			}
		}
	}
	if !c.Anchor(s.outer != nil && rf != nil && s.fhAlloc != nil, "block loop, sync ReadFull, header local in ReadFile") {
		return
	}
	sl := rf.Call.Args[1].(*ssa.Slice)
	// header local must be written exactly once (from the header reader)
	nStores := 0
	for _, r := range referrersOf(s.fhAlloc) {
		if st, ok := r.(*ssa.Store); ok && st.Addr == s.fhAlloc {
			nStores++
		}
	}
	isSync := func(v ssa.Value) bool {
		u, ok := v.(*ssa.UnOp)
		if !ok || u.Op != token.MUL {
			return false
		}
		fa, ok := u.X.(*ssa.FieldAddr)
		return ok && fa.X == s.fhAlloc && fieldName(fa.X.Type(), fa.Field) == "Sync"
	}
	// with a helper: its successes need both facts about its own parameter, and the loop needs its success
	helperOK, helperWhy := true, ""
	var wantParam *ssa.Parameter
	if helperCall != nil {
		h := helperCall.Call.StaticCallee()
		def, poss := successReturns(h)
		if len(def)+len(poss) == 0 {
			helperOK, helperWhy = false, "the marker-checking helper has no success return"
		}
		for _, r := range append(def, poss...) {
			okErr, okEq := syncFacts(factsAt(r.Block()), rf, func(v ssa.Value) bool {
				p, isP := v.(*ssa.Parameter)
				if isP && (wantParam == nil || wantParam == p) {
					wantParam = p
					return true
				}
				return false
			})
			if !okErr {
				helperOK, helperWhy = false, "the helper can succeed without a successful full read of the 16-byte marker"
			} else if !okEq {
				helperOK, helperWhy = false, "the helper can succeed without the 16 bytes read having been found equal to the marker it is given"
			}
		}
		if helperOK {
			okArg := false
			for i, prm := range h.Params {
				if prm == wantParam && i < len(helperCall.Call.Args) && isSync(helperCall.Call.Args[i]) {
					okArg = true
				}
			}
			if !okArg {
				helperOK, helperWhy = false, "the marker handed to the helper is not the header's Sync field"
			}
		}
	}
	for i, la := range s.outer.Latches {
		key := fmt.Sprintf("%s/block-loop-backedge#%d", fnKey(s.fn), i+1)
		okFull := sl.Low == nil && sl.High == nil
		var okErr, okEq bool
		if helperCall == nil {
			okErr, okEq = syncFacts(factsOnEdge(la, s.outer.Header), rf, isSync)
		} else {
			hErr := errValueOfCall(helperCall)
			for _, f := range factsOnEdge(la, s.outer.Header) {
				if cmp, ok := asCmp(f.Cond, f.Truth); ok && cmp.Op == token.EQL && (cmp.X == hErr && isNilConst(cmp.Y) || cmp.Y == hErr && isNilConst(cmp.X)) {
					okErr, okEq = true, true
				}
			}
		}
		switch {
		case !okFull:
			c.Bad(key, P.pos(rf.Pos()), "the sync marker is read into a sub-slice of the 16-byte buffer")
		case !okErr:
			c.Bad(key, P.pos(la.Instrs[len(la.Instrs)-1].Pos()), "the block loop can continue without a successful full read of the 16-byte marker")
		case !okEq:
			c.Bad(key, P.pos(la.Instrs[len(la.Instrs)-1].Pos()), "the block loop can continue without the equal edge of a comparison of the 16 bytes read with the header's Sync field")
		case !helperOK:
			c.Bad(key, P.pos(helperCall.Pos()), helperWhy)
		case nStores != 1:
			c.Bad(key, P.pos(s.fhAlloc.Pos()), "the header local is assigned more than once; the Sync compared may not be the header's")
		default:
			c.OK(key, P.pos(la.Instrs[len(la.Instrs)-1].Pos()), "back edge taken only on the success edge of io.ReadFull(r, sig[:]) and the equal edge of sig == fh.Sync; fh assigned once from the header reader")
		}
	}
	// header side: Sync filled by a full ReadFull before the header reader succeeds
	if s.headerFn != nil {
		key := fnKey(s.headerFn) + "/sync-filled"
		def, poss := successReturns(s.headerFn)
		ok := false
		for _, cs := range callsIn(s.headerFn) {
			if cs.Static == nil || qualName(cs.Static) != "io.ReadFull" || cs.Value() == nil {
				continue
			}
			if sl, isS := cs.Common.Args[1].(*ssa.Slice); isS && sl.Low == nil && sl.High == nil && strings.HasSuffix(accessPath(sl.X), "->Sync") {
				all := true
				for _, r := range append(def, poss...) {
					if _, isNil := knownNonNil(r.Block(), errValueOfCall(cs.Value())); !isNil {
						all = false
					}
				}
				ok = all
			}
		}
		c.Check(ok, key, "-", "the header's Sync field is filled by a successful io.ReadFull of all 16 bytes on every success path", "the header reader can succeed without having read the full sync marker")
	}
}

// ---------- CRC rules (OD-CRC for C07, CRC-BE for C02)

func snappyImpl(P *Program, iface *types.Named) (dec, enc *ssa.Function) {
	for _, impl := range implementations(P, iface) {
		d := P.Method(impl, "decompress")
		if d == nil {
			continue
		}
		for _, cs := range callsIn(d) {
			if cs.Static != nil && qualName(cs.Static) == "github.com/golang/snappy.Decode" {
				return d, P.Method(impl, "compress")
			}
		}
	}
	return nil, nil
}

func findStaticCall(fn *ssa.Function, q string) *ssa.Call {
	for _, cs := range callsIn(fn) {
		if cs.Static != nil && qualName(cs.Static) == q && cs.Value() != nil {
			return cs.Value()
		}
	}
	return nil
}

// lenMinus: v == len(base) - k ?
func isLenMinus(v ssa.Value, base ssa.Value, k int64) bool {
	bo, ok := v.(*ssa.BinOp)
	if !ok || bo.Op != token.SUB {
		return false
	}
	kk, ok := constInt(bo.Y)
	if !ok || kk != k {
		return false
	}
	call, ok := bo.X.(*ssa.Call)
	if !ok {
		return false
	}
	b, ok := call.Call.Value.(*ssa.Builtin)
	return ok && b.Name() == "len" && call.Call.Args[0] == base
}

func ruleCRCDecompress(c *Ctx, s *readFileShape, ruleID string) {
	c.Rule(ruleID, "a snappy block is accepted only on the equal edge of CRC-32(IEEE) of the decoded bytes against the big-endian last four bytes", 1)
	P := c.P
	if !c.Anchor(s.compIface != nil, "compression interface") {
		return
	}
	dec, _ := snappyImpl(P, s.compIface)
	if !c.Anchor(dec != nil, "snappy decompress (implementation calling snappy.Decode)") {
		return
	}
	key := fnKey(dec) + "/success"
	if probs, folded := crcDecompressByFold(P, dec); folded {
		if len(probs) > 0 {
			c.Bad(key, P.pos(dec.Pos()), strings.Join(probs, "; "))
		} else {
			c.OK(key, P.pos(dec.Pos()), "folded: on every accepting path Decode(compressed[:len-4]) succeeded, crc32.ChecksumIEEE of its result was found equal to BigEndian.Uint32(compressed[len-4:]), and that result is what is returned")
		}
		return
	}
	param := dec.Params[len(dec.Params)-1]
	D := findStaticCall(dec, "github.com/golang/snappy.Decode")
	U := findStaticCall(dec, "(encoding/binary.bigEndian).Uint32")
	K := findStaticCall(dec, "hash/crc32.ChecksumIEEE")
	if D == nil || U == nil || K == nil {
		c.Bad(key, P.pos(dec.Pos()), fmt.Sprintf("snappy decompress lacks one of snappy.Decode (%v), BigEndian.Uint32 (%v), crc32.ChecksumIEEE (%v)", D != nil, U != nil, K != nil))
		return
	}
	decoded := extractOf(D, 0)
	var problems []string
	if sl, ok := D.Call.Args[1].(*ssa.Slice); !ok || sl.X != param || sl.Low != nil || !isLenMinus(sl.High, param, 4) {
		problems = append(problems, "snappy.Decode is not applied to compressed[:len(compressed)-4]")
	}
	if sl, ok := U.Call.Args[len(U.Call.Args)-1].(*ssa.Slice); !ok || sl.X != param || sl.High != nil || !isLenMinus(sl.Low, param, 4) {
		problems = append(problems, "the expected checksum is not BigEndian.Uint32(compressed[len(compressed)-4:])")
	}
	if decoded == nil || !flowsFrom(K.Call.Args[0], decoded) {
		problems = append(problems, "crc32.ChecksumIEEE is not computed over the decoded bytes")
	}
	def, poss := successReturns(dec)
	if len(def)+len(poss) == 0 {
		problems = append(problems, "no success return")
	}
	for _, r := range append(def, poss...) {
		eq := false
		for _, cmp := range cmpFactsAt(r.Block()) {
			if cmp.Op == token.EQL && (cmp.X == K && cmp.Y == U || cmp.X == U && cmp.Y == K) {
				eq = true
			}
		}
		if !eq {
			problems = append(problems, "success return at "+P.pos(r.Pos())+" is not dominated by the equal edge of the checksum comparison")
		}
		if _, isNil := knownNonNil(r.Block(), errValueOfCall(D)); !isNil {
			problems = append(problems, "success return at "+P.pos(r.Pos())+" is not dominated by the success edge of snappy.Decode")
		}
		if decoded != nil && !flowsFrom(resolvedResults(r)[0], decoded) {
			problems = append(problems, "the bytes returned are not the decoded bytes that were checksummed")
		}
	}
	if len(problems) > 0 {
		c.Bad(key, P.pos(dec.Pos()), strings.Join(problems, "; "))
	} else {
		c.OK(key, P.pos(dec.Pos()), "Decode(compressed[:len-4]); crc32.ChecksumIEEE(decoded) == BigEndian.Uint32(compressed[len-4:]) dominates the only success return, which returns the decoded bytes")
	}
}

func ruleCRCCompress(c *Ctx, s *readFileShape) {
	c.Rule("CRC-BE", "the snappy writer appends the big-endian CRC-32 (IEEE) of the uncompressed block", 1)
	P := c.P
	if !c.Anchor(s.compIface != nil, "compression interface") {
		return
	}
	_, enc := snappyImpl(P, s.compIface)
	if !c.Anchor(enc != nil, "snappy compress") {
		return
	}
	key := fnKey(enc) + "/result"
	if probs, folded := crcCompressByFold(P, enc); folded {
		if len(probs) > 0 {
			c.Bad(key, P.pos(enc.Pos()), strings.Join(probs, "; "))
		} else {
			c.OK(key, P.pos(enc.Pos()), "folded: returns BigEndian.AppendUint32(snappy.Encode(_, uncompressed), crc32.ChecksumIEEE(uncompressed))")
		}
		return
	}
	param := enc.Params[len(enc.Params)-1]
	E := findStaticCall(enc, "github.com/golang/snappy.Encode")
	K := findStaticCall(enc, "hash/crc32.ChecksumIEEE")
	A := findStaticCall(enc, "(encoding/binary.bigEndian).AppendUint32")
	var problems []string
	if E == nil || K == nil || A == nil {
		c.Bad(key, P.pos(enc.Pos()), "snappy compress lacks one of snappy.Encode, crc32.ChecksumIEEE, BigEndian.AppendUint32")
		return
	}
	if E.Call.Args[1] != param {
		problems = append(problems, "snappy.Encode is not applied to the uncompressed parameter")
	}
	if K.Call.Args[0] != param {
		problems = append(problems, "the checksum is not computed over the uncompressed parameter")
	}
	if !flowsFrom(A.Call.Args[len(A.Call.Args)-2], E) {
		problems = append(problems, "the checksum is not appended to the snappy-encoded bytes")
	}
	if A.Call.Args[len(A.Call.Args)-1] != K {
		problems = append(problems, "the value appended is not the checksum")
	}
	for _, r := range returnsOf(enc) {
		if isNilConst(errOperand(r)) && !flowsFrom(resolvedResults(r)[0], A) {
			problems = append(problems, "the bytes returned are not the encoded bytes with the checksum appended")
		}
	}
	if len(problems) > 0 {
		c.Bad(key, P.pos(enc.Pos()), strings.Join(problems, "; "))
	} else {
		c.OK(key, P.pos(enc.Pos()), "returns BigEndian.AppendUint32(snappy.Encode(_, uncompressed), crc32.ChecksumIEEE(uncompressed))")
	}
}

// ---------- OD-LEN, OD-FLOW

func ruleODLenFlow(c *Ctx, s *readFileShape) {
	P := c.P
	c.Rule("OD-LEN", "the payload buffer handed to io.ReadFull has exactly the declared block length", 1)
	if rfDecide(c, "len") {
		c.Rule("OD-FLOW", "the bytes read are the bytes decompressed, the bytes decoded and the record delivered", 1)
		rfDecide(c, "flow")
		return
	}
	if !c.Anchor(s.payloadRF != nil && len(s.varints) >= 2, "payload ReadFull and the two block-header varints") {
		return
	}
	dataLen := extractOf(s.varints[1], 0)
	key := fnKey(s.fn) + "/payload-buffer"
	okAll := dataLen != nil
	var why []string
	var lenIs func(v ssa.Value, want func(ssa.Value) bool, depth int)
	lenIs = func(v ssa.Value, want func(ssa.Value) bool, depth int) {
		for _, src := range phiSources(v) {
			switch x := src.(type) {
			case *ssa.MakeSlice:
				if !want(stripConv(x.Len)) {
					okAll = false
					why = append(why, "make with a length other than the declared one")
				}
			case *ssa.Slice:
				if x.Low != nil || x.High == nil || !want(stripConv(x.High)) {
					okAll = false
					why = append(why, "re-slice to a length other than the declared one")
				}
			case *ssa.Call:
				// a sizing helper: every slice it returns must have the length it is given
				h := x.Call.StaticCallee()
				if h == nil || !P.isModuleFunc(h) || h.Blocks == nil || depth > 1 || h.Signature.Results().Len() != 1 {
					okAll = false
					why = append(why, "buffer from "+src.String())
					continue
				}
				var lenParam *ssa.Parameter
				for i, prm := range h.Params {
					if i < len(x.Call.Args) && want(stripConv(x.Call.Args[i])) {
						lenParam = prm
					}
				}
				if lenParam == nil {
					okAll = false
					why = append(why, "the sizing helper "+h.Name()+" is not given the declared length")
					continue
				}
				for _, r := range returnsOf(h) {
					lenIs(resolvedResults(r)[0], func(v ssa.Value) bool { return v == ssa.Value(lenParam) }, depth+1)
				}
			default:
				okAll = false
				why = append(why, "buffer from "+src.String())
			}
		}
	}
	lenIs(s.payloadRF.Call.Args[1], func(v ssa.Value) bool { return v == ssa.Value(dataLen) }, 0)
	c.Check(okAll, key, P.pos(s.payloadRF.Pos()), "every buffer reaching io.ReadFull is make([]byte, dataLength) or buf[:dataLength] of the second varint of the block header", strings.Join(why, "; "))

	c.Rule("OD-FLOW", "the bytes read are the bytes decompressed, the bytes decoded and the record delivered", 4)
	if !c.Anchor(s.decompress != nil && s.reset != nil && s.codecRead != nil && s.cbCall != nil, "decompress, ReadBuf.Reset, codec.Read and callback calls") {
		return
	}
	c.Check(s.decompress.Call.Args[0] == s.payloadRF.Call.Args[1], fnKey(s.fn)+"/decompress-arg", P.pos(s.decompress.Pos()), "decompress receives the buffer io.ReadFull filled", "decompress is applied to a different buffer than the one read")
	un := extractOf(s.decompress, 0)
	c.Check(un != nil && len(s.reset.Call.Args) == 2 && s.reset.Call.Args[1] == un && dominatesInstr(s.reset, s.codecRead), fnKey(s.fn)+"/reset-arg", P.pos(s.reset.Pos()), "the read buffer is reset to the decompressed bytes before records are decoded", "the read buffer is not reset to the decompressor's result before decoding")
	c.Check(s.codecRead.Call.Args[0] == s.reset.Call.Args[0], fnKey(s.fn)+"/codec-read-buf", P.pos(s.codecRead.Pos()), "codec.Read consumes the buffer that was reset", "codec.Read consumes a different buffer")
	c.Check(s.cbCall.Call.Args[0] == s.codecRead.Call.Args[1], fnKey(s.fn)+"/callback-arg", P.pos(s.cbCall.Pos()), "the callback receives the pointer codec.Read decoded into", "the callback receives a different pointer than the one decoded into")
}

// ---------- ER-PASS

func ruleERPass(c *Ctx, s *readFileShape) {
	c.Rule("ER-PASS", "an error returned by the callback stops reading and is returned unchanged", 1)
	if rfDecide(c, "errpass") {
		return
	}
	P := c.P
	if !c.Anchor(s.cbCall != nil, "callback call in ReadFile") {
		return
	}
	key := fnKey(s.fn) + "/callback-error"
	for _, u := range analyseErrUses(s.fn) {
		if u.Site.Instr != ssa.CallInstruction(s.cbCall) {
			continue
		}
		if u.Discarded || len(u.Problems) > 0 || (!u.Inspected && !u.DirectReturn) {
			c.Bad(key, P.pos(s.cbCall.Pos()), "the callback's error is not inspected")
			return
		}
		for _, rg := range u.Regions {
			if len(rg.Escapes) > 0 {
				c.Bad(key, P.pos(s.cbCall.Pos()), "reading continues after the callback returned an error")
				return
			}
			for _, r := range rg.Returns {
				if errOperand(r) != u.Err {
					c.Bad(key, P.pos(r.Pos()), "the error returned after the callback fails is not the callback's own error value")
					return
				}
			}
			for b := range rg.Blocks {
				for _, in := range b.Instrs {
					if _, ok := in.(ssa.CallInstruction); ok {
						c.Bad(key, P.pos(in.Pos()), "a call is made between the callback's failure and the return")
						return
					}
				}
			}
		}
		c.OK(key, P.pos(s.cbCall.Pos()), "the non-nil edge returns the same SSA value the callback returned, with no intervening call")
		return
	}
	c.Unk(key, "-", "callback call not found among error uses")
}

// ---------- OD-LOOP

func ruleODLoop(c *Ctx, s *readFileShape) {
	c.Rule("OD-LOOP", "each block delivers exactly its declared number of records: one decode and one callback per iteration of a loop over the block's count", 3)
	if rfDecide(c, "loop", "count") {
		return
	}
	P := c.P
	if !c.Anchor(s.codecRead != nil && s.cbCall != nil && len(s.varints) >= 1, "record decode, callback and block count in ReadFile") {
		return
	}
	key := fnKey(s.fn) + "/record-loop"
	if s.records == nil {
		c.Unk(key, P.pos(s.codecRead.Pos()), "the record loop is not one of the recognised counted-loop shapes (0..count-1 ascending, count..1 descending)")
		return
	}
	count := extractOf(s.varints[0], 0)
	tc := s.records.TripCount()
	c.Check(tc != nil && count != nil && stripConv(tc) == count, key+"/bound", P.pos(s.records.Header.Instrs[0].Pos()),
		"the loop runs max(count,0) times where count is the first varint of the block header",
		"the record loop's trip count is not the block's declared record count")
	c.Check(oncePerIteration(s.fn, s.records.Loop, s.codecRead), key+"/decode-once", P.pos(s.codecRead.Pos()), "codec.Read executes exactly once per iteration", "codec.Read does not execute exactly once per iteration")
	c.Check(oncePerIteration(s.fn, s.records.Loop, s.cbCall), key+"/deliver-once", P.pos(s.cbCall.Pos()), "the callback executes exactly once per iteration", "the callback does not execute exactly once per iteration")
	// the record loop is inside the block loop and the count varint is read once per block
	if s.outer != nil {
		c.Check(s.outer.Blocks[s.records.Header] && oncePerIteration(s.fn, s.outer, s.varints[0]), key+"/per-block", P.pos(s.varints[0].Pos()), "the count is read once per block and the record loop runs inside that block's iteration", "the record loop is not nested in the block loop with one count per block")
	}
}

// ---------- OD-EOF, OD-READFULL, OD-DELIVER (C08)

func ruleODEOF(c *Ctx, s *readFileShape) {
	c.Rule("OD-EOF", "ReadFile reports success only when the input ends exactly where a block would start", 2)
	if rfDecide(c, "eof") {
		return
	}
	P := c.P
	if !c.Anchor(s.fn != nil && len(s.varints) >= 1 && s.outer != nil, "block loop of ReadFile") {
		return
	}
	first := s.varints[0]
	firstErr := errValueOfCall(first)
	// first consumer in the iteration: dominates every other consuming call in the loop
	isFirst := true
	for _, cs := range callsIn(s.fn) {
		if cs.Value() == nil || cs.Value() == first || !s.outer.Blocks[cs.Block] {
			continue
		}
		if cs.Static != nil {
			q := qualName(cs.Static)
			if q == "io.ReadFull" || q == "encoding/binary.ReadVarint" {
				if !dominatesInstr(first, cs.Value()) {
					isFirst = false
				}
			}
		}
	}
	// and nothing consumes between loop entry and it: it must be in the header block or its block is reached from the header without other consumers (dominance above covers other consumers).
	n := 0
	for i, r := range returnsOf(s.fn) {
		ev := errOperand(r)
		key := fmt.Sprintf("%s/return#%d", fnKey(s.fn), i+1)
		switch {
		case isNilConst(ev):
			n++
			ok := firstErr != nil && eofGuard(r.Block(), firstErr) && isFirst
			c.Check(ok, key, P.pos(r.Pos()), "the nil return is dominated by the true edge of errors.Is(err, io.EOF) on the error of the first read of a block iteration (binary.ReadVarint yields io.EOF only when no byte was read)",
				"a nil return that is not guarded by io.EOF on the first read of a block iteration: a truncated file could be reported as success")
		case isFreshError(ev):
			c.OKTrivial(key, P.pos(r.Pos()), "returns a freshly constructed error")
		default:
			if nn, _ := knownNonNil(r.Block(), ev); nn {
				c.OK(key, P.pos(r.Pos()), "returns a value known non-nil on this path")
			} else {
				c.Unk(key, P.pos(r.Pos()), "cannot show this return yields a non-nil error: "+ev.String())
			}
		}
	}
	c.Check(n >= 1, fnKey(s.fn)+"/has-success", "-", "ReadFile has a success return", "ReadFile has no success return")
}

func ruleODReadFull(c *Ctx, s *readFileShape) {
	c.Rule("OD-READFULL", "the input is consumed only through io.ReadFull and binary.ReadVarint (complete reads or an error)", 10)
	P := c.P
	if !c.Anchor(s.fn != nil && s.rParam != nil, "Reader parameter of ReadFile") {
		return
	}
	seen := map[ssa.Value]bool{}
	seenField := map[string]bool{}
	var visit func(fn *ssa.Function, r ssa.Value)
	visit = func(fn *ssa.Function, r ssa.Value) {
		if seen[r] {
			return
		}
		seen[r] = true
		keys := callKeys(fn)
		var walk func(v ssa.Value)
		walk = func(v ssa.Value) {
			for _, ref := range referrersOf(v) {
				switch x := ref.(type) {
				case *ssa.ChangeInterface:
					walk(x)
				case *ssa.MakeInterface:
					walk(x)
				case *ssa.Phi:
					c.Unk(fnKey(fn)+"/reader-phi", P.pos(x.Pos()), "the reader flows through a phi")
				case ssa.CallInstruction:
					cc := x.Common()
					key := keys[x]
					if cc.IsInvoke() && cc.Value == v {
						c.Bad(key, P.pos(x.Pos()), fmt.Sprintf("the reader's %s method is called directly: a short read would go unnoticed", cc.Method.Name()))
						continue
					}
					callee := cc.StaticCallee()
					if callee == nil {
						c.Bad(key, P.pos(x.Pos()), "the reader is passed to a dynamic call")
						continue
					}
					q := qualName(callee)
					if q == "io.ReadFull" || q == "encoding/binary.ReadVarint" {
						c.OK(key, P.pos(x.Pos()), "consumed through "+q)
						continue
					}
					if P.isModuleFunc(callee) {
						for i, a := range cc.Args {
							if a == v && i < len(callee.Params) {
								c.OKTrivial(key, P.pos(x.Pos()), "reader handed to module function "+fnKey(callee)+", analysed in turn")
								visit(callee, callee.Params[i])
							}
						}
						continue
					}
					c.Bad(key, P.pos(x.Pos()), fmt.Sprintf("the reader is consumed through %s, which may return fewer bytes than requested without an error", q))
				case *ssa.Store:
					// the reader kept in a field of one of the module's own structs: followed to every load of that field
					fa, isFA := x.Addr.(*ssa.FieldAddr)
					if !isFA || x.Val != v || !P0isModule(pkgPathOf(derefType(fa.X.Type()))) {
						c.Unk(fnKey(fn)+"/reader-use", P.pos(ref.Pos()), fmt.Sprintf("unrecognised use of the reader: %s", ref.String()))
						continue
					}
					fk := typeKey(derefType(fa.X.Type())) + "." + fieldName(fa.X.Type(), fa.Field)
					if seenField[fk] {
						continue
					}
					seenField[fk] = true
					c.OKTrivial(fnKey(fn)+"/reader-kept:"+fk, P.pos(ref.Pos()), "the reader is kept in "+fk+"; every load of that field is analysed in turn")
					for _, g := range P.ModuleFuncs() {
						for _, b := range g.Blocks {
							for _, in := range b.Instrs {
								fa2, ok := in.(*ssa.FieldAddr)
								if !ok || typeKey(derefType(fa2.X.Type()))+"."+fieldName(fa2.X.Type(), fa2.Field) != fk {
									continue
								}
								for _, r2 := range referrersOf(fa2) {
									if ld, isLd := r2.(*ssa.UnOp); isLd && ld.Op == token.MUL {
										visit(g, ld)
									}
								}
							}
						}
					}
				case *ssa.DebugRef:
				default:
					c.Unk(fnKey(fn)+"/reader-use", P.pos(ref.Pos()), fmt.Sprintf("unrecognised use of the reader: %s", ref.String()))
				}
			}
		}
		walk(r)
	}
	visit(s.fn, s.rParam)
}

func ruleODDeliver(c *Ctx, s *readFileShape) {
	c.Rule("OD-DELIVER", "a record is delivered only after its block's payload was read in full, decompressed and the record decoded without error", 3)
	if rfDecide(c, "deliver") {
		return
	}
	P := c.P
	if !c.Anchor(s.cbCall != nil && s.payloadRF != nil && s.decompress != nil && s.codecRead != nil, "callback, payload read, decompress, decode") {
		return
	}
	for _, it := range []struct {
		name string
		call *ssa.Call
	}{{"payload-read", s.payloadRF}, {"decompress", s.decompress}, {"decode", s.codecRead}} {
		e := errValueOfCall(it.call)
		_, isNil := false, false
		if e != nil {
			_, isNil = knownNonNil(s.cbCall.Block(), e)
		}
		c.Check(isNil && dominatesInstr(it.call, s.cbCall), fnKey(s.fn)+"/deliver-after-"+it.name, P.pos(s.cbCall.Pos()),
			"the callback is dominated by the success edge of the "+it.name+" step",
			"the callback can run without the "+it.name+" step having succeeded")
	}
	if s.records != nil {
		c.Check(s.records.Blocks[s.codecRead.Block()] && s.records.Blocks[s.cbCall.Block()], fnKey(s.fn)+"/deliver-same-iteration", P.pos(s.cbCall.Pos()), "decode and delivery happen in the same iteration", "decode and delivery are not in the same loop iteration")
	}
}

// ---------- OD-CLEAR (C01), OD-BANK (C10)

func ruleODClear(c *Ctx, s *readFileShape) {
	c.Rule("OD-CLEAR", "the target is zeroed with its own type before each record is decoded into it", 1)
	if rfDecide(c, "clear") {
		return
	}
	P := c.P
	if !c.Anchor(s.codecRead != nil, "codec.Read in ReadFile") {
		return
	}
	key := fnKey(s.fn) + "/clear-before-decode"
	if s.memclr == nil {
		c.Bad(key, P.pos(s.codecRead.Pos()), "no typedmemclr of the target precedes codec.Read: a record would inherit field values from the previous one")
		return
	}
	if okc, why := typedClear(P, s.memclr.Call.StaticCallee(), 0); !okc {
		c.Unk(key, P.pos(s.memclr.Pos()), "the record target is cleared by something that is not known to clear all of it: "+why)
		return
	}
	ok := dominatesInstr(s.memclr, s.codecRead) && s.memclr.Call.Args[1] == s.codecRead.Call.Args[1]
	if s.records != nil {
		ok = ok && s.records.Blocks[s.memclr.Block()] && oncePerIteration(s.fn, s.records.Loop, s.memclr)
	}
	c.Check(ok, key, P.pos(s.memclr.Pos()), "typedmemclr(rtyp, p) on the same p dominates codec.Read inside the record loop, once per iteration", "typedmemclr does not clear the decoded pointer once per record before codec.Read")
}

func ruleODBank(c *Ctx, s *readFileShape) {
	c.Rule("OD-BANK", "every callback receives a resource bank of its own, extracted in the same iteration; extraction installs a fresh bank", 2)
	if rfDecide(c, "bank") {
		return
	}
	P := c.P
	if !c.Anchor(s.cbCall != nil, "callback call") {
		return
	}
	key := fnKey(s.fn) + "/bank-per-record"
	bank, _ := s.cbCall.Call.Args[1].(*ssa.Call)
	ok := bank != nil && bank == s.extractBank && s.records != nil && s.records.Blocks[bank.Block()] && oncePerIteration(s.fn, s.records.Loop, bank) &&
		s.codecRead != nil && len(bank.Call.Args) == 1 && bank.Call.Args[0] == s.codecRead.Call.Args[0] && dominatesInstr(s.codecRead, bank)
	c.Check(ok, key, P.pos(s.cbCall.Pos()), "the bank argument is the result of ExtractResourceBank() on the decoding buffer, called once per iteration after the decode", "the callback's bank is not extracted from the decoding buffer once per record after the decode")
	// ExtractResourceBank: returns old d.rb, stores newResourceBank() to d.rb
	rbT := P.NamedType(P.Avro, "ReadBuf")
	ex := P.Method(rbT, "ExtractResourceBank")
	if !c.Anchor(ex != nil, "(*ReadBuf).ExtractResourceBank") {
		return
	}
	key2 := fnKey(ex) + "/fresh-bank"
	if probs, ok := extractByFold(P, ex); ok {
		c.Check(len(probs) == 0, key2, P.pos(ex.Pos()), "ExtractResourceBank folded on a reader holding bank B0: it returns B0, and the reader then holds a bank that is not B0 — what the pool's Get handed back, or a new one", "ExtractResourceBank does not hand out the old bank and install a fresh one: "+strings.Join(probs, "; "))
		return
	}
	var load *ssa.UnOp
	var store *ssa.Store
	for _, b := range ex.Blocks {
		for _, in := range b.Instrs {
			if u, ok := in.(*ssa.UnOp); ok && u.Op == token.MUL && strings.HasSuffix(accessPath(u.X), "->"+resourceRoles(P).rb) && load == nil {
				load = u
			}
			if st, ok := in.(*ssa.Store); ok && strings.HasSuffix(accessPath(st.Addr), "->"+resourceRoles(P).rb) {
				store = st
			}
		}
	}
	good := load != nil && store != nil && dominatesInstr(load, store)
	if good {
		call, isCall := store.Val.(*ssa.Call)
		good = isCall && call.Call.StaticCallee() != nil && isBankSource(P, call.Call.StaticCallee())
		rs := returnsOf(ex)
		good = good && len(rs) == 1 && resolvedResults(rs[0])[0] == load
	}
	c.Check(good, key2, P.pos(ex.Pos()), "returns the bank loaded before a fresh bank (from the pool) is stored in its place", "ExtractResourceBank does not hand out the old bank and install a fresh one")
}

// isBankSource: fn returns a *ResourceBank obtained from the pool's Get or a new allocation.
func isBankSource(P *Program, fn *ssa.Function) bool {
	if !P.isModuleFunc(fn) {
		return false
	}
	for _, r := range returnsOf(fn) {
		if len(r.Results) != 1 {
			return false
		}
		v := resolvedResults(r)[0]
		switch x := v.(type) {
		case *ssa.TypeAssert:
			call, ok := x.X.(*ssa.Call)
			if !ok || call.Call.StaticCallee() == nil || qualName(call.Call.StaticCallee()) != "(*sync.Pool).Get" {
				return false
			}
		case *ssa.Alloc:
		default:
			return false
		}
	}
	return true
}

// ---------- CP-FRESH (C02, C09, C07)

// ruleCPFresh: a stateful compressor keeps an output buffer between calls. The
// bytes a call returns must be that call's output alone: the buffer is emptied
// (Reset) on every path before anything is written into it, in compress and
// in decompress alike. (A buffer that is not emptied makes block N carry the
// streams of blocks 1..N, under block N's count and an accumulated length.)
func ruleCPFresh(c *Ctx, s *readFileShape) {
	c.Rule("CP-FRESH", "a compressor's reusable output buffer is emptied on every path before the call's output is written into it, so what is returned is this call's output and nothing else", 2)
	P := c.P
	if !c.Anchor(s.compIface != nil, "compression interface") {
		return
	}
	for _, impl := range implementations(P, s.compIface) {
		for _, mname := range []string{"compress", "decompress"} {
			m := P.Method(impl, mname)
			if m == nil || m.Blocks == nil {
				continue
			}
			// the buffer whose bytes are returned
			for _, r := range returnsOf(m) {
				res := resolvedResults(r)
				if isNilConst(res[0]) {
					continue
				}
				call, ok := res[0].(*ssa.Call)
				if !ok || call.Call.StaticCallee() == nil || qualName(call.Call.StaticCallee()) != "(*bytes.Buffer).Bytes" {
					continue
				}
				bufPath := accessPath(call.Call.Args[0])
				key := fmt.Sprintf("%s/output-buffer-emptied", fnKey(m))
				var resets []*ssa.Call
				var writers []ssa.Instruction
				for _, cs := range callsIn(m) {
					if cs.Static == nil {
						continue
					}
					q := qualName(cs.Static)
					switch {
					case q == "(*bytes.Buffer).Reset" && accessPath(cs.Common.Args[0]) == bufPath && cs.Value() != nil:
						resets = append(resets, cs.Value())
					case strings.HasPrefix(q, "(*bytes.Buffer).") && strings.Contains(q, "Read") && accessPath(cs.Common.Args[0]) == bufPath, strings.HasPrefix(q, "(*bytes.Buffer).Write") && accessPath(cs.Common.Args[0]) == bufPath:
						writers = append(writers, cs.Instr)
					case q == "(*compress/flate.Writer).Write" || q == "(*compress/flate.Writer).Close" || q == "(*compress/flate.Writer).Flush":
						writers = append(writers, cs.Instr)
					case P.isModuleFunc(cs.Static) && cs.Value() != nil && len(m.Params) > 0 && len(cs.Common.Args) > 0 && cs.Common.Args[0] == ssa.Value(m.Params[0]) && emptiesBufferOnEveryPath(cs.Static, bufPath, m.Params[0].Name()):
						// a helper on the same receiver that empties the buffer whatever path it takes
						resets = append(resets, cs.Value())
					}
				}
				ok2 := false
				for _, rs := range resets {
					all := dominatesInstr(rs, r)
					for _, w := range writers {
						if !dominatesInstr(rs, w) {
							all = false
						}
					}
					if all {
						ok2 = true
					}
				}
				c.Check(ok2, key, P.pos(m.Pos()), "Reset of the output buffer dominates every write into it and the return of its bytes", "the compressor's output buffer is not emptied on every path before this call writes into it: from the second call on, what is returned starts with the output of earlier calls")
				break
			}
		}
	}
}

// emptiesBufferOnEveryPath: h, a method on the same receiver, calls
// (*bytes.Buffer).Reset on the buffer at bufPath (spelled with the caller's
// receiver name) in a block that dominates all its returns, and nothing in h
// writes into that buffer before.
func emptiesBufferOnEveryPath(h *ssa.Function, bufPath, callerRecv string) bool {
	if h.Blocks == nil || len(h.Params) == 0 {
		return false
	}
	tr := func(p string) string {
		name := h.Params[0].Name()
		if strings.HasPrefix(p, name+"->") {
			return callerRecv + p[len(name):]
		}
		return p
	}
	var reset *ssa.Call
	var writers []ssa.Instruction
	for _, cs := range callsIn(h) {
		if cs.Static == nil || len(cs.Common.Args) == 0 {
			continue
		}
		q := qualName(cs.Static)
		if !strings.HasPrefix(q, "(*bytes.Buffer).") || tr(accessPath(cs.Common.Args[0])) != bufPath {
			continue
		}
		switch {
		case q == "(*bytes.Buffer).Reset" && cs.Value() != nil:
			reset = cs.Value()
		case strings.Contains(q, "Read") || strings.Contains(q, "Write"):
			writers = append(writers, cs.Instr)
		}
	}
	if reset == nil {
		return false
	}
	for _, r := range returnsOf(h) {
		if !dominatesInstr(reset, r) {
			return false
		}
	}
	for _, w := range writers {
		if !dominatesInstr(reset, w) {
			return false
		}
	}
	return true
}

// extractByFold: ExtractResourceBank folded (E-CP) on a reader whose bank is a known cell B0.
func extractByFold(P *Program, ex *ssa.Function) (problems []string, ok bool) {
	R := resourceRoles(P)
	rdN := P.NamedType(P.Avro, "ReadBuf")
	rbN := P.NamedType(P.Avro, "ResourceBank")
	if !R.ok || rdN == nil || rbN == nil || ex == nil || len(ex.Params) != 1 {
		return nil, false
	}
	e := &cpEngine{P: P, MaxOut: 16, MaxSteps: 20000, MaxForks: cpMaxForks, MaxDepth: 8, visited: map[*ssa.Function]bool{}}
	e.globals = cpInitGlobals(P)
	e.pending = [][]bool{nil}
	n := 0
	for len(e.pending) > 0 {
		d := e.pending[len(e.pending)-1]
		e.pending = e.pending[:len(e.pending)-1]
		e.decisions, e.taken, e.steps, e.calls, e.uid, e.decided = d, nil, 0, nil, 0, map[string]bool{}
		b0 := &cpCell{V: cpStructOf(types.Type(rbN), map[string]cpVal{}), T: types.Type(rbN)}
		rd := cpPtrTo(cpStructOf(types.Type(rdN), map[string]cpVal{R.rb: cpPtr{C: b0}}), types.Type(rdN))
		var res []cpVal
		aborted := ""
		func() {
			defer func() {
				if x := recover(); x != nil {
					if a, isA := x.(cpAbort); isA {
						aborted = a.why
						return
					}
					panic(x)
				}
			}()
			res = e.call(ex, []cpVal{rd}, 0)
		}()
		if aborted != "" {
			return nil, false
		}
		n++
		if len(res) != 1 {
			return nil, false
		}
		if p, isP := res[0].(cpPtr); !isP || p.C != b0 {
			problems = append(problems, "the bank returned is not the one the reader held")
		}
		now, _ := cpFieldByName(rd.C.V, R.rb)
		switch x := now.(type) {
		case cpPtr:
			if x.C == b0 {
				problems = append(problems, "the reader still holds the bank it has just handed out")
			}
		case cpUnk:
			// what came out of the pool (a type-asserted result of Get): fine
			if !strings.Contains(x.ID, "assert") && !strings.Contains(x.ID, "call") {
				problems = append(problems, "the reader's bank after the call is not a freshly obtained one")
			}
		case nil, cpNil:
			problems = append(problems, "the reader is left without a bank")
		default:
			problems = append(problems, "the reader's bank after the call is not a freshly obtained one")
		}
	}
	return dedup(problems), n > 0
}
