package main

// Identity of "the typed clear": AL-CLR and OD-CLEAR demand that a slot, or the
// record target, is cleared *with its own type* before it is used again. The
// thing that does that is the runtime's typedmemclr, pulled in by a
// //go:linkname directive. A module function of that name with a body of its
// own is not the runtime's: it is accepted only when every path through it
// hands its (type, pointer) parameters on to the runtime's, unchanged; any
// other body (clearing "the words", skipping pointer-free types, ...) has to be
// shown to clear every byte of the value, which this rule does not attempt —
// it says undecided.

import (
	"strings"

	"golang.org/x/tools/go/ssa"
)

// linkTargetOf: the //go:linkname target of a body-less module function ("" if none).
func linkTargetOf(P *Program, fn *ssa.Function) string {
	if fn == nil || fn.Blocks != nil || fn.Pkg == nil {
		return ""
	}
	for _, p := range P.Pkgs {
		if p.Types != fn.Pkg.Pkg {
			continue
		}
		for _, d := range linknamesIn(p) {
			if d.Local == fn.Name() {
				return d.Target
			}
		}
	}
	return ""
}

// typedClear reports whether a call of fn(typ, ptr) clears the whole value at
// ptr as a value of the type: ok, or why it cannot be said.
func typedClear(P *Program, fn *ssa.Function, depth int) (ok bool, why string) {
	if fn == nil {
		return false, "no static callee"
	}
	if fn.Blocks == nil {
		t := linkTargetOf(P, fn)
		if t == "reflect.typedmemclr" || t == "runtime.typedmemclr" {
			return true, ""
		}
		return false, "body-less function " + fn.Name() + " is linked to " + t + ", not to the runtime's typedmemclr"
	}
	if depth > 2 || len(fn.Params) != 2 {
		return false, fn.Name() + " has a body of its own that is not a plain forwarding of (type, pointer) to the runtime's typedmemclr"
	}
	// every return must be dominated by a forwarding call
	var fw []*ssa.Call
	for _, cs := range callsIn(fn) {
		call := cs.Value()
		if call == nil || cs.Static == nil || len(cs.Common.Args) != 2 {
			continue
		}
		if cs.Common.Args[0] != ssa.Value(fn.Params[0]) || cs.Common.Args[1] != ssa.Value(fn.Params[1]) {
			continue
		}
		if ok, _ := typedClear(P, cs.Static, depth+1); ok {
			fw = append(fw, call)
		}
	}
	rets := returnsOf(fn)
	if len(rets) == 0 {
		return false, fn.Name() + " never returns"
	}
	for _, r := range rets {
		dom := false
		for _, f := range fw {
			if dominatesInstr(f, r) {
				dom = true
			}
		}
		if !dom {
			return false, fn.Name() + " has a body of its own: on some path the value is not handed to the runtime's typedmemclr (a hand-written clear must be shown to cover every byte of every type, which is not attempted)"
		}
	}
	return true, ""
}

// isTypedClearCall: the call is named like the module's typed clear (used to find the candidate; the
// verdict on what it does is typedClear's).
func isTypedClearCandidate(fn *ssa.Function) bool {
	return fn != nil && strings.HasPrefix(fn.Name(), "typedmemclr")
}
