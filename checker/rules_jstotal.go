package main

// JS-TOTAL (C14): serialising a schema refuses nothing. "Serialising a schema
// yields valid JSON that parses back to an identical schema" is stated for
// every schema value produced by parsing or by generation, so the hand-written
// MarshalJSONTo may fail only by passing on an error of the JSON encoder: an
// error it makes up itself is a schema the parser accepted (or the generator
// produced) that cannot be written out again.

import (
	"fmt"
	"strings"

	"golang.org/x/tools/go/ssa"
)

func ruleJSTotal(c *Ctx) {
	c.Rule("JS-TOTAL", "serialising a schema fails only when the JSON encoder fails: the marshaller constructs no error of its own", 1)
	P := c.P
	schemaT := P.NamedType(P.Avro, "Schema")
	var root *ssa.Function
	if schemaT != nil {
		root = P.Method(schemaT, "MarshalJSONTo")
	}
	if !c.Anchor(root != nil && root.Blocks != nil, "(*avro.Schema).MarshalJSONTo") {
		return
	}
	scope := []*ssa.Function{root}
	seen := map[*ssa.Function]bool{root: true}
	for i := 0; i < len(scope) && i < 32; i++ {
		for _, cs := range callsIn(scope[i]) {
			g := cs.Static
			if g == nil || !P.isModuleFunc(g) || g.Blocks == nil || seen[g] {
				continue
			}
			for _, a := range cs.Common.Args {
				if isJSONEncoderPtr(a.Type()) {
					seen[g] = true
					scope = append(scope, g)
					break
				}
			}
		}
	}
	for _, fn := range scope {
		key := fnKey(fn) + "/no-error-of-its-own"
		pos := P.pos(fn.Pos())
		var bad []string
		n := 0
		for _, r := range returnsOf(fn) {
			ev := errOperand(r)
			if ev == nil || isNilConst(ev) {
				continue
			}
			for _, s := range phiSources(ev) {
				if isNilConst(s) {
					continue
				}
				n++
				if ownError(s) {
					where := r.Pos()
					if in, ok := stripChange(s).(ssa.Instruction); ok && in.Pos().IsValid() {
						where = in.Pos()
					}
					bad = append(bad, fmt.Sprintf("an error of the marshaller's own making is returned at %s", P.pos(where)))
				}
			}
		}
		if len(bad) > 0 {
			c.Bad(key, pos, strings.Join(dedup(bad), "; ")+": a schema value that was parsed or generated cannot be serialised")
		} else {
			c.OK(key, pos, fmt.Sprintf("%d error returns, each passing on (or wrapping) an error of a JSON encoder call", n))
		}
	}
}
