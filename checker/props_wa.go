package main

import (
	"fmt"
	"strings"
)

func init() {
	register("C04",
		"Decides 'skipping a value consumes exactly the bytes decoding it would' at the level of wire-token languages, for all 27 codec types at once: the automaton extracted from Skip accepts exactly the token sequences the automaton of Read accepts (WA-RS), size-prefixed blocks are handled as the specification lays them out (WA-NEG), Skip accepts every framing of the specification including the byte-size fast path (WA-SPEC-S), New/Omit consume nothing (WA-NEWPURE), and the record reader skips exactly the fields the builder marked absent, with the very sentinel it tests, decoding all others at their own offset (BT-SENTINEL).  A record field is bound to the offset and type of the struct field of that name in the target type itself, so adding or permuting target fields cannot move another field's store (BT-REC, SG-NAMES).  Fields of the target that the file does not carry keep the zero value of a freshly cleared slot (AL-CLR, AL-CLOSE, AL-BUMP).  The record reader is folded for five target shapes — some, none, only the first, only the last, only a middle schema field present — and must visit every entry once, in order, skipping exactly the absent ones (BT-SENTINEL, REC-LIST).  Skip refuses input of its own accord only on a test of a decoded value that Read makes too, and a test of the input left refuses only for lack of the bytes about to be consumed (SK-FAIL).  What the library itself writes for an array or a map is a count followed by that many items, never a byte size that Skip would trust in place of the items (WA-CNT). "+
			"Not decided: that projected and full decodes agree on values; feasibility of individual paths (the comparison is between regular languages of tokens).",
		func(c *Ctx) {
			ruleWARS(c)
			ruleWANeg(c)
			ruleWASpec(c, "S")
			ruleWANewPure(c)
			ruleBTSentinel(c)
			ruleRecList(c)
			ruleBTPure(c)
			ruleBTRec(c)
			ruleWALenCnt(c)
			ruleSGNames(c)
			ruleALBump(c)
			ruleBTWidth(c, true)
			ruleSKFail(c)
			ruleSelFold(c)
		})

	register("C03",
		"Decides framing-level necessary conditions of C03: every framing the Avro 1.8 specification allows for a schema type — any number of array/map blocks, with or without byte sizes, selector then branch with null in either position — is accepted by the Read and the Skip automaton of every codec built for that type (WA-SPEC-R, WA-SPEC-S, WA-NEG); the nullable-union codecs take the value branch's index from the schema and compare the decoded selector with it (BT-NONNULL); integer destinations are written only within their exact range (RC-RANGE) and every (schema type, Go kind) pair is width-exact or rejected (BT-WIDTH); reader and writer agree on the three compression codec names (CT-AGREE); each file block decodes exactly its declared count (OD-LOOP), and reading stops with success only where the input ends at a block boundary, so no block of any record count ends the file early (OD-EOF).  The file reader zeroes the destination with its own type before every record, so a null branch leaves the zero value and not the previous record (OD-CLEAR).  No Read or Skip refuses on a presumption about how much input a value needs (SK-FAIL), and no decoded value is a view of the block buffer that the next block overwrites (AL-BUF).  A record field is stored at the offset and with the type of the target struct's own field of that name — taken from typ.Field(i) of the target type, names matched exactly — and the record reader visits every schema field once, in order (BT-REC, SG-NAMES, REC-LIST, BT-SENTINEL). "+
			"Not decided: decoded values.",
		func(c *Ctx) {
			ruleWASpec(c, "RS")
			ruleWANeg(c)
			ruleVarRd(c)
			ruleRCVarint(c)
			ruleUVFold(c)
			ruleBTNonNull(c)
			ruleRCRange(c)
			ruleBTWidth(c, true)
			s := findReadFile(c.P)
			ruleCTAgree(c, s)
			ruleODLoop(c, s)
			ruleODEOF(c, s)
			ruleDstFresh(c)
			ruleALStr(c)
			ruleODClear(c, s)
			ruleODMeta(c, s)
			ruleCPDrain(c, s)
			ruleSKFail(c)
			ruleALBuf(c)
			ruleALBump(c)
			ruleCDPure(c)
			ruleSelFold(c)
			ruleODAccept(c, s)
			ruleFLTotal(c)
			ruleBTRec(c)
			ruleSGNames(c)
			ruleRecList(c)
			ruleBTSentinel(c)
			ruleArrBound(c)
			ruleBTArrMap(c)
			ruleStrTotal(c)
			ruleUNTotal(c)
		})

	register("C13",
		"Decides necessary conditions of C13 for caller-supplied schemas: a nullable union writes exactly one selector, the null branch's index 1-nonNull when the value is omitted and nonNull otherwise, and exactly then the value (WA-SEL), with nonNull derived from the schema for either null position (BT-NONNULL); what the union codecs write is accepted by their own Read and is a specification encoding (WA-WR, WA-SPEC-W); configuration that drives Read drives Write (E-FU); &x handed between codecs has the callee's width (PC-ARG); the full schema-type x Go-kind table is width-exact (BT-WIDTH); logical-type multipliers and units agree (TS-MULT, TS-UNIT).  Omit is true only on a zero test of the value at its pointer, so a non-zero value (a pointer to zero, the epoch) is never written as null (OM-ZERO).  What New allocates is what Read fills in (PC-NEW).  No product is formed in a 32-bit type and widened afterwards (TS-WIDE) and no 64-bit count is narrowed before it is divided (TS-NARROW).  A validity wrapper is omitted exactly when its Valid flag is false (OM-VALID).  A schema field is bound to the struct's own field of that name, at its offset and with its type, also when an embedded struct declared before or after it has a field of the same name (BT-REC, the record builder folded for nine target shapes). "+
			"Not decided: inversion for all values.",
		func(c *Ctx) {
			ruleWASel(c)
			ruleBTNonNull(c)
			ruleBTPure(c)
			ruleDstFresh(c)
			ruleWAWR(c, nil, 27)
			ruleWASpec(c, "W")
			ruleWAIdx(c)
			ruleWAZero(c)
			ruleSGNames(c)
			ruleBTRec(c)
			ruleSelFold(c)
			ruleEFU(c, "", 4)
			rulePCArg(c, nil, 18, 3)
			ruleBTWidth(c, true)
			ruleTSMult(c)
			ruleTSNoDur(c)
			ruleOMZero(c)
			rulePCNew(c)
			ruleTSWide(c)
			ruleTSNarrow(c)
			ruleTSFloor(c)
			ruleCDPure(c)
			ruleValFold(c)
			ruleVarStd(c)
			ruleOMValid(c)
			ruleFLTotal(c)
			ruleCDNum(c)
			ruleParseTime(c)
		})
}

func init() {
	register("C15",
		"Decides C15's structural clauses from the source of schema generation: the table Go kind -> schema type extracted by path enumeration equals the documented mapping, everything else being an error (SG-MAP); the registry is consulted first and recursion goes through one entry (SG-REG); nullable unions are [null, T] and never wrap a union (SG-NULL1, SG-NEST); record fields are the struct's fields in ascending order, one per non-excluded field, named and typed from that field (SG-ORDER, SG-NAMES); generation reads no mutable state, clock, randomness or map order (SG-DET); recursion is guarded and named records are emitted once (SG-REC, SG-ONCE); and for every generated schema type the codec builder either builds a width-exact codec or refuses (BT-WIDTH).  A registered schema is never modified by generation (LK-SHARED). "+
			"Not decided: validity of names/namespaces as Avro identifiers.",
		func(c *Ctx) {
			ruleSGMap(c)
			ruleSGReg(c)
			ruleSGNull(c)
			ruleSGOrder(c)
			ruleSGNames(c)
			ruleSGDet(c)
			ruleSGRec(c)
			ruleBTWidth(c, true)
			ruleLKShared(c)
			ruleSGSeen(c)
			ruleRegExact(c)
			ruleRegOverwrite(c)
			ruleSGRepeat(c)
			ruleSGComp(c)
			ruleSGTypeOnly(c)
		})
}

func init() {
	register("C14",
		"Decides structural clauses of C14 on the hand-written marshal/unmarshal pair: the JSON names of the schema object's attributes are the Avro attribute names, pairwise distinct (JS-TAG); every success path of the object form writes BeginObject (name value)* EndObject (JS-BAL); each name written is followed by the value of the field that carries that JSON name, with \"type\" taken from the hoisted Schema.Type (JS-KEY); every attribute is written somewhere and each complex type writes exactly the attribute the specification gives it (JS-EXH); parsing dispatches on string/array/object, hoists Type out of the object and clears it there, rejects other tokens (JS-HOIST), and propagates the JSON library's errors (ER-CHECK); serialising constructs no error of its own, so every schema that was parsed or generated can be written out again (JS-TOTAL); nothing the parse or the serialisation reaches uses package-level state other than initialisation-time tables, so a parse depends on its document alone (JS-PURE). "+
			"Not decided: independence from key order and unknown attributes (the JSON library's struct decoding), and that re-parsing yields an identical value.",
		func(c *Ctx) {
			ruleJSStrict(c)
			ruleJS(c)
			ruleJSWhole(c)
			ruleJSTotal(c)
			ruleJSAccept(c)
			ruleJSTagOptions(c)
			ruleJSPure(c)
			c.Rule("ER-CHECK", erClauses["ER-CHECK"], 3)
			schemaT := c.P.NamedType(c.P.Avro, "Schema")
			for _, name := range []string{"UnmarshalJSONFrom"} {
				if fn := c.P.Method(schemaT, name); fn != nil {
					erCheck(c, fn, erOpts{}, "ER-CHECK", "", "", erClauses)
				}
			}
			if fn := c.P.Func(c.P.Avro, "SchemaFromString"); fn != nil {
				erCheck(c, fn, erOpts{}, "ER-CHECK", "", "", erClauses)
			}
		})
}

func init() {
	register("C01",
		"Decides necessary conditions of the encode-then-read round trip, writer against reader and schema generator against codec builder: everything each codec's Write emits is accepted by its own Read (WA-WR); length prefixes and item counts are those of the data written (WA-LEN, WA-CNT); on the generated-schema path every Go kind gets a codec of exactly its width (BT-WIDTH) and Read, Write and Omit of one codec agree on what the pointer is (PC-METH); pointers are always wrapped in a union because the pointer codec writes nothing for nil (BT-PTRWRAP); schema generation and codec construction take field names and the omit flag from the same helpers (SG-NAMES); the schema in the header is the one the codec was built from (ENC-SAME); the target is cleared before each record (OD-CLEAR).  Added after seed round 5: varints are written only by the standard encoder (VAR-STD) and Omit is true only on a zero test of the value (OM-ZERO).  What is handed to the decompressor is exactly the bytes read for this block (OD-LEN, OD-FLOW).  A validity wrapper is written as null exactly when its Valid flag is false, whatever payload it carries (OM-VALID); no decoded value is a view of the reusable block buffer (AL-BUF).  Every occurrence of a struct type in the generated schema carries the record of that struct's own fields — schema generation is folded for a struct using one named type twice and two unnamed types (SG-REPEAT).  A field is typed by its Go type's registered schema and decoded by the codec built for that type, whatever its kind and whether it is named or embedded (SG-REG, BT-REC). "+
			"Stateful compressors are made per reader and per writer and never kept in package state (LK-OWN). "+
			"Not decided: equality of values for all types, values and configurations.",
		func(c *Ctx) {
			ruleSGRepeat(c)
			ruleRCVarint(c)
			ruleUVFold(c)
			ruleSGComp(c)
			ruleStrTotal(c)
			ruleSKFail(c)
			ruleWAWR(c, nil, 27)
			ruleWALenCnt(c)
			ruleBTWidth(c, true)
			rulePCMeth(c)
			ruleBTPtrWrap(c)
			ruleSGNames(c)
			ruleBTRec(c)
			ruleLKOwn(c)
			ruleCPFresh(c, findReadFile(c.P))
			ruleSGReg(c)
			ruleENCSame(c)
			ruleODClear(c, findReadFile(c.P))
			ruleDstFresh(c)
			ruleALBump(c)
			ruleALStr(c)
			ruleVarStd(c)
			ruleOMZero(c)
			ruleODLenFlow(c, findReadFile(c.P))
			ruleENC(c)
			ruleOMValid(c)
			ruleALBuf(c)
			ruleWAIdx(c)
			ruleValFold(c)
			ruleFLTotal(c)
		})

	register("C02",
		"Decides necessary conditions of 'valid Avro for an independent reader' against an oracle that is not the library's own reader: the block and header layout (OD-BLOCK, OD-HDR), the snappy trailer (CRC-BE), and for every codec type that what Write emits lies in the language the Avro 1.8 specification defines for the schema types the codec is built for (WA-SPEC-W); a nullable union writes exactly one selector with the right index and exactly the selected branch (WA-SEL); counts and length prefixes are those of the data (WA-CNT, WA-LEN); the omit flag reaches the codec whose Omit the union consults (BT-OMIT) and Omit is true only for nil/invalid/empty-under-omitempty (OM-SHAPE); Read/Write/Omit agree on the pointer (PC-METH); the embedded schema is the codec's own and is balanced JSON with the right keys (ENC-SAME, JS-*); pointers are wrapped in unions (BT-PTRWRAP).  Omit is true only on a zero test of the value at its pointer (OM-ZERO).  An encoder is handed out only after the header has been written (ENC-HDR): a zero-record file is still a container.  A validity wrapper is omitted exactly when Valid is false (OM-VALID). "+
			"The day count of a date is formed without time.Duration and with floor division (TS-NODUR, TS-FLOOR). "+
			"Not decided: agreement of values with an external decoder.",
		func(c *Ctx) {
			ruleTSNoDur(c)
			ruleTSFloor(c)
			ruleODBlock(c)
			ruleODHdr(c)
			s := findReadFile(c.P)
			ruleCRCCompress(c, s)
			ruleWASpec(c, "W")
			ruleWASel(c)
			ruleWALenCnt(c)
			ruleBTOmit(c)
			ruleOMShape(c)
			rulePCMeth(c)
			ruleENCSame(c)
			ruleJS(c)
			ruleVarStd(c)
			ruleCPFresh(c, s)
			ruleBTPtrWrap(c)
			ruleOMZero(c)
			ruleOMValid(c)
			ruleWAIdx(c)
			ruleBTWidth(c, true)
			ruleValFold(c)
			ruleTSMult(c)
			ruleTSStr(c)
			ruleCTAgree(c, s)
			if enc := findEncoder(c.P); enc.ctor != nil {
				ruleENCHdr(c, enc.ctor)
			}
		})

	register("C17",
		"Decides the few structural necessary conditions of C17 (thin by design): integer range checks use exactly MinT/MaxT of the destination width (RC-RANGE); floats are transferred as exactly sizeof(T) bytes by plain copy and a float32 carried as a double is converted on both sides of an 8-byte copy (SZ-FLOAT); varints are encoded only through the standard library's encoders, so shortest form and the ten-byte limit are the library's (VAR-STD); every integer kind gets the codec of its own width (BT-WIDTH). "+
			"Read and Skip of every codec built for float or double, the skip-only ones included, accept exactly 4 and 8 bytes (WA-SPEC-R, WA-SPEC-S). "+
			"Not decided: the decoder's overflow constants and zig-zag arithmetic, NaN payloads beyond byte copy, big-endian hosts.",
		func(c *Ctx) {
			ruleRCRange(c)
			ruleVarRd(c)
			ruleArrItem(c)
			ruleWASpec(c, "RS")
			ruleRCVarint(c)
			ruleUVFold(c)
			ruleValFold(c)
			ruleWARS(c)
			ruleCDNum(c)
			ruleC17(c)
			ruleBTWidth(c, true)
		})
}

func init() {
	register("C06",
		"Decides enumerated preconditions of 'no panic, no runaway allocation' over the reading call graph: every length, count or index decoded from the input (taint from ReadBuf.Varint / binary.ReadVarint, through arithmetic, phis and into module callees) reaches an allocation, slice bound or index only under a dominating non-negativity check (TL-LOW) and upper comparison (TL-BOUND), allocations additionally under a bound tied to the input actually present (TL-UP), and no guard adds to a still-unbounded decoded length (TL-OVF); constant and range-index offsets into strings/slices in the timestamp parser and the decompressors lie within an established minimum length (TL-IDX); the schema's optional object part is dereferenced only under a nil test (NIL-OBJ); no nil decompressor (NIL-IFACE); explicit panics are dead per instantiation and unchecked assertions justified (PANIC-REACH).  A codec returned by a builder never carries a nil sub-codec (BT-SUBNIL). "+
			"A schema in memory is a finite tree: nodes are linked only while they are made (SCH-TREE), so decoder construction over it ends; and for every schema type the dispatcher folded with no Go type (a field the struct lacks) returns a codec and panics on no path (BT-NILTYP). "+
			"Not decided: termination of count-controlled loops whose body consumes no input, panics inside third-party decoders, stack depth on deeply nested schemas.",
		func(c *Ctx) {
			ruleSchTree(c)
			ruleBTNilTyp(c)
			ruleTL(c)
			ruleArrBound(c)
			ruleTLIdx(c)
			ruleNilObj(c)
			rulePanicReach(c)
			ruleBTSubNil(c)
			ruleNilNew(c)
			ruleERUse(c)
			ruleODBank(c, findReadFile(c.P))
			ruleODDeliver(c, findReadFile(c.P))
			ruleLKPair(c)
			s := findReadFile(c.P)
			c.Rule("NIL-IFACE", "no nil interface value can reach the receiver of the decompress call", 1)
			if rfDecide(c, "codec") {
			} else if s.decompress != nil {
				rt := readerCompTable(c.P, s)
				c.Check(!rt.nilSrc, fnKey(s.fn)+"/decompress-receiver", c.P.pos(s.decompress.Pos()), "every value flowing into the receiver of decompress is non-nil", "a nil interface flows into the receiver of decompress")
			}
			ruleTLDiv(c)
			ruleNilLoc(c)
			ruleUVFold(c)
			c.Assume = append(c.Assume, "int is 64 bits: int(v) of a decoded int64 preserves the value")
			c.Note("not decided: termination (a huge count with zero-width items loops for a long time), panics inside compress/flate, snappy, json; recursion depth")
		})
}

func init() {
	register("C10",
		"Decides ownership clauses of C10 from the source: no view of the block buffer (a result of ReadBuf.Next, a sub-slice of ReadBuf.buf, or an unsafe string view of either) is stored into the destination, a bank, a map or returned — it is only indexed, copied from, converted by copy, or handed to functions that do the same (AL-BUF, interprocedural over module callees); the decompressor's reusable result is used only as the read buffer (AL-BLOCK); interned strings view the bank's own append-only store, whose earlier bytes are never rewritten and which only Close truncates (AL-STR); a bank allocation returns array + index*size for the pre-increment index, increments on every path, grows into a new typed array of the recorded capacity, and clears the slot with its own type first (AL-BUMP, AL-CLR); Close only resets (AL-CLOSE); each callback gets a bank extracted in the same iteration and extraction installs a fresh one (OD-BANK); banks share no package state but the pool (LK-POOL, LK-GLOBAL). "+
			"The slice-header shadow has a slice's pointer layout and linknamed runtime functions are declared with the runtime's signature shapes (GC-SHADOW, GC-LINKSIG). "+
			"Not decided: interleavings of user-side Close calls (a double close is a user error the code cannot see).",
		func(c *Ctx) {
			ruleALBuf(c)
			ruleGCLink(c)
			ruleALBlock(c)
			ruleALStr(c)
			ruleALBump(c)
			ruleALKey(c)
			ruleALFinal(c)
			ruleODBank(c, findReadFile(c.P))
			ruleLKPool(c)
			ruleLKGlobal(c)
			ruleDstFresh(c)
			ruleODClear(c, findReadFile(c.P))
			rulePCNew(c)
			ruleALOwner(c)
		})
}

func init() {
	register("C18",
		"Decides necessary conditions of C18 in the hand-written timestamp parser by folding it (constant propagation with path forking, no execution) over symbolic strings of every relevant length whose bytes are unknown but individually named, every computed number being an exact table over the 256 values of each byte it depends on: on every accepting path the year, month, day, hour, minute and second handed to time.Date depend on exactly the bytes at the RFC 3339 offsets (PT-FIELDS), each of those bytes is accepted exactly when it is '0'-'9' and the number is the decimal value of the digits (PT-DIGITS), the separators were found at their offsets (PT-SEP), a ten-character date is midnight UTC (PT-DATE), nothing may be left over (PT-REM); no rejecting path is consistent with a well-formed timestamp whose fields are in range, so nothing the standard library accepts is refused (PT-ACCEPT); the zone offset is +/-(36000a+3600b+600c+60d) of the zone's own digits around a checked colon, with the sign of the leading character, 'Z' is time.UTC (TZ-SIGN); the nanoseconds are the first nine fraction digits scaled, later digits ignored, for one to twelve digits (TS-FRAC); the zone cache is keyed by the offset it builds (TZ-KEY) and is the only package state touched (PT-PURE); every constant or range-index offset lies within an established minimum length and, independently, no path over any input of up to 32 (thorough: 56) bytes ends in a run-time panic (TL-IDX); times are written with the full-precision RFC 3339 layout (FMT-NANO); errors of the digit parsers are checked (ER-CHECK). When the fold cannot follow the code the older structural reading of the same clauses is used and said so. "+
			"Not decided: calendar validity (day 29-31 against the month, leap seconds), what time.Date and time.FixedZone do with the numbers, inputs longer than the folded lengths for the no-panic clause (they differ only in the number of fraction digits), non-ASCII bytes inside the fraction beyond an over-approximation of the UTF-8 step. ",
		func(c *Ctx) {
			ruleVarRd(c)
			ruleParseTime(c)
			ruleNilLoc(c)
			rulePTPure(c)
			ruleTSStr(c)
			ruleTLIdx(c)
			// when the fold has decided, for every field, that a byte which is not a digit is refused on every
			// path (PT-DIGITS) the digit parsers' errors are acted on, however they travel (returned, or kept in a
			// reader's sticky error field); the call-by-call reading is for when the fold did not go through
			nDig, okDig := 0, true
			for _, o := range c.Obs {
				if o.Rule == "PT-DIGITS" {
					nDig++
					if o.Verdict != Discharged || !strings.Contains(o.Witness, "tables over all 256 byte values") {
						okDig = false
					}
				}
			}
			c.Rule("ER-CHECK", erClauses["ER-CHECK"], 8)
			if nDig >= 6 && okDig {
				c.cur.Min = 1
				c.OK("time.parseTime/digit-errors-by-fold", "-", fmt.Sprintf("PT-DIGITS holds for %d fields on the folded parser: at each field position a byte other than '0'-'9' ends in an error on every path", nDig))
			} else if fn := c.P.Func(c.P.Time, "parseTime"); fn != nil {
				// the parser and the helpers it is split into
				for _, f := range ptScope(c.P, fn) {
					erCheck(c, f, erOpts{}, "ER-CHECK", "", "", erClauses)
				}
			}
		})
}
