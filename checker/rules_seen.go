package main

import (
	"fmt"
	"go/types"

	"golang.org/x/tools/go/ssa"
)

// SG-SEEN: the set of types "currently being expanded" that schema generation threads through its
// recursion is a stack discipline kept in a map: a type marked on the way in is unmarked on the way out.
// A mark that survives a successful return makes the next, unrelated occurrence of that type in the same
// call look like a cycle ("the same type used in several positions" then fails). Pairing rule: from every
// store `seen[t] = …` every path to a return that may report success passes `delete(seen, t)` — directly or
// as a deferred call registered on that path.

func isTypeSet(t types.Type) bool {
	m, ok := t.Underlying().(*types.Map)
	if !ok {
		return false
	}
	// a set: the values carry nothing (a registry keyed by type is not one)
	switch e := m.Elem().Underlying().(type) {
	case *types.Basic:
		if e.Kind() != types.Bool {
			return false
		}
	case *types.Struct:
		if e.NumFields() != 0 {
			return false
		}
	default:
		return false
	}
	n, ok := types.Unalias(m.Key()).(*types.Named)
	return ok && n.Obj().Pkg() != nil && n.Obj().Pkg().Path() == "reflect" && n.Obj().Name() == "Type"
}

type seenLeak struct {
	upd *ssa.MapUpdate
	ret *ssa.Return // nil: no leak
}

func seenMarks(fns []*ssa.Function) []seenLeak { return seenMarksWith(fns, isTypeSet) }

func seenMarksWith(fns []*ssa.Function, isTypeSet func(types.Type) bool) []seenLeak {
	var out []seenLeak
	for _, fn := range fns {
		for _, b := range fn.Blocks {
			for idx, in := range b.Instrs {
				mu, ok := in.(*ssa.MapUpdate)
				if !ok || !isTypeSet(mu.Map.Type()) {
					continue
				}
				// a store of false is an unmark, not a mark
				if k, isK := mu.Value.(*ssa.Const); isK && k.Value != nil && k.Value.String() == "false" {
					continue
				}
				isUnmark := func(x ssa.Instruction) bool {
					ci, ok := x.(ssa.CallInstruction)
					if !ok {
						if u, ok := x.(*ssa.MapUpdate); ok && u.Map == mu.Map && u.Key == mu.Key {
							if k, isK := u.Value.(*ssa.Const); isK && k.Value != nil && k.Value.String() == "false" {
								return true
							}
						}
						return false
					}
					if _, isGo := x.(*ssa.Go); isGo {
						return false
					}
					cc := ci.Common()
					if bi, ok := cc.Value.(*ssa.Builtin); ok && bi.Name() == "delete" && len(cc.Args) == 2 && cc.Args[0] == mu.Map && cc.Args[1] == mu.Key {
						return true
					}
					// defer func() { delete(seen, t) }()
					if d, ok := x.(*ssa.Defer); ok {
						if mc, ok := d.Call.Value.(*ssa.MakeClosure); ok {
							if f, ok := mc.Fn.(*ssa.Function); ok {
								for _, cs := range callsIn(f) {
									if bi, ok := cs.Common.Value.(*ssa.Builtin); ok && bi.Name() == "delete" {
										return true
									}
								}
							}
						}
					}
					return false
				}
				leak := seenLeak{upd: mu}
				visited := map[*ssa.BasicBlock]bool{}
				var walk func(bb *ssa.BasicBlock, from int)
				walk = func(bb *ssa.BasicBlock, from int) {
					if leak.ret != nil {
						return
					}
					for _, x := range bb.Instrs[from:] {
						if isUnmark(x) {
							return
						}
						if r, ok := x.(*ssa.Return); ok {
							failing := false
							if n := len(r.Results); n > 0 && isErrorType(r.Results[n-1].Type()) {
								e := r.Results[n-1]
								if nn, _ := knownNonNil(bb, e); nn {
									failing = true
								}
								if isFreshError(e) {
									failing = true
								}
							}
							if !failing {
								leak.ret = r
							}
							return
						}
					}
					for _, s := range bb.Succs {
						if !visited[s] {
							visited[s] = true
							walk(s, 0)
						}
					}
				}
				walk(b, idx+1)
				out = append(out, leak)
			}
		}
	}
	return out
}

func ruleSGSeen(c *Ctx) {
	c.Rule("SG-SEEN", "a type marked as being expanded is unmarked again on every path to a return that can report success", 1)
	P := c.P
	for _, l := range seenMarks(P.ModuleFuncs()) {
		key := fnKey(l.upd.Parent()) + "/mark"
		if l.ret == nil {
			c.OK(key, P.pos(l.upd.Pos()), "every successful return after the mark passes the matching delete (direct or deferred)")
		} else {
			c.Bad(key, P.pos(l.upd.Pos()), fmt.Sprintf("the mark set here survives the return at %s: the next occurrence of the same type in the same call is taken for a cycle and schema generation fails for a type that is not recursive", P.pos(l.ret.Pos())))
		}
	}
	fx := buildFixture(`package fx
type T interface{ Kind() int; Elem() T }
type S struct{ t string }
func good(t T, seen map[T]bool) (S, error) {
	seen[t] = true
	defer delete(seen, t)
	if t.Kind() == 1 { return S{"a"}, nil }
	return S{"b"}, nil
}
func bad(t T, seen map[T]bool) (S, error) {
	seen[t] = true
	if t.Kind() == 1 { return S{"a"}, nil }
	delete(seen, t)
	return S{"b"}, nil
}
`)
	if fx == nil {
		c.Unk("fixture/SG-SEEN", "-", "fixture package did not build")
		return
	}
	// the fixture cannot import reflect: its set is keyed by a local interface, matched structurally here
	hits := map[string]bool{}
	for _, m := range fx.Members {
		f, ok := m.(*ssa.Function)
		if !ok {
			continue
		}
		for _, l := range seenMarksWith([]*ssa.Function{f}, func(t types.Type) bool { _, ok := t.Underlying().(*types.Map); return ok }) {
			if l.ret != nil {
				hits[f.Name()] = true
			}
		}
	}
	o := c.ob(Discharged, "fixture/SG-SEEN", "-", fmt.Sprintf("positive fixture: leaks found in %v (expected exactly bad)", hits), false)
	if !(len(hits) == 1 && hits["bad"]) {
		o.Verdict, o.VerdictS = Undecided, "undecided"
	}
}
