package main

// Schema serialisation folded (E-CP): MarshalJSONTo is folded for a schema of each type whose object holds
// named unknowns, with the encoder unknown. Every outcome that succeeds must have written exactly
//
//	{ "type" T  ["logicalType" LT]  ["name" NM]  ["namespace" NS]  [attr-of-T its-field]  }
//
// with an optional member present exactly when the path found its value non-empty, each key being the JSON
// name its field carries for the reader (the struct tags), and each value the field of that name. This decides
// JS-BAL, JS-KEY, JS-EXH and JS-COND at once, however the writes are organised (a loop over a local table of
// {key, value}, helpers, early returns).

import (
	"fmt"
	"go/token"
	"go/types"
	"sort"
	"strings"

	"golang.org/x/tools/go/ssa"
)

type jsEmit struct {
	kind string // begin end str int marshal
	lit  string // the constant, for a string token made from one
	id   string // the identity of the value, otherwise
}

func (e jsEmit) String() string {
	switch e.kind {
	case "begin":
		return "{"
	case "end":
		return "}"
	case "str":
		if e.id == "" {
			return fmt.Sprintf("%q", e.lit)
		}
		return "string(" + e.id + ")"
	case "int":
		return "int(" + e.id + ")"
	}
	return "encode(" + e.id + ")"
}

// jsMarshalByFold: the problems found, by rule; folded=false when the fold did not go through.
func jsMarshalByFold(P *Program, mfn *ssa.Function, schemaT, objT types.Type, tags map[string]string) (probs map[string][]string, nOut int, folded bool) {
	probs = map[string][]string{}
	if mfn == nil || mfn.Blocks == nil || len(mfn.Params) != 2 {
		return nil, 0, false
	}
	ost, ok := objT.Underlying().(*types.Struct)
	if !ok {
		return nil, 0, false
	}
	add := func(rule, msg string) {
		for _, m := range probs[rule] {
			if m == msg {
				return
			}
		}
		if len(probs[rule]) < 5 {
			probs[rule] = append(probs[rule], msg)
		}
	}
	optional := []string{"LogicalType", "Name", "Namespace"}
	attrField := map[string]string{"record": "Fields", "enum": "Symbols", "array": "Items", "map": "Values", "fixed": "Size"}
	for _, T := range []string{"record", "enum", "array", "map", "fixed", "long", "string"} {
		e := &cpEngine{P: P, MaxOut: 1500, MaxSteps: 40000, MaxForks: 40, MaxDepth: 6, visited: map[*ssa.Function]bool{}, trackAtoms: true, foldAll: true}
		e.globals = cpInitGlobals(P)
		e.pending = [][]bool{nil}
		for len(e.pending) > 0 {
			d := e.pending[len(e.pending)-1]
			e.pending = e.pending[:len(e.pending)-1]
			e.decisions, e.taken, e.steps, e.calls, e.uid, e.decided = d, nil, 0, nil, 0, map[string]bool{}
			e.bytes, e.constraints, e.onceDone, e.varintBufs = nil, nil, nil, nil
			e.atoms, e.atomInfo, e.bufInfo = nil, nil, nil
			ofields := map[string]cpVal{}
			for i := 0; i < ost.NumFields(); i++ {
				n := ost.Field(i).Name()
				ofields[n] = cpUnk{ID: "obj." + n}
			}
			ofields["Type"] = cpStr{""}
			obj := cpPtrTo(cpStructUnknownExcept(objT, ofields), objT)
			recv := cpPtrTo(cpStructUnknownExcept(schemaT, map[string]cpVal{"Type": cpStr{T}, "Object": obj, "Union": cpNil{}}), schemaT)
			var res []cpVal
			why := ""
			func() {
				defer func() {
					if x := recover(); x != nil {
						if a, ok := x.(cpAbort); ok {
							why = a.why
							return
						}
						panic(x)
					}
				}()
				res = e.call(mfn, []cpVal{recv, cpUnk{ID: "arg:enc"}}, 0)
			}()
			if why == "panic-instr" {
				add("JS-BAL", "serialising a "+T+" schema panics on some path")
				continue
			}
			if why != "" || len(res) != 1 {
				return nil, 0, false
			}
			if len(e.pending) > 3000 {
				return nil, 0, false
			}
			if _, okRes := res[0].(cpNil); !okRes {
				continue // a write failed: handed on (ER rules)
			}
			nOut++
			// what was written
			tokenOf := map[string]jsEmit{} // token identity -> what it is
			var seq []jsEmit
			bad := false
			for i := range e.calls {
				cl := &e.calls[i]
				switch {
				case strings.HasSuffix(cl.Callee, "jsontext.String") && len(cl.Args) == 1:
					em := jsEmit{kind: "str"}
					if s, isS := cl.Args[0].(cpStr); isS {
						em.lit = s.V
					} else {
						em.id = rfIdent(cl.Args[0])
					}
					tokenOf[rfIdent(cl.Result)] = em
				case (strings.HasSuffix(cl.Callee, "jsontext.Int") || strings.HasSuffix(cl.Callee, "jsontext.Uint")) && len(cl.Args) == 1:
					tokenOf[rfIdent(cl.Result)] = jsEmit{kind: "int", id: rfIdent(cl.Args[0])}
				case strings.HasSuffix(cl.Callee, "jsontext.Encoder).WriteToken") && len(cl.Args) == 2:
					id := rfIdent(cl.Args[1])
					switch {
					case strings.HasSuffix(id, "jsontext.BeginObject"):
						seq = append(seq, jsEmit{kind: "begin"})
					case strings.HasSuffix(id, "jsontext.EndObject"):
						seq = append(seq, jsEmit{kind: "end"})
					default:
						em, has := tokenOf[id]
						if !has {
							bad = true
							add("JS-BAL", fmt.Sprintf("a %s schema writes a token the fold cannot name (%s)", T, id))
						}
						seq = append(seq, em)
					}
				case strings.HasSuffix(cl.Callee, "json.MarshalEncode") && len(cl.Args) >= 2:
					seq = append(seq, jsEmit{kind: "marshal", id: rfIdent(stripIfaceVal(cl.Args[1]))})
				}
			}
			if bad {
				continue
			}
			// which optional members the path found non-empty
			nonEmpty := map[string]bool{}
			tested := map[string]bool{}
			for _, a := range e.atoms {
				if !a.Known {
					continue
				}
				var id string
				var k cpStr
				var isK bool
				if k, isK = a.Y.(cpStr); isK {
					id = rfIdent(a.X)
				} else if k, isK = a.X.(cpStr); isK {
					id = rfIdent(a.Y)
				}
				if !isK || k.V != "" || !strings.HasPrefix(id, "obj.") {
					continue
				}
				f := strings.TrimPrefix(id, "obj.")
				eq := a.Op == token.EQL && a.Truth || a.Op == token.NEQ && !a.Truth
				tested[f] = true
				nonEmpty[f] = !eq
			}
			// expected sequence
			want := []jsEmit{{kind: "begin"}, {kind: "str", lit: tags["Type"]}, {kind: "str", lit: T}}
			for _, f := range optional {
				if !tested[f] {
					// the member is written (or left out) without asking whether it is empty
					present := false
					for _, em := range seq {
						if em.kind == "str" && em.id == "obj."+f {
							present = true
						}
					}
					if !present {
						add("JS-COND", fmt.Sprintf("a %s schema leaves out %q on a path that never asked whether it is empty", T, tags[f]))
						continue
					}
					want = append(want, jsEmit{kind: "str", lit: tags[f]}, jsEmit{kind: "str", id: "obj." + f})
					continue
				}
				if nonEmpty[f] {
					want = append(want, jsEmit{kind: "str", lit: tags[f]}, jsEmit{kind: "str", id: "obj." + f})
				}
			}
			if af, has := attrField[T]; has {
				kind := "marshal"
				if af == "Size" {
					kind = "int"
				}
				want = append(want, jsEmit{kind: "str", lit: tags[af]}, jsEmit{kind: kind, id: "obj." + af})
			}
			want = append(want, jsEmit{kind: "end"})
			// compare, attributing the first difference
			same := len(seq) == len(want)
			if same {
				for i := range seq {
					if seq[i] != want[i] {
						same = false
					}
				}
			}
			if same {
				continue
			}
			show := func(xs []jsEmit) string {
				var ss []string
				for _, x := range xs {
					ss = append(ss, x.String())
				}
				return strings.Join(ss, " ")
			}
			rule := "JS-KEY"
			switch {
			case len(seq) == 0 || seq[0].kind != "begin" || seq[len(seq)-1].kind != "end" || len(seq)%2 != 0:
				rule = "JS-BAL"
			case len(seq) < len(want):
				rule = "JS-EXH"
				for _, f := range optional {
					if tested[f] && nonEmpty[f] {
						found := false
						for _, em := range seq {
							if em.kind == "str" && em.id == "obj."+f {
								found = true
							}
						}
						if !found {
							rule = "JS-COND"
						}
					}
				}
			case len(seq) > len(want):
				rule = "JS-COND"
				if _, has := attrField[T]; !has {
					rule = "JS-EXH"
				}
			}
			add(rule, fmt.Sprintf("a %s schema (non-empty: %v) is written as  %s  — the grammar gives  %s", T, sortedTrue(nonEmpty), show(seq), show(want)))
		}
	}
	return probs, nOut, true
}

func sortedTrue(m map[string]bool) []string {
	var out []string
	for k, v := range m {
		if v {
			out = append(out, k)
		}
	}
	sort.Strings(out)
	return out
}
