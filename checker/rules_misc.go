package main

// BT-SENTINEL (C04), RC-RANGE (C03/C17), SZ-FLOAT, VAR-STD (C17).

import (
	"fmt"
	"go/constant"
	"go/token"
	"go/types"
	"math"
	"strings"

	"golang.org/x/tools/go/ssa"
)

func ruleBTSentinel(c *Ctx) {
	c.Rule("BT-SENTINEL", "a schema field absent from the struct is marked with the very constant the record reader tests for, and is then skipped — never decoded — while present fields are decoded, never skipped", 3)
	P := c.P
	bt := getBT(P)
	ct := bt.byType["avro.recordCodec"]
	bfn := P.Func(P.Avro, "buildRecordCodec")
	if !c.Anchor(ct != nil && bfn != nil, "record codec and its builder") {
		return
	}
	// the sentinel the builder stores
	var stored constant.Value
	for _, b := range bfn.Blocks {
		for _, in := range b.Instrs {
			st, ok := in.(*ssa.Store)
			if !ok {
				continue
			}
			fa, ok := st.Addr.(*ssa.FieldAddr)
			if !ok || fieldName(fa.X.Type(), fa.Field) != "offset" {
				continue
			}
			for _, s := range phiSources(st.Val) {
				if k, ok := s.(*ssa.Const); ok {
					if v, ok := (Folder{P}).Fold(k); ok {
						stored = v
					}
				}
			}
		}
	}
	rd := ct.M["Read"]
	var tested constant.Value
	var iff *ssa.If
	for _, b := range rd.Blocks {
		if i, ok := b.Instrs[len(b.Instrs)-1].(*ssa.If); ok {
			if cmp, ok := asCmp(i.Cond, true); ok && cmp.Op == token.EQL {
				if k, isK := cmp.Y.(*ssa.Const); isK && strings.HasSuffix(accessPath(cmp.X), ".offset)") || isK && strings.Contains(accessPath(cmp.X), "offset") {
					if v, ok := (Folder{P}).Fold(k); ok {
						tested, iff = v, i
					}
				}
			}
		}
	}
	key := "avro.recordCodec/sentinel"
	if stored == nil || tested == nil {
		c.Bad(key, P.pos(rd.Pos()), "no sentinel offset is stored by the builder or tested by the reader")
		return
	}
	c.Check(constant.Compare(stored, token.EQL, tested), key, P.pos(iff.Pos()), fmt.Sprintf("builder stores %s for an absent field; Read tests for %s", stored.ExactString(), tested.ExactString()), fmt.Sprintf("the builder marks absent fields with %s but Read tests for %s: absent fields would be decoded at a wild offset", stored.ExactString(), tested.ExactString()))
	// true edge: Skip on the same element's codec, no Read; false edge: Read at p+offset of the same element, no Skip
	tb, fb := iff.Block().Succs[0], iff.Block().Succs[1]
	elem := func(v ssa.Value) string { return recvPathOfValue(rd, v, 0) }
	checkEdge := func(blk *ssa.BasicBlock, want, forbid string) (bool, string) {
		region := map[*ssa.BasicBlock]bool{}
		for _, x := range rd.Blocks {
			if blk.Dominates(x) {
				region[x] = true
			}
		}
		found := false
		for x := range region {
			for _, in := range x.Instrs {
				call, ok := in.(*ssa.Call)
				if !ok || !call.Call.IsInvoke() || !isCodecIface(P, call.Call.Value.Type()) {
					continue
				}
				switch call.Call.Method.Name() {
				case want:
					if elem(call.Call.Value) == "fields[].codec" && x == blk {
						found = true
						if want == "Read" {
							add, ok := call.Call.Args[1].(*ssa.Call)
							if !ok || elem(add.Call.Args[1]) != "fields[].offset" || add.Call.Args[0] != ssa.Value(rd.Params[len(rd.Params)-1]) {
								return false, "the field is decoded at an address other than p + its own offset"
							}
						}
					}
				case forbid:
					return false, "the " + forbid + " method is called on this edge"
				}
			}
		}
		if !found {
			return false, "no " + want + " of the field's own codec on this edge"
		}
		return true, ""
	}
	ok1, w1 := checkEdge(tb, "Skip", "Read")
	c.Check(ok1 && edgeOnly(iff.Block(), tb), key+"/absent->Skip", P.pos(iff.Pos()), "on the sentinel edge the field's own codec skips the value", "an absent field is not skipped by its own codec: "+w1)
	ok2, w2 := checkEdge(fb, "Read", "Skip")
	c.Check(ok2 && edgeOnly(iff.Block(), fb), key+"/present->Read", P.pos(iff.Pos()), "on the other edge the field's own codec decodes at p + the field's offset", "a present field is not decoded by its own codec at its own offset: "+w2)
}

// intBounds returns MinT, MaxT for a signed integer type.
func intBounds(P *Program, t types.Type) (lo, hi int64, ok bool) {
	b, isB := t.Underlying().(*types.Basic)
	if !isB || b.Info()&types.IsInteger == 0 || b.Info()&types.IsUnsigned != 0 {
		return 0, 0, false
	}
	bits := uint(P.Sizes.Sizeof(t) * 8)
	if bits == 64 {
		return math.MinInt64, math.MaxInt64, true
	}
	return -(1 << (bits - 1)), 1<<(bits-1) - 1, true
}

func ruleRCRange(c *Ctx) {
	c.Rule("RC-RANGE", "an integer is stored into a narrower destination only inside the destination type's exact range [MinT, MaxT]", 3)
	P := c.P
	for _, ct := range P.CodecTypes() {
		if !strings.HasPrefix(ct.Name, "avro.IntCodec[") {
			continue
		}
		fn := ct.M["Read"]
		key := ct.Name + ".Read/range"
		// the store *(*T)(p) = T(i)
		var st *ssa.Store
		for _, b := range fn.Blocks {
			for _, in := range b.Instrs {
				if s, ok := in.(*ssa.Store); ok {
					if cv, ok := s.Addr.(*ssa.Convert); ok && isUnsafePointer(cv.X.Type()) {
						st = s
					}
				}
			}
		}
		if st == nil {
			c.Unk(key, P.pos(fn.Pos()), "no store through the destination pointer found")
			continue
		}
		T := st.Addr.Type().Underlying().(*types.Pointer).Elem()
		lo, hi, ok := intBounds(P, T)
		if !ok {
			c.Unk(key, P.pos(st.Pos()), "destination is not a signed integer type")
			continue
		}
		src := stripConv(st.Val)
		if !isVarintResult(src) {
			c.Unk(key, P.pos(st.Pos()), "the stored value is not the decoded varint")
			continue
		}
		// effective bounds from the facts at the store
		effLo, effHi := int64(math.MinInt64), int64(math.MaxInt64)
		for _, cmp := range cmpFactsAt(st.Block()) {
			x, y, op := cmp.X, cmp.Y, cmp.Op
			if stripConv(y) == src {
				x, y, op = y, x, swapOp(op)
			}
			if stripConv(x) != src {
				continue
			}
			k, ok := (Folder{P}).FoldInt(y)
			if !ok {
				continue
			}
			switch op {
			case token.LEQ:
				if k < effHi {
					effHi = k
				}
			case token.LSS:
				if k-1 < effHi {
					effHi = k - 1
				}
			case token.GEQ:
				if k > effLo {
					effLo = k
				}
			case token.GTR:
				if k+1 > effLo {
					effLo = k + 1
				}
			}
		}
		c.Check(effLo == lo && effHi == hi, key, P.pos(st.Pos()), fmt.Sprintf("the store into %s is reached only for %d <= i <= %d", T, effLo, effHi),
			fmt.Sprintf("the store into %s is reached for %d <= i <= %d, the type holds [%d, %d]: out-of-range values are silently truncated or in-range values rejected", T, effLo, effHi, lo, hi))
	}
}

func ruleC17(c *Ctx) {
	P := c.P
	bt := getBT(P)
	c.Rule("SZ-FLOAT", "floats are read, skipped and written as exactly sizeof(T) bytes by plain copy; a float32 carried as a double is converted on both sides of an 8-byte copy", 9)
	w := getWA(P)
	for _, ct := range bt.Codecs {
		if !strings.HasPrefix(ct.Name, "avro.floatCodec[") && ct.Name != "avro.Float32DoubleCodec" {
			continue
		}
		want := "B8"
		if ct.Name == "avro.floatCodec[float32]" {
			want = "B4"
		}
		for _, m := range []string{"Read", "Skip", "Write"} {
			n, probs := w.get(ct, m, false)
			words := n.words(3, 4)
			c.Check(len(probs) == 0 && len(words) == 1 && words[0] == want, ct.Name+"."+m+"/size", P.pos(ct.M[m].Pos()), m+" transfers exactly "+want, fmt.Sprintf("%s transfers %v, the type needs exactly %s", m, words, want))
		}
	}
	if ct := bt.byType["avro.Float32DoubleCodec"]; ct != nil {
		// Read: float32(f) store; Write: float64(*(*float32)(p)) into the 8-byte temp
		okR, okW := false, false
		for _, b := range ct.M["Read"].Blocks {
			for _, in := range b.Instrs {
				if st, ok := in.(*ssa.Store); ok {
					if cv, ok := st.Val.(*ssa.Convert); ok && typeKey(cv.Type()) == "float32" && typeKey(cv.X.Type()) == "float64" {
						okR = true
					}
				}
			}
		}
		for _, b := range ct.M["Write"].Blocks {
			for _, in := range b.Instrs {
				if st, ok := in.(*ssa.Store); ok {
					if cv, ok := st.Val.(*ssa.Convert); ok && typeKey(cv.Type()) == "float64" && typeKey(cv.X.Type()) == "float32" {
						okW = true
					}
				}
			}
		}
		c.Check(okR, ct.Name+".Read/narrow", P.pos(ct.M["Read"].Pos()), "the double read is converted to float32 before the 4-byte store", "Read does not convert the double to float32")
		c.Check(okW, ct.Name+".Write/widen", P.pos(ct.M["Write"].Pos()), "the float32 is converted to float64 before the 8-byte write", "Write does not widen the float32 to a double")
	}
	c.Rule("VAR-STD", "varints are encoded only by the standard library's encoders (shortest form, at most ten bytes)", 3)
	n := 0
	for _, fn := range P.ModuleFuncs() {
		for _, cs := range callsIn(fn) {
			if cs.Static == nil {
				continue
			}
			q := qualName(cs.Static)
			if q == "encoding/binary.AppendVarint" || q == "encoding/binary.PutVarint" {
				n++
				c.OK(fmt.Sprintf("%s/encode#%d", fnKey(fn), n), P.pos(cs.Instr.Pos()), q)
			}
		}
	}
	// the write buffer's Varint is one of them and nothing else
	wbT := P.NamedType(P.Avro, "WriteBuf")
	if m := P.Method(wbT, "Varint"); c.Anchor(m != nil, "(*WriteBuf).Varint") {
		ok := len(m.Blocks) == 1
		cnt := 0
		for _, cs := range callsIn(m) {
			if cs.Static != nil && qualName(cs.Static) == "encoding/binary.AppendVarint" && cs.Common.Args[1] == ssa.Value(m.Params[1]) {
				cnt++
			} else if _, isB := cs.Common.Value.(*ssa.Builtin); !isB {
				ok = false
			}
		}
		if ok && cnt == 1 {
			c.OK(fnKey(m)+"/std", P.pos(m.Pos()), "exactly binary.AppendVarint(w.buf, v)")
		} else {
			c.Unk(fnKey(m)+"/std", P.pos(m.Pos()), "WriteBuf.Varint is not a single call of binary.AppendVarint on its argument: shortest-form encoding cannot be delegated to the standard library (this rule cannot judge a hand-written encoder)")
		}
	}
}
