package main

// The record codec decided end to end by folding (E-CP): the record builder
// is folded for a schema and a struct type that differ in field order and in
// which fields they have; the codec value that comes out is then handed to
// the folded Read and Skip. What the trace shows decides BT-SENTINEL,
// REC-LIST and BT-REC however the builder and the reader are factored.

import (
	"fmt"
	"go/types"
	"reflect"
	"strings"

	"golang.org/x/tools/go/ssa"
)

type recFold struct {
	ok       bool
	why      string // why the fold could not be done
	builder  *ssa.Function
	readFn   *ssa.Function
	problems map[string]string // clause -> what is wrong ("" = fine)
	detail   string
}

var recFoldCache = map[*Program]*recFold{}

// recShape is one target struct the record builder is folded for. The schema is always
// (a long, gone string, b double, n1 record Inner, n2 Inner, c long); present[k] says whether schema
// field k has a struct field of its name.
type recShape struct {
	name    string
	fields  func(tA, tB, tX, tN1, tN2, tC *cpRType) []cpRField
	size    int64
	present [6]bool
	off     [6]int64
}

var recShapes = []recShape{
	{name: "struct {B, A, X, N1, N2, C chan}", size: 48, present: [6]bool{true, false, true, true, true, true}, off: [6]int64{8, 0, 0, 24, 32, 40},
		fields: func(tA, tB, tX, tN1, tN2, tC *cpRType) []cpRField {
			return []cpRField{{Name: "B", Tag: `json:"b"`, Type: tB, Offset: 0}, {Name: "A", Tag: `json:"a"`, Type: tA, Offset: 8}, {Name: "X", Type: tX, Offset: 16},
				{Name: "N1", Tag: `json:"N1"`, Type: tN1, Offset: 24}, {Name: "N2", Tag: `json:"n2"`, Type: tN2, Offset: 32}, {Name: "C", Tag: `json:"c"`, Type: tC, Offset: 40}}
		}},
	// the property's own corner: a struct with no matching field still consumes the record, field by field, once
	{name: "struct {X} (no field of the schema)", size: 8,
		fields: func(tA, tB, tX, tN1, tN2, tC *cpRType) []cpRField {
			return []cpRField{{Name: "X", Type: tX, Offset: 0}}
		}},
	{name: "struct {X, A} (only the first schema field)", size: 16, present: [6]bool{true, false, false, false, false, false}, off: [6]int64{8, 0, 0, 0, 0, 0},
		fields: func(tA, tB, tX, tN1, tN2, tC *cpRType) []cpRField {
			return []cpRField{{Name: "X", Type: tX, Offset: 0}, {Name: "A", Tag: `json:"a"`, Type: tA, Offset: 8}}
		}},
	{name: "struct {X, C} (only the last schema field)", size: 16, present: [6]bool{false, false, false, false, false, true}, off: [6]int64{0, 0, 0, 0, 0, 8},
		fields: func(tA, tB, tX, tN1, tN2, tC *cpRType) []cpRField {
			return []cpRField{{Name: "X", Type: tX, Offset: 0}, {Name: "C", Tag: `json:"c"`, Type: tC, Offset: 8}}
		}},
	// a nested record held through a pointer is a field the struct has: whether a field is present is a matter of
	// its name alone, what it can hold is for the field's own codec builder to accept or refuse
	{name: "struct {X, N1 *Inner1} (a nested record through a pointer)", size: 16, present: [6]bool{false, false, false, true, false, false}, off: [6]int64{0, 0, 0, 8, 0, 0},
		fields: func(tA, tB, tX, tN1, tN2, tC *cpRType) []cpRField {
			return []cpRField{{Name: "X", Type: tX, Offset: 0}, {Name: "N1", Tag: `json:"N1"`, Type: &cpRType{ID: "*" + tN1.ID, Kind: int64(reflect.Ptr), Elem: tN1, Size: 8}, Offset: 8}}
		}},
	// embedded structs: a field of the struct itself is the one its name denotes, wherever an embedded struct with a
	// field of the same name is declared; an embedded struct without a tag is the field named after its type, and is
	// built for as that type (a registered type embedded in a struct is still that type)
	{name: "struct {A; Emb{A}} (an embedded struct declared after a field it shares a name with)", size: 16, present: [6]bool{true, false, false, false, false, false}, off: [6]int64{0, 0, 0, 0, 0, 0},
		fields: func(tA, tB, tX, tN1, tN2, tC *cpRType) []cpRField {
			return []cpRField{{Name: "A", Tag: `json:"a"`, Type: tA, Offset: 0}, {Name: "Emb", Type: recEmb(tA), Offset: 8, Anonymous: true}}
		}},
	{name: "struct {Emb{A}; A} (an embedded struct declared before a field it shares a name with)", size: 16, present: [6]bool{true, false, false, false, false, false}, off: [6]int64{8, 0, 0, 0, 0, 0},
		fields: func(tA, tB, tX, tN1, tN2, tC *cpRType) []cpRField {
			return []cpRField{{Name: "Emb", Type: recEmb(tA), Offset: 0, Anonymous: true}, {Name: "A", Tag: `json:"a"`, Type: tA, Offset: 8}}
		}},
	{name: "struct {X; N1} (an embedded struct of unexported fields, named by its type)", size: 16, present: [6]bool{false, false, false, true, false, false}, off: [6]int64{0, 0, 0, 8, 0, 0},
		fields: func(tA, tB, tX, tN1, tN2, tC *cpRType) []cpRField {
			op := cpRTypeOfKind(reflect.Struct, false)
			op.ID, op.Name, op.Size = "fx.N1", "N1", 8
			op.Fields = []cpRField{{Name: "wall", PkgPath: "example.com/fx-pkg", Type: tA, Offset: 0}}
			return []cpRField{{Name: "X", Type: tX, Offset: 0}, {Name: "N1", Type: op, Offset: 8, Anonymous: true}}
		}},
	{name: "struct {B, X} (only a middle schema field)", size: 16, present: [6]bool{false, false, true, false, false, false}, off: [6]int64{0, 0, 0, 0, 0, 0},
		fields: func(tA, tB, tX, tN1, tN2, tC *cpRType) []cpRField {
			return []cpRField{{Name: "B", Tag: `json:"b"`, Type: tB, Offset: 0}, {Name: "X", Type: tX, Offset: 8}}
		}},
}

// recEmb is a struct type with one field, A, named "a".
func recEmb(tA *cpRType) *cpRType {
	t := cpRTypeOfKind(reflect.Struct, false)
	t.ID, t.Name, t.Size = "fx.Emb", "Emb", 8
	t.Fields = []cpRField{{Name: "A", Tag: `json:"a"`, Type: tA, Offset: 0}}
	return t
}

// recordByFold folds the record builder and the record codec's Read and Skip for every shape of recShapes;
// the first problem found for a clause is kept, with the shape that shows it.
func recordByFold(P *Program) *recFold {
	if r, ok := recFoldCache[P]; ok {
		return r
	}
	r := &recFold{problems: map[string]string{}, ok: true}
	recFoldCache[P] = r
	for i, sh := range recShapes {
		one := recordFoldOne(P, sh)
		if i == 0 {
			r.builder, r.readFn, r.detail = one.builder, one.readFn, one.detail
		}
		if !one.ok {
			r.ok, r.why = false, one.why+" (target "+sh.name+")"
			return r
		}
		for k, v := range one.problems {
			if v != "" && r.problems[k] == "" {
				if i > 0 {
					v = "for target " + sh.name + ": " + v
				}
				r.problems[k] = v
			}
		}
	}
	r.detail += fmt.Sprintf("; repeated for %d target shapes in all (no, only the first, only the last, only a middle schema field present, a nested record through a pointer, embedded structs declared before and after a field they share a name with, an embedded struct of unexported fields)", len(recShapes))
	return r
}

func recordFoldOne(P *Program, sh recShape) *recFold {
	r := &recFold{problems: map[string]string{}}
	fail := func(why string) *recFold {
		r.why = why
		return r
	}
	rfT, offName, codecName := recordFieldRoles(P)
	if rfT == nil {
		return fail("record field entry type not found")
	}
	b := P.Func(P.Avro, "buildRecordCodec")
	if b == nil {
		return fail("record builder not found")
	}
	r.builder = b
	schemaNT := P.NamedType(P.Avro, "Schema")
	if schemaNT == nil {
		return fail("Schema type not found")
	}
	schemaT := types.Type(schemaNT)
	sst := schemaT.Underlying().(*types.Struct)
	var objT, fieldT types.Type
	for i := 0; i < sst.NumFields(); i++ {
		if sst.Field(i).Name() == "Object" {
			if pt, ok := sst.Field(i).Type().Underlying().(*types.Pointer); ok {
				objT = pt.Elem()
			}
		}
	}
	if objT == nil {
		return fail("Schema.Object not found")
	}
	ost := objT.Underlying().(*types.Struct)
	for i := 0; i < ost.NumFields(); i++ {
		if ost.Field(i).Name() == "Fields" {
			if sl, ok := ost.Field(i).Type().Underlying().(*types.Slice); ok {
				fieldT = sl.Elem()
			}
		}
	}
	if fieldT == nil {
		return fail("SchemaObject.Fields not found")
	}
	// the schema: a, gone, b — the struct: B, A, X
	mkField := func(name, typ string) *cpCell {
		return &cpCell{V: cpStructOf(fieldT, map[string]cpVal{"Name": cpStr{name}, "Type": cpStructOf(schemaT, map[string]cpVal{"Type": cpStr{typ}})}), T: fieldT}
	}
	// n1 defines a named type, n2 refers to it by name; c meets a struct field of a kind nothing decodes into
	inner := &cpCell{V: cpStructOf(fieldT, map[string]cpVal{"Name": cpStr{"N1"}, "Type": cpStructOf(schemaT, map[string]cpVal{"Type": cpStr{"record"}, "Object": cpPtrTo(cpStructOf(objT, map[string]cpVal{"Name": cpStr{"Inner"}}), objT)})}), T: fieldT}
	fields := cpSlice{Elems: []*cpCell{mkField("a", "long"), mkField("gone", "string"), mkField("b", "double"), inner, mkField("n2", "Inner"), mkField("c", "long")}}
	schema := cpStructOf(schemaT, map[string]cpVal{"Type": cpStr{"record"}, "Object": cpPtrTo(cpStructOf(objT, map[string]cpVal{"Name": cpStr{"R"}, "Fields": fields}), objT)})
	tB, tA, tX := cpRTypeOfKind(reflect.Float64, false), cpRTypeOfKind(reflect.Int64, false), cpRTypeOfKind(reflect.Int32, false)
	rt := cpRTypeOfKind(reflect.Struct, false)
	tN1, tN2, tC := cpRTypeOfKind(reflect.Struct, false), cpRTypeOfKind(reflect.Struct, false), cpRTypeOfKind(reflect.Chan, false)
	tN1.ID, tN1.Name = "fx.Inner1", "Inner1"
	tN2.ID, tN2.Name = "fx.Inner2", "Inner2"
	rt.Fields = sh.fields(tA, tB, tX, tN1, tN2, tC)
	rt.Size = sh.size
	args := make([]cpVal, len(b.Params))
	for i, p := range b.Params {
		switch {
		case types.Identical(p.Type(), schemaT):
			args[i] = schema
		case isReflectType(p.Type()):
			args[i] = rt
		default:
			args[i] = cpUnk{ID: "arg:" + p.Name()}
		}
	}
	stdSig := func(fn *ssa.Function) bool {
		return isCodecErrorSig(P, fn.Signature) && len(fn.Params) == 3 && types.Identical(fn.Params[0].Type(), schemaT) && isReflectType(fn.Params[1].Type())
	}
	outs, _, ok, why := cpFoldOpt(P, b, args, func(g *ssa.Function) bool { return g != b && stdSig(g) })
	if !ok {
		return fail("folding the record builder: " + why)
	}
	// the success outcome
	var good *cpOutcome
	for i := range outs {
		o := &outs[i]
		if o.Panics || len(o.Results) != 2 {
			continue
		}
		if _, isNil := o.Results[1].(cpNil); isNil {
			if good != nil {
				return fail("more than one success outcome of the record builder")
			}
			good = o
		}
	}
	if good == nil {
		return fail("the record builder has no success outcome for a record schema and a struct type")
	}
	iv, isI := good.Results[0].(cpIface)
	if !isI {
		return fail("the record builder's result is not a codec value")
	}
	var recv cpVal = iv.V
	recT := iv.T
	val := iv.V
	if pt, isP := recT.Underlying().(*types.Pointer); isP {
		recT = pt.Elem()
		pp, okP := val.(cpPtr)
		if !okP || pp.C == nil {
			return fail("the record codec pointer is not known")
		}
		val = pp.C.V
	}
	// the entry list
	var entries cpSlice
	found := false
	if st, isS := val.(cpStruct); isS {
		for _, c := range st.F {
			if sl, isSl := c.V.(cpSlice); isSl && len(sl.Elems) > 0 {
				if es, isE := sl.Elems[0].V.(cpStruct); isE && types.Identical(types.Unalias(es.T), types.Type(rfT)) {
					entries, found = sl, true
				}
			}
		}
	}
	if !found {
		return fail("the record codec's entry list was not found in the builder's result")
	}
	// the dispatcher calls, in order
	type sub struct {
		id     string
		schema string
		typ    cpVal
	}
	var subs []sub
	for _, cl := range good.Calls {
		tup, isT := cl.Result.(cpTuple)
		if !isT || len(tup.Vs) != 2 || cl.Instr == nil || cl.Instr.Common().StaticCallee() == nil || !stdSig(cl.Instr.Common().StaticCallee()) {
			continue
		}
		u, isU := tup.Vs[0].(cpUnk)
		if !isU || len(cl.Args) != 3 {
			continue
		}
		st := ""
		if tv, _ := cpFieldByName(cl.Args[0], "Type"); tv != nil {
			if ts, isStr := tv.(cpStr); isStr {
				st = ts.V
			}
		}
		subs = append(subs, sub{u.ID, st, cl.Args[1]})
	}
	r.ok = true
	wantSchema := []string{"long", "string", "double", "record", "Inner", "long"}
	wantTyp := []cpVal{tA, cpNil{}, tB, tN1, tN2, tC}
	wantOff := sh.off[:]
	for k, nm := range []string{"a", "gone", "b", "N1", "n2", "c"} {
		if !sh.present[k] {
			wantTyp[k] = cpNil{}
			continue
		}
		// the Go type is that of the shape's own field of that name (a shape may hold a nested record through a pointer)
		for _, f := range rt.Fields {
			if strings.Contains(f.Tag, `json:"`+nm+`"`) || (f.Tag == "" && f.Name == nm) {
				wantTyp[k] = f.Type
			}
		}
	}
	nF := len(wantSchema)
	var ids []string
	var offs []int64
	r.detail = fmt.Sprintf("%d entries for %d schema fields", len(entries.Elems), nF)
	if len(entries.Elems) != nF || len(subs) != nF {
		r.problems["list"] = fmt.Sprintf("for a schema of %d fields the record codec gets %d entries from %d sub-codec constructions: not one entry, with a codec of its own, per schema field", nF, len(entries.Elems), len(subs))
		return r
	}
	sentinel, haveSentinel := int64(0), false
	for k, cell := range entries.Elems {
		cv, _ := cpFieldByName(cell.V, codecName)
		ov, _ := cpFieldByName(cell.V, offName)
		cu, isU := cv.(cpUnk)
		off := int64(0)
		if ov != nil {
			oi, isInt := ov.(cpInt)
			if !isInt {
				r.problems["entry"] = "an entry's offset does not fold to a constant"
				return r
			}
			off = oi.V
		}
		if !isU || cu.ID != subs[k].id {
			r.problems["list"] = fmt.Sprintf("entry %d does not hold the codec built for schema field %d (entries are not in the schema's field order, or a codec is shared)", k, k)
		}
		if subs[k].schema != wantSchema[k] {
			r.problems["list"] = fmt.Sprintf("the codec of entry %d is built from the schema of another field (%q)", k, subs[k].schema)
		}
		if subs[k].typ != wantTyp[k] {
			r.problems["pair"] = fmt.Sprintf("the codec for schema field %d is not built for the Go type of the struct field of that name", k)
		}
		if !sh.present[k] {
			if haveSentinel && off != sentinel {
				r.problems["sentinel"] = fmt.Sprintf("two schema fields absent from the struct are marked with different offsets (%d, %d)", sentinel, off)
			}
			sentinel, haveSentinel = off, true
		} else if off != wantOff[k] {
			r.problems["pair"] = fmt.Sprintf("schema field %d is bound to offset %d, the struct field of that name is at %d", k, off, wantOff[k])
		}
		ids = append(ids, cu.ID)
		offs = append(offs, off)
	}
	if haveSentinel && sentinel >= 0 && sentinel < sh.size {
		r.problems["sentinel"] = fmt.Sprintf("a schema field absent from the struct is given offset %d, which lies inside the struct", sentinel)
	}
	// Read and Skip on that codec value
	opaque := func(g *ssa.Function) bool {
		recvV := g.Signature.Recv()
		if recvV == nil {
			return false
		}
		t := recvV.Type()
		if pt, isP := t.Underlying().(*types.Pointer); isP {
			t = pt.Elem()
		}
		return !types.Identical(types.Unalias(t), types.Unalias(recT)) && !types.Identical(types.Unalias(t), types.Type(rfT))
	}
	rd := P.Prog.LookupMethod(iv.T, nil, "Read")
	sk := P.Prog.LookupMethod(iv.T, nil, "Skip")
	if rd == nil || sk == nil || rd.Blocks == nil || sk.Blocks == nil {
		return fail("Read or Skip of the record codec not found")
	}
	r.readFn = rd
	type ev struct {
		op     string
		id     string
		off    int64
		hasOff bool
	}
	trace := func(fn *ssa.Function, args []cpVal) ([]ev, bool) {
		outs, _, ok, _ := cpFoldOpt(P, fn, args, opaque)
		if !ok {
			return nil, false
		}
		for _, o := range outs {
			if o.Panics || len(o.Results) != 1 {
				continue
			}
			if _, isNil := o.Results[0].(cpNil); !isNil {
				continue
			}
			var evs []ev
			for _, cl := range o.Calls {
				op := ""
				switch {
				case strings.HasSuffix(cl.Callee, ").Read") || cl.Callee == "invoke:Read":
					op = "Read"
				case strings.HasSuffix(cl.Callee, ").Skip") || cl.Callee == "invoke:Skip":
					op = "Skip"
				default:
					continue
				}
				if len(cl.Args) == 0 {
					continue
				}
				u, isU := cl.Args[0].(cpUnk)
				if !isU {
					continue
				}
				e := ev{op: op, id: u.ID}
				if op == "Read" && len(cl.Args) == 3 {
					switch a := cl.Args[2].(type) {
					case cpLin:
						if a.ID == "arg:p" && a.Mul == 1 {
							e.off, e.hasOff = a.Add, true
						}
					case cpUnk:
						if a.ID == "arg:p" {
							e.off, e.hasOff = 0, true
						}
					}
				}
				evs = append(evs, e)
			}
			return evs, true
		}
		return nil, false
	}
	revs, okR := trace(rd, []cpVal{recv, cpUnk{ID: "arg:r"}, cpUnk{ID: "arg:p"}})
	sevs, okS := trace(sk, []cpVal{recv, cpUnk{ID: "arg:r"}})
	if !okR || !okS {
		r.ok = false
		return fail("folding Read or Skip of the record codec failed")
	}
	if len(revs) != nF {
		r.problems["read"] = fmt.Sprintf("decoding a record of %d fields makes %d sub-codec calls", nF, len(revs))
	} else {
		for k, e := range revs {
			if e.id != ids[k] {
				r.problems["read"] = fmt.Sprintf("field %d is not handled by its own codec, in the schema's order", k)
			}
			if !sh.present[k] {
				if e.op != "Skip" {
					r.problems["absent"] = "a field absent from the struct is decoded (at a wild offset) instead of skipped by its own codec"
				}
			} else if e.op != "Read" || !e.hasOff || e.off != offs[k] {
				r.problems["present"] = fmt.Sprintf("field %d, present in the struct, is not decoded by its own codec at p + its own offset", k)
			}
		}
	}
	if len(sevs) != nF {
		r.problems["skip"] = fmt.Sprintf("skipping a record of %d fields makes %d sub-codec calls", nF, len(sevs))
	} else {
		for k, e := range sevs {
			if e.id != ids[k] || e.op != "Skip" {
				r.problems["skip"] = fmt.Sprintf("skipping a record does not skip field %d with its own codec, in order", k)
			}
		}
	}
	return r
}
