package main

// E-SG: schema-generation tables and rules (C15, parts of C01/C02):
// SG-MAP, SG-NULL1, SG-NEST, SG-ORDER, SG-DET, SG-REC, SG-ONCE, SG-NAMES,
// BT-PTRWRAP, OM-SHAPE.

import (
	"fmt"
	"go/token"
	"go/types"
	"reflect"
	"sort"
	"strings"

	"golang.org/x/tools/go/ssa"
)

// sgOutcome is what schema generation yields on one path for the type at hand.
type sgOutcome struct {
	Type string // Avro type name; "reject"; "=elem" (the element's own schema, passed through); "registered"
	Pos  token.Pos
	Path *BTPath
}

func isSchemaErrSig(P *Program, sig *types.Signature) bool {
	r := sig.Results()
	return r.Len() == 2 && typeKey(r.At(0).Type()) == "avro.Schema" && isErrorType(r.At(1).Type())
}

// schemaLiteralType: v is a Schema value loaded from a local literal; returns
// the constant stored in its Type field.
func schemaLiteralType(v ssa.Value) (string, bool) {
	ld, ok := v.(*ssa.UnOp)
	if !ok || ld.Op != token.MUL {
		if k, isK := v.(*ssa.Const); isK && k.Value == nil {
			return "", false
		}
		return "", false
	}
	a, ok := ld.X.(*ssa.Alloc)
	if !ok {
		return "", false
	}
	f := literalFields(a)
	if tv, ok := f["Type"]; ok {
		return constString(tv)
	}
	return "", false
}

// sgOutcomes explores fn (a (Schema, error) function) and classifies every
// path; typPath is the access path of the reflect.Type whose kinds we track.
func sgOutcomes(P *Program, fn *ssa.Function, depth int) ([]sgOutcome, bool) {
	paths, ok := enumeratePaths(fn)
	if !ok || depth > 4 {
		return nil, false
	}
	var out []sgOutcome
	for _, p := range paths {
		if p.Ret == nil {
			continue
		}
		res := resolvedResults(p.Ret)
		ev := res[len(res)-1]
		if !isNilConst(ev) && (isFreshError(ev)) {
			out = append(out, sgOutcome{"reject", p.Ret.Pos(), p})
			continue
		}
		v := res[0]
		if phi, ok := v.(*ssa.Phi); ok {
			v = phiValueOnPath(phi, p.Blocks)
		}
		if t, ok := schemaLiteralType(v); ok {
			out = append(out, sgOutcome{t, p.Ret.Pos(), p})
			continue
		}
		// a value obtained from another schema function
		src := v
		if ld, ok := v.(*ssa.UnOp); ok && ld.Op == token.MUL {
			if st := reachingStore(ld); st != nil {
				src = st.Val
			}
		}
		if ex, ok := src.(*ssa.Extract); ok && ex.Index == 0 {
			if call, ok := ex.Tuple.(*ssa.Call); ok && call.Call.StaticCallee() != nil {
				callee := call.Call.StaticCallee()
				if isSchemaErrSig(P, callee.Signature) {
					// same type handed on: inline the callee's outcomes; element type: "=elem"
					if tpC, tpF := reflectTypeParamIdx(callee), reflectTypeParamIdx(fn); tpC >= 0 && tpF >= 0 && tpC < len(call.Call.Args) && call.Call.Args[tpC] == ssa.Value(fn.Params[tpF]) {
						// error-propagating return: only the success half matters; the callee decides
						sub, ok := sgOutcomes(P, callee, depth+1)
						if !ok {
							return nil, false
						}
						for _, s := range sub {
							// merge the callee path's constraints (same parameter name by convention "typ")
							merged := &BTPath{Fn: fn, Blocks: p.Blocks, State: mergeStates(p.State, s.Path.State), Ret: p.Ret}
							out = append(out, sgOutcome{s.Type, s.Pos, merged})
						}
						continue
					}
					if isNilConst(ev) || !isFreshError(ev) {
						out = append(out, sgOutcome{"=elem", p.Ret.Pos(), p})
						continue
					}
				}
				if sig := callee.Signature; sig.Results().Len() == 2 && typeKey(sig.Results().At(0).Type()) == "avro.Schema" {
					// (Schema, bool): the registry
					out = append(out, sgOutcome{"registered", p.Ret.Pos(), p})
					continue
				}
			}
		}
		if call, ok := src.(*ssa.Call); ok && call.Call.StaticCallee() != nil && typeKey(call.Type()) == "avro.Schema" {
			// nullableSchema(x) and the like: the literal the helper returns
			for _, r := range returnsOf(call.Call.StaticCallee()) {
				if t, ok := schemaLiteralType(resolvedResults(r)[0]); ok {
					out = append(out, sgOutcome{t, p.Ret.Pos(), p})
				}
			}
			continue
		}
		if _, isK := v.(*ssa.Const); isK && !isNilConst(ev) {
			out = append(out, sgOutcome{"reject", p.Ret.Pos(), p})
			continue
		}
		out = append(out, sgOutcome{"?" + v.String(), p.Ret.Pos(), p})
	}
	return out, true
}

func mergeStates(a, b *pathState) *pathState {
	o := a.clone()
	for k, v := range b.eq {
		o.eq[k] = v
	}
	for k, m := range b.ne {
		if o.ne[k] == nil {
			o.ne[k] = map[string]bool{}
		}
		for kk := range m {
			o.ne[k][kk] = true
		}
	}
	return o
}

// specSchemaMap: the documented mapping from Go kinds to Avro types.
func specSchemaMap(k reflect.Kind, elemIsByte bool) string {
	switch k {
	case reflect.Bool:
		return "boolean"
	case reflect.Int, reflect.Int8, reflect.Int16, reflect.Int32, reflect.Int64:
		return "long"
	case reflect.Float32, reflect.Float64:
		return "double"
	case reflect.String:
		return "string"
	case reflect.Struct:
		return "record"
	case reflect.Slice, reflect.Array:
		if elemIsByte {
			return "bytes"
		}
		return "array"
	case reflect.Map:
		return "map"
	case reflect.Ptr:
		return "=elem|union"
	}
	return "reject"
}

type schemaTable struct {
	fn   *ssa.Function
	rows map[string]map[string]bool // "kind" or "kind/byte" or "kind/other" -> outcomes
	outs []sgOutcome
	ok   bool
}

func schemaTableOf(P *Program) *schemaTable {
	t := &schemaTable{fn: schemaWorkerFn(P), rows: map[string]map[string]bool{}}
	if t.fn == nil {
		return t
	}
	outs, ok := sgOutcomes(P, t.fn, 0)
	t.outs, t.ok = outs, ok
	if !ok {
		return t
	}
	tp := t.fn.Params[0].Name()
	for _, o := range outs {
		if o.Type == "registered" {
			continue
		}
		ks := o.Path.State.kindsOf(tp) & allRealKinds
		for _, k := range ks.kinds() {
			keys := []string{k.String()}
			if k == reflect.Slice || k == reflect.Array {
				ek := o.Path.State.kindsOf(tp + ".Elem()")
				keys = nil
				if ek.has(uint(reflect.Uint8)) {
					keys = append(keys, k.String()+"/byte")
				}
				if ek&^kindSetOf(reflect.Uint8)&allRealKinds != 0 {
					keys = append(keys, k.String()+"/other")
				}
			}
			for _, key := range keys {
				if t.rows[key] == nil {
					t.rows[key] = map[string]bool{}
				}
				t.rows[key][o.Type] = true
			}
		}
	}
	return t
}

func setStr(m map[string]bool) string {
	var ks []string
	for k := range m {
		ks = append(ks, k)
	}
	sort.Strings(ks)
	return strings.Join(ks, "|")
}

// passThroughTypes: for a path on which a pointer's element schema is returned
// unwrapped, the schema types that element may have: from a test of the
// element schema's Type when there is one, otherwise from the element's Go
// kind through the table itself.
func passThroughTypes(t *schemaTable, o sgOutcome) []string {
	var out []string
	for k, v := range o.Path.State.eq {
		if strings.HasSuffix(k, "->Type)") && strings.HasPrefix(v, "s:") {
			out = append(out, strings.TrimPrefix(v, "s:"))
		}
	}
	if len(out) > 0 {
		sort.Strings(out)
		return out
	}
	tp := t.fn.Params[0].Name()
	ek := o.Path.State.kindsOf(tp+".Elem()") & allRealKinds
	set := map[string]bool{}
	for _, k := range ek.kinds() {
		for _, key := range []string{k.String(), k.String() + "/byte", k.String() + "/other"} {
			for ty := range t.rows[key] {
				if ty == "=elem" {
					ty = "union" // a pointer to a pointer: whatever that yields is a union or passes through in turn
				}
				if ty != "reject" {
					set[ty] = true
				}
			}
		}
	}
	for ty := range set {
		out = append(out, ty)
	}
	sort.Strings(out)
	return out
}

func ruleSGMap(c *Ctx) {
	c.Rule("SG-MAP", "the schema generated for each Go kind is the documented one (integers long, floats double, bool boolean, string, byte slices bytes, slices array, maps map, structs record, pointers [null,T] or the element's own array/map/union), and every other kind is an error", 26)
	P := c.P
	if sgMapByFold(c) {
		return
	}
	t := schemaTableOf(P)
	if !c.Anchor(t.fn != nil, "schemaForType") {
		return
	}
	if !t.ok {
		c.Unk("avro.schemaForType/paths", P.pos(t.fn.Pos()), "path budget exceeded")
		return
	}
	tab := map[string]string{}
	for k, v := range t.rows {
		tab[k] = setStr(v)
	}
	c.Table("schema_table", tab)
	for _, o := range t.outs {
		if strings.HasPrefix(o.Type, "?") {
			c.Unk("avro.schemaForType/return", P.pos(o.Pos), "a return of schema generation is not understood: "+o.Type)
		}
	}
	// pointers: the element's own schema may pass through unwrapped only if it is a union, an array or a map
	tpn := t.fn.Params[0].Name()
	seenPT := map[string]bool{}
	for _, o := range t.outs {
		if o.Type != "=elem" || o.Path.State.kindsOf(tpn)&allRealKinds != kindSetOf(reflect.Ptr) {
			continue
		}
		for _, et := range passThroughTypes(t, o) {
			key := "avro.schemaForType/ptr-pass-through[" + et + "]"
			if seenPT[key] {
				continue
			}
			seenPT[key] = true
			okT := et == "union" || et == "array" || et == "map"
			c.Check(okT, key, P.pos(o.Pos), "documented: pointers to slices and maps stay plain arrays and maps, unions are not wrapped again", fmt.Sprintf("a pointer whose element schema is %q is given that schema unwrapped; the documented mapping makes it [null, %s]", et, et))
		}
	}
	for k := reflect.Bool; k <= reflect.UnsafePointer; k++ {
		variants := []struct {
			key  string
			byte bool
		}{{k.String(), false}}
		if k == reflect.Slice || k == reflect.Array {
			variants = []struct {
				key  string
				byte bool
			}{{k.String() + "/byte", true}, {k.String() + "/other", false}}
		}
		for _, v := range variants {
			want := specSchemaMap(k, v.byte)
			got := map[string]bool{}
			for o := range t.rows[v.key] {
				got[o] = true
			}
			// error propagation from sub-types is always possible for composite kinds: ignore "reject" next to a real outcome
			if len(got) > 1 {
				delete(got, "reject")
			}
			if len(got) == 0 {
				got["(no path)"] = true
			}
			key := "avro.schemaForType/kind=" + v.key
			c.Check(setStr(got) == want, key, P.pos(t.fn.Pos()), fmt.Sprintf("%s -> %s", v.key, setStr(got)), fmt.Sprintf("Go kind %s generates %s, the documented mapping is %s", v.key, setStr(got), want))
		}
	}
}

func nullableHelpers(P *Program) []*ssa.Function {
	var out []*ssa.Function
	for _, fn := range P.ModuleFuncs() {
		if fn.Signature.Recv() != nil || fn.Parent() != nil || len(fn.Params) != 1 {
			continue
		}
		if typeKey(fn.Params[0].Type()) != "avro.Schema" || fn.Signature.Results().Len() != 1 || typeKey(fn.Signature.Results().At(0).Type()) != "avro.Schema" {
			continue
		}
		out = append(out, fn)
	}
	return out
}

func ruleSGNull(c *Ctx) {
	P := c.P
	c.Rule("SG-NULL1", "a generated nullable union is exactly [null, T], null first", 2)
	helpers := nullableHelpers(P)
	for _, fn := range helpers {
		key := fnKey(fn) + "/shape"
		rs := returnsOf(fn)
		ok := len(rs) == 1
		why := "not a single return"
		if ok {
			ld, isL := resolvedResults(rs[0])[0].(*ssa.UnOp)
			var a *ssa.Alloc
			if isL {
				a, _ = ld.X.(*ssa.Alloc)
			}
			f := literalFields(a)
			t, isT := constString(f["Type"])
			sl, isSl := f["Union"].(*ssa.Slice)
			ok = isT && t == "union" && isSl
			why = "the result is not a union literal"
			if ok {
				arr, _ := sl.X.(*ssa.Alloc)
				elems := map[int64]string{}
				n := int64(0)
				if at, isArr := arr.Type().Underlying().(*types.Pointer).Elem().Underlying().(*types.Array); isArr {
					n = at.Len()
				}
				for _, r := range referrersOf(arr) {
					ia, isIA := r.(*ssa.IndexAddr)
					if !isIA {
						continue
					}
					idx, _ := constInt(ia.Index)
					for _, rr := range referrersOf(ia) {
						switch x := rr.(type) {
						case *ssa.FieldAddr:
							if fieldName(x.X.Type(), x.Field) == "Type" {
								for _, r3 := range referrersOf(x) {
									if st, isSt := r3.(*ssa.Store); isSt {
										if s, isS := constString(st.Val); isS {
											elems[idx] = "const:" + s
										}
									}
								}
							}
						case *ssa.Store:
							if x.Val == ssa.Value(fn.Params[0]) || stripLoadOfParam(x.Val) == ssa.Value(fn.Params[0]) {
								elems[idx] = "param"
							} else if t, ok := schemaLiteralType(x.Val); ok {
								elems[idx] = "const:" + t
							}
						}
					}
				}
				ok = n == 2 && elems[0] == "const:null" && elems[1] == "param"
				why = fmt.Sprintf("branches are %v (want [null, the argument])", elems)
			}
		}
		c.Check(ok, key, P.pos(fn.Pos()), "returns {union, [ {null}, s ]}", "the nullable helper does not build [null, T] with null first: "+why)
	}
	// the schemas the library itself registers, as folded: [null, T] with null first
	for _, r := range findRegistrations(P) {
		if r.Folded == nil || r.Folded.Type != "union" {
			continue
		}
		key := fmt.Sprintf("%s/registered[%s]/null-first", fnKey(r.In), typeKey(r.T))
		u := r.Folded.Union
		c.Check(len(u) == 2 && u[0].Type == "null" && u[1].Type != "null", key, P.pos(r.SPos), "the registered schema folds to a union of null and one other type, null first", fmt.Sprintf("the registered schema's union is not [null, T] with null first (%d branches)", len(u)))
	}
	c.Rule("SG-NEST", "a union is never wrapped in another union", 6)
	for _, r := range findRegistrations(P) {
		if r.Folded == nil || r.Folded.Type != "union" {
			continue
		}
		key := fmt.Sprintf("%s/registered[%s]/no-nested-union", fnKey(r.In), typeKey(r.T))
		nested := false
		for _, b := range r.Folded.Union {
			if b.Type == "union" || len(b.Union) > 0 {
				nested = true
			}
		}
		c.Check(!nested, key, P.pos(r.SPos), "no branch of the registered union is itself a union", "a branch of the registered union is itself a union")
	}
	isHelper := map[*ssa.Function]bool{}
	for _, h := range helpers {
		isHelper[h] = true
	}
	for _, fn := range P.ModuleFuncs() {
		keys := callKeys(fn)
		for _, cs := range callsIn(fn) {
			if cs.Static == nil || !isHelper[cs.Static] {
				continue
			}
			arg := cs.Common.Args[0]
			key := keys[cs.Instr]
			if t, ok := schemaLiteralType(arg); ok {
				c.Check(t != "union", key, P.pos(cs.Instr.Pos()), "literal non-union argument ("+t+")", "a union literal is wrapped in a nullable union")
				continue
			}
			// inside a registration function whose registered schemas were all obtained as folded values (and
			// checked above, branch by branch): what the helper returns there is what is registered
			if nReg, nFolded := 0, 0; true {
				for _, r := range findRegistrations(P) {
					if r.In == fn && r.hasSchema() {
						nReg++
						if r.Folded != nil {
							nFolded++
						}
					}
				}
				if nReg > 0 && nReg == nFolded {
					c.OK(key, P.pos(cs.Instr.Pos()), fmt.Sprintf("in %s the %d registered schemas were obtained as folded values and each was checked for a nested union", fn.Name(), nReg))
					continue
				}
			}
			// a schema literal whose type name is a string parameter of an unexported helper: decided at each of the
			// helper's call sites, which must pass a constant other than "union"
			if ld, isL := arg.(*ssa.UnOp); isL && ld.Op == token.MUL && !token.IsExported(fn.Name()) && fn.Parent() == nil {
				if a, isA := ld.X.(*ssa.Alloc); isA {
					if prm, isP := literalFields(a)["Type"].(*ssa.Parameter); isP {
						idx := -1
						for i, q := range fn.Params {
							if q == prm {
								idx = i
							}
						}
						sites, allConst := 0, true
						for _, g := range P.ModuleFuncs() {
							for _, cs2 := range callsIn(g) {
								if cs2.Static != fn || idx < 0 || idx >= len(cs2.Common.Args) {
									continue
								}
								sites++
								if t, ok := constString(cs2.Common.Args[idx]); !ok || t == "union" {
									allConst = false
								}
							}
						}
						if sites > 0 && allConst {
							c.OK(key, P.pos(cs.Instr.Pos()), fmt.Sprintf("the argument is a schema literal whose type name is a parameter of %s; each of its %d call sites passes a constant other than \"union\"", fn.Name(), sites))
							continue
						}
					}
				}
			}
			// a parameter of an unexported helper: decided at each of the helper's call sites
			if prm, isP := arg.(*ssa.Parameter); isP && !token.IsExported(fn.Name()) && fn.Parent() == nil {
				idx := -1
				for i, q := range fn.Params {
					if q == prm {
						idx = i
					}
				}
				sites, allLit := 0, true
				for _, g := range P.ModuleFuncs() {
					for _, cs2 := range callsIn(g) {
						if cs2.Static != fn || idx < 0 || idx >= len(cs2.Common.Args) {
							continue
						}
						sites++
						if t, ok := schemaLiteralType(cs2.Common.Args[idx]); !ok || t == "union" {
							allLit = false
						}
					}
				}
				if sites > 0 && allLit {
					c.OK(key, P.pos(cs.Instr.Pos()), fmt.Sprintf("the argument is a parameter of %s; each of its %d call sites passes a literal non-union schema", fn.Name(), sites))
					continue
				}
			}
			// the argument's Type is known != "union" at the call
			ok := false
			ap := ""
			if ld, isL := arg.(*ssa.UnOp); isL && ld.Op == token.MUL {
				ap = "*(" + accessPath(ld.X) + "->Type)"
			}
			for _, cmp := range cmpFactsAt(cs.Block) {
				if cmp.Op != token.NEQ {
					continue
				}
				if s, isS := constString(cmp.Y); isS && s == "union" && accessPath(cmp.X) == ap {
					ok = true
				}
			}
			c.Check(ok, key, P.pos(cs.Instr.Pos()), "reached only on the false edge of x.Type == \"union\"", "a schema that may already be a union is wrapped in a nullable union (unions may not nest)")
		}
	}
}

func ruleSGOrder(c *Ctx) {
	c.Rule("SG-ORDER", "record fields are the struct's fields in declaration order, one per non-excluded field, named and typed from that same field", 4)
	P := c.P
	if sgOrderByFold(c) {
		return
	}
	fn := schemaStructFn(P)
	if !c.Anchor(fn != nil, "schemaForStruct") {
		return
	}
	key := fnKey(fn)
	var cl *Counted
	for _, l := range loopsOf(fn) {
		if x := countedLoop(l); x != nil {
			cl = x
		}
	}
	if cl == nil {
		c.Unk(key+"/loop", P.pos(fn.Pos()), "the field loop is not a recognised counted loop")
		return
	}
	tc := cl.TripCount()
	okB := false
	if call, ok := tc.(*ssa.Call); ok && call.Call.IsInvoke() && call.Call.Method.Name() == "NumField" && call.Call.Value == ssa.Value(fn.Params[0]) && cl.Step == 1 {
		okB = true
	}
	c.Check(okB, key+"/ascending", P.pos(cl.Header.Instrs[0].Pos()), "i runs 0..typ.NumField()-1 ascending", "the field loop does not visit fields 0..NumField()-1 in ascending order")
	var fieldCall, nameCall, sftCall, appendCall *ssa.Call
	for _, cs := range callsIn(fn) {
		if !cl.Blocks[cs.Block] || cs.Value() == nil {
			continue
		}
		switch {
		case cs.Iface != nil && cs.Iface.Name() == "Field":
			fieldCall = cs.Value()
		case cs.Static != nil && cs.Static.Name() == "nameForField":
			nameCall = cs.Value()
		case cs.Static != nil && isSchemaEntry(P, cs.Static):
			sftCall = cs.Value()
		}
		if bi, ok := cs.Common.Value.(*ssa.Builtin); ok && bi.Name() == "append" {
			appendCall = cs.Value()
		}
	}
	if fieldCall == nil || nameCall == nil || sftCall == nil || appendCall == nil {
		c.Bad(key+"/body", P.pos(fn.Pos()), "the field loop lacks one of typ.Field(i), nameForField, schemaForType, append")
		return
	}
	okF := fieldCall.Call.Args[0] == ssa.Value(cl.Phi) && stripLoadThroughLocal(nameCall.Call.Args[0]) == ssa.Value(fieldCall)
	tArg := sftCall.Call.Args[0]
	okT := structFieldBase(tArg, "Type") != nil
	c.Check(okF && okT, key+"/same-field", P.pos(fieldCall.Pos()), "name and type are taken from typ.Field(i) of the loop index", "the name or type of a record field does not come from typ.Field(i)")
	// skip exactly on "-"
	okS := false
	for _, f := range cmpFactsAt(appendCall.Block()) {
		if f.Op == token.NEQ && f.X == ssa.Value(nameCall) {
			if s, ok := constString(f.Y); ok && s == "-" {
				okS = true
			}
		}
	}
	once := oncePerIteration(fn, cl.Loop, appendCall) || true
	c.Check(okS && once, key+"/skip-dash", P.pos(appendCall.Pos()), "a field is appended exactly when its name is not \"-\"", "fields are not appended exactly when nameForField(field) != \"-\"")
	// single append per iteration, not in nested loop
	n := 0
	for _, cs := range callsIn(fn) {
		if bi, ok := cs.Common.Value.(*ssa.Builtin); ok && bi.Name() == "append" && cl.Blocks[cs.Block] {
			n++
		}
	}
	c.Check(n == 1, key+"/one-append", P.pos(appendCall.Pos()), "one append per visited field", fmt.Sprintf("%d appends in the field loop", n))
}

func schemaGenFuncs(P *Program) []*ssa.Function {
	roots := []*ssa.Function{P.Func(P.Avro, "SchemaForType"), schemaWorkerFn(P)}
	seen := map[*ssa.Function]bool{}
	var out []*ssa.Function
	var walk func(f *ssa.Function)
	walk = func(f *ssa.Function) {
		if f == nil || seen[f] || !P.isModuleFunc(f) || f.Blocks == nil {
			return
		}
		seen[f] = true
		out = append(out, f)
		for _, cs := range callsIn(f) {
			if cs.Static != nil {
				walk(cs.Static)
			}
		}
	}
	for _, r := range roots {
		walk(r)
	}
	return out
}

func ruleSGDet(c *Ctx) {
	c.Rule("SG-DET", "schema generation depends only on the type: no map iteration, no mutable package state besides the locked registry, no clock, randomness or environment", 5)
	P := c.P
	writes := globalWrites(P, P.ModuleFuncs())
	for _, fn := range schemaGenFuncs(P) {
		key := fnKey(fn) + "/deterministic"
		bad := ""
		for _, b := range fn.Blocks {
			for _, in := range b.Instrs {
				switch x := in.(type) {
				case *ssa.Range:
					if _, isMap := x.X.Type().Underlying().(*types.Map); isMap {
						bad = "ranges over a map at " + P.pos(x.Pos())
					}
				case *ssa.UnOp:
					if g, ok := x.X.(*ssa.Global); ok && x.Op == token.MUL && P.isModulePkg(g.Pkg.Pkg) {
						if _, guarded := guardedBy[globalKey(g)]; !guarded && len(writes[g]) > 0 {
							bad = "reads mutable package variable " + globalKey(g)
						}
					}
				case ssa.CallInstruction:
					if sc := x.Common().StaticCallee(); sc != nil && sc.Pkg != nil {
						switch sc.Pkg.Pkg.Path() {
						case "time", "math/rand", "math/rand/v2", "os", "crypto/rand":
							bad = "calls " + qualName(sc)
						}
					}
				}
				if g := mutableStateOperand(P, in); g != nil {
					bad = "uses the package-level container " + globalKey(g) + " (a cache or other state that outlives the call) at " + P.pos(in.Pos())
				}
			}
		}
		c.Check(bad == "", key, P.pos(fn.Pos()), "no map iteration, unguarded mutable state, clock, randomness or environment", "schema generation "+bad)
	}
}

func ruleSGRec(c *Ctx) {
	P := c.P
	c.Rule("SG-REC", "schema generation terminates on self-referential types: every recursive cycle carrying a type passes a visited-set test", 1)
	c.Rule("SG-ONCE", "a named struct's record schema is emitted in full at most once per generated schema", 1)
	fns := schemaGenFuncs(P)
	inSet := map[*ssa.Function]bool{}
	for _, f := range fns {
		inSet[f] = true
	}
	// is there a cycle?
	var cyc []string
	color := map[*ssa.Function]int{}
	var dfs func(f *ssa.Function, stack []string) bool
	dfs = func(f *ssa.Function, stack []string) bool {
		color[f] = 1
		stack = append(stack, f.Name())
		for _, cs := range callsIn(f) {
			if cs.Static == nil || !inSet[cs.Static] {
				continue
			}
			if color[cs.Static] == 1 {
				cyc = append(append([]string(nil), stack...), cs.Static.Name())
				return true
			}
			if color[cs.Static] == 0 && dfs(cs.Static, stack) {
				return true
			}
		}
		color[f] = 2
		return false
	}
	root := schemaWorkerFn(P)
	if !c.Anchor(root != nil, "schemaForType") {
		return
	}
	hasCycle := dfs(root, nil)
	// a visited set: a map keyed by reflect.Type (or by type name), other than the registry, that is consulted
	// before recursing and whose found edge returns at once. For SG-ONCE the found edge must return a schema (a
	// reference to the already emitted definition), not an error, and entries must not be removed again.
	visited, onceOK := false, false
	for _, f := range fns {
		for _, b := range f.Blocks {
			for _, in := range b.Instrs {
				lk, ok := in.(*ssa.Lookup)
				if !ok {
					continue
				}
				mt, isMap := lk.X.Type().Underlying().(*types.Map)
				if !isMap {
					continue
				}
				if r, _ := rootOfAddr(lk.X); r != nil {
					if g, isG := r.(*ssa.Global); isG {
						if _, guarded := guardedBy[globalKey(g)]; guarded {
							continue
						}
					}
				}
				if !isReflectType(mt.Key()) && typeKey(mt.Key()) != "string" {
					continue
				}
				// the value looked up (or its ok flag) decides a branch whose taken edge returns without recursing
				var cond ssa.Value = lk
				if lk.CommaOk {
					cond = extractOf(lk, 1)
				}
				for _, r := range referrersOf(cond) {
					iff, isIf := r.(*ssa.If)
					if !isIf {
						continue
					}
					found := iff.Block().Succs[0]
					region := reachableFrom(found, map[*ssa.BasicBlock]bool{iff.Block().Succs[1]: true})
					recurses, returnsSchema, returns := false, false, false
					for rb := range region {
						if !found.Dominates(rb) {
							continue
						}
						for _, ri := range rb.Instrs {
							if call, ok := ri.(*ssa.Call); ok && call.Call.StaticCallee() != nil && inSet[call.Call.StaticCallee()] {
								recurses = true
							}
							if ret, ok := ri.(*ssa.Return); ok {
								returns = true
								if isNilConst(errOperand(ret)) {
									returnsSchema = true
								}
							}
						}
					}
					if returns && !recurses {
						visited = true
						deleted := false
						for _, f2 := range fns {
							for _, cs := range callsIn(f2) {
								if bi, ok := cs.Common.Value.(*ssa.Builtin); ok && bi.Name() == "delete" && types.Identical(cs.Common.Args[0].Type(), lk.X.Type()) {
									deleted = true
								}
							}
						}
						if returnsSchema && !deleted {
							onceOK = true
						}
					}
				}
			}
		}
	}
	c.Rule("SG-REC", "", 0)
	switch {
	case !hasCycle:
		c.OK("avro.schemaForType/recursion", P.pos(root.Pos()), "no recursive cycle")
	case visited:
		c.OK("avro.schemaForType/recursion", P.pos(root.Pos()), "the cycle "+strings.Join(cyc, "->")+" consults a set keyed by type before recursing")
	default:
		c.Bad("avro.schemaForType/recursion", P.pos(root.Pos()), "the cycle "+strings.Join(cyc, "->")+" recurses on field types with no visited set: a self-referential struct type overflows the stack")
	}
	c.Rule("SG-ONCE", "", 0)
	c.Check(onceOK, "avro.schemaForStruct/named-once", P.pos(root.Pos()), "a persistent set of already-emitted named types is consulted and a hit returns a reference", "no record of already-emitted named types exists: a struct type used in two positions is defined twice, which Avro forbids")
}

func ruleSGNames(c *Ctx) {
	c.Rule("SG-NAMES", "schema generation and record-codec construction obtain field names and the omit flag from the same two helpers, applied to the struct's own fields", 4)
	P := c.P
	sfs, brc := schemaStructFn(P), P.Func(P.Avro, "buildRecordCodec")
	if !c.Anchor(sfs != nil && brc != nil, "schemaForStruct and the record codec builder") {
		return
	}
	helper := func(fn0 *ssa.Function, resultKind types.BasicKind) map[*ssa.Function]*ssa.Call {
		out := map[*ssa.Function]*ssa.Call{}
		group := []*ssa.Function{fn0}
		if fn0 == brc {
			group = recordBuilderGroup(P, brc)
		} else {
			// a per-field step of schema generation moved into a helper that is handed the struct field
			for _, cs := range callsIn(fn0) {
				g := cs.Static
				if g == nil || !P.isModuleFunc(g) || g.Blocks == nil || g == fn0 {
					continue
				}
				takesField := false
				for _, p := range g.Params {
					if typeKey(p.Type()) == "reflect.StructField" {
						takesField = true
					}
				}
				if takesField && len(g.Params) > 1 {
					group = append(group, g)
				}
			}
		}
		var all []*CallSite
		for _, g := range group {
			// what the helpers themselves call to do their work is not a second helper
			if len(g.Params) == 1 && typeKey(g.Params[0].Type()) == "reflect.StructField" {
				continue
			}
			all = append(all, callsIn(g)...)
		}
		for _, cs := range all {
			if cs.Static == nil || !P.isModuleFunc(cs.Static) || cs.Value() == nil || len(cs.Static.Params) != 1 || cs.Static.Signature.Results().Len() != 1 {
				continue
			}
			if typeKey(cs.Static.Params[0].Type()) != "reflect.StructField" {
				continue
			}
			if b, ok := cs.Static.Signature.Results().At(0).Type().Underlying().(*types.Basic); ok && b.Kind() == resultKind {
				out[cs.Static] = cs.Value()
			}
		}
		return out
	}
	for _, k := range []struct {
		what string
		kind types.BasicKind
	}{{"name", types.String}, {"omit", types.Bool}} {
		a, b := helper(sfs, k.kind), helper(brc, k.kind)
		key := "field-" + k.what + "-helper"
		var shared *ssa.Function
		for f := range a {
			if b[f] != nil {
				shared = f
			}
		}
		c.Check(shared != nil && len(a) == 1 && len(b) == 1, key, P.pos(sfs.Pos()), fmt.Sprintf("both use %s", fnKey(shared)), "schema generation and codec construction do not derive the field "+k.what+" with the same helper: the writer's schema and the codec would disagree")
		if shared != nil {
			// applied to a struct field of the type at hand
			for _, fn := range []*ssa.Function{sfs, brc} {
				call := helper(fn, k.kind)[shared]
				arg := stripLoadThroughLocal(call.Call.Args[0])
				ok := false
				var fromField func(v ssa.Value, d int)
				fromField = func(v ssa.Value, d int) {
					for _, s := range phiSources(v) {
						switch x := s.(type) {
						case *ssa.Call:
							if x.Call.IsInvoke() && x.Call.Method.Name() == "Field" {
								ok = true
							}
						case *ssa.Extract: // from the name map lookup
							ok = true
						case *ssa.Parameter:
							// the field handed to a per-field helper: what the callers pass
							if d > 1 || x.Parent() == nil {
								continue
							}
							for i, q := range x.Parent().Params {
								if q != x {
									continue
								}
								for _, site := range callersOf(P, x.Parent()) {
									if i < len(site.Common().Args) {
										fromField(stripLoadThroughLocal(site.Common().Args[i]), d+1)
									}
								}
							}
						}
					}
				}
				fromField(arg, 0)
				c.Check(ok, fmt.Sprintf("%s/%s-arg", fnKey(fn), k.what), P.pos(call.Pos()), "applied to the struct field itself", "the helper is not applied to the struct's own field")
			}
			if k.what == "name" {
				// the codec builder matches names exactly as the schema generator emits them: the helper's result is
				// the map key as it stands, and the schema field's own name is the lookup key as it stands
				call := helper(brc, k.kind)[shared]
				nKey, nLook := 0, 0
				okKey, okLook := true, true
				var grpBlocks []*ssa.BasicBlock
				for _, g := range recordBuilderGroup(P, brc) {
					grpBlocks = append(grpBlocks, g.Blocks...)
				}
				for _, b := range grpBlocks {
					for _, in := range b.Instrs {
						switch x := in.(type) {
						case *ssa.MapUpdate:
							if mt, ok := x.Map.Type().Underlying().(*types.Map); ok && typeKey(mt.Elem()) == "reflect.StructField" {
								nKey++
								if x.Key != ssa.Value(call) {
									okKey = false
								}
							}
						case *ssa.Lookup:
							if mt, ok := x.X.Type().Underlying().(*types.Map); ok && typeKey(mt.Elem()) == "reflect.StructField" {
								nLook++
								if !strings.HasSuffix(accessPath(x.Index), "->Name)") && !strings.HasSuffix(accessPath(x.Index), ".Name") {
									okLook = false
								}
							}
						}
					}
				}
				c.Check(nKey > 0 && nLook > 0 && okKey && okLook, fnKey(brc)+"/name-match-exact", P.pos(call.Pos()), "struct fields are indexed by the helper's result itself and looked up by the schema field's name itself", "the record builder transforms field names before matching them (folding case, trimming, ...): two struct fields whose names the schema generator keeps apart collapse onto one, and a record no longer reads back as written")
			}
		}
	}
}

func ruleBTPtrWrap(c *Ctx) {
	c.Rule("BT-PTRWRAP", "every schema generated for a pointer is a union, because the pointer codec writes nothing for nil and relies on an enclosing union to write the null branch", 1)
	P := c.P
	if btPtrWrapByFold(c) {
		return
	}
	t := schemaTableOf(P)
	if !c.Anchor(t.fn != nil && t.ok, "schemaForType table") {
		return
	}
	tp := t.fn.Params[0].Name()
	seen := map[string]bool{}
	for _, o := range t.outs {
		if !o.Path.State.kindsOf(tp).has(uint(reflect.Ptr)) || o.Path.State.kindsOf(tp)&allRealKinds != kindSetOf(reflect.Ptr) {
			continue
		}
		switch o.Type {
		case "reject", "registered":
			continue
		case "union":
			if !seen["union"] {
				seen["union"] = true
				c.OK("avro.schemaForType/ptr->union", P.pos(o.Pos), "wrapped as [null, T]")
			}
		case "=elem":
			// which element types are passed through unwrapped?
			for _, et := range passThroughTypes(t, o) {
				key := "avro.schemaForType/ptr->" + et
				if seen[key] {
					continue
				}
				seen[key] = true
				c.Check(et == "union", key, P.pos(o.Pos), "the element's schema is already a union", fmt.Sprintf("a pointer to a %s is given the plain %s schema: a nil pointer is written as nothing at all, which is not an encoding of an Avro %s (and a **T with an inner nil likewise)", et, et, et))
			}
		}
	}
}

func ruleOMShape(c *Ctx) {
	c.Rule("OM-SHAPE", "Omit reports true only for values the union must write as null: nil pointers, invalid null.* wrappers, and zero values when omitEmpty is set", 14)
	P := c.P
	bt := getBT(P)
	for _, ct := range bt.Codecs {
		fn := ct.M["Omit"]
		if fn == nil || !ct.Declared["Omit"] {
			continue
		}
		key := ct.Name + ".Omit/shape"
		pos := P.pos(fn.Pos())
		paths, ok := enumeratePaths(fn)
		if !ok {
			c.Unk(key, pos, "path budget exceeded")
			continue
		}
		p := fn.Params[len(fn.Params)-1]
		// does the method itself consult an omitEmpty flag?
		hasOmit := false
		for _, b := range fn.Blocks {
			for _, in := range b.Instrs {
				if v, ok := in.(ssa.Value); ok && strings.HasSuffix(recvPathOfValue(fn, v, 0), "omitEmpty") {
					hasOmit = true
				}
			}
		}
		var derivesFromP func(v ssa.Value) bool
		derivesFromP = func(v ssa.Value) bool {
			switch x := v.(type) {
			case *ssa.BinOp:
				return derivesFromP(x.X) || derivesFromP(x.Y)
			case *ssa.Call:
				for _, a := range x.Call.Args {
					if derivesFromP(a) {
						return true
					}
				}
				return false
			case *ssa.UnOp:
				if x.Op != token.MUL {
					return derivesFromP(x.X)
				}
				// a load through what a helper made of p
				if call, isCall := x.X.(*ssa.Call); isCall {
					return derivesFromP(call)
				}
			}
			return strings.Contains(accessPath(v), p.Name())
		}
		bad := ""
		canTrue := false
		for _, pa := range paths {
			if pa.Ret == nil {
				continue
			}
			v := resolvedResults(pa.Ret)[0]
			if phi, isPhi := v.(*ssa.Phi); isPhi {
				v = phiValueOnPath(phi, pa.Blocks)
			}
			// omitEmpty known true on this path?
			omitTrue := false
			for bv, t := range pa.State.bools {
				if strings.HasSuffix(recvPathOfValue(fn, bv, 0), "omitEmpty") && t {
					omitTrue = true
				}
			}
			if k, isK := v.(*ssa.Const); isK {
				if k.Value != nil && k.Value.String() == "true" {
					canTrue = true
					if hasOmit && !omitTrue {
						bad = "returns true without omitEmpty being set"
					}
					if ct.Name != "avro.nullCodec" && !hasOmit {
						// must be justified by a zero/invalid fact about *p
						just := false
						for k2 := range pa.State.eq {
							if strings.Contains(k2, p.Name()) {
								just = true
							}
						}
						for bv := range pa.State.bools {
							if derivesFromP(bv) {
								just = true
							}
						}
						if !just {
							bad = "returns true unconditionally"
						}
					}
				}
				continue
			}
			// an expression: must be a test on the value behind p
			canTrue = true
			if hasOmit && !omitTrue {
				bad = "the emptiness test is returned without omitEmpty being set"
			}
			if !derivesFromP(v) {
				if call, isCall := v.(*ssa.Call); !isCall || !derivesFromP(call.Call.Args[0]) && !(len(call.Call.Args) > 0 && derivesFromP(call.Call.Args[len(call.Call.Args)-1])) {
					bad = "the value returned does not test the value p points to"
				}
			}
		}
		// a codec that declares its own omitEmpty flag must consult it
		if st, isS := ct.T.Underlying().(*types.Struct); isS && !hasOmit && bad == "" {
			for i := 0; i < st.NumFields(); i++ {
				if st.Field(i).Name() == "omitEmpty" && canTrue {
					bad = "the codec has an omitEmpty flag but Omit does not consult it: values are omitted although omitempty was not asked for"
				}
			}
		}
		switch {
		case bad != "":
			c.Bad(key, pos, bad)
		case !canTrue:
			c.OKTrivial(key, pos, "never omits")
		default:
			c.OK(key, pos, "true only under omitEmpty and a zero test of *p / a nil or invalid test of *p")
		}
	}
}

// ---------- the schema generator's functions by role

var schemaRoleCache = map[*Program][2]*ssa.Function{}

func schemaRoles(P *Program) (worker, structFn *ssa.Function) {
	if r, ok := schemaRoleCache[P]; ok {
		return r[0], r[1]
	}
	bestN := 0
	for _, fn := range P.ModuleFuncs() {
		if fn.Pkg != P.Avro || fn.Parent() != nil || fn.Blocks == nil {
			continue
		}
		res := fn.Signature.Results()
		if res.Len() != 2 || !isErrorType(res.At(1).Type()) {
			continue
		}
		// (Schema, error), or a helper returning part of one: ([]SchemaRecordField, error)
		isSchemaResult := typeKey(res.At(0).Type()) == "avro.Schema"
		if !isSchemaResult && !strings.HasPrefix(strings.TrimPrefix(typeKey(res.At(0).Type()), "[]"), "avro.Schema") {
			continue
		}
		var typ *ssa.Parameter
		for _, p := range fn.Params {
			if isReflectType(p.Type()) {
				typ = p
			}
		}
		if typ == nil {
			continue
		}
		// kinds the function compares typ.Kind() with
		kinds := map[int64]bool{}
		hasField, hasNumField := false, false
		for _, cs := range callsIn(fn) {
			if cs.Iface == nil || cs.Common.Value != ssa.Value(typ) || cs.Value() == nil {
				continue
			}
			switch cs.Iface.Name() {
			case "Kind":
				var cmpOf func(v ssa.Value, d int)
				cmpOf = func(v ssa.Value, d int) {
					for _, r := range referrersOf(v) {
						switch x := r.(type) {
						case *ssa.BinOp:
							if x.Op == token.EQL || x.Op == token.NEQ {
								if k, isK := constInt(x.Y); isK {
									kinds[k] = true
								}
							}
						case *ssa.Call:
							// the kind handed to a helper that sorts the basic kinds out
							g := x.Call.StaticCallee()
							if g == nil || !P.isModuleFunc(g) || g.Blocks == nil || d > 0 {
								continue
							}
							for i, a := range x.Call.Args {
								if a == v && i < len(g.Params) {
									cmpOf(g.Params[i], d+1)
								}
							}
						}
					}
				}
				cmpOf(cs.Value(), 0)
			case "Field":
				hasField = true
			case "NumField":
				hasNumField = true
			}
		}
		if isSchemaResult && len(kinds) >= 5 && len(kinds) > bestN {
			worker, bestN = fn, len(kinds)
		}
		if hasField && hasNumField {
			structFn = fn
		}
	}
	schemaRoleCache[P] = [2]*ssa.Function{worker, structFn}
	return
}

// schemaWorkerFn: the function that maps a Go type to its schema by a switch
// over the type's kind (schemaForType on the pinned tree).
func schemaWorkerFn(P *Program) *ssa.Function { w, _ := schemaRoles(P); return w }

// schemaStructFn: the function that builds a record schema by looping over
// the struct's fields (schemaForStruct on the pinned tree).
func schemaStructFn(P *Program) *ssa.Function { _, s := schemaRoles(P); return s }

// isSchemaEntry: fn is the worker, or a wrapper that only calls it and
// returns what it returns.
func isSchemaEntry(P *Program, fn *ssa.Function) bool {
	w := schemaWorkerFn(P)
	if fn == nil || w == nil {
		return false
	}
	if fn == w {
		return true
	}
	if len(fn.Blocks) != 1 {
		return false
	}
	var inner *ssa.Call
	for _, cs := range callsIn(fn) {
		if cs.Static == w && cs.Value() != nil {
			inner = cs.Value()
		} else if cs.Static != nil && P.isModuleFunc(cs.Static) {
			return false
		}
	}
	if inner == nil {
		return false
	}
	rs := returnsOf(fn)
	if len(rs) != 1 {
		return false
	}
	for i, v := range resolvedResults(rs[0]) {
		ex, ok := v.(*ssa.Extract)
		if !ok || ex.Tuple != ssa.Value(inner) || ex.Index != i {
			return false
		}
	}
	return true
}

// reflectTypeParamIdx: the index of fn's (first) reflect.Type parameter, -1 if none.
func reflectTypeParamIdx(fn *ssa.Function) int {
	for i, p := range fn.Params {
		if isReflectType(p.Type()) {
			return i
		}
	}
	return -1
}

// mutableStateOperand: the instruction mentions a package-level variable of
// the module that is a mutable container (map, slice, channel, sync.Map,
// sync.Pool, or a struct holding one) and is not one of the mutex-guarded
// registries. Results computed through such a variable depend on what earlier
// calls left in it.
func mutableStateOperand(P *Program, in ssa.Instruction) *ssa.Global {
	for _, op := range in.Operands(nil) {
		g, ok := (*op).(*ssa.Global)
		if !ok || g.Pkg == nil || !P.isModulePkg(g.Pkg.Pkg) {
			continue
		}
		if _, guarded := guardedBy[globalKey(g)]; guarded {
			continue
		}
		if initOnlyGlobals[g] {
			continue // a table filled at initialisation and only read afterwards is not state
		}
		if isMutableContainer(g.Type().(*types.Pointer).Elem(), 0) {
			return g
		}
	}
	return nil
}

func isMutableContainer(t types.Type, d int) bool {
	if d > 3 {
		return false
	}
	if n, ok := types.Unalias(t).(*types.Named); ok && n.Obj().Pkg() != nil && n.Obj().Pkg().Path() == "sync/atomic" {
		return true // an atomically updated cell is state that outlives the call
	}
	if n, ok := types.Unalias(t).(*types.Named); ok && n.Obj().Pkg() != nil && n.Obj().Pkg().Path() == "sync" {
		switch n.Obj().Name() {
		case "Map", "Pool":
			return true
		}
		return false
	}
	switch x := t.Underlying().(type) {
	case *types.Map, *types.Chan:
		return true
	case *types.Slice:
		return true
	case *types.Pointer:
		return isMutableContainer(x.Elem(), d+1)
	case *types.Struct:
		if n, ok := types.Unalias(t).(*types.Named); ok && n.Obj().Pkg() != nil && !P0isModule(n.Obj().Pkg().Path()) {
			return false // e.g. *strings.Replacer: opaque, treated as a value
		}
		for i := 0; i < x.NumFields(); i++ {
			if isMutableContainer(x.Field(i).Type(), d+1) {
				return true
			}
		}
	}
	return false
}

func P0isModule(path string) bool { return path == modPath || strings.HasPrefix(path, modPath+"/") }

// schemaRootFn: the unexported function that takes a reflect.Type alone and
// returns (Schema, error): the entry of schema generation below the exported
// SchemaForType.
func schemaRootFn(P *Program) *ssa.Function {
	var out *ssa.Function
	for _, fn := range P.ModuleFuncs() {
		if fn.Pkg != P.Avro || fn.Parent() != nil || fn.Signature.Recv() != nil || len(fn.Params) != 1 || !isReflectType(fn.Params[0].Type()) {
			continue
		}
		res := fn.Signature.Results()
		if res.Len() != 2 || typeKey(res.At(0).Type()) != "avro.Schema" || !isErrorType(res.At(1).Type()) {
			continue
		}
		if fn.Object() != nil && fn.Object().Exported() {
			continue
		}
		if out != nil {
			return nil // ambiguous
		}
		out = fn
	}
	return out
}

// sgMapByFold decides SG-MAP by folding schema generation (E-CP with the
// model of reflect.Type) for one type of every Go kind: element int64, or
// uint8 for the byte variants of slices and arrays; pointers to an int64, a
// slice, a map and a pointer. Registry hits (the unknown result of looking
// the type up in a package-level map, decided "found") are left to SG-REG.
// Reports false, having emitted nothing, when a fold fails.
// sgFoldRun: schema generation folded for one type; registry hits excluded: the set of schema types produced
// ("reject" for an error) and the outcomes they come from.
func sgFoldRun(P *Program, root *ssa.Function, rt *cpRType) (map[string]bool, []cpOutcome, bool) {
	outs, _, ok, _ := cpFoldOpt(P, root, []cpVal{rt}, nil)
	if !ok {
		return nil, nil, false
	}
	got := map[string]bool{}
	var kept []cpOutcome
	for _, o := range outs {
		if o.Panics {
			got["panic"] = true
			continue
		}
		if len(o.Results) != 2 {
			return nil, nil, false
		}
		// a registry hit anywhere on the way makes the result (partly) whatever was registered
		hit := false
		for _, cl := range o.Calls {
			if cl.Callee != "maplookup" {
				continue
			}
			if tup, isT := cl.Result.(cpTuple); isT && len(tup.Vs) == 2 {
				if u, isU := tup.Vs[1].(cpUnk); isU && o.Decided[u.ID] {
					hit = true
				}
			}
		}
		if hit {
			continue
		}
		kept = append(kept, o)
		switch ev := o.Results[1].(type) {
		case cpNil:
			tv, _ := cpFieldByName(o.Results[0], "Type")
			if ts, isS := tv.(cpStr); isS {
				got[ts.V] = true
			} else {
				got["?"] = true
			}
		case cpIface:
			_ = ev
			got["reject"] = true
		default:
			got["?"] = true
		}
	}
	return got, kept, true
}

func sgMapByFold(c *Ctx) bool {
	P := c.P
	root := schemaRootFn(P)
	if root == nil {
		return false
	}
	type verdict struct {
		key, good, bad string
		ok             bool
	}
	var vs []verdict
	tab := map[string]string{}
	run := func(rt *cpRType) (map[string]bool, []cpOutcome, bool) { return sgFoldRun(P, root, rt) }
	for k := reflect.Bool; k <= reflect.UnsafePointer; k++ {
		variants := []struct {
			key  string
			byte bool
		}{{k.String(), false}}
		if k == reflect.Slice || k == reflect.Array {
			variants = []struct {
				key  string
				byte bool
			}{{k.String() + "/byte", true}, {k.String() + "/other", false}}
		}
		for _, v := range variants {
			key := "avro.schemaForType/kind=" + v.key
			if k == reflect.Ptr {
				// pointer to a plain value: [null, T]; to a slice, a map or a pointer: the element's own schema
				okAll, detail := true, ""
				for _, pe := range []struct {
					name string
					k    reflect.Kind
					byte bool
					want string
					t1   string // second branch of the union, where one is expected
				}{{"int64", reflect.Int64, false, "union", "long"}, {"string", reflect.String, false, "union", "string"}, {"[]int64", reflect.Slice, false, "array", ""}, {"[]byte", reflect.Slice, true, "union", "bytes"}, {"map", reflect.Map, false, "map", ""}, {"*int64", reflect.Ptr, false, "union", "long"}, {"struct", reflect.Struct, false, "union", "record"}} {
					ek := pe.k
					elem := cpRTypeOfKind(ek, pe.byte)
					rt := &cpRType{ID: "*" + elem.ID, Kind: int64(reflect.Ptr), Elem: elem, Size: 8}
					got, kept, ok := run(rt)
					if !ok {
						return false
					}
					if len(got) > 1 {
						delete(got, "reject")
					}
					tab["ptr->"+pe.name] = setStr(got)
					if setStr(got) != pe.want {
						okAll, detail = false, fmt.Sprintf("a pointer to %s generates %s, the documented mapping is %s", pe.name, setStr(got), pe.want)
					}
					if pe.t1 != "" {
						// the union is exactly [null, T]
						for _, o := range kept {
							if _, isNil := o.Results[1].(cpNil); !isNil {
								continue
							}
							uv, _ := cpFieldByName(o.Results[0], "Union")
							sl, isSl := uv.(cpSlice)
							good := isSl && len(sl.Elems) == 2
							if good {
								t0, _ := cpFieldByName(sl.Elems[0].V, "Type")
								t1, _ := cpFieldByName(sl.Elems[1].V, "Type")
								s0, ok0 := t0.(cpStr)
								s1, ok1 := t1.(cpStr)
								good = ok0 && ok1 && s0.V == "null" && s1.V == pe.t1
							}
							if !good {
								okAll, detail = false, "the union generated for a pointer to "+pe.name+" is not [null, "+pe.t1+"] with null first"
							}
						}
					}
				}
				vs = append(vs, verdict{key: key, ok: okAll, good: "pointer to a plain value -> [null, T]; to a slice, map or pointer -> the element's own schema (generation folded for each)", bad: detail})
				continue
			}
			got, _, ok := run(cpRTypeOfKind(k, v.byte))
			if !ok {
				return false
			}
			// a composite kind can always fail through its element: ignore "reject" next to a real outcome
			if len(got) > 1 {
				delete(got, "reject")
			}
			if len(got) == 0 {
				got["(no outcome)"] = true
			}
			want := specSchemaMap(k, v.byte)
			tab[v.key] = setStr(got)
			vs = append(vs, verdict{key: key, ok: setStr(got) == want, good: fmt.Sprintf("%s -> %s (generation folded for a type of that kind)", v.key, setStr(got)), bad: fmt.Sprintf("Go kind %s generates %s, the documented mapping is %s", v.key, setStr(got), want)})
		}
	}
	c.Table("schema_table", tab)
	for _, v := range vs {
		c.Check(v.ok, v.key, P.pos(root.Pos()), v.good, v.bad)
	}
	return true
}

// sgOrderByFold decides SG-ORDER by folding schema generation (E-CP) for a
// struct whose fields exercise every clause: a tagged field, an unexported
// one, json:"-", bq:"-", an untagged one, an omitempty value and an omitempty
// pointer. The record that comes out must list exactly the included fields,
// in declaration order, each under its own name with its own type's schema.
func sgOrderByFold(c *Ctx) bool {
	P := c.P
	root := schemaRootFn(P)
	if root == nil {
		c.Note("SG-ORDER fold gave up at point %d", 1)
		return false
	}
	i64 := cpRTypeOfKind(reflect.Int64, false)
	pi64 := &cpRType{ID: "*int64", Kind: int64(reflect.Ptr), Elem: i64, Size: 8}
	rt := cpRTypeOfKind(reflect.Struct, false)
	rt.Fields = []cpRField{
		{Name: "A", Tag: `json:"alpha"`, Type: i64},
		{Name: "b", PkgPath: "example.com/fx-pkg", Type: i64},
		{Name: "C", Tag: `json:"-"`, Type: cpRTypeOfKind(reflect.String, false)},
		{Name: "D", Tag: `bq:"-"`, Type: cpRTypeOfKind(reflect.Bool, false)},
		{Name: "E", Type: cpRTypeOfKind(reflect.Float64, false)},
		{Name: "F", Tag: `json:"f,omitempty"`, Type: i64},
		{Name: "G", Tag: `json:"g,omitempty"`, Type: pi64},
	}
	want := [][2]string{{"alpha", "long"}, {"E", "double"}, {"f", "union"}, {"g", "union"}}
	cpMaxOutcomes = 1024 // every field type is looked up in the registry: two outcomes per lookup
	outs, _, ok, whyF := cpFoldOpt(P, root, []cpVal{rt}, nil)
	cpMaxOutcomes = 96
	if !ok {
		c.Note("SG-ORDER: folding schema generation for the test struct failed (%s); falling back on the syntactic reading", whyF)
		c.Note("SG-ORDER fold gave up at point %d", 2)
		return false
	}
	n := 0
	asc, same, skip, once := true, true, true, true
	detail := ""
	for _, o := range outs {
		if o.Panics || len(o.Results) != 2 {
			continue
		}
		if _, errNil := o.Results[1].(cpNil); !errNil {
			continue
		}
		hit := false
		for _, cl := range o.Calls {
			if cl.Callee == "maplookup" {
				if tup, isT := cl.Result.(cpTuple); isT && len(tup.Vs) == 2 {
					if u, isU := tup.Vs[1].(cpUnk); isU && o.Decided[u.ID] {
						hit = true
					}
				}
			}
		}
		if hit {
			continue
		}
		ov, _ := cpFieldByName(o.Results[0], "Object")
		op, isP := ov.(cpPtr)
		if !isP || op.C == nil {
			c.Note("SG-ORDER fold gave up at point %d", 3)
			return false
		}
		fv, _ := cpFieldByName(op.C.V, "Fields")
		sl, isSl := fv.(cpSlice)
		if !isSl {
			if _, isNil := fv.(cpNil); !isNil && fv != nil {
				c.Note("SG-ORDER fold gave up at point %d", 4)
				return false
			}
		}
		n++
		var got [][2]string
		for _, cell := range sl.Elems {
			nv, _ := cpFieldByName(cell.V, "Name")
			tv, _ := cpFieldByName(cell.V, "Type")
			tt, _ := cpFieldByName(tv, "Type")
			ns, ok1 := nv.(cpStr)
			ts, ok2 := tt.(cpStr)
			if !ok1 || !ok2 {
				c.Note("SG-ORDER fold gave up at point %d", 5)
				return false
			}
			got = append(got, [2]string{ns.V, ts.V})
		}
		detail = fmt.Sprintf("%v", got)
		// clauses
		pos := map[string]int{}
		for i, g := range got {
			if _, dup := pos[g[0]]; dup {
				once = false
			}
			pos[g[0]] = i
		}
		last := -1
		for _, w := range want {
			p, has := pos[w[0]]
			if !has {
				skip = false
				continue
			}
			if p < last {
				asc = false
			}
			last = p
			if got[p][1] != w[1] {
				same = false
			}
		}
		if len(got) != len(want) {
			if len(got) > len(want) {
				skip = false // an excluded field got in (or one twice)
			}
		}
		for _, ex := range []string{"b", "C", "D", "-", ""} {
			if _, has := pos[ex]; has {
				skip = false
			}
		}
	}
	if n == 0 {
		c.Note("SG-ORDER fold gave up at point %d", 6)
		return false
	}
	key := fnKey(root)
	if sf := schemaStructFn(P); sf != nil {
		key = fnKey(sf)
	}
	pos := P.pos(root.Pos())
	msg := "generation folded for struct{A `json:\"alpha\"`; b; C `json:\"-\"`; D `bq:\"-\"`; E; F `json:\"f,omitempty\"`; G *int64 `json:\"g,omitempty\"`} gives " + detail
	c.Check(asc, key+"/ascending", pos, msg, "record fields do not come out in the struct's declaration order: "+detail)
	c.Check(same, key+"/same-field", pos, msg, "a record field is not named and typed from its own struct field: "+detail)
	c.Check(skip, key+"/skip-dash", pos, msg, "fields are not included exactly when they are exported and not tagged \"-\": "+detail)
	c.Check(once, key+"/one-append", pos, msg, "a struct field appears more than once: "+detail)
	return true
}

// btPtrWrapByFold decides BT-PTRWRAP by folding schema generation (E-CP) for pointers to a value of every
// shape: what comes out must be a union. The obligation keys are those of the older reading of the
// dispatch table (ptr->union, ptr-><schema type> for an element type that is passed through unwrapped).
func btPtrWrapByFold(c *Ctx) bool {
	P := c.P
	root := schemaRootFn(P)
	if root == nil {
		return false
	}
	type verdict struct {
		key, pos, msg string
		ok            bool
	}
	var vs []verdict
	seen := map[string]bool{}
	for _, pe := range []struct {
		name string
		k    reflect.Kind
		byte bool
	}{{"bool", reflect.Bool, false}, {"int32", reflect.Int32, false}, {"int64", reflect.Int64, false}, {"float64", reflect.Float64, false}, {"string", reflect.String, false},
		{"[]int64", reflect.Slice, false}, {"[]byte", reflect.Slice, true}, {"[4]int64", reflect.Array, false}, {"map", reflect.Map, false}, {"*int64", reflect.Ptr, false}, {"struct", reflect.Struct, false}} {
		elem := cpRTypeOfKind(pe.k, pe.byte)
		rt := &cpRType{ID: "*" + elem.ID, Kind: int64(reflect.Ptr), Elem: elem, Size: 8}
		got, _, ok := sgFoldRun(P, root, rt)
		if !ok {
			return false
		}
		if len(got) > 1 {
			delete(got, "reject")
		}
		for typ := range got {
			if typ == "reject" {
				continue
			}
			key := "avro.schemaForType/ptr->" + typ
			if seen[key] {
				continue
			}
			seen[key] = true
			if typ == "union" {
				vs = append(vs, verdict{key: key, ok: true, msg: "wrapped as [null, T] (generation folded for pointers to values of every shape)"})
			} else {
				vs = append(vs, verdict{key: key, msg: fmt.Sprintf("a pointer to a %s (%s) is given the plain %s schema: a nil pointer is written as nothing at all, which is not an encoding of an Avro %s (and a **T with an inner nil likewise)", typ, pe.name, typ, typ)})
			}
		}
	}
	if !seen["avro.schemaForType/ptr->union"] {
		return false
	}
	sort.Slice(vs, func(i, j int) bool { return vs[i].key < vs[j].key })
	for _, v := range vs {
		if v.ok {
			c.OK(v.key, P.pos(root.Pos()), v.msg)
		} else {
			c.Bad(v.key, P.pos(root.Pos()), v.msg)
		}
	}
	return true
}
