package main

import (
	"fmt"
	"go/types"
	"strings"

	"golang.org/x/tools/go/ssa"
)

// CP-DRAIN: a decompressor that pulls its output from a streaming reader (compress/flate) gets *all* of it,
// and gets it without inventing end-of-stream conditions: the plaintext is what a standard drain-to-EOF
// returns — (*bytes.Buffer).ReadFrom, io.ReadAll, io.Copy/CopyBuffer/CopyN-free, (io.WriterTo).WriteTo —
// with the flate reader as the source. A hand-written loop over Read / io.ReadFull / io.ReadAtLeast has to
// get right what those get right (a read that fills the buffer exactly, io.EOF together with data,
// io.ErrUnexpectedEOF from ReadFull meaning "short", not "finished"); it is not judged here: undecided.

var drainCalls = map[string]int{ // qualified name -> index of the source reader among the arguments
	"(*bytes.Buffer).ReadFrom": 1,
	"io.ReadAll":               0,
	"io.Copy":                  1,
	"io.CopyBuffer":            1,
}

var pieceReads = map[string]bool{"io.ReadFull": true, "io.ReadAtLeast": true, "io.CopyN": true}

func ruleCPDrain(c *Ctx, s *readFileShape) {
	c.Rule("CP-DRAIN", "a streaming decompressor's output is obtained by a standard drain to end-of-stream, not by a hand-written read loop", 1)
	P := c.P
	if !c.Anchor(s.compIface != nil, "compression interface") {
		return
	}
	isReader := func(t types.Type) bool {
		it, ok := t.Underlying().(*types.Interface)
		if !ok {
			return false
		}
		for i := 0; i < it.NumMethods(); i++ {
			if it.Method(i).Name() == "Read" {
				return true
			}
		}
		return false
	}
	for _, impl := range implementations(P, s.compIface) {
		fn := P.Method(impl, "decompress")
		if fn == nil {
			continue
		}
		var fns []*ssa.Function
		seenFn := map[*ssa.Function]bool{}
		var gather func(f *ssa.Function, d int)
		gather = func(f *ssa.Function, d int) {
			if seenFn[f] || d > 2 {
				return
			}
			seenFn[f] = true
			fns = append(fns, f)
			for _, cs := range callsIn(f) {
				if cs.Static != nil && P.isModuleFunc(cs.Static) && cs.Static.Blocks != nil {
					gather(cs.Static, d+1)
				}
			}
		}
		gather(fn, 0)
		streaming := false
		var drains, pieces []string
		var pos string
		for _, f := range fns {
			for _, cs := range callsIn(f) {
				if cs.Static != nil && strings.HasPrefix(qualName(cs.Static), "compress/flate.") {
					streaming = true
				}
				if cs.Static != nil {
					q := qualName(cs.Static)
					if i, ok := drainCalls[q]; ok && i < len(cs.Common.Args) && isReader(cs.Common.Args[i].Type()) {
						drains = append(drains, q)
						pos = P.pos(cs.Instr.Pos())
					}
					if pieceReads[q] {
						pieces = append(pieces, q+" at "+P.pos(cs.Instr.Pos()))
					}
				}
				if cs.Iface != nil && cs.Iface.Name() == "Read" && isReader(cs.Common.Value.Type()) {
					pieces = append(pieces, "Read at "+P.pos(cs.Instr.Pos()))
				}
			}
		}
		if !streaming {
			continue
		}
		// ... and nothing else: no success return hands back (a part of) the compressed input itself, whatever the
		// input looks like — a stored block taken straight from the payload has not been through the
		// decompressor's own checks (lengths and their complements, the end-of-stream marker)
		if len(fn.Params) >= 2 {
			in := fn.Params[len(fn.Params)-1]
			var fromInput func(v ssa.Value, d int) bool
			fromInput = func(v ssa.Value, d int) bool {
				if v == ssa.Value(in) {
					return true
				}
				if d > 8 {
					return false
				}
				switch x := v.(type) {
				case *ssa.Slice:
					return fromInput(x.X, d+1)
				case *ssa.ChangeType:
					return fromInput(x.X, d+1)
				case *ssa.Phi:
					for _, e := range x.Edges {
						if fromInput(e, d+1) {
							return true
						}
					}
				}
				return false
			}
			shortcut := ""
			for _, r := range returnsOf(fn) {
				res := resolvedResults(r)
				if len(res) != 2 || !isNilConst(res[1]) {
					continue
				}
				if fromInput(res[0], 0) {
					shortcut = P.pos(r.Pos())
				}
			}
			c.Check(shortcut == "", fnKey(fn)+"/only-the-drain", P.pos(fn.Pos()), "no success return hands back a part of the compressed input as the plaintext", "the return at "+shortcut+" hands back (a part of) the compressed input as the plaintext: that block has not been through the decompressor, so damage the decompressor would refuse is accepted")
		}
		key := fnKey(fn) + "/drain"
		switch {
		case len(pieces) > 0:
			c.Unk(key, P.pos(fn.Pos()), fmt.Sprintf("the decompressed bytes are collected by hand (%s): whether every stream length is handled — one that fills the buffer exactly, an empty one, io.EOF arriving with or after the last bytes — is not decided", strings.Join(pieces, ", ")))
		case len(drains) == 1:
			c.OK(key, pos, "the plaintext is everything "+drains[0]+" reads from the decompressor up to io.EOF")
		default:
			c.Unk(key, P.pos(fn.Pos()), fmt.Sprintf("no single standard drain of the decompressor found (%d)", len(drains)))
		}
	}
}
