package main

// Registration rules: PC-REG, REG-PAIR, REG-OVERWRITE, BT-REG, SG-REG.

import (
	"fmt"
	"go/token"
	"go/types"
	"reflect"
	"sort"
	"strings"

	"golang.org/x/tools/go/ssa"
)

type registration struct {
	In      *ssa.Function // the RegisterCodecs function
	T       types.Type    // registered Go type
	Builder *ssa.Function
	Schema  ssa.Value     // argument of RegisterSchema, if any (structural reading)
	Folded  *foldedSchema // the registered schema as folded (E-CP reading)
	Pos     token.Pos
	SPos    token.Pos
}

var regCache = map[*Program][]*registration{}

func findRegistrations(P *Program) []*registration {
	if r, ok := regCache[P]; ok {
		return r
	}
	r := findRegistrations0(P)
	regCache[P] = r
	return r
}

func findRegistrations0(P *Program) []*registration {
	if rs, ok := registrationsByFold(P); ok {
		return rs
	}
	byType := map[string]*registration{}
	var order []string
	for _, sp := range []*ssa.Package{P.Time, P.Null, P.Avro} {
		for _, m := range sp.Members {
			fn, ok := m.(*ssa.Function)
			if !ok || fn.Blocks == nil {
				continue
			}
			for _, cs := range callsIn(fn) {
				if cs.Static == nil {
					continue
				}
				q := qualNameShort(cs.Static)
				if q != "Register" && q != "RegisterSchema" {
					continue
				}
				if cs.Static.Pkg != P.Avro {
					continue
				}
				T := newContractEnv(P).reflectTypeStatic(cs.Common.Args[0])
				if T == nil {
					continue
				}
				k := fnKey(fn) + "|" + typeKey(T)
				r := byType[k]
				if r == nil {
					r = &registration{In: fn, T: T}
					byType[k] = r
					order = append(order, k)
				}
				if q == "Register" {
					if f, ok := stripChange(cs.Common.Args[1]).(*ssa.Function); ok {
						r.Builder = f
					}
					r.Pos = cs.Instr.Pos()
				} else {
					r.Schema = cs.Common.Args[1]
					r.SPos = cs.Instr.Pos()
				}
			}
		}
	}
	sort.Strings(order)
	var out []*registration
	for _, k := range order {
		out = append(out, byType[k])
	}
	return out
}

func rulePCReg(c *Ctx) {
	c.Rule("PC-REG", "every codec a registered builder can return views the destination as the very type it is registered for", 6)
	P := c.P
	e := getBT(P)
	for _, r := range findRegistrations(P) {
		if r.Builder == nil {
			continue
		}
		b := e.byFn[r.Builder]
		key := fmt.Sprintf("%s/Register[%s]", fnKey(r.In), typeKey(r.T))
		if b == nil {
			c.Unk(key, P.pos(r.Pos), "the registered builder is not a module function returning (Codec, error)")
			continue
		}
		bad, n := "", 0
		seen := map[string]bool{}
		for _, p := range b.Paths {
			ret := P.classifyReturn(p)
			if ret.Other != "" && !p.Panic {
				bad = "a return is not understood: " + ret.Other
			}
			if ret.Codec == nil {
				continue
			}
			name := typeKey(ret.Codec)
			if seen[name] {
				continue
			}
			seen[name] = true
			n++
			ct := e.byType[name]
			if ct == nil {
				bad = name + " is not a known codec type"
				continue
			}
			con := e.typedContract(ct)
			if con.Kind != CPtr || !types.Identical(con.T, r.T) {
				bad = fmt.Sprintf("%s uses the destination as %s, not as %s", name, con, typeKey(r.T))
			}
			// New must allocate the registered type too
			nc := e.methodContract(ct, "New")
			if nc.Kind != CPtr || !types.Identical(nc.T, r.T) {
				bad = fmt.Sprintf("%s.New allocates %s, not %s", name, nc, typeKey(r.T))
			}
		}
		if n == 0 && bad == "" {
			bad = "the builder never returns a codec"
		}
		c.Check(bad == "", key, P.pos(r.Pos), fmt.Sprintf("all %d codec types the builder returns read, write and allocate %s", n, typeKey(r.T)), bad)
	}
}

// schemaTypeStrings collects the constant strings stored into fields named
// Type while constructing the Schema value v (literals, slices of literals,
// and module helper calls whose argument is such a value).
func schemaTypeStrings(v ssa.Value, depth int) []string {
	if depth > 8 || v == nil {
		return nil
	}
	var out []string
	switch x := v.(type) {
	case *ssa.UnOp:
		if x.Op == token.MUL {
			out = append(out, schemaTypeStringsAddr(x.X, depth+1)...)
		}
	case *ssa.Call:
		for _, a := range x.Call.Args {
			out = append(out, schemaTypeStrings(a, depth+1)...)
		}
		if sc := x.Call.StaticCallee(); sc != nil && sc.Blocks != nil {
			for _, r := range returnsOf(sc) {
				out = append(out, schemaTypeStrings(resolvedResults(r)[0], depth+1)...)
			}
		}
	case *ssa.Slice:
		out = append(out, schemaTypeStringsAddr(x.X, depth+1)...)
	case *ssa.Parameter:
	}
	return out
}

func schemaTypeStringsAddr(a ssa.Value, depth int) []string {
	if depth > 8 {
		return nil
	}
	var out []string
	for _, r := range referrersOf(a) {
		switch x := r.(type) {
		case *ssa.FieldAddr:
			name := fieldName(x.X.Type(), x.Field)
			for _, rr := range referrersOf(x) {
				if st, ok := rr.(*ssa.Store); ok && st.Addr == ssa.Value(x) {
					if name == "Type" {
						if s, ok := constString(st.Val); ok {
							out = append(out, s)
						}
					} else {
						out = append(out, schemaTypeStrings(st.Val, depth+1)...)
					}
				}
			}
		case *ssa.IndexAddr:
			out = append(out, schemaTypeStringsAddr(x, depth+1)...)
		case *ssa.Store:
			if x.Addr == a {
				out = append(out, schemaTypeStrings(x.Val, depth+1)...)
			}
		}
	}
	return out
}

func ruleRegPair(c *Ctx) {
	c.Rule("REG-PAIR", "every type registered with a codec builder also registers a schema whose non-null branch the builder accepts (and vice versa)", 6)
	P := c.P
	e := getBT(P)
	for _, r := range findRegistrations(P) {
		key := fmt.Sprintf("%s/pair[%s]", fnKey(r.In), typeKey(r.T))
		if r.Builder == nil || !r.hasSchema() {
			c.Bad(key, P.pos(r.Pos), "the type is registered with only one of codec builder and schema: encoding and schema generation would disagree")
			continue
		}
		strs := r.typeStrings()
		var branch []string
		for _, s := range strs {
			if s != "union" && s != "null" {
				branch = append(branch, s)
			}
		}
		if len(branch) != 1 || !contains(strs, "union") || !contains(strs, "null") {
			c.Unk(key, P.pos(r.SPos), fmt.Sprintf("the registered schema is not recognised as a [null, T] union (type strings found: %v)", strs))
			continue
		}
		b := e.byFn[r.Builder]
		accepts := false
		if b != nil && b.Schema != nil {
			sp := "*(&" + b.Schema.Name() + "->Type)"
			for _, p := range b.Paths {
				ret := P.classifyReturn(p)
				if ret.Codec == nil {
					continue
				}
				if v, ok := p.State.eq[sp]; ok {
					if v == "s:"+branch[0] {
						accepts = true
					}
				} else if !p.State.ne[sp]["s:"+branch[0]] {
					accepts = true
				}
			}
		}
		c.Check(accepts, key, P.pos(r.SPos), fmt.Sprintf("registered schema [null, %s]; the builder has an accepting path for schema type %q", branch[0], branch[0]), fmt.Sprintf("the registered schema's branch type %q is rejected by the registered builder", branch[0]))
	}
}

func ruleRegOverwrite(c *Ctx) {
	c.Rule("REG-OVERWRITE", "a registration unconditionally replaces the previous one for the same type (the most recent wins)", 2)
	P := c.P
	for _, name := range []string{"Register", "RegisterSchema"} {
		fn := P.Func(P.Avro, name)
		if !c.Anchor(fn != nil, "avro."+name) {
			continue
		}
		key := fnKey(fn) + "/store"
		if decided, good, why := regOverwriteByFold(P, fn); decided {
			c.Check(good, key, P.pos(fn.Pos()), "folded: on every way out exactly one store registry[typ] = value, with the function's own arguments, into a package-level map keyed by reflect.Type", why)
			continue
		}
		var mu *ssa.MapUpdate
		n := 0
		for _, b := range fn.Blocks {
			for _, in := range b.Instrs {
				if m, ok := in.(*ssa.MapUpdate); ok {
					mu = m
					n++
				}
			}
		}
		ok := n == 1 && len(fn.Params) == 2 && mu.Key == ssa.Value(fn.Params[0]) && stripChange(mu.Value) == ssa.Value(fn.Params[1])
		if ok {
			if r, _ := rootOfAddr(mu.Map); r == nil {
				ok = false
			} else if _, isG := r.(*ssa.Global); !isG {
				ok = false
			}
			for _, r := range returnsOf(fn) {
				if !dominatesInstr(mu, r) {
					ok = false
				}
			}
		}
		c.Check(ok, key, P.pos(fn.Pos()), "one unconditional map store registry[typ] = value on every path", "the registration is conditional or does not store the parameters under the type key")
	}
}

// regOverwriteByFold folds a registration function on two named unknown arguments: every way out that does not
// panic has made exactly one store into a map the fold does not hold (package state) whose key type is
// reflect.Type, under the first argument, of the second argument. Helpers and methods of a registry type are
// folded through.
func regOverwriteByFold(P *Program, fn *ssa.Function) (decided, good bool, why string) {
	if len(fn.Params) != 2 {
		return false, false, ""
	}
	a0, a1 := cpUnk{ID: "arg:" + fn.Params[0].Name()}, cpUnk{ID: "arg:" + fn.Params[1].Name()}
	outs, _, ok, _ := cpFoldOpt(P, fn, []cpVal{a0, a1}, func(g *ssa.Function) bool { return !P.isModuleFunc(g) })
	if !ok || len(outs) == 0 {
		return false, false, ""
	}
	good = true
	for _, o := range outs {
		if o.Panics {
			continue
		}
		n := 0
		for _, cl := range o.Calls {
			if cl.Callee != "mapupdate" {
				continue
			}
			mt, isMap := cl.MapT.Underlying().(*types.Map)
			if !isMap || !isReflectType(mt.Key()) {
				continue
			}
			n++
			if k, isU := cl.Args[1].(cpUnk); !isU || k.ID != a0.ID {
				good, why = false, "the registration is not stored under the type it was made for"
			}
			v := stripIfaceVal(cl.Args[2])
			if u, isU := v.(cpUnk); !isU || u.ID != a1.ID {
				good, why = false, "what is stored is not the value passed to the registration"
			}
		}
		if n != 1 {
			good, why = false, fmt.Sprintf("a way out of the registration makes %d stores into the registry: the registration is conditional (an earlier one may win) or repeated", n)
		}
	}
	return true, good, why
}

func ruleBTReg(c *Ctx) {
	c.Rule("BT-REG", "the registry is consulted before the built-in dispatch for every non-pointer, non-union, non-null type, and all recursive construction goes through the dispatcher", 10)
	P := c.P
	e := getBT(P)
	root := e.byFn[P.Func(P.Avro, "buildCodec")]
	if !c.Anchor(root != nil && root.TypParam != nil && root.Schema != nil, "root dispatcher buildCodec(schema, typ, omit)") {
		return
	}
	// the registry lookup
	var lk *ssa.Lookup
	for _, b := range root.Fn.Blocks {
		for _, in := range b.Instrs {
			if l, ok := in.(*ssa.Lookup); ok && l.CommaOk {
				if r, _ := rootOfAddr(l.X); r != nil {
					if g, ok := r.(*ssa.Global); ok && globalKey(g) == registryKey {
						lk = l
					}
				}
			}
		}
	}
	isRegistryLookup := func(in ssa.Instruction) *ssa.Lookup {
		if l, ok := in.(*ssa.Lookup); ok && l.CommaOk {
			if r, _ := rootOfAddr(l.X); r != nil {
				if g, ok := r.(*ssa.Global); ok && globalKey(g) == registryKey {
					return l
				}
			}
		}
		return nil
	}
	var okv, cfv ssa.Value
	if lk != nil && lk.Index == ssa.Value(root.TypParam) {
		if e1 := extractOf(lk, 1); e1 != nil {
			okv = e1
		}
		if e0 := extractOf(lk, 0); e0 != nil {
			cfv = e0
		}
	} else {
		// the lookup may live in a helper that returns (builder, found) for the type it is given
		for _, cs := range callsIn(root.Fn) {
			h := cs.Static
			if h == nil || cs.Value() == nil || h.Signature.Results().Len() != 2 {
				continue
			}
			var hl *ssa.Lookup
			for _, b := range h.Blocks {
				for _, in := range b.Instrs {
					if l := isRegistryLookup(in); l != nil {
						hl = l
					}
				}
			}
			if hl == nil {
				continue
			}
			idx := -1
			for i, prm := range h.Params {
				if hl.Index == ssa.Value(prm) {
					idx = i
				}
			}
			if idx < 0 || cs.Common.Args[idx] != ssa.Value(root.TypParam) {
				continue
			}
			okRet := true
			for _, b := range h.Blocks {
				if b == h.Recover {
					continue // reached only when the lookup panicked
				}
				if ret, ok := b.Instrs[len(b.Instrs)-1].(*ssa.Return); ok {
					rs := resolvedResults(ret)
					e0, ok0 := rs[0].(*ssa.Extract)
					e1, ok1 := rs[1].(*ssa.Extract)
					if !ok0 || !ok1 || e0.Tuple != ssa.Value(hl) || e1.Tuple != ssa.Value(hl) || e0.Index != 0 || e1.Index != 1 {
						okRet = false
					}
				}
			}
			if !okRet {
				continue
			}
			if e1 := extractOf(cs.Value(), 1); e1 != nil {
				okv = e1
			}
			if e0 := extractOf(cs.Value(), 0); e0 != nil {
				cfv = e0
			}
		}
	}
	dispatchFolded := btRegByFold(c, root.Fn)
	if !dispatchFolded && !c.Anchor(okv != nil && cfv != nil, "registry[typ] lookup in the dispatcher") {
		return
	}
	tp := root.TypParam.Name()
	sp := "*(&" + root.Schema.Name() + "->Type)"
	for _, p := range root.Paths {
		if dispatchFolded {
			break
		}
		r := P.classifyReturn(p)
		if r.Delegate == nil {
			continue
		}
		k := p.State.kindsOf(tp)
		st, exact, _ := p.State.strOf(sp)
		calleeName := "registered builder"
		if sc := r.Delegate.Call.StaticCallee(); sc != nil {
			calleeName = sc.Name()
		}
		key := fmt.Sprintf("%s/dispatch[%s]", fnKey(root.Fn), calleeName)
		pos := P.pos(r.Delegate.Pos())
		truth, consulted := p.State.bools[okv]
		switch {
		case r.Dynamic:
			// cf(schema, typ, omit): same arguments, found edge
			a := r.Delegate.Call.Args
			same := len(a) == 3 && stripLoadOfParam(a[0]) == ssa.Value(root.Schema) && a[1] == ssa.Value(root.TypParam) && a[2] == ssa.Value(root.Omit)
			c.Check(consulted && truth && same && r.Delegate.Call.Value == cfv, key, pos, "on the found edge the registered builder is called with the dispatcher's own (schema, typ, omit)", "the registered builder is not called with the dispatcher's own arguments on the found edge of the lookup")
		case k == 1<<nilKind:
			c.OKTrivial(key+"/nil-type", pos, "no Go type: skip-only codec, registry not applicable")
		case exact && (st == "union" || st == "null"):
			c.OKTrivial(key, pos, "union/null schemas are resolved structurally first; the branch codec is built through the dispatcher again")
		case calleeName == "buildPointerCodec":
			c.Check(k == kindSetOf(22), key, pos, "pointers recurse on the element type (which is then looked up)", "the pointer path is taken for non-pointer kinds")
		default:
			c.Check(consulted && !truth, key, pos, "reached only on the not-found edge of registry[typ]", "a built-in builder is reached without the registry having been consulted for this type: a registered codec would be bypassed")
		}
	}
	// who-may-call: per-type builders are called only by the dispatcher (or by pure delegation)
	for _, b := range e.Builders {
		if builderIsRegistered(P, b) {
			continue
		}
		for _, cs := range callsIn(b.Fn) {
			callee := e.byFn[cs.Static]
			if cs.Static == nil || callee == nil || callee == root || b == root {
				continue
			}
			if reachedOnlyFrom(P, b.Fn, root.Fn, 0) && b.TypParam != nil {
				// a phase of the dispatcher itself (only the dispatcher calls it): it hands the dispatcher's own
				// type on to the per-type builders
				same := true
				for i, prm := range cs.Static.Params {
					if prm == callee.TypParam && cs.Common.Args[i] != ssa.Value(b.TypParam) {
						same = false
					}
				}
				if same {
					continue
				}
			}
			key := fmt.Sprintf("%s/calls[%s]", fnKey(b.Fn), cs.Static.Name())
			// pure delegation: same typ handed on and result returned
			pure := false
			for i, prm := range cs.Static.Params {
				if prm == callee.TypParam && b.TypParam != nil && cs.Common.Args[i] == ssa.Value(b.TypParam) {
					pure = true
				}
			}
			c.Check(pure, key, P.pos(cs.Instr.Pos()), "delegates the same Go type to a sibling builder", "a builder constructs a sub-codec by calling a per-type builder directly instead of the dispatcher: registered codecs are bypassed for that position")
		}
	}
	// builders the dispatcher reaches WITHOUT consulting the registry (union and null schemas) must not build a
	// leaf codec for the Go type themselves: only wrappers around dispatcher-built codecs, or a codec justified by
	// asserting the type of a dispatcher-built one
	unconsulted := map[*Builder]bool{}
	for _, p := range root.Paths {
		r := P.classifyReturn(p)
		if r.Delegate == nil || r.Dynamic {
			continue
		}
		if _, consulted := p.State.bools[okv]; consulted {
			continue
		}
		if k := p.State.kindsOf(tp); k == 1<<nilKind {
			continue
		}
		if callee := e.byFn[r.Delegate.Call.StaticCallee()]; callee != nil && callee.Fn.Name() != "buildPointerCodec" {
			unconsulted[callee] = true
		}
	}
	for b := range unconsulted {
		if dispatchFolded {
			break
		}
		seen := map[string]bool{}
		for _, p := range b.Paths {
			r := P.classifyReturn(p)
			if r.Codec == nil || b.TypParam == nil {
				continue
			}
			name := typeKey(r.Codec)
			ct := e.byType[name]
			if ct == nil {
				continue
			}
			con := e.typedContract(ct)
			key := fmt.Sprintf("%s/unconsulted-return[%s]", fnKey(b.Fn), name)
			switch con.Kind {
			case CNone, CSub:
				if !seen[key] {
					seen[key] = true
					c.OKTrivial(key, P.pos(p.Ret.Pos()), "a wrapper (or a codec that never touches the value): the branch codec comes from the dispatcher")
				}
				continue
			}
			via := false
			for _, ta := range assertedOnPath(p) {
				if _, targ, ok := builtFrom(P, ta.X); ok && targ == ssa.Value(b.TypParam) {
					via = true
				}
			}
			if k := p.State.kindsOf(b.TypParam.Name()); k == 1<<nilKind {
				via = true // no Go type: nothing registered can apply
			}
			if !via {
				c.Bad(key, P.pos(p.Ret.Pos()), fmt.Sprintf("%s is built for the Go type directly on a path where the registry was never consulted and no dispatcher-built codec was inspected: a codec registered for that type is bypassed in this position", name))
			} else if !seen[key] {
				seen[key] = true
				c.OK(key, P.pos(p.Ret.Pos()), "returned only after a dispatcher-built codec for the same type was found to be the built-in one")
			}
		}
	}
	// recursion sites: calls of the dispatcher from builders
	n := 0
	for _, b := range e.Builders {
		for _, cs := range callsIn(b.Fn) {
			if cs.Static == root.Fn {
				n++
				c.OKTrivial(fmt.Sprintf("%s/recurse#%d", fnKey(b.Fn), n), P.pos(cs.Instr.Pos()), "sub-codec built through the dispatcher")
			}
		}
	}
}

func stripLoadOfParam(v ssa.Value) ssa.Value {
	if ld, ok := v.(*ssa.UnOp); ok && ld.Op == token.MUL {
		if a, ok := ld.X.(*ssa.Alloc); ok {
			for _, r := range referrersOf(a) {
				if st, ok := r.(*ssa.Store); ok && st.Addr == ssa.Value(a) {
					if p, ok := st.Val.(*ssa.Parameter); ok {
						return p
					}
				}
			}
		}
	}
	return v
}

func ruleSGReg(c *Ctx) {
	c.Rule("SG-REG", "schema generation consults the schema registry before the kind switch, and every recursive step goes through the same entry", 4)
	P := c.P
	fn := schemaWorkerFn(P)
	if !c.Anchor(fn != nil, "schemaForType") {
		return
	}
	// registry consultation: a call whose callee reads avro.schemaRegistry, on the typ parameter
	var look *ssa.Call
	for _, cs := range callsIn(fn) {
		if cs.Static == nil || !P.isModuleFunc(cs.Static) || cs.Value() == nil {
			continue
		}
		reads := false
		for _, b := range cs.Static.Blocks {
			for _, in := range b.Instrs {
				if l, ok := in.(*ssa.Lookup); ok {
					if r, _ := rootOfAddr(l.X); r != nil {
						if g, ok := r.(*ssa.Global); ok && globalKey(g) == schemaRegistryKey {
							reads = true
						}
					}
				}
			}
		}
		if reads && len(cs.Common.Args) == 1 && cs.Common.Args[0] == ssa.Value(fn.Params[0]) {
			look = cs.Value()
			// the helper answers from the map for every type: each of its returns is the lookup's own (value, found)
			h := cs.Static
			var hl *ssa.Lookup
			for _, b := range h.Blocks {
				for _, in := range b.Instrs {
					if l, ok := in.(*ssa.Lookup); ok && l.CommaOk {
						hl = l
					}
				}
			}
			okRet := hl != nil && len(h.Params) == 1 && hl.Index == ssa.Value(h.Params[0])
			for _, b := range h.Blocks {
				if b == h.Recover {
					continue
				}
				if ret, ok := b.Instrs[len(b.Instrs)-1].(*ssa.Return); ok && okRet {
					rs := resolvedResults(ret)
					e0, ok0 := rs[0].(*ssa.Extract)
					e1, ok1 := rs[len(rs)-1].(*ssa.Extract)
					if !ok0 || !ok1 || e0.Tuple != ssa.Value(hl) || e1.Tuple != ssa.Value(hl) || e0.Index != 0 || e1.Index != 1 {
						okRet = false
					}
				}
			}
			c.Check(okRet, fnKey(h)+"/answers-from-the-map", P.pos(h.Pos()), "every return is the map lookup's own (schema, found) for the type asked about", "the schema-registry helper can answer without (or differently from) the map lookup for some types: a schema registered for such a type is ignored")
		}
	}
	key := fnKey(fn)
	byFold := false
	if okF, good, why := sgRegByFold(P); okF {
		c.Check(good, key+"/registry-first", P.pos(fn.Pos()), "generation folded for a plain, a pointer, a slice, a map and a struct type: the schema registry is looked up with the type itself before anything else, a hit is returned as it stands, and element and field types are looked up the same way", why)
		byFold = good
	} else if look == nil {
		c.Bad(key+"/registry-first", P.pos(fn.Pos()), "schemaForType does not consult the schema registry for its type")
	} else {
		// every Kind() call is dominated by the lookup's not-found edge
		okv := extractOf(look, 1)
		good := true
		found := false
		for _, cs := range callsIn(fn) {
			if cs.Iface != nil && cs.Iface.Name() == "Kind" {
				ok := false
				for _, f := range factsAt(cs.Block) {
					if f.Cond == ssa.Value(okv) && !f.Truth {
						ok = true
					}
				}
				if !ok {
					good = false
				}
			}
		}
		for _, r := range returnsOf(fn) {
			for _, f := range factsAt(r.Block()) {
				if f.Cond == ssa.Value(okv) && f.Truth && resolvedResults(r)[0] == ssa.Value(extractOf(look, 0)) {
					found = true
				}
			}
		}
		c.Check(good && found, key+"/registry-first", P.pos(look.Pos()), "the registered schema is returned on the found edge; the kind switch runs only on the not-found edge", "the kind switch can run without (or before) the registry lookup, or the registered schema is not what is returned")
	}
	if byFold {
		// the fold has shown the lookups for element and field types: which helper makes the recursive step is
		// then a matter of layout
		if c.cur != nil && c.cur.Min > 1 {
			c.cur.Min = 1
		}
		return
	}
	// recursion: the helpers reachable from schemaForType call back only schemaForType for sub-types
	seen := map[*ssa.Function]bool{fn: true}
	work := []*ssa.Function{fn}
	n := 0
	for len(work) > 0 {
		f := work[0]
		work = work[1:]
		for _, cs := range callsIn(f) {
			if cs.Static == nil || !P.isModuleFunc(cs.Static) {
				continue
			}
			sig := cs.Static.Signature
			if sig.Results().Len() == 2 && typeKey(sig.Results().At(0).Type()) == "avro.Schema" {
				if isSchemaEntry(P, cs.Static) {
					n++
					c.OKTrivial(fmt.Sprintf("%s/recurse#%d", fnKey(f), n), P.pos(cs.Instr.Pos()), "sub-type schema through schemaForType")
					continue
				}
				if f != fn {
					c.Bad(fmt.Sprintf("%s/calls[%s]", fnKey(f), cs.Static.Name()), P.pos(cs.Instr.Pos()), "a schema helper builds a sub-schema without going through schemaForType: a registered schema would be bypassed")
				}
				if !seen[cs.Static] {
					seen[cs.Static] = true
					work = append(work, cs.Static)
				}
			}
		}
	}
	_ = strings.Contains
}

// sgRegByFold decides SG-REG's registry-first clause by folding schema
// generation (E-CP): for several shapes of type, in every outcome the first
// map consulted is the schema registry with the type itself as key; when that
// lookup is decided "found" the result is exactly the looked-up schema; when
// not, the element (or field) type is looked up in the registry in turn.
func sgRegByFold(P *Program) (folded, good bool, why string) {
	root := schemaRootFn(P)
	if root == nil || schemaRegistryKey == "" {
		return false, false, ""
	}
	isRegistryV := func(v cpVal) bool {
		u, ok := v.(cpUnk)
		return ok && strings.HasPrefix(u.ID, "*global:") && strings.HasSuffix(u.ID, "."+strings.SplitN(schemaRegistryKey, ".", 2)[1])
	}
	// the schema registry: the package-level map of that name, or — when the registry is kept in a struct with
	// its lock — any map from reflect.Type to Schema whose content the fold does not know (it is package state)
	isRegistry := func(cl cpCall) bool {
		if isRegistryV(cl.Args[0]) {
			return true
		}
		if _, unk := cl.Args[0].(cpUnk); !unk || cl.MapT == nil {
			return false
		}
		mt, ok := cl.MapT.Underlying().(*types.Map)
		return ok && isReflectType(mt.Key()) && typeKey(mt.Elem()) == "avro.Schema"
	}
	inner := cpRTypeOfKind(reflect.Int64, false)
	strct := cpRTypeOfKind(reflect.Struct, false)
	strct.Fields = []cpRField{{Name: "F", Tag: `json:"f"`, Type: inner}}
	level := cpRTypeOfKind(reflect.Uint8, false)
	level.ID, level.Name, level.PkgPath = "fx.Level", "Level", "example.com/fx-pkg"
	cases := []struct {
		name string
		rt   *cpRType
		sub  *cpRType
	}{
		{"int64", cpRTypeOfKind(reflect.Int64, false), nil},
		{"*int64", &cpRType{ID: "*int64", Kind: int64(reflect.Ptr), Elem: inner, Size: 8}, inner},
		{"[]int64", &cpRType{ID: "[]int64", Kind: int64(reflect.Slice), Elem: inner, Size: 24}, inner},
		{"map[string]int64", &cpRType{ID: "map[string]int64", Kind: int64(reflect.Map), Elem: inner, Key: cpRTypeOfKind(reflect.String, false), Size: 8}, inner},
		{"struct{F int64}", strct, inner},
		{"map[string]struct{F int64}", &cpRType{ID: "map[string]fx.Rec", Kind: int64(reflect.Map), Elem: strct, Key: cpRTypeOfKind(reflect.String, false), Size: 8}, strct},
		{"[]struct{F int64}", &cpRType{ID: "[]fx.Rec", Kind: int64(reflect.Slice), Elem: strct, Size: 24}, strct},
		// a map's values are not bytes whatever their kind: a registered one-byte type as a map value is looked up
		{"map[string]Level (a named uint8 type)", &cpRType{ID: "map[string]fx.Level", Kind: int64(reflect.Map), Elem: level, Key: cpRTypeOfKind(reflect.String, false), Size: 8}, level},
	}
	good = true
	for _, k := range cases {
		outs, _, ok, _ := cpFoldOpt(P, root, []cpVal{k.rt}, nil)
		if !ok {
			return false, false, ""
		}
		sawHit, sawBuilt := false, false
		for _, o := range outs {
			if o.Panics || len(o.Results) != 2 {
				continue
			}
			var looks []cpCall
			for _, cl := range o.Calls {
				if cl.Callee == "maplookup" {
					looks = append(looks, cl)
				}
			}
			if len(looks) == 0 || !isRegistry(looks[0]) || looks[0].Args[1] != cpVal(k.rt) {
				good, why = false, fmt.Sprintf("for a type like %s the schema registry is not the first thing consulted with the type itself", k.name)
				continue
			}
			tup, _ := looks[0].Result.(cpTuple)
			if len(tup.Vs) != 2 {
				return false, false, ""
			}
			okU, _ := tup.Vs[1].(cpUnk)
			if o.Decided[okU.ID] {
				sawHit = true
				if _, errNil := o.Results[1].(cpNil); !errNil || o.Results[0] != tup.Vs[0] {
					good, why = false, fmt.Sprintf("for a registered type like %s what is returned is not the registered schema as it stands", k.name)
				}
				continue
			}
			if _, errNil := o.Results[1].(cpNil); errNil {
				sawBuilt = true
			}
			if k.sub != nil {
				if _, errNil := o.Results[1].(cpNil); errNil {
					subLooked := false
					for _, l := range looks[1:] {
						if isRegistry(l) && l.Args[1] == cpVal(k.sub) {
							subLooked = true
						}
					}
					if !subLooked {
						good, why = false, fmt.Sprintf("the element or field type of %s is not looked up in the schema registry: a registered type nested in it would not get its registered schema", k.name)
					}
				}
			}
		}
		if !sawHit {
			good, why = false, fmt.Sprintf("no outcome returns a registered schema for a type like %s", k.name)
		}
		if !sawBuilt {
			good, why = false, fmt.Sprintf("no outcome generates a schema for an unregistered type like %s: whether its element is looked up cannot be seen", k.name)
		}
	}
	// a record's fields, whatever their Go kind and whether named or embedded, with or without omitempty: the
	// field's type is looked up in the registry, and when it is found there the field is typed by the registered
	// schema (bare, or as the second branch of [null, S])
	{
		named := func(k reflect.Kind, byteElem bool, nm string) *cpRType {
			t := cpRTypeOfKind(k, byteElem)
			t.ID, t.Name, t.PkgPath = "fx."+nm, nm, "example.com/fx-pkg"
			return t
		}
		opaque := named(reflect.Struct, false, "Opaque")
		opaque.Fields = []cpRField{{Name: "wall", PkgPath: "example.com/fx-pkg", Type: inner}}
		opaque.Size = 8
		type fcase struct {
			name string
			ft   *cpRType
			anon bool
			tag  string
		}
		var fcases []fcase
		for _, tag := range []string{`json:"f"`, `json:"f,omitempty"`, ``} {
			fcases = append(fcases,
				fcase{"a named byte array", named(reflect.Array, true, "Arr"), false, tag},
				fcase{"a named string type", named(reflect.String, false, "Str"), false, tag},
				fcase{"a named slice type", named(reflect.Slice, false, "Sl"), false, tag},
				fcase{"a named struct type", opaque, false, tag},
			)
		}
		fcases = append(fcases, fcase{"an embedded struct type", opaque, true, ``}, fcase{"an embedded struct type", opaque, true, `json:",omitempty"`})
		for _, fc := range fcases {
			st := cpRTypeOfKind(reflect.Struct, false)
			fname := "F"
			if fc.anon {
				fname = fc.ft.Name
			}
			st.Fields = []cpRField{{Name: fname, Tag: fc.tag, Type: fc.ft, Anonymous: fc.anon}}
			st.Size = fc.ft.Size
			pos := fmt.Sprintf("a field of %s (tag `%s`)", fc.name, fc.tag)
			outs, _, ok, _ := cpFoldOpt(P, root, []cpVal{st}, nil)
			if !ok {
				return false, false, ""
			}
			sawHit := false
			for _, o := range outs {
				if o.Panics || len(o.Results) != 2 {
					continue
				}
				if _, errNil := o.Results[1].(cpNil); !errNil {
					continue
				}
				var look *cpCall
				first := true
				for i, cl := range o.Calls {
					if cl.Callee != "maplookup" || !isRegistry(cl) {
						continue
					}
					if first {
						first = false
						if cl.Args[1] == cpVal(st) {
							if tup, _ := cl.Result.(cpTuple); len(tup.Vs) == 2 {
								if okU, _ := tup.Vs[1].(cpUnk); o.Decided[okU.ID] {
									look = nil
									goto nextOutcome // the record type itself is registered
								}
							}
						}
					}
					if cl.Args[1] == cpVal(fc.ft) && look == nil {
						look = &o.Calls[i]
					}
				}
				if look == nil {
					good, why = false, fmt.Sprintf("a record is generated without %s having been looked up in the schema registry: a registered type there would not get its registered schema", pos)
					continue
				}
				{
					tup, _ := look.Result.(cpTuple)
					if len(tup.Vs) != 2 {
						return false, false, ""
					}
					okU, _ := tup.Vs[1].(cpUnk)
					S, isS := tup.Vs[0].(cpUnk)
					if !o.Decided[okU.ID] || !isS {
						continue
					}
					sawHit = true
					// the generated record has one field, typed S or [null, S]
					fieldsOK := false
					if ov, okO := cpFieldByName(o.Results[0], "Object"); okO {
						if pt, isP := ov.(cpPtr); isP && pt.C != nil {
							if fv, okF := cpFieldByName(pt.C.V, "Fields"); okF {
								if sl, isSl := fv.(cpSlice); isSl && len(sl.Elems) == 1 {
									tv, _ := cpFieldByName(sl.Elems[0].V, "Type")
									if tu, isU := tv.(cpUnk); isU && tu.ID == S.ID {
										fieldsOK = true
									} else if uv, okU := cpFieldByName(tv, "Union"); okU {
										if us, isUS := uv.(cpSlice); isUS && len(us.Elems) == 2 {
											if su, isU := us.Elems[1].V.(cpUnk); isU && su.ID == S.ID {
												fieldsOK = true
											}
										}
									}
								}
							}
						}
					}
					if !fieldsOK {
						good, why = false, fmt.Sprintf("with %s registered, the generated record does not have exactly one field typed by the registered schema (or [null, that schema])", pos)
					}
				}
			nextOutcome:
			}
			if !sawHit && good {
				good, why = false, fmt.Sprintf("no outcome types %s by a registered schema", pos)
			}
		}
	}
	// a pointer to a registered type: whether the registered schema is passed through or wrapped in [null, S] must
	// depend on what that schema is (already a union, or an array or a map), not on the Go kind of the type
	for _, ek := range []reflect.Kind{reflect.Slice, reflect.Struct, reflect.Int64} {
		elem := cpRTypeOfKind(ek, false)
		elem.ID, elem.Name = "fx.Named"+ek.String(), "Named"+ek.String()
		rt := &cpRType{ID: "*" + elem.ID, Kind: int64(reflect.Ptr), Elem: elem, Size: 8}
		outs, _, ok, _ := cpFoldOpt(P, root, []cpVal{rt}, nil)
		if !ok {
			return false, false, ""
		}
		for _, o := range outs {
			if o.Panics || len(o.Results) != 2 {
				continue
			}
			if _, errNil := o.Results[1].(cpNil); !errNil {
				continue
			}
			var looks []cpCall
			for _, cl := range o.Calls {
				if cl.Callee == "maplookup" && isRegistry(cl) {
					looks = append(looks, cl)
				}
			}
			if len(looks) < 2 || looks[0].Args[1] != cpVal(rt) || looks[1].Args[1] != cpVal(elem) {
				continue
			}
			t0, _ := looks[0].Result.(cpTuple)
			t1, _ := looks[1].Result.(cpTuple)
			if len(t0.Vs) != 2 || len(t1.Vs) != 2 {
				continue
			}
			ok0, _ := t0.Vs[1].(cpUnk)
			ok1, _ := t1.Vs[1].(cpUnk)
			S, isS := t1.Vs[0].(cpUnk)
			if o.Decided[ok0.ID] || !o.Decided[ok1.ID] || !isS {
				continue // the pointer type itself is registered, or the element is not
			}
			if ru, isU := o.Results[0].(cpUnk); isU && ru.ID == S.ID {
				// passed through bare: only on the strength of a test of the registered schema's own type
				tested := false
				for _, t := range []string{"union", "array", "map"} {
					if o.Decided["cmp:"+S.ID+".Type=="+t] {
						tested = true
					}
				}
				if !tested {
					good, why = false, fmt.Sprintf("behind a pointer a registered type of Go kind %s gets its registered schema bare without that schema having been found to be a union, an array or a map: the Go kind overrides the registration, and a nil pointer has no encoding", ek)
				}
				continue
			}
			// otherwise [null, S]
			uv, _ := cpFieldByName(o.Results[0], "Union")
			sl, isSl := uv.(cpSlice)
			wrapped := isSl && len(sl.Elems) == 2
			if wrapped {
				tv, _ := cpFieldByName(sl.Elems[0].V, "Type")
				ts, isStr := tv.(cpStr)
				su, isU := sl.Elems[1].V.(cpUnk)
				wrapped = isStr && ts.V == "null" && isU && su.ID == S.ID
			}
			if !wrapped {
				good, why = false, fmt.Sprintf("behind a pointer a registered type of Go kind %s gets neither its registered schema nor [null, that schema]", ek)
			}
		}
	}
	return true, good, why
}

// isCodecRegistryLookup: the recorded map lookup consults the codec registry: the package-level map of that role,
// or — when the registry is kept in a struct with its lock — a map from reflect.Type to codec builders whose
// content the fold does not know (package state).
func isCodecRegistryLookup(P *Program, cl *cpCall) bool {
	if cl == nil || len(cl.Args) < 2 {
		return false
	}
	u, ok := cl.Args[0].(cpUnk)
	if !ok {
		return false
	}
	if registryKey != "" && strings.HasPrefix(u.ID, "*global:") && strings.HasSuffix(u.ID, "."+strings.SplitN(registryKey, ".", 2)[1]) {
		return true
	}
	if cl.MapT == nil {
		return false
	}
	mt, isMap := cl.MapT.Underlying().(*types.Map)
	if !isMap || !isReflectType(mt.Key()) {
		return false
	}
	sig, isSig := mt.Elem().Underlying().(*types.Signature)
	return isSig && isCodecErrorSig(P, sig)
}

// btRegByFold decides BT-REG's dispatch clauses by folding the dispatcher
// (E-CP) for every schema type and a few Go types: in every outcome that
// builds a codec the codec registry has been asked about the Go type itself
// (and, for arrays and maps, about the element type); when the type is found
// registered, the registered builder is called with the dispatcher's own
// arguments and what it returns is returned as it stands.
func btRegByFold(c *Ctx, root *ssa.Function) bool {
	P := c.P
	schemaNT := P.NamedType(P.Avro, "Schema")
	if root == nil || schemaNT == nil || len(root.Params) != 3 || registryKey == "" {
		return false
	}
	schemaT := types.Type(schemaNT)
	sst := schemaT.Underlying().(*types.Struct)
	var objT types.Type
	for i := 0; i < sst.NumFields(); i++ {
		if sst.Field(i).Name() == "Object" {
			if pt, ok := sst.Field(i).Type().Underlying().(*types.Pointer); ok {
				objT = pt.Elem()
			}
		}
	}
	if objT == nil {
		return false
	}
	sch := func(t string, extra map[string]cpVal, obj map[string]cpVal) cpVal {
		f := map[string]cpVal{"Type": cpStr{t}}
		for k, v := range extra {
			f[k] = v
		}
		if obj != nil {
			f["Object"] = cpPtrTo(cpStructOf(objT, obj), objT)
		}
		return cpStructOf(schemaT, f)
	}
	long := sch("long", nil, nil)
	isRegistry := func(cl *cpCall) bool { return isCodecRegistryLookup(P, cl) }
	i64 := cpRTypeOfKind(reflect.Int64, false)
	type kase struct {
		st    string
		s     cpVal
		rt    *cpRType
		also  *cpRType // a second type that must be asked about (element type)
		tname string
	}
	sliceT, mapT, strT := cpRTypeOfKind(reflect.Slice, false), cpRTypeOfKind(reflect.Map, false), cpRTypeOfKind(reflect.String, false)
	ptrT := &cpRType{ID: "*int64", Kind: int64(reflect.Ptr), Elem: i64, Size: 8}
	var cases []kase
	for _, st := range []string{"boolean", "int", "long", "float", "double", "bytes", "string", "fixed", "record"} {
		var obj map[string]cpVal
		if st == "fixed" {
			obj = map[string]cpVal{"Size": cpInt{4}}
		}
		if st == "record" {
			obj = map[string]cpVal{"Name": cpStr{"R"}}
		}
		cases = append(cases, kase{st, sch(st, nil, obj), i64, nil, "int64"})
	}
	cases = append(cases,
		kase{"array", sch("array", nil, map[string]cpVal{"Items": long}), sliceT, sliceT.Elem, "[]int64"},
		kase{"map", sch("map", nil, map[string]cpVal{"Values": long}), mapT, mapT.Elem, "map[string]int64"},
		kase{"union", sch("union", map[string]cpVal{"Union": cpSlice{Elems: []*cpCell{{V: sch("null", nil, nil), T: schemaT}, {V: sch("string", nil, nil), T: schemaT}}}}, nil), strT, nil, "string"},
		kase{"long/ptr", long, ptrT, nil, "*int64"},
	)
	type verdict struct {
		key, good, bad string
		ok             bool
	}
	var vs []verdict
	cpMaxOutcomes = 512
	defer func() { cpMaxOutcomes = 96 }()
	for _, k := range cases {
		outs, _, ok, _ := cpFoldOpt(P, root, []cpVal{k.s, k.rt, cpUnk{ID: "arg:omit"}}, nil)
		if !ok {
			return false
		}
		good, why := true, ""
		sawHit := false
		asked := k.rt
		if k.st == "long/ptr" {
			asked = k.rt.Elem // pointers are unwrapped first: the element type is what is looked up
		}
		for _, o := range outs {
			if o.Panics || len(o.Results) != 2 {
				continue
			}
			if _, errNil := o.Results[1].(cpNil); !errNil {
				// errors are fine, and so is a registered builder's own (unknown) error
				if _, unk := o.Results[1].(cpUnk); !unk {
					continue
				}
			}
			keys := map[*cpRType]bool{}
			var first *cpCall
			for i := range o.Calls {
				cl := &o.Calls[i]
				if cl.Callee == "maplookup" && isRegistry(cl) {
					if rt, isRT := cl.Args[1].(*cpRType); isRT {
						keys[rt] = true
						if first == nil && rt == asked {
							first = cl
						}
					}
				}
			}
			if !keys[asked] {
				good, why = false, fmt.Sprintf("for schema %s and a Go %s a codec is built without the codec registry having been asked about that type: a codec registered for it is bypassed", k.st, k.tname)
				continue
			}
			tup, _ := first.Result.(cpTuple)
			if len(tup.Vs) != 2 {
				return false
			}
			okU, _ := tup.Vs[1].(cpUnk)
			if o.Decided[okU.ID] {
				// registered: the builder found is called with the dispatcher's own arguments, its result returned
				called := false
				for _, cl := range o.Calls {
					if cl.Fun == nil || cl.Fun != tup.Vs[0] || len(cl.Args) != 3 {
						continue
					}
					rtup, _ := cl.Result.(cpTuple)
					if len(rtup.Vs) == 2 && cl.Args[1] == cpVal(asked) && (k.st == "long/ptr" || o.Results[0] == rtup.Vs[0]) {
						if u, isU := cl.Args[2].(cpUnk); isU && u.ID == "arg:omit" {
							called = true
						}
					}
				}
				if k.st != "long/ptr" && k.st != "union" {
					sawHit = true
					if !called {
						good, why = false, fmt.Sprintf("for a registered Go %s under schema %s the registered builder is not called with the dispatcher's own (schema, typ, omit), or its codec is not what is returned", k.tname, k.st)
					}
				}
				continue
			}
			if k.also != nil && !keys[k.also] {
				if _, errNil := o.Results[1].(cpNil); errNil {
					good, why = false, fmt.Sprintf("for schema %s the element type of a %s is not looked up in the codec registry: the element codec is not built through the dispatcher", k.st, k.tname)
				}
			}
		}
		if !sawHit && k.st != "long/ptr" && k.st != "union" {
			good, why = false, fmt.Sprintf("no outcome calls a registered builder for schema %s and a Go %s", k.st, k.tname)
		}
		vs = append(vs, verdict{key: fmt.Sprintf("%s/dispatch[%s]", fnKey(root), k.st), ok: good, good: fmt.Sprintf("dispatcher folded for schema %s and a Go %s: the registry is asked about the type before a built-in codec is built; a registered builder gets the dispatcher's own arguments and its codec is returned", k.st, k.tname), bad: why})
	}
	for _, v := range vs {
		c.Check(v.ok, v.key, P.pos(root.Pos()), v.good, v.bad)
	}
	return true
}
