package main

// E-PC: pointee contracts. For every function with an unsafe.Pointer
// parameter, infer what the pointer is used as; for New methods, what the
// returned pointer points to. Layout compatibility is decided from go/types
// sizes and pointer bitmaps for linux/amd64.

import (
	"fmt"
	"go/token"
	"go/types"
	"sort"
	"strings"

	"golang.org/x/tools/go/ssa"
)

type CKind int

const (
	CNone      CKind = iota // never dereferenced
	CPtr                    // points to a variable of type T
	CBytes                  // points to N bytes (N constant or the receiver's Size field)
	CSub                    // forwarded unchanged to the sub-codec in receiver field Field
	CRecord                 // base of a struct: sub-codecs get p+offset
	CMapHeader              // the pointer itself is a runtime map header
	CMapVar                 // points to a map variable (a word holding a map header)
	CDyn                    // points to a value of a run-time type (rtype-driven)
	CDest                   // (New) allocated with the reflect.Type stored in receiver field Field
	CNil                    // (New) the nil constant
	CSubNew                 // (New) result of the sub-codec's New
	CConflict               // incompatible uses
	CUnknown                // a use the analysis does not understand
)

type Contract struct {
	Kind    CKind
	T       types.Type // CPtr
	N       int64      // CBytes: constant length, or -1 if symbolic
	Sym     string     // CBytes: "Size" when the receiver's Size field
	Field   string     // CSub, CDest, CSubNew
	Parts   []Contract // CConflict
	Why     string     // CUnknown
	MapUses bool       // CPtr(unsafe.Pointer) whose pointee is used as a map header
}

func (c Contract) String() string {
	switch c.Kind {
	case CNone:
		return "None"
	case CPtr:
		if c.MapUses {
			return "PtrTo(map variable)"
		}
		return "PtrTo(" + typeKey(c.T) + ")"
	case CBytes:
		if c.N >= 0 {
			return fmt.Sprintf("Bytes(%d)", c.N)
		}
		return "Bytes(" + c.Sym + ")"
	case CSub:
		return "Sub(" + c.Field + ")"
	case CRecord:
		return "Record(" + c.Field + ")"
	case CMapHeader:
		return "MapHeader"
	case CMapVar:
		return "PtrTo(map variable)"
	case CDyn:
		return "PtrTo(dynamic)"
	case CDest:
		return "PtrTo(dest type in ." + c.Field + ")"
	case CNil:
		return "Nil"
	case CSubNew:
		return "SubNew(" + c.Field + ")"
	case CConflict:
		var ss []string
		for _, p := range c.Parts {
			ss = append(ss, p.String())
		}
		return "Conflict[" + strings.Join(ss, " | ") + "]"
	}
	return "Unknown(" + c.Why + ")"
}

// ---------- layouts

// Layout is size plus pointer bitmap (one entry per 8-byte word: 'P' pointer,
// 'S' scalar), e.g. string = 16/"PS".
type Layout struct {
	Size int64
	Map  string
}

func (l Layout) String() string { return fmt.Sprintf("%d/%s", l.Size, l.Map) }

func (P *Program) layoutOf(t types.Type) Layout {
	size := P.Sizes.Sizeof(t)
	words := (size + 7) / 8
	bm := make([]byte, words)
	for i := range bm {
		bm[i] = 'S'
	}
	P.markPtrs(t, 0, bm)
	return Layout{Size: size, Map: string(bm)}
}

func (P *Program) markPtrs(t types.Type, off int64, bm []byte) {
	set := func(o int64) {
		if int(o/8) < len(bm) {
			bm[o/8] = 'P'
		}
	}
	switch u := t.Underlying().(type) {
	case *types.Basic:
		switch u.Kind() {
		case types.String:
			set(off)
		case types.UnsafePointer:
			set(off)
		}
	case *types.Pointer, *types.Map, *types.Chan, *types.Signature:
		set(off)
	case *types.Slice:
		set(off)
	case *types.Interface:
		set(off)
		set(off + 8)
	case *types.Array:
		es := P.Sizes.Sizeof(u.Elem())
		for i := int64(0); i < u.Len() && i < 4096; i++ {
			P.markPtrs(u.Elem(), off+i*es, bm)
		}
	case *types.Struct:
		fields := make([]*types.Var, u.NumFields())
		for i := range fields {
			fields[i] = u.Field(i)
		}
		offs := P.Sizes.Offsetsof(fields)
		for i, f := range fields {
			P.markPtrs(f.Type(), off+offs[i], bm)
		}
	}
}

func (P *Program) compatTypes(a, b types.Type) bool {
	la, lb := P.layoutOf(a), P.layoutOf(b)
	return la == lb
}

// ---------- linkname table

// linknameParams: for each runtime function pulled in by //go:linkname, what
// each unsafe.Pointer parameter is. Frozen from unsafetricks.go; GC-LINKSIG
// cross-checks arity and shapes against the loaded toolchain.
var linknameParams = map[string][]CKind{
	"unsafe_New":      {CUnknown /*rtype*/},
	"unsafe_NewArray": {CUnknown /*rtype*/, CNone},
	"typedslicecopy":  {CUnknown /*rtype*/, CNone, CNone},
	"mapassign":       {CUnknown /*rtype*/, CMapHeader, CDyn, CDyn},
	"typedmemclr":     {CUnknown /*rtype*/, CDyn},
	"mapiterinit":     {CUnknown /*rtype*/, CMapHeader, CDyn},
	"mapiterkey":      {CDyn},
	"mapiterelem":     {CDyn},
	"mapiternext":     {CDyn},
	"maplen":          {CMapHeader},
}

func isLinknameStub(fn *ssa.Function) bool {
	return fn != nil && fn.Blocks == nil && fn.Pkg != nil && fn.Pkg.Pkg.Path() == modPath
}

// ---------- inference

type contractEnv struct {
	P    *Program
	memo map[string]Contract
	busy map[string]bool
}

func newContractEnv(P *Program) *contractEnv {
	return &contractEnv{P: P, memo: map[string]Contract{}, busy: map[string]bool{}}
}

func isUnsafePointer(t types.Type) bool {
	b, ok := t.Underlying().(*types.Basic)
	return ok && b.Kind() == types.UnsafePointer
}

// recvFieldOf: is v a load of a field of fn's receiver (directly for pointer
// receivers, or through the spilled local copy for value receivers)? Returns
// the field name.
func recvFieldOf(fn *ssa.Function, v ssa.Value) (string, bool) {
	if fn.Signature.Recv() == nil || len(fn.Params) == 0 {
		return "", false
	}
	recv := fn.Params[0]
	switch x := v.(type) {
	case *ssa.UnOp:
		if x.Op != token.MUL {
			return "", false
		}
		fa, ok := x.X.(*ssa.FieldAddr)
		if !ok {
			return "", false
		}
		if fa.X == ssa.Value(recv) {
			return fieldName(fa.X.Type(), fa.Field), true
		}
		if a, ok := fa.X.(*ssa.Alloc); ok {
			for _, r := range referrersOf(a) {
				if st, ok := r.(*ssa.Store); ok && st.Addr == ssa.Value(a) && st.Val == ssa.Value(recv) {
					return fieldName(fa.X.Type(), fa.Field), true
				}
			}
		}
	case *ssa.Field:
		if x.X == ssa.Value(recv) {
			return fieldNameT(x.X.Type(), x.Field), true
		}
	}
	return "", false
}

// lengthOf classifies a length operand: constant, or the receiver's field.
func (e *contractEnv) lengthOf(fn *ssa.Function, v ssa.Value, recvConst map[string]int64) (n int64, sym string, ok bool) {
	if k, ok := (Folder{e.P}).FoldInt(v); ok {
		return k, "", true
	}
	if f, ok := recvFieldOf(fn, stripConv(v)); ok {
		if k, has := recvConst[f]; has {
			return k, "", true
		}
		return -1, f, true
	}
	return 0, "", false
}

// literalRecvConsts: if recv (a receiver argument at a call site) is a load of
// a local struct literal whose integer fields are stored constants, returns
// field -> constant.
func (e *contractEnv) literalRecvConsts(recv ssa.Value) map[string]int64 {
	out := map[string]int64{}
	// a receiver produced by a parameterless module helper (a generic
	// instantiation, say) that returns a literal: the literal's constants
	if call, ok := recv.(*ssa.Call); ok {
		callee := call.Call.StaticCallee()
		if callee != nil && e.P.isModuleFunc(callee) && callee.Blocks != nil && len(callee.Params) == 0 {
			rets, _ := liveReturns(e.P, callee)
			if len(rets) == 1 {
				return e.literalRecvConsts(resolvedResults(rets[0])[0])
			}
		}
		return out
	}
	ld, ok := recv.(*ssa.UnOp)
	if !ok || ld.Op != token.MUL {
		return out
	}
	a, ok := ld.X.(*ssa.Alloc)
	if !ok {
		return out
	}
	for _, r := range referrersOf(a) {
		fa, ok := r.(*ssa.FieldAddr)
		if !ok {
			continue
		}
		for _, rr := range referrersOf(fa) {
			if st, ok := rr.(*ssa.Store); ok && st.Addr == ssa.Value(fa) {
				if k, ok := (Folder{e.P}).FoldInt(st.Val); ok {
					out[fieldName(fa.X.Type(), fa.Field)] = k
				}
			}
		}
	}
	return out
}

func merge(cs []Contract) Contract {
	var parts []Contract
	for _, c := range cs {
		if c.Kind == CNone {
			continue
		}
		dup := false
		for _, p := range parts {
			if p.String() == c.String() && p.MapUses == c.MapUses {
				dup = true
			}
		}
		if !dup {
			parts = append(parts, c)
		}
	}
	switch len(parts) {
	case 0:
		return Contract{Kind: CNone}
	case 1:
		return parts[0]
	}
	// PtrTo(unsafe.Pointer) + MapUses variants merge
	allPtrWord := true
	mapUses := false
	for _, p := range parts {
		if !(p.Kind == CPtr && isUnsafePointer(p.T)) {
			allPtrWord = false
		}
		mapUses = mapUses || p.MapUses
	}
	if allPtrWord {
		r := parts[0]
		r.MapUses = mapUses
		return r
	}
	for _, p := range parts {
		if p.Kind == CUnknown {
			return p
		}
	}
	sort.Slice(parts, func(i, j int) bool { return parts[i].String() < parts[j].String() })
	return Contract{Kind: CConflict, Parts: parts}
}

// ParamContract infers the contract of parameter index pi (into fn.Params) of
// fn. recvConst supplies constants for receiver fields when the call site's
// receiver is a literal.
func (e *contractEnv) ParamContract(fn *ssa.Function, pi int, recvConst map[string]int64) Contract {
	key := fmt.Sprintf("%s#%d%v", fnKey(fn), pi, recvConst)
	if c, ok := e.memo[key]; ok {
		return c
	}
	if e.busy[key] {
		return Contract{Kind: CNone}
	}
	e.busy[key] = true
	defer delete(e.busy, key)
	var c Contract
	if fn.Blocks == nil {
		if isLinknameStub(fn) {
			if ks, ok := linknameParams[fn.Name()]; ok && pi < len(ks) {
				c = Contract{Kind: ks[pi]}
				if ks[pi] == CUnknown {
					c.Why = "rtype argument of " + fn.Name()
				}
			} else {
				c = Contract{Kind: CUnknown, Why: "linkname stub " + fn.Name() + " not in the table"}
			}
		} else {
			c = Contract{Kind: CUnknown, Why: "external function " + fn.String()}
		}
		e.memo[key] = c
		return c
	}
	c = e.usesOf(fn, fn.Params[pi], recvConst, 0)
	e.memo[key] = c
	return c
}

// usesOf classifies all uses of pointer value v inside fn.
func (e *contractEnv) usesOf(fn *ssa.Function, v ssa.Value, recvConst map[string]int64, depth int) Contract {
	if depth > 6 {
		return Contract{Kind: CUnknown, Why: "use chain too deep"}
	}
	var found []Contract
	for _, ref := range referrersOf(v) {
		switch x := ref.(type) {
		case *ssa.DebugRef:
		case *ssa.Convert:
			if pt, ok := x.Type().Underlying().(*types.Pointer); ok {
				// *T <- unsafe.Pointer. unsafe.Slice((*byte)(p), n)?
				handled := false
				for _, r2 := range referrersOf(x) {
					if call, ok := r2.(*ssa.Call); ok {
						if bi, ok := call.Call.Value.(*ssa.Builtin); ok && bi.Name() == "Slice" && call.Call.Args[0] == ssa.Value(x) {
							n, sym, ok := e.lengthOf(fn, call.Call.Args[1], recvConst)
							if ok {
								es := e.P.Sizes.Sizeof(pt.Elem())
								if n >= 0 {
									n *= es
								}
								found = append(found, Contract{Kind: CBytes, N: n, Sym: sym})
							} else {
								found = append(found, Contract{Kind: CUnknown, Why: "unsafe.Slice with a length that is neither constant nor a receiver field"})
							}
							handled = true
						}
					}
				}
				if !handled || len(referrersOf(x)) > 1 {
					c := Contract{Kind: CPtr, T: pt.Elem()}
					if isUnsafePointer(pt.Elem()) {
						c.MapUses = e.pointeeUsedAsMap(fn, x)
					}
					if !(handled && onlySliceUses(x)) {
						found = append(found, c)
					}
				}
			} else if b, ok := x.Type().Underlying().(*types.Basic); ok && b.Kind() == types.Uintptr {
				// pointer arithmetic: uintptr(p) + ... converted back
				found = append(found, Contract{Kind: CDyn})
			} else {
				found = append(found, Contract{Kind: CUnknown, Why: "converted to " + x.Type().String()})
			}
		case *ssa.Store:
			if x.Val != v {
				continue
			}
			// stored into the Data word of a slice-header literal?
			if fa, ok := x.Addr.(*ssa.FieldAddr); ok && fieldName(fa.X.Type(), fa.Field) == "Data" {
				lenV := siblingFieldStore(fa, "Len")
				if lenV != nil {
					n, sym, ok := e.lengthOf(fn, lenV, recvConst)
					if ok {
						found = append(found, Contract{Kind: CBytes, N: n, Sym: sym})
						continue
					}
				}
				found = append(found, Contract{Kind: CUnknown, Why: "stored in a slice header whose length is not understood"})
				continue
			}
			// assignment to a local variable that shadows the parameter (p = *(*unsafe.Pointer)(p))
			found = append(found, Contract{Kind: CUnknown, Why: "pointer stored to memory: " + x.String()})
		case *ssa.Phi:
			found = append(found, e.usesOf(fn, x, recvConst, depth+1))
		case *ssa.BinOp:
			// comparison with nil
		case *ssa.Return:
			// returned unchanged (e.g. New returning a parameter): not a use
		case ssa.CallInstruction:
			cc := x.Common()
			if bi, ok := cc.Value.(*ssa.Builtin); ok {
				if bi.Name() == "Add" {
					// unsafe.Add(p, off): the sum is handed on
					if call, ok := x.(*ssa.Call); ok {
						sub := e.usesOf(fn, call, recvConst, depth+1)
						if sub.Kind == CSub || sub.Kind == CNone {
							found = append(found, Contract{Kind: CRecord, Field: sub.Field})
						} else {
							found = append(found, Contract{Kind: CDyn})
						}
					}
					continue
				}
				found = append(found, Contract{Kind: CUnknown, Why: "builtin " + bi.Name()})
				continue
			}
			if cc.IsInvoke() {
				if cc.Value == v {
					found = append(found, Contract{Kind: CUnknown, Why: "method invoked on the pointer"})
					continue
				}
				// forwarded to a Codec method of a sub-codec
				if isCodecIface(e.P, cc.Value.Type()) {
					if fpath := codecFieldPath(fn, cc.Value); fpath != "" {
						found = append(found, Contract{Kind: CSub, Field: fpath})
					} else {
						found = append(found, Contract{Kind: CUnknown, Why: "forwarded to a codec that is not a receiver field"})
					}
					continue
				}
				found = append(found, Contract{Kind: CUnknown, Why: "passed to interface method " + cc.Method.Name()})
				continue
			}
			callee := cc.StaticCallee()
			if callee == nil {
				found = append(found, Contract{Kind: CUnknown, Why: "passed to a dynamic call"})
				continue
			}
			for ai, a := range cc.Args {
				if a != v {
					continue
				}
				if !e.P.isModuleFunc(callee) && !isLinknameStub(callee) {
					found = append(found, Contract{Kind: CUnknown, Why: "passed to " + qualName(callee)})
					continue
				}
				rc := map[string]int64{}
				if callee.Signature.Recv() != nil && len(cc.Args) > 0 {
					rc = e.literalRecvConsts(cc.Args[0])
					// receiver that is itself a field of our receiver with known consts: none
				}
				sub := e.ParamContract(callee, ai, rc)
				// a callee's Sub(field)/Bytes(Size) refers to the callee's receiver: translate
				if sub.Kind == CSub || sub.Kind == CDest {
					if callee.Signature.Recv() != nil && recvIsOurs(fn, cc.Args[0]) {
						// same receiver (method calling a sibling method)
					} else if f, ok := recvFieldOf(fn, cc.Args[0]); ok {
						sub.Field = f + "." + sub.Field
					} else {
						sub = Contract{Kind: CUnknown, Why: "callee forwards to its own sub-codec"}
					}
				}
				if sub.Kind == CBytes && sub.N < 0 {
					if callee.Signature.Recv() != nil && recvIsOurs(fn, cc.Args[0]) {
					} else if f, ok := recvFieldOf(fn, cc.Args[0]); ok {
						sub.Sym = f + "." + sub.Sym
					} else {
						sub = Contract{Kind: CUnknown, Why: "callee's symbolic length cannot be related to this receiver"}
					}
				}
				found = append(found, sub)
			}
		default:
			found = append(found, Contract{Kind: CUnknown, Why: "used by " + ref.String()})
		}
	}
	return merge(found)
}

func onlySliceUses(x *ssa.Convert) bool {
	for _, r := range referrersOf(x) {
		call, ok := r.(*ssa.Call)
		if !ok {
			return false
		}
		bi, ok := call.Call.Value.(*ssa.Builtin)
		if !ok || bi.Name() != "Slice" {
			return false
		}
	}
	return true
}

func recvIsOurs(fn *ssa.Function, arg ssa.Value) bool {
	if fn.Signature.Recv() == nil || len(fn.Params) == 0 {
		return false
	}
	recv := fn.Params[0]
	if arg == ssa.Value(recv) {
		return true
	}
	if ld, ok := arg.(*ssa.UnOp); ok && ld.Op == token.MUL {
		if a, ok := ld.X.(*ssa.Alloc); ok {
			for _, r := range referrersOf(a) {
				if st, ok := r.(*ssa.Store); ok && st.Addr == ssa.Value(a) && st.Val == ssa.Value(recv) {
					return true
				}
			}
		}
		if ld.X == ssa.Value(recv) {
			return true
		}
	}
	return false
}

// codecFieldPath resolves a value to a path rooted at fn's receiver, e.g.
// "codec", "codecs[]", "fields[].codec" (through range-element locals).
func codecFieldPath(fn *ssa.Function, v ssa.Value) string {
	return recvPathOfValue(fn, v, 0)
}

func recvPathOfValue(fn *ssa.Function, v ssa.Value, d int) string {
	if d > 8 {
		return ""
	}
	switch x := v.(type) {
	case *ssa.UnOp:
		if x.Op == token.MUL {
			return recvPathOfAddr(fn, x.X, d+1)
		}
	case *ssa.Field:
		if inner := recvPathOfValue(fn, x.X, d+1); inner != "" {
			return inner + "." + fieldNameT(x.X.Type(), x.Field)
		}
		if recvIsOurs(fn, x.X) {
			return fieldNameT(x.X.Type(), x.Field)
		}
	case *ssa.Extract:
		// a value handed back by a helper method of the same receiver (selectCodec(r) (Codec, error)): the
		// receiver path every returning path of the helper yields
		if call, ok := x.Tuple.(*ssa.Call); ok {
			return recvPathThroughHelper(fn, call, x.Index, d)
		}
	case *ssa.Call:
		return recvPathThroughHelper(fn, x, 0, d)
	}
	return ""
}

// recvPathThroughHelper: result #idx of a call of a module method on fn's own
// receiver, when every return of that method with a non-nil value there
// yields one and the same receiver path.
func recvPathThroughHelper(fn *ssa.Function, call *ssa.Call, idx int, d int) string {
	h := call.Call.StaticCallee()
	if h == nil || h.Blocks == nil || h.Signature.Recv() == nil || len(call.Call.Args) == 0 || !recvIsOurs(fn, call.Call.Args[0]) || d > 6 {
		return ""
	}
	if idx >= h.Signature.Results().Len() {
		return ""
	}
	path := ""
	for _, b := range h.Blocks {
		if b == h.Recover {
			continue
		}
		ret, ok := b.Instrs[len(b.Instrs)-1].(*ssa.Return)
		if !ok {
			continue
		}
		r := resolvedResults(ret)[idx]
		if isNilConst(r) {
			continue
		}
		p := recvPathOfValue(h, r, d+1)
		if p == "" || path != "" && p != path {
			return ""
		}
		path = p
	}
	return path
}

func recvPathOfAddr(fn *ssa.Function, a ssa.Value, d int) string {
	if d > 8 {
		return ""
	}
	switch x := a.(type) {
	case *ssa.FieldAddr:
		name := fieldName(x.X.Type(), x.Field)
		if fn.Signature.Recv() != nil && len(fn.Params) > 0 && x.X == ssa.Value(fn.Params[0]) {
			return name
		}
		if al, ok := x.X.(*ssa.Alloc); ok {
			// spilled receiver copy, or a local holding a value derived from the receiver
			var stored ssa.Value
			n := 0
			for _, r := range referrersOf(al) {
				if st, ok := r.(*ssa.Store); ok && st.Addr == ssa.Value(al) {
					stored = st.Val
					n++
				}
			}
			if n == 1 {
				if fn.Signature.Recv() != nil && len(fn.Params) > 0 && stored == ssa.Value(fn.Params[0]) {
					return name
				}
				if inner := recvPathOfValue(fn, stored, d+1); inner != "" {
					return inner + "." + name
				}
			}
			return ""
		}
		if inner := recvPathOfAddr(fn, x.X, d+1); inner != "" {
			return inner + "." + name
		}
	case *ssa.IndexAddr:
		if inner := recvPathOfValue(fn, x.X, d+1); inner != "" {
			return inner + "[]"
		}
	case *ssa.Alloc:
		// a local holding a copy of (a part of) the receiver: a range variable over one of its lists, say
		var stored ssa.Value
		n := 0
		for _, r := range referrersOf(x) {
			if st, ok := r.(*ssa.Store); ok && st.Addr == ssa.Value(x) {
				stored = st.Val
				n++
			}
		}
		if n == 1 {
			return recvPathOfValue(fn, stored, d+1)
		}
	}
	return ""
}

// siblingFieldStore: given &lit.Data, find the value stored to &lit.<name>.
func siblingFieldStore(fa *ssa.FieldAddr, name string) ssa.Value {
	for _, r := range referrersOf(fa.X) {
		fb, ok := r.(*ssa.FieldAddr)
		if !ok || fieldName(fb.X.Type(), fb.Field) != name {
			continue
		}
		for _, rr := range referrersOf(fb) {
			if st, ok := rr.(*ssa.Store); ok && st.Addr == ssa.Value(fb) {
				return st.Val
			}
		}
	}
	return nil
}

// pointeeUsedAsMap: x = (*unsafe.Pointer)(p); does a value loaded from x flow
// to a parameter whose contract is MapHeader?
func (e *contractEnv) pointeeUsedAsMap(fn *ssa.Function, x *ssa.Convert) bool {
	for _, r := range referrersOf(x) {
		ld, ok := r.(*ssa.UnOp)
		if !ok || ld.Op != token.MUL {
			continue
		}
		c := e.usesOf(fn, ld, nil, 1)
		if c.Kind == CMapHeader {
			return true
		}
		if c.Kind == CConflict {
			for _, p := range c.Parts {
				if p.Kind == CMapHeader {
					return true
				}
			}
		}
		// the loaded word may be stored back into the parameter's local (p = *(*unsafe.Pointer)(p))
		for _, r2 := range referrersOf(ld) {
			if st, ok := r2.(*ssa.Store); ok && st.Val == ssa.Value(ld) {
				if a, ok := st.Addr.(*ssa.Alloc); ok {
					for _, r3 := range referrersOf(a) {
						if l2, ok := r3.(*ssa.UnOp); ok && l2.Op == token.MUL && l2 != ld {
							if cc := e.usesOf(fn, l2, nil, 1); cc.Kind == CMapHeader {
								return true
							}
						}
					}
				}
			}
		}
	}
	return false
}

// ---------- New result contracts

// typeOfReflectGlobal: for a package-level reflect.Type variable initialised
// as reflect.TypeOf(v) (or reflect.TypeFor[T]()), the static type of v.
func (e *contractEnv) typeOfReflectGlobal(g *ssa.Global) types.Type {
	var found types.Type
	for _, fn := range e.P.ModuleFuncs() {
		if !isInitFunc(fn) {
			continue
		}
		for _, b := range fn.Blocks {
			for _, in := range b.Instrs {
				st, ok := in.(*ssa.Store)
				if !ok || st.Addr != ssa.Value(g) {
					continue
				}
				found = staticTypeOfReflectType(st.Val)
			}
		}
	}
	return found
}

// staticTypeOfReflectType: v is a reflect.Type value; if it is
// reflect.TypeOf(x) returns the static (dynamic-at-construction) type of x,
// or the type argument of reflect.TypeFor[T]().
func staticTypeOfReflectType(v ssa.Value) types.Type {
	call, ok := stripChange(v).(*ssa.Call)
	if !ok || call.Call.StaticCallee() == nil {
		return nil
	}
	switch qualName(call.Call.StaticCallee()) {
	case "reflect.TypeOf":
		if mi, ok := call.Call.Args[0].(*ssa.MakeInterface); ok {
			return mi.X.Type()
		}
	case "reflect.TypeFor":
		if ta := call.Call.StaticCallee().TypeArgs(); len(ta) == 1 {
			return ta[0]
		}
	}
	return nil
}

// liveReturns returns the returns of fn reachable when branch conditions that
// fold to constants are resolved (used for the Sizeof switches of the generic
// codecs).
func liveReturns(P *Program, fn *ssa.Function) (rets []*ssa.Return, panics int) {
	seen := map[*ssa.BasicBlock]bool{}
	var visit func(b *ssa.BasicBlock)
	visit = func(b *ssa.BasicBlock) {
		if seen[b] {
			return
		}
		seen[b] = true
		last := b.Instrs[len(b.Instrs)-1]
		switch x := last.(type) {
		case *ssa.Return:
			rets = append(rets, x)
		case *ssa.Panic:
			panics++
		case *ssa.If:
			if cmp, ok := asCmp(x.Cond, true); ok {
				a, okA := (Folder{P}).FoldInt(cmp.X)
				bb, okB := (Folder{P}).FoldInt(cmp.Y)
				if okA && okB {
					var t bool
					switch cmp.Op {
					case token.EQL:
						t = a == bb
					case token.NEQ:
						t = a != bb
					case token.LSS:
						t = a < bb
					case token.LEQ:
						t = a <= bb
					case token.GTR:
						t = a > bb
					case token.GEQ:
						t = a >= bb
					}
					if t {
						visit(b.Succs[0])
					} else {
						visit(b.Succs[1])
					}
					return
				}
			}
			visit(b.Succs[0])
			visit(b.Succs[1])
		default:
			for _, s := range b.Succs {
				visit(s)
			}
		}
	}
	if len(fn.Blocks) > 0 {
		visit(fn.Blocks[0])
	}
	return
}

// NewContract infers what the pointer returned by a New method points to.
func (e *contractEnv) NewContract(fn *ssa.Function) Contract {
	if fn == nil || fn.Blocks == nil {
		return Contract{Kind: CUnknown, Why: "no body"}
	}
	rets, _ := liveReturns(e.P, fn)
	var found []Contract
	for _, r := range rets {
		found = append(found, e.newValue(fn, resolvedResults(r)[0], 0))
	}
	if len(found) == 0 {
		return Contract{Kind: CUnknown, Why: "no live return"}
	}
	// A nil fall-back next to the sub-codecs' own New (first non-nil branch
	// wins) is the sub-codec's New.
	var nonNil []Contract
	for _, f := range found {
		if f.Kind != CNil {
			nonNil = append(nonNil, f)
		}
	}
	if len(nonNil) > 0 && nonNil[0].Kind == CSubNew {
		found = nonNil
	}
	first := found[0]
	for _, f := range found[1:] {
		if f.String() != first.String() {
			return Contract{Kind: CConflict, Parts: found}
		}
	}
	return first
}

func (e *contractEnv) newValue(fn *ssa.Function, v ssa.Value, depth int) Contract {
	if depth > 4 {
		return Contract{Kind: CUnknown, Why: "too deep"}
	}
	if k, ok := v.(*ssa.Const); ok && k.Value == nil {
		return Contract{Kind: CNil}
	}
	switch x := v.(type) {
	case *ssa.Phi:
		// a variable that is nil until some branch's New gives memory (or the same thing on every edge)
		var parts []Contract
		seenE := map[ssa.Value]bool{}
		for _, ed := range x.Edges {
			if ed == ssa.Value(x) || seenE[ed] {
				continue
			}
			seenE[ed] = true
			if ph, isPhi := ed.(*ssa.Phi); isPhi && depth >= 3 {
				_ = ph
				return Contract{Kind: CUnknown, Why: "nested phis"}
			}
			parts = append(parts, e.newValue(fn, ed, depth+1))
		}
		var nonNil []Contract
		for _, f := range parts {
			if f.Kind != CNil {
				nonNil = append(nonNil, f)
			}
		}
		if len(nonNil) == 0 {
			return Contract{Kind: CNil}
		}
		if nonNil[0].Kind == CSubNew {
			parts = nonNil
		}
		for _, f := range parts[1:] {
			if f.String() != parts[0].String() {
				return Contract{Kind: CConflict, Parts: parts}
			}
		}
		return parts[0]
	case *ssa.Convert:
		// unsafe.Pointer(uintptr) of reflect.Value.Pointer() of a map
		if call, ok := x.X.(*ssa.Call); ok && call.Call.StaticCallee() != nil && qualName(call.Call.StaticCallee()) == "(reflect.Value).Pointer" {
			if mk, ok := call.Call.Args[0].(*ssa.Call); ok && mk.Call.StaticCallee() != nil && strings.HasPrefix(qualName(mk.Call.StaticCallee()), "reflect.MakeMap") {
				return Contract{Kind: CMapHeader}
			}
			return Contract{Kind: CUnknown, Why: "reflect.Value.Pointer of something other than MakeMap"}
		}
		if pt, ok := x.X.Type().Underlying().(*types.Pointer); ok {
			return Contract{Kind: CPtr, T: pt.Elem()}
		}
		return Contract{Kind: CUnknown, Why: "converted from " + x.X.Type().String()}
	case *ssa.Call:
		cc := x.Common()
		if cc.IsInvoke() && cc.Method.Name() == "New" && isCodecIface(e.P, cc.Value.Type()) {
			if f := codecFieldPath(fn, cc.Value); f != "" {
				return Contract{Kind: CSubNew, Field: f}
			}
			return Contract{Kind: CUnknown, Why: "New of a codec that is not a receiver field"}
		}
		callee := cc.StaticCallee()
		if callee == nil {
			return Contract{Kind: CUnknown, Why: "dynamic call"}
		}
		switch qualNameShort(callee) {
		case "(*ReadBuf).Alloc", "(*ResourceBank).Alloc":
			return e.allocArg(fn, cc.Args[1])
		case "unsafe_NewArray":
			et := e.rtypeArgType(cc.Args[0])
			n, sym, ok := e.lengthOf(fn, cc.Args[1], nil)
			if et != nil && ok {
				es := e.P.Sizes.Sizeof(et)
				if n >= 0 {
					n *= es
				}
				if e.P.layoutOf(et).Map == "S" || es < 8 {
					return Contract{Kind: CBytes, N: n, Sym: sym}
				}
			}
			return Contract{Kind: CUnknown, Why: "unsafe_NewArray with an element type or length not understood"}
		case "unsafe_New":
			return Contract{Kind: CDyn}
		}
		if e.P.isModuleFunc(callee) && callee.Name() == "New" && callee.Signature.Recv() != nil {
			// embedded codec's New called statically
			return e.NewContract(callee)
		}
		if e.P.isModuleFunc(callee) && callee.Blocks != nil && callee.Signature.Recv() == nil && isUnsafePointer(callee.Signature.Results().At(0).Type()) {
			// an allocation helper: what it returns, provided that does not depend on its caller's receiver
			var found []Contract
			rets, _ := liveReturns(e.P, callee)
			for _, r := range rets {
				found = append(found, e.newValue(callee, resolvedResults(r)[0], depth+1))
			}
			if len(found) > 0 {
				first := found[0]
				same := true
				for _, f := range found[1:] {
					if f.String() != first.String() {
						same = false
					}
				}
				if same && (first.Kind == CPtr || first.Kind == CBytes && first.Sym == "" || first.Kind == CNil) {
					return first
				}
			}
		}
		return Contract{Kind: CUnknown, Why: "result of " + qualName(callee)}
	}
	return Contract{Kind: CUnknown, Why: "value " + v.String()}
}

func (e *contractEnv) allocArg(fn *ssa.Function, t ssa.Value) Contract {
	if ld, ok := t.(*ssa.UnOp); ok && ld.Op == token.MUL {
		if g, ok := ld.X.(*ssa.Global); ok {
			if T := e.typeOfReflectGlobal(g); T != nil {
				return Contract{Kind: CPtr, T: T}
			}
			return Contract{Kind: CUnknown, Why: "reflect.Type variable " + g.Name() + " is not initialised by reflect.TypeOf/TypeFor"}
		}
	}
	if f, ok := recvFieldOf(fn, t); ok {
		return Contract{Kind: CDest, Field: f}
	}
	if T := staticTypeOfReflectType(t); T != nil {
		return Contract{Kind: CPtr, T: T}
	}
	// a parameterless module helper (generic instantiation) whose live returns all denote one type
	if call, ok := stripChange(t).(*ssa.Call); ok {
		callee := call.Call.StaticCallee()
		if callee != nil && e.P.isModuleFunc(callee) && callee.Blocks != nil && len(callee.Params) == 0 {
			rets, _ := liveReturns(e.P, callee)
			var T types.Type
			same := len(rets) > 0
			for _, r := range rets {
				rt := e.reflectTypeStatic(resolvedResults(r)[0])
				if rt == nil || T != nil && !types.Identical(T, rt) {
					same = false
					break
				}
				T = rt
			}
			if same && T != nil {
				return Contract{Kind: CPtr, T: T}
			}
		}
	}
	// the method folded: every path that allocates hands Alloc the reflect.Type of one and the same Go type
	if sf := foldSmall(e.P, fn); sf.ok {
		var T types.Type
		same, n := true, 0
		for _, o := range sf.outs {
			if o.Panics {
				continue
			}
			for _, cl := range o.Calls {
				g := rfCallee(&cl)
				if g == nil || g.Name() != "Alloc" || len(cl.Args) != 2 {
					continue
				}
				rt, isRT := cl.Args[1].(*cpRType)
				if !isRT || rt.Go == nil || T != nil && !types.Identical(T, rt.Go) {
					same = false
					continue
				}
				T = rt.Go
				n++
			}
		}
		if same && n > 0 && T != nil {
			return Contract{Kind: CPtr, T: T}
		}
	}
	return Contract{Kind: CUnknown, Why: "Alloc with a type that is neither a package variable nor a receiver field"}
}

// reflectTypeStatic: the Go type a reflect.Type value stands for, when it is
// reflect.TypeOf(x) / reflect.TypeFor[T]() directly or a package-level
// variable initialised that way.
func (e *contractEnv) reflectTypeStatic(v ssa.Value) types.Type {
	if T := staticTypeOfReflectType(v); T != nil {
		return T
	}
	if ld, ok := stripChange(v).(*ssa.UnOp); ok && ld.Op == token.MUL {
		if g, ok := ld.X.(*ssa.Global); ok {
			// assigned once, in an initialiser
			n := 0
			for _, fn := range e.P.ModuleFuncs() {
				for _, b := range fn.Blocks {
					for _, in := range b.Instrs {
						if st, ok := in.(*ssa.Store); ok && st.Addr == ssa.Value(g) {
							n++
							if !isInitFunc(fn) {
								return nil
							}
						}
					}
				}
			}
			if n == 1 {
				return e.typeOfReflectGlobal(g)
			}
		}
	}
	return nil
}

// rtypeArgType: v is unpackEFace(reflect.TypeOf(x)).data; returns type of x.
func (e *contractEnv) rtypeArgType(v ssa.Value) types.Type {
	src := rtypeSource(v)
	if src == nil {
		return nil
	}
	return staticTypeOfReflectType(src)
}

// rtypeSource: if v is a load of the data word of unpackEFace(<reflect.Type
// value>), returns that reflect.Type value.
func rtypeSource(v ssa.Value) ssa.Value {
	ld, ok := v.(*ssa.UnOp)
	if !ok || ld.Op != token.MUL {
		return nil
	}
	fa, ok := ld.X.(*ssa.FieldAddr)
	if !ok || fieldName(fa.X.Type(), fa.Field) != "data" {
		return nil
	}
	call, ok := fa.X.(*ssa.Call)
	if !ok || call.Call.StaticCallee() == nil || call.Call.StaticCallee().Name() != "unpackEFace" {
		return nil
	}
	arg := stripChange(call.Call.Args[0])
	if !isReflectType(arg.Type()) {
		return nil
	}
	return arg
}
