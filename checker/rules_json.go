package main

// E-JS: schema JSON rules (C14): JS-BAL, JS-KEY, JS-EXH, JS-TAG, JS-HOIST.

import (
	"fmt"
	"go/token"
	"go/types"
	"reflect"
	"sort"
	"strings"

	"golang.org/x/tools/go/ssa"
)

type jsEvent struct {
	Kind string    // begin | end | name | value
	Name string    // for name events: the constant
	Val  ssa.Value // for value events: the value written (string arg, int arg, or marshalled value)
	Path string    // for value events: the access path of Val, in terms of the function the events are reported for
	Pos  token.Pos
}

// jsPath is one way through a function that writes JSON tokens, with the
// helpers it hands the encoder to spliced in.
type jsPath struct {
	Events  []jsEvent
	Unknown []string
	State   *pathState
	Succ    bool // the function returns a nil error on this path
}

func isJSONEncoderPtr(t types.Type) bool {
	return strings.HasSuffix(typeKey(t), "jsontext.Encoder") && strings.HasPrefix(typeKey(t), "*")
}

// jsPathsOf enumerates fn's paths with their token events; calls of module
// helpers that receive the encoder are replaced by the helper's successful
// paths (arguments substituted for parameters).
func jsPathsOf(P *Program, fn *ssa.Function, depth int) ([]jsPath, bool) {
	paths, ok := enumeratePaths(fn)
	if !ok {
		return nil, false
	}
	var out []jsPath
	for _, p := range paths {
		if p.Ret == nil {
			continue
		}
		// variants under construction for this path
		vars := []jsPath{{State: p.State.clone()}}
		var inlined []*ssa.Call
		feasible := true
		for _, b := range p.Blocks {
			for _, in := range b.Instrs {
				call, isCall := in.(*ssa.Call)
				if !isCall || call.Call.StaticCallee() == nil {
					continue
				}
				h := call.Call.StaticCallee()
				if evs, unk, isTok := jsTokenEvents(call); isTok {
					for i := range vars {
						vars[i].Events = append(vars[i].Events, evs...)
						vars[i].Unknown = append(vars[i].Unknown, unk...)
					}
					continue
				}
				if !P.isModuleFunc(h) || h.Blocks == nil || depth >= 3 {
					continue
				}
				takesEnc := false
				for _, a := range call.Call.Args {
					if isJSONEncoderPtr(a.Type()) {
						takesEnc = true
					}
				}
				if !takesEnc {
					continue
				}
				sub, okS := jsPathsOf(P, h, depth+1)
				if !okS {
					return nil, false
				}
				inlined = append(inlined, call)
				var next []jsPath
				for _, v := range vars {
					for _, q := range sub {
						if !q.Succ {
							continue
						}
						nv := jsPath{State: v.State.clone()}
						nv.Events = append(nv.Events, v.Events...)
						nv.Unknown = append(append(nv.Unknown, v.Unknown...), q.Unknown...)
						okM := true
						for k, val := range q.State.eq {
							if tk, okT := translatePath(k, h, call.Call.Args); okT && !nv.State.assume(tk, true, val) {
								okM = false
							}
						}
						for k, m := range q.State.ne {
							if tk, okT := translatePath(k, h, call.Call.Args); okT {
								for val := range m {
									if !nv.State.assume(tk, false, val) {
										okM = false
									}
								}
							}
						}
						if !okM {
							continue
						}
						for _, e := range q.Events {
							if prm, isP := e.Val.(*ssa.Parameter); isP && e.Kind == "value" {
								for i, hp := range h.Params {
									if hp == prm && i < len(call.Call.Args) {
										arg := call.Call.Args[i]
										if cs, isS := constString(arg); isS {
											e = jsEvent{Kind: "name", Name: cs, Pos: call.Pos()}
										} else {
											e = jsEvent{Kind: "value", Val: stripConv(arg), Path: accessPath(stripConv(arg)), Pos: call.Pos()}
										}
									}
								}
							} else if e.Kind == "value" {
								if tp, okT := translatePath(e.Path, h, call.Call.Args); okT {
									e.Path = tp
								}
							}
							nv.Events = append(nv.Events, e)
						}
						next = append(next, nv)
					}
				}
				vars = next
				if len(vars) == 0 {
					feasible = false
				}
			}
		}
		if !feasible {
			// the helper never succeeds on this path: only failure continuations remain
			continue
		}
		ev := errOperand(p.Ret)
		succ := ev == nil || isNilConst(ev)
		if !succ {
			// returning the verdict of an inlined helper: success variants were spliced in
			for _, call := range inlined {
				if ev == errValueOfCall(call) {
					if nn, _ := knownNonNil(p.Ret.Block(), ev); !nn {
						succ = true
					}
				}
			}
		}
		for _, v := range vars {
			v.Succ = succ
			out = append(out, v)
		}
	}
	return out, true
}

// jsTokenEvents classifies one call as a token-level write to the encoder.
func jsTokenEvents(call *ssa.Call) (evs []jsEvent, unknown []string, isTok bool) {
	q := qualName(call.Call.StaticCallee())
	switch {
	case strings.HasSuffix(q, "jsontext.Encoder).WriteToken"):
		tok := call.Call.Args[1]
		switch t := tok.(type) {
		case *ssa.UnOp:
			if g, ok := t.X.(*ssa.Global); ok {
				switch g.Name() {
				case "BeginObject":
					return []jsEvent{{Kind: "begin", Pos: call.Pos()}}, nil, true
				case "EndObject":
					return []jsEvent{{Kind: "end", Pos: call.Pos()}}, nil, true
				}
			}
		case *ssa.Call:
			if sc := t.Call.StaticCallee(); sc != nil {
				switch {
				case strings.HasSuffix(qualName(sc), "jsontext.String"):
					if s, ok := constString(t.Call.Args[0]); ok {
						return []jsEvent{{Kind: "name", Name: s, Pos: call.Pos()}}, nil, true
					}
					return []jsEvent{{Kind: "value", Val: t.Call.Args[0], Path: accessPath(t.Call.Args[0]), Pos: call.Pos()}}, nil, true
				case strings.HasSuffix(qualName(sc), "jsontext.Int"), strings.HasSuffix(qualName(sc), "jsontext.Uint"), strings.HasSuffix(qualName(sc), "jsontext.Float"), strings.HasSuffix(qualName(sc), "jsontext.Bool"):
					v := stripConv(t.Call.Args[0])
					return []jsEvent{{Kind: "value", Val: v, Path: accessPath(v), Pos: call.Pos()}}, nil, true
				}
			}
		}
		return nil, []string{"WriteToken of " + tok.String()}, true
	case strings.HasSuffix(q, "json.MarshalEncode"):
		v := stripChange(call.Call.Args[1])
		return []jsEvent{{Kind: "value", Val: v, Path: accessPath(v), Pos: call.Pos()}}, nil, true
	}
	return nil, nil, false
}

// jsonTags returns field name -> json name for a struct type.
func jsonTags(T types.Type) map[string]string {
	out := map[string]string{}
	st, ok := T.Underlying().(*types.Struct)
	if !ok {
		return out
	}
	for i := 0; i < st.NumFields(); i++ {
		tag := reflect.StructTag(st.Tag(i)).Get("json")
		name, _, _ := strings.Cut(tag, ",")
		if name == "" {
			name = st.Field(i).Name()
		}
		out[st.Field(i).Name()] = name
	}
	return out
}

// specAttr: the Avro specification's attribute for each complex type.
var specAttr = map[string]string{"record": "fields", "enum": "symbols", "array": "items", "map": "values", "fixed": "size"}

// avroAttrNames: the attribute names the SchemaObject fields must carry.
var avroAttrNames = map[string]string{"Type": "type", "LogicalType": "logicalType", "Name": "name", "Namespace": "namespace", "Fields": "fields", "Items": "items", "Values": "values", "Size": "size", "Symbols": "symbols"}

func ruleJS(c *Ctx) {
	P := c.P
	schemaT := P.NamedType(P.Avro, "Schema")
	objT := P.NamedType(P.Avro, "SchemaObject")
	mfn := P.Method(schemaT, "MarshalJSONTo")
	ufn := P.Method(schemaT, "UnmarshalJSONFrom")
	c.Rule("JS-TAG", "the JSON names of the schema object's attributes are the Avro attribute names, pairwise distinct", 9)
	if !c.Anchor(schemaT != nil && objT != nil && mfn != nil && ufn != nil, "Schema, SchemaObject, MarshalJSONTo, UnmarshalJSONFrom") {
		return
	}
	tags := jsonTags(objT)
	seenTag := map[string]string{}
	var fields []string
	for f := range tags {
		fields = append(fields, f)
	}
	sort.Strings(fields)
	for _, f := range fields {
		want, known := avroAttrNames[f]
		key := "SchemaObject." + f + "/tag"
		switch {
		case !known:
			c.OKTrivial(key, "-", "not an Avro attribute of the supported subset")
		case tags[f] != want:
			c.Bad(key, "-", fmt.Sprintf("field %s is read from/written as JSON key %q, the Avro attribute is %q", f, tags[f], want))
		case seenTag[tags[f]] != "":
			c.Bad(key, "-", fmt.Sprintf("JSON key %q is used by both %s and %s", tags[f], seenTag[tags[f]], f))
		default:
			c.OK(key, "-", fmt.Sprintf("%s <-> %q", f, want))
		}
		seenTag[tags[f]] = f
	}
	for f, want := range avroAttrNames {
		if _, ok := tags[f]; !ok {
			c.Bad("SchemaObject."+f+"/tag", "-", fmt.Sprintf("the schema object has no field for the Avro attribute %q", want))
		}
	}
	// record fields: name and type
	if rfT := P.NamedType(P.Avro, "SchemaRecordField"); c.Anchor(rfT != nil, "SchemaRecordField") {
		rt := jsonTags(rfT)
		c.Check(rt["Name"] == "name" && rt["Type"] == "type", "SchemaRecordField/tags", "-", "record fields are {name, type}", fmt.Sprintf("record field tags are %v, Avro needs name and type", rt))
	}
	// omitempty drops a member whose encoding is null, "", [] or {}. For an attribute whose value may legitimately
	// be one of those (anything held in an interface, pointer or raw JSON value) that loses information: the text
	// written back no longer parses to the same schema.
	c.Rule("JS-OMIT", "no attribute that can hold an empty-but-meaningful value (interface, pointer, raw JSON) is tagged omitempty", 0)
	for _, tn := range []string{"SchemaObject", "SchemaRecordField", "Schema"} {
		T := P.NamedType(P.Avro, tn)
		if T == nil {
			continue
		}
		st, ok := T.Underlying().(*types.Struct)
		if !ok {
			continue
		}
		for i := 0; i < st.NumFields(); i++ {
			tag := reflect.StructTag(st.Tag(i)).Get("json")
			_, opts, _ := strings.Cut(tag, ",")
			if !strings.Contains(","+opts+",", ",omitempty,") {
				continue
			}
			ft := st.Field(i).Type()
			lossy := false
			switch ft.Underlying().(type) {
			case *types.Interface, *types.Pointer:
				lossy = true
			}
			if strings.Contains(typeKey(ft), "jsontext.Value") || strings.Contains(typeKey(ft), "RawMessage") {
				lossy = true
			}
			key := fmt.Sprintf("%s.%s/omitempty", tn, st.Field(i).Name())
			// the schema object part itself is a pointer whose absence is its meaning
			if tn == "Schema" {
				continue
			}
			c.Check(!lossy, key, "-", "omitempty on a field whose empty value means absent", fmt.Sprintf("field %s of %s holds arbitrary values (%s) and is tagged omitempty: a present but empty value (\"\", [], {}) is dropped when the schema is written", st.Field(i).Name(), tn, typeKey(ft)))
		}
	}

	// ---- marshal side
	c.Rule("JS-BAL", "an object schema is written as one balanced JSON object: begin, then name/value pairs, then end", 1)
	c.Rule("JS-KEY", "each attribute name written is followed by the value of the schema field that carries that attribute", 8)
	c.Rule("JS-EXH", "every attribute of the schema object is written somewhere, and each complex type writes the attribute the specification gives it", 9+5)
	if fp, nOut, folded := jsMarshalByFold(P, mfn, schemaT, objT, tags); folded {
		texts := map[string]string{
			"JS-BAL":  "every success outcome is { (name value)* }",
			"JS-KEY":  "every name written is the JSON name of the field whose value follows it, \"type\" being followed by the schema's Type",
			"JS-EXH":  "each complex type writes the attribute the specification gives it, from its own field, and no other type's",
			"JS-COND": "logicalType, name and namespace are present exactly on the outcomes that found them non-empty",
		}
		nProb := 0
		for _, r := range []string{"JS-BAL", "JS-KEY", "JS-EXH", "JS-COND"} {
			nProb += len(fp[r])
		}
		if nProb == 0 {
			// the fold decides all four rules; the reading of the token sequences off the source is not needed
			for _, r := range []string{"JS-BAL", "JS-KEY", "JS-EXH", "JS-COND"} {
				c.Rule(r, "an optional attribute is written on every path on which it is known to be non-empty (emptiness is the only reason to leave it out)", 1)
				c.cur.Min = 1
				c.OK(fnKey(mfn)+"/by-fold", P.pos(mfn.Pos()), fmt.Sprintf("MarshalJSONTo folded for a schema of each of 7 types with the object's attributes unknown (%d success outcomes): %s", nOut, texts[r]))
			}
			goto unmarshalSide
		}
		for _, r := range []string{"JS-BAL", "JS-KEY", "JS-EXH", "JS-COND"} {
			if len(fp[r]) > 0 {
				c.Rule(r, "an optional attribute is written on every path on which it is known to be non-empty (emptiness is the only reason to leave it out)", 1)
				c.Bad(fnKey(mfn)+"/by-fold", P.pos(mfn.Pos()), strings.Join(fp[r], "; "))
			}
		}
		c.Rule("JS-EXH", "", 0)
	}
	{
		paths, ok := jsPathsOf(P, mfn, 0)
		if !ok {
			c.Rule("JS-BAL", "", 0)
			c.Unk(fnKey(mfn)+"/paths", P.pos(mfn.Pos()), "path budget exceeded")
			return
		}
		typePath := "*(s->Type)"
		if len(mfn.Params) > 0 {
			typePath = "*(" + mfn.Params[0].Name() + "->Type)"
		}
		balanced := true
		balWhy := ""
		nObj := 0
		written := map[string]bool{}               // SchemaObject fields written on some path
		attrByType := map[string]map[string]bool{} // s.Type constant -> names written
		keyOK := map[string]string{}               // name -> "" ok or reason
		for _, p := range paths {
			if !p.Succ {
				continue
			}
			evs, unknown := p.Events, p.Unknown
			for _, u := range unknown {
				c.Rule("JS-BAL", "", 0)
				c.Unk(fnKey(mfn)+"/token", P.pos(mfn.Pos()), u)
			}
			hasBegin := false
			for _, e := range evs {
				if e.Kind == "begin" || e.Kind == "end" {
					hasBegin = true
				}
			}
			if !hasBegin {
				continue // union / primitive form
			}
			nObj++
			// shape: begin (name value)* end
			if len(evs) < 2 || evs[0].Kind != "begin" || evs[len(evs)-1].Kind != "end" {
				balanced, balWhy = false, "a success path does not start with BeginObject and finish with EndObject"
				continue
			}
			inner := evs[1 : len(evs)-1]
			if len(inner)%2 != 0 {
				balanced, balWhy = false, "a success path writes an odd number of tokens between the braces"
				continue
			}
			st, exact, _ := p.State.strOf(typePath)
			for i := 0; i+1 < len(inner); i += 2 {
				n, v := inner[i], inner[i+1]
				if n.Kind != "name" || v.Kind != "value" {
					balanced, balWhy = false, "names and values do not alternate at "+P.pos(n.Pos)
					continue
				}
				// which field does the value come from?
				vp := v.Path
				field := ""
				if vp == typePath {
					field = "Type"
				} else if i := strings.LastIndex(vp, "->Object)->"); i >= 0 {
					field = strings.TrimSuffix(vp[i+len("->Object)->"):], ")")
				}
				if field == "" {
					keyOK[n.Name] = "the value written under " + n.Name + " is not a field of the schema (" + vp + ")"
					continue
				}
				written[field] = true
				if tags[field] != n.Name {
					keyOK[n.Name] = fmt.Sprintf("key %q is followed by the value of field %s, whose JSON name is %q", n.Name, field, tags[field])
				} else if _, bad := keyOK[n.Name]; !bad {
					keyOK[n.Name] = ""
				}
				if exact {
					if attrByType[st] == nil {
						attrByType[st] = map[string]bool{}
					}
					attrByType[st][n.Name] = true
				}
			}
		}
		// JS-COND: an optional attribute is written whenever it is non-empty
		c.Rule("JS-COND", "an optional attribute is written on every path on which it is known to be non-empty (emptiness is the only reason to leave it out)", 3)
		condBad := map[string]string{}
		condSeen := map[string]bool{}
		for _, p := range paths {
			if !p.Succ {
				continue
			}
			evs := p.Events
			if len(evs) == 0 || evs[0].Kind != "begin" {
				continue
			}
			wrote := map[string]bool{}
			for _, e := range evs {
				if e.Kind == "name" {
					wrote[e.Name] = true
				}
			}
			for k, m := range p.State.ne {
				i := strings.LastIndex(k, "->Object)->")
				if i < 0 || !m["s:"] {
					continue
				}
				field := strings.TrimSuffix(k[i+len("->Object)->"):], ")")
				tag, known := tags[field]
				if !known {
					continue
				}
				condSeen[field] = true
				if !wrote[tag] {
					condBad[field] = fmt.Sprintf("there is a path on which %s is non-empty and yet %q is not written", field, tag)
				}
			}
		}
		// ... and on every object path it is either written or known to be empty: a path that never looks at it loses it
		for _, p := range paths {
			if !p.Succ || len(p.Events) == 0 || p.Events[0].Kind != "begin" {
				continue
			}
			wrote := map[string]bool{}
			for _, e := range p.Events {
				if e.Kind == "name" {
					wrote[e.Name] = true
				}
			}
			for f := range condSeen {
				if wrote[tags[f]] || condBad[f] != "" {
					continue
				}
				knownEmpty := false
				for k, v := range p.State.eq {
					if strings.HasSuffix(k, "->Object)->"+f+")") && v == "s:" {
						knownEmpty = true
					}
				}
				if !knownEmpty {
					st, exact, _ := p.State.strOf(typePath)
					where := "some schema type"
					if exact {
						where = "type " + st
					}
					condBad[f] = fmt.Sprintf("for %s there is a path that neither writes %q nor has found %s empty: a non-empty %s is dropped when such a schema is serialised", where, tags[f], f, f)
				}
			}
		}
		var cf []string
		for f := range condSeen {
			cf = append(cf, f)
		}
		sort.Strings(cf)
		for _, f := range cf {
			c.Check(condBad[f] == "", fnKey(mfn)+"/when-set["+f+"]", P.pos(mfn.Pos()), "written on every path where it is non-empty", condBad[f])
		}
		c.Rule("JS-BAL", "", 0)
		c.Check(balanced && nObj > 0, fnKey(mfn)+"/object-form", P.pos(mfn.Pos()), fmt.Sprintf("all %d success paths of the object form are BeginObject (name value)* EndObject", nObj), balWhy)
		c.Rule("JS-KEY", "", 0)
		var names []string
		for n := range keyOK {
			names = append(names, n)
		}
		sort.Strings(names)
		for _, n := range names {
			c.Check(keyOK[n] == "", fnKey(mfn)+"/key["+n+"]", P.pos(mfn.Pos()), "followed by its own field's value on every path", keyOK[n])
		}
		c.Rule("JS-EXH", "", 0)
		for _, f := range fields {
			if _, known := avroAttrNames[f]; !known {
				continue
			}
			c.Check(written[f], fnKey(mfn)+"/writes["+f+"]", P.pos(mfn.Pos()), "written on some path", fmt.Sprintf("attribute %s (%q) is never written: it is lost when a schema is serialised", f, tags[f]))
		}
		var sts []string
		for st := range specAttr {
			sts = append(sts, st)
		}
		sort.Strings(sts)
		for _, st := range sts {
			attr := specAttr[st]
			c.Check(attrByType[st][attr], fnKey(mfn)+"/type["+st+"]", P.pos(mfn.Pos()), fmt.Sprintf("%s writes %q", st, attr), fmt.Sprintf("a %s schema is written without its %q attribute", st, attr))
			for other, oattr := range specAttr {
				if other != st && attrByType[st][oattr] {
					c.Bad(fnKey(mfn)+"/type["+st+"]/extra", P.pos(mfn.Pos()), fmt.Sprintf("a %s schema also writes %q, the attribute of %s", st, oattr, other))
				}
			}
		}

	}
unmarshalSide:
	// ---- unmarshal side
	c.Rule("JS-HOIST", "parsing dispatches on string / array / object, sets Type from the token, to \"union\", or hoists it out of the object (clearing it there); anything else is an error", 4)
	if jsHoistByFold(c, ufn) {
		return
	}
	upaths, ok := enumeratePaths(ufn)
	if !ok {
		c.Unk(fnKey(ufn)+"/paths", P.pos(ufn.Pos()), "path budget exceeded")
		return
	}
	// the kind tested: the PeekKind call compared with constants
	kindPath := ""
	for _, p := range upaths {
		for k, v := range p.State.eq {
			if strings.HasPrefix(k, "call@") && (v == "34" || v == "91" || v == "123") {
				kindPath = k
			}
		}
	}
	type form struct {
		ok   bool
		why  string
		seen bool
	}
	forms := map[string]*form{"string": {}, "array": {}, "object": {}, "other": {ok: true}}
	kindName := map[string]string{"34": "string", "91": "array", "123": "object"}
	for _, p := range upaths {
		if p.Ret == nil {
			continue
		}
		ev := errOperand(p.Ret)
		succ := isNilConst(ev)
		if !succ && !isFreshError(ev) {
			if nn, _ := knownNonNil(p.Ret.Block(), ev); !nn {
				succ = true // may be nil: a possible success
			}
		}
		fk := "other"
		if v, ok := p.State.eq[kindPath]; ok {
			if n, ok := kindName[v]; ok {
				fk = n
			}
		}
		f := forms[fk]
		if !succ {
			continue
		}
		if f.seen && !f.ok {
			continue // an earlier success path of this form already fails the clause: keep that verdict
		}
		f.seen = true
		// stores on the path
		var typeStore ssa.Value
		objTypeCleared, objAllocated, typeFromObj := false, false, false
		var decoded []ssa.Value
		var objVal ssa.Value  // the fresh object installed in s.Object
		var objLast ssa.Value // what s.Object holds when the path returns
		for _, b := range p.Blocks {
			for _, in := range b.Instrs {
				if x, ok := in.(*ssa.Store); ok && strings.HasSuffix(accessPath(x.Addr), "->Object") {
					if _, isAlloc := x.Val.(*ssa.Alloc); isAlloc {
						objAllocated, objVal = true, x.Val
					}
					objLast = x.Val
				}
			}
		}
		// isObj: v is the schema's object, named through s.Object or through the local that was installed there
		isObj := func(v ssa.Value) bool {
			return v != nil && (v == objVal || strings.HasSuffix(accessPath(v), "->Object)"))
		}
		objTypeAddr := func(v ssa.Value) bool {
			fa, ok := v.(*ssa.FieldAddr)
			return ok && fieldName(fa.X.Type(), fa.Field) == "Type" && isObj(fa.X)
		}
		for _, b := range p.Blocks {
			for _, in := range b.Instrs {
				switch x := in.(type) {
				case *ssa.Store:
					ap := accessPath(x.Addr)
					switch {
					case objTypeAddr(x.Addr):
						if s, ok := constString(x.Val); ok && s == "" && typeFromObj {
							objTypeCleared = true
						}
					case strings.HasSuffix(ap, "->Type") && !strings.Contains(ap, "->Object"):
						typeStore = x.Val
						if ld, ok := x.Val.(*ssa.UnOp); ok && ld.Op == token.MUL && objTypeAddr(ld.X) {
							typeFromObj = true
						}
					}
				case *ssa.Call:
					if sc := x.Call.StaticCallee(); sc != nil && strings.HasSuffix(qualName(sc), "json.UnmarshalDecode") {
						decoded = append(decoded, stripChange(x.Call.Args[1]))
					}
				}
			}
		}
		switch fk {
		case "string":
			okS := false
			if call, isCall := typeStore.(*ssa.Call); isCall && call.Call.StaticCallee() != nil && strings.HasSuffix(qualName(call.Call.StaticCallee()), "jsontext.Token).String") {
				okS = true
			}
			f.ok, f.why = okS, "for a JSON string the schema's Type is not set from the token's string"
		case "array":
			s, isS := constString(typeStore)
			okD := len(decoded) == 1 && strings.HasSuffix(accessPath(decoded[0]), "->Union")
			f.ok, f.why = isS && s == "union" && okD, "for a JSON array Type is not set to \"union\" with the branches decoded into Union"
		case "object":
			okD := len(decoded) == 1 && isObj(stripIface(decoded[0]))
			kept := objLast != nil && objLast == objVal
			f.ok = objAllocated && okD && typeFromObj && objTypeCleared && kept
			f.why = fmt.Sprintf("for a JSON object: fresh object %v, decoded into it %v, Type hoisted from it %v, then cleared there %v, still installed at the return %v (an object form parsed without its object cannot be written back as an object, and a record without it builds no codec)", objAllocated, okD, typeFromObj, objTypeCleared, kept)
		default:
			f.ok, f.why = false, "a token that is neither string, array nor object is accepted without error"
		}
	}
	for _, fk := range []string{"string", "array", "object", "other"} {
		f := forms[fk]
		key := fnKey(ufn) + "/form[" + fk + "]"
		if fk != "other" && !f.seen {
			c.Bad(key, P.pos(ufn.Pos()), "no success path for a JSON "+fk)
			continue
		}
		c.Check(f.ok, key, P.pos(ufn.Pos()), "handled as the schema grammar requires", f.why)
	}
}

// stripIface looks through a conversion to an interface.
func stripIface(v ssa.Value) ssa.Value {
	if mi, ok := v.(*ssa.MakeInterface); ok {
		return mi.X
	}
	return v
}

// ---------- JS-WHOLE

// ruleJSWhole: the entry points that parse a complete schema text reject text
// that is not exactly one JSON value. json.Unmarshal does; a streaming
// decoder reads one value and stops, so trailing garbage would be accepted.
func ruleJSWhole(c *Ctx) {
	c.Rule("JS-WHOLE", "schema text is parsed as a whole document (json.Unmarshal), not with a streaming decoder that stops after the first value", 1)
	P := c.P
	schemaT := P.NamedType(P.Avro, "Schema")
	ufn := P.Method(schemaT, "UnmarshalJSONFrom")
	n := 0
	for _, fn := range P.ModuleFuncs() {
		if fn == ufn || fn.Pkg != P.Avro {
			continue
		}
		for _, cs := range callsIn(fn) {
			if cs.Static == nil {
				continue
			}
			q := qualName(cs.Static)
			// does the call decode into a Schema?
			intoSchema := false
			for _, a := range cs.Common.Args {
				t := stripChange(a).Type()
				if pt, ok := t.Underlying().(*types.Pointer); ok && schemaT != nil && types.Identical(pt.Elem(), schemaT) {
					intoSchema = true
				}
			}
			switch {
			case strings.HasSuffix(q, "json.Unmarshal") && intoSchema:
				n++
				c.OK(fmt.Sprintf("%s/parse#%d", fnKey(fn), n), P.pos(cs.Instr.Pos()), "json.Unmarshal: the whole text must be one value")
			case (strings.HasSuffix(q, "json.UnmarshalDecode") || strings.HasSuffix(q, "json.UnmarshalRead")) && intoSchema:
				n++
				c.Unk(fmt.Sprintf("%s/parse#%d", fnKey(fn), n), P.pos(cs.Instr.Pos()), "a schema is decoded from a stream: the decoder stops after the first value, so text with trailing data is accepted unless end of input is checked afterwards (not recognised here)")
			}
		}
	}
	if n == 0 {
		c.Unk("avro/schema-parse-entry", "-", "no call parsing JSON into a Schema was found outside UnmarshalJSONFrom")
	}
}
