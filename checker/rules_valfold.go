package main

// VAL-FOLD (C01, C02, C13, C17, C19): the primitive codecs move the value
// itself. The wire automata see shapes (a varint here, a byte there), not what
// the varint or the byte holds; this rule folds (E-CP) the few places where a
// value crosses between the Go object and the wire and reads off what crosses:
//
//   - IntCodec[T].Write hands the standard varint encoder the value at p,
//     widened without reinterpretation (per instantiation);
//   - BoolCodec.Write appends exactly the byte 1 for true and 0 for false — the
//     whole domain, two folds; BoolCodec.Read, folded on a one-byte buffer with
//     the byte a named unknown, stores false for 0 and true for 1;
//   - DateCodec.Read builds time.Date(1970, January, 1+days, 0, 0, 0, 0, UTC)
//     from the decoded day count and stores that.

import (
	"fmt"
	"go/types"
	"strings"

	"golang.org/x/tools/go/ssa"
)

func ruleValFold(c *Ctx) {
	c.Rule("VAL-FOLD", "where a value crosses between the Go object and the wire in a primitive codec it crosses unchanged: integers are widened, not reinterpreted; booleans are the bytes 0 and 1; a date is day 1+n of January 1970 UTC", 6)
	P := c.P
	bt := getBT(P)
	wbN := P.NamedType(P.Avro, "WriteBuf")
	rbN := P.NamedType(P.Avro, "ReadBuf")
	if !c.Anchor(wbN != nil && rbN != nil, "WriteBuf and ReadBuf") {
		return
	}
	wbBuf := uniqueFieldWhere(wbN, func(t types.Type) bool {
		sl, ok := t.Underlying().(*types.Slice)
		return ok && isBasicKind(sl.Elem(), types.Uint8)
	})
	foldAll := func(fn *ssa.Function, mkArgs func() []cpVal, opaque func(*ssa.Function) bool, each func(res []cpVal, e *cpEngine, args []cpVal)) string {
		e := &cpEngine{P: P, MaxOut: 32, MaxSteps: 20000, MaxForks: cpMaxForks, MaxDepth: 8, opaque: opaque, visited: map[*ssa.Function]bool{}}
		e.globals = cpInitGlobals(P)
		e.pending = [][]bool{nil}
		n := 0
		for len(e.pending) > 0 {
			d := e.pending[len(e.pending)-1]
			e.pending = e.pending[:len(e.pending)-1]
			e.decisions, e.taken, e.steps, e.calls, e.uid, e.decided = d, nil, 0, nil, 0, map[string]bool{}
			e.bytes, e.constraints, e.onceDone, e.varintBufs = nil, nil, nil, nil
			args := mkArgs()
			var res []cpVal
			failed := ""
			func() {
				defer func() {
					if x := recover(); x != nil {
						if a, ok := x.(cpAbort); ok {
							failed = a.why
							return
						}
						panic(x)
					}
				}()
				res = e.call(fn, args, 0)
			}()
			if failed != "" {
				return failed
			}
			n++
			if n > 32 {
				return "too many outcomes"
			}
			each(res, e, args)
		}
		return ""
	}
	// ---- integer writers
	for _, ct := range bt.Codecs {
		if !strings.HasPrefix(ct.Name, "avro.IntCodec[") {
			continue
		}
		fn := ct.M["Write"]
		if fn == nil || len(fn.Params) != 3 {
			continue
		}
		key := ct.Name + ".Write/value"
		pos := P.pos(fn.Pos())
		var elemT types.Type
		if k := newContractEnv(P).ParamContract(fn, 2, nil); k.Kind == CPtr {
			elemT = k.T
		}
		var probs []string
		nEnc := 0
		why := foldAll(fn, func() []cpVal {
			w := cpPtrTo(cpStructOf(types.Type(wbN), map[string]cpVal{wbBuf: cpUnk{ID: "wbuf"}}), types.Type(wbN))
			return []cpVal{cpStructOf(ct.T, nil), w, cpPtr{C: &cpCell{V: cpUnk{ID: "val"}, T: elemT}}}
		}, func(g *ssa.Function) bool {
			// the write buffer's own methods are opaque: what its varint method does with the value is VAR-STD's
			return g.Signature.Recv() != nil && isWriteBufPtr(g.Signature.Recv().Type())
		}, func(res []cpVal, e *cpEngine, args []cpVal) {
			for _, cl := range e.calls {
				var g *ssa.Function
				if cl.Instr != nil {
					g = cl.Instr.Common().StaticCallee()
				}
				isVarint := g != nil && g.Signature.Recv() != nil && isWriteBufPtr(g.Signature.Recv().Type()) && g.Signature.Params().Len() == 1 && isBasicKind(g.Signature.Params().At(0).Type(), types.Int64)
				if strings.HasSuffix(cl.Callee, "binary.AppendVarint") && len(cl.Args) == 2 {
					nEnc++
					if u, isU := cl.Args[1].(cpUnk); !isU || u.ID != "val" {
						probs = append(probs, fmt.Sprintf("what is handed to the varint encoder is %v, not the value at p widened to 64 bits", cl.Args[1]))
					}
				}
				if isVarint && len(cl.Args) == 2 {
					nEnc++
					if u, isU := cl.Args[1].(cpUnk); !isU || u.ID != "val" {
						probs = append(probs, fmt.Sprintf("what is handed to the write buffer's varint method is %v, not the value at p widened to 64 bits", cl.Args[1]))
					}
					if p, isP := cl.Args[0].(cpPtr); !isP || p.C == nil {
						probs = append(probs, "the varint is not written to the write buffer Write was given")
					}
				}
			}
		})
		switch {
		case why != "":
			c.Unk(key, pos, "the fold of Write failed: "+why)
		case nEnc != 1 && len(probs) == 0:
			c.Unk(key, pos, fmt.Sprintf("Write makes %d calls of the standard varint encoder (a hand-written encoder is judged by VAR-STD; what it is given is not followed here)", nEnc))
		default:
			c.Check(len(probs) == 0, key, pos, "folded with the value at p unknown: the write buffer's varint method receives that very value, widened without reinterpretation", strings.Join(dedup(probs), "; "))
		}
	}
	// ---- booleans
	if ct := bt.byType["avro.BoolCodec"]; ct != nil {
		if fn := ct.M["Write"]; fn != nil && len(fn.Params) == 3 {
			key := ct.Name + ".Write/value"
			var probs []string
			why := ""
			for _, val := range []bool{false, true} {
				want := int64(0)
				if val {
					want = 1
				}
				var sliceT types.Type
				if st, ok := wbN.Underlying().(*types.Struct); ok {
					for i := 0; i < st.NumFields(); i++ {
						if st.Field(i).Name() == wbBuf {
							sliceT = st.Field(i).Type()
						}
					}
				}
				var wcell cpPtr
				w := foldAll(fn, func() []cpVal {
					wcell = cpPtrTo(cpStructOf(types.Type(wbN), map[string]cpVal{wbBuf: cpSlice{T: sliceT}}), types.Type(wbN))
					return []cpVal{cpStructOf(ct.T, nil), wcell, cpPtr{C: &cpCell{V: cpBool{val}, T: types.Typ[types.Bool]}}}
				}, nil, func(res []cpVal, e *cpEngine, args []cpVal) {
					bv, _ := cpFieldByName(wcell.C.V, wbBuf)
					sl, isS := bv.(cpSlice)
					if !isS || len(sl.Elems) != 1 {
						probs = append(probs, fmt.Sprintf("writing %v does not append exactly one byte", val))
						return
					}
					if k, isK := sl.Elems[0].V.(cpInt); !isK || k.V != want {
						probs = append(probs, fmt.Sprintf("writing %v appends %v, the specification says the byte %d", val, sl.Elems[0].V, want))
					}
				})
				if w != "" {
					why = w
				}
			}
			if why != "" {
				c.Unk(key, P.pos(fn.Pos()), "the fold of Write failed: "+why)
			} else {
				c.Check(len(probs) == 0, key, P.pos(fn.Pos()), "folded for false and for true: one byte, 0 and 1", strings.Join(dedup(probs), "; "))
			}
		}
		if fn := ct.M["Read"]; fn != nil && len(fn.Params) == 3 {
			key := ct.Name + ".Read/value"
			st, _ := rbN.Underlying().(*types.Struct)
			var bufField, curField string
			var sliceT types.Type
			for i := 0; st != nil && i < st.NumFields(); i++ {
				f := st.Field(i)
				if sl, ok := f.Type().Underlying().(*types.Slice); ok && isBasicKind(sl.Elem(), types.Uint8) {
					bufField, sliceT = f.Name(), f.Type()
				}
				if isBasicKind(f.Type(), types.Int) {
					curField = f.Name()
				}
			}
			var probs []string
			seen0, seen1 := false, false
			var dst *cpCell
			why := foldAll(fn, func() []cpVal {
				cells := []*cpCell{{V: cpByteIdent("in[0]", 0)}}
				rd := cpPtrTo(cpStructOf(types.Type(rbN), map[string]cpVal{bufField: cpSlice{T: sliceT, Elems: cells}, curField: cpInt{0}}), types.Type(rbN))
				dst = &cpCell{V: cpBool{false}, T: types.Typ[types.Bool]}
				return []cpVal{cpStructOf(ct.T, nil), rd, cpPtr{C: dst}}
			}, nil, func(res []cpVal, e *cpEngine, args []cpVal) {
				if len(res) != 1 {
					return
				}
				if _, isNil := res[0].(cpNil); !isNil {
					probs = append(probs, "a one-byte buffer is refused")
					return
				}
				set, ok := e.bytes["in[0]"]
				if !ok {
					set = cpAllBytes()
				}
				b, isB := dst.V.(cpBool)
				if !isB {
					probs = append(probs, fmt.Sprintf("what is stored is not a boolean decided by the byte (%T)", dst.V))
					return
				}
				if set.has(0) {
					seen0 = true
					if b.V {
						probs = append(probs, "the byte 0 decodes to true")
					}
				}
				if set.has(1) {
					seen1 = true
					if !b.V {
						probs = append(probs, "the byte 1 decodes to false")
					}
				}
			})
			switch {
			case why != "":
				c.Unk(key, P.pos(fn.Pos()), "the fold of Read failed: "+why)
			default:
				if !seen0 || !seen1 {
					probs = append(probs, "the bytes 0 and 1 are not both accepted")
				}
				c.Check(len(probs) == 0, key, P.pos(fn.Pos()), "folded on a one-byte buffer with the byte a named unknown: 0 stores false, 1 stores true", strings.Join(dedup(probs), "; "))
			}
		}
	}
	// ---- dates
	if ct := bt.byType["time.DateCodec"]; ct != nil {
		if fn := ct.M["Read"]; fn != nil && len(fn.Params) == 3 {
			key := ct.Name + ".Read/value"
			var probs []string
			nDate := 0
			var dst *cpCell
			opaque := func(g *ssa.Function) bool { return g.Pkg == P.Avro }
			why := foldAll(fn, func() []cpVal {
				dst = &cpCell{V: cpUnk{ID: "old"}}
				return []cpVal{cpStructOf(ct.T, nil), cpUnk{ID: "arg:r"}, cpPtr{C: dst}}
			}, opaque, func(res []cpVal, e *cpEngine, args []cpVal) {
				if len(res) != 1 {
					return
				}
				if _, isNil := res[0].(cpNil); !isNil {
					return
				}
				// the decoded day count: what the embedded integer codec left in the local it was given
				days := ""
				var date *cpCall
				for i := range e.calls {
					cl := &e.calls[i]
					if strings.HasSuffix(cl.Callee, ").Read") && len(cl.Args) >= 3 {
						if p, isP := cl.Args[len(cl.Args)-1].(cpPtr); isP && p.C != nil {
							if u, isU := p.C.V.(cpUnk); isU {
								days = u.ID
							}
						}
					}
					if cl.Callee == "time.Date" {
						date = cl
					}
				}
				if date == nil || len(date.Args) != 8 {
					probs = append(probs, "a successful Read does not build the date with time.Date")
					return
				}
				nDate++
				wantK := []int64{1970, 1, -1, 0, 0, 0, 0}
				for i, w := range wantK {
					if i == 2 {
						l, isL := date.Args[2].(cpLin)
						if !isL || l.Mul != 1 || l.Add != 1 || (days != "" && l.ID != days) {
							probs = append(probs, fmt.Sprintf("the day handed to time.Date is %v, not 1 + the decoded day count", date.Args[2]))
						}
						continue
					}
					if k, isK := date.Args[i].(cpInt); !isK || k.V != w {
						probs = append(probs, fmt.Sprintf("argument %d of time.Date is %v, not %d (1 January 1970, midnight)", i+1, date.Args[i], w))
					}
				}
				if u, isU := date.Args[7].(cpUnk); !isU || !strings.Contains(u.ID, "time.UTC") {
					probs = append(probs, "the date is not built in time.UTC")
				}
				if ru, isU := date.Result.(cpUnk); isU {
					if du, isD := dst.V.(cpUnk); !isD || du.ID != ru.ID {
						probs = append(probs, "what is stored at p is not the value time.Date returned")
					}
				}
			})
			switch {
			case why != "":
				c.Unk(key, P.pos(fn.Pos()), "the fold of Read failed: "+why)
			case nDate == 0 && len(probs) == 0:
				c.Unk(key, P.pos(fn.Pos()), "no successful outcome builds a date with time.Date (another construction of the instant is not followed here)")
			default:
				c.Check(len(probs) == 0, key, P.pos(fn.Pos()), "folded with the embedded integer codec opaque: time.Date(1970, 1, 1+days, 0, 0, 0, 0, time.UTC) of the decoded day count is what is stored", strings.Join(dedup(probs), "; "))
			}
		}
	}
}
