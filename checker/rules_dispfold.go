package main

// The codec dispatch table by folding (E-CP): the root dispatcher is folded
// for every pair of a schema type and a Go type of each kind (with the
// variants that matter: byte and non-byte elements, string and non-string map
// keys, a byte array whose length does or does not match a fixed schema's
// size). What comes out for a pair — a codec value, or an error — is judged
// with the same pointee contracts as before, but no longer depends on how the
// kind tests are spread over the builders and their helpers.

import (
	"fmt"
	"go/types"
	"os"
	"reflect"
	"sort"
	"strings"

	"golang.org/x/tools/go/ssa"
)

type dispRow struct {
	st      string   // schema type
	tname   string   // description of the Go type
	rt      *cpRType // nil: the nil type (skip-only codecs)
	codecs  []cpVal  // codec values of the success outcomes (registry hits excluded)
	rejects bool
}

type dispFold struct {
	ok   bool
	why  string
	root *ssa.Function
	rows []*dispRow
	// extra: unions and the pointer wrapper — which codec types come out, not judged by BT-WIDTH
	extra []*dispRow
	// aux: containers of int16 under array<long>/map<long>, and int16 under long, for BT-ARR/BT-MAP only
	aux []*dispRow
}

var dispFoldCache = map[*Program]*dispFold{}

// dispatchRoot: the function with the builder signature that Schema.Codec
// calls (the entry of codec construction).
func dispatchRoot(P *Program) *ssa.Function {
	return P.Func(P.Avro, "buildCodec")
}

func dispatchByFold(P *Program) *dispFold {
	if d, ok := dispFoldCache[P]; ok {
		return d
	}
	d := &dispFold{}
	dispFoldCache[P] = d
	root := dispatchRoot(P)
	schemaNT := P.NamedType(P.Avro, "Schema")
	if root == nil || schemaNT == nil || len(root.Params) != 3 {
		d.why = "dispatcher not found"
		return d
	}
	d.root = root
	schemaT := types.Type(schemaNT)
	sst := schemaT.Underlying().(*types.Struct)
	var objT types.Type
	for i := 0; i < sst.NumFields(); i++ {
		if sst.Field(i).Name() == "Object" {
			if pt, ok := sst.Field(i).Type().Underlying().(*types.Pointer); ok {
				objT = pt.Elem()
			}
		}
	}
	if objT == nil {
		d.why = "Schema.Object not found"
		return d
	}
	sch := func(t string, obj map[string]cpVal) cpVal {
		f := map[string]cpVal{"Type": cpStr{t}}
		if obj != nil {
			f["Object"] = cpPtrTo(cpStructOf(objT, obj), objT)
		}
		return cpStructOf(schemaT, f)
	}
	long := sch("long", nil)
	schemas := []struct {
		st string
		v  cpVal
	}{
		{"null", sch("null", nil)}, {"boolean", sch("boolean", nil)}, {"int", sch("int", nil)}, {"long", long},
		{"float", sch("float", nil)}, {"double", sch("double", nil)}, {"bytes", sch("bytes", nil)}, {"string", sch("string", nil)},
		{"fixed", sch("fixed", map[string]cpVal{"Size": cpInt{4}, "Name": cpStr{"F"}})},
		{"fixed/5", sch("fixed", map[string]cpVal{"Size": cpInt{5}, "Name": cpStr{"F"}})},
		{"array", sch("array", map[string]cpVal{"Items": long})},
		{"map", sch("map", map[string]cpVal{"Values": long})},
		{"record", sch("record", map[string]cpVal{"Name": cpStr{"R"}})},
	}
	mkUnion := func(branches ...cpVal) cpVal {
		sl := cpSlice{}
		for _, b := range branches {
			sl.Elems = append(sl.Elems, &cpCell{V: b, T: schemaT})
		}
		return cpStructOf(schemaT, map[string]cpVal{"Type": cpStr{"union"}, "Union": sl})
	}
	type tv struct {
		name string
		rt   *cpRType
	}
	var typesV []tv
	for k := reflect.Bool; k <= reflect.UnsafePointer; k++ {
		switch k {
		case reflect.Slice:
			typesV = append(typesV, tv{"slice/other", cpRTypeOfKind(k, false)}, tv{"slice/byte", cpRTypeOfKind(k, true)})
		case reflect.Array:
			typesV = append(typesV, tv{"array/other", cpRTypeOfKind(k, false)}, tv{"array/byte", cpRTypeOfKind(k, true)})
		case reflect.Map:
			m := cpRTypeOfKind(k, false)
			m2 := cpRTypeOfKind(k, false)
			m2.Key, m2.ID = cpRTypeOfKind(reflect.Int64, false), "map[int64]int64"
			typesV = append(typesV, tv{"map/string-key", m}, tv{"map/other-key", m2})
		case reflect.Ptr:
			continue // pointers are unwrapped by the dispatcher before any builder: decided by BT-PTR rules
		default:
			typesV = append(typesV, tv{k.String(), cpRTypeOfKind(k, false)})
		}
	}
	cpMaxOutcomes = 256
	defer func() { cpMaxOutcomes = 96 }()
	for _, s := range schemas {
		for _, t := range typesV {
			outs, _, ok, why := cpFoldOpt(P, root, []cpVal{s.v, t.rt, cpUnk{ID: "arg:omit"}}, nil)
			if !ok {
				d.why = fmt.Sprintf("folding the dispatcher for schema %s and a %s: %s", s.st, t.name, why)
				return d
			}
			row := &dispRow{st: s.st, tname: t.name, rt: t.rt}
			for _, o := range outs {
				if o.Panics {
					d.why = fmt.Sprintf("the dispatcher can panic for schema %s and a %s", s.st, t.name)
					return d
				}
				if len(o.Results) != 2 {
					continue
				}
				hit := false
				for _, cl := range o.Calls {
					if cl.Callee == "maplookup" {
						if tup, isT := cl.Result.(cpTuple); isT && len(tup.Vs) == 2 {
							if u, isU := tup.Vs[1].(cpUnk); isU && o.Decided[u.ID] {
								hit = true
							}
						}
					}
				}
				if hit {
					continue
				}
				switch o.Results[1].(type) {
				case cpNil:
					row.codecs = append(row.codecs, o.Results[0])
				default:
					row.rejects = true
				}
			}
			d.rows = append(d.rows, row)
		}
	}
	// unions and the pointer wrapper: only which codec types they produce matters here (their own rules judge them)
	i16 := cpRTypeOfKind(reflect.Int16, false)
	extra := []struct {
		st string
		s  cpVal
		rt *cpRType
		tn string
	}{
		{"union", mkUnion(sch("null", nil), long), cpRTypeOfKind(reflect.Int64, false), "int64"},
		{"union", mkUnion(long, sch("null", nil)), cpRTypeOfKind(reflect.Int64, false), "int64"},
		{"union", mkUnion(sch("null", nil), sch("string", nil)), cpRTypeOfKind(reflect.String, false), "string"},
		{"union", mkUnion(sch("null", nil), long, sch("string", nil)), cpRTypeOfKind(reflect.Int64, false), "int64"},
		{"pointer", long, &cpRType{ID: "*int64", Kind: int64(reflect.Ptr), Elem: cpRTypeOfKind(reflect.Int64, false), Size: 8}, "*int64"},
		// containers of an element type whose codec differs from the skip-only codec of its schema type (BT-ARR, BT-MAP)
		{"long16", long, i16, "int16"},
		{"array16", sch("array", map[string]cpVal{"Items": long}), &cpRType{ID: "[]int16", Kind: int64(reflect.Slice), Elem: i16, Size: 24}, "[]int16"},
		{"map16", sch("map", map[string]cpVal{"Values": long}), &cpRType{ID: "map[string]int16", Kind: int64(reflect.Map), Elem: i16, Key: cpRTypeOfKind(reflect.String, false), Size: 8}, "map[string]int16"},
	}
	for _, x := range extra {
		outs, _, ok, _ := cpFoldOpt(P, root, []cpVal{x.s, x.rt, cpUnk{ID: "arg:omit"}}, nil)
		if !ok {
			continue
		}
		row := &dispRow{st: x.st + "/extra", tname: x.tn, rt: x.rt}
		for _, o := range outs {
			if o.Panics || len(o.Results) != 2 {
				continue
			}
			if strings.HasSuffix(x.st, "16") {
				// as for the rows: outcomes in which some type was found registered are not the plain case
				hit := false
				for _, cl := range o.Calls {
					if cl.Callee == "maplookup" {
						if tup, isT := cl.Result.(cpTuple); isT && len(tup.Vs) == 2 {
							if u, isU := tup.Vs[1].(cpUnk); isU && o.Decided[u.ID] {
								hit = true
							}
						}
					}
				}
				if hit {
					continue
				}
			}
			if _, isNil := o.Results[1].(cpNil); isNil {
				if _, isI := o.Results[0].(cpIface); isI {
					row.codecs = append(row.codecs, o.Results[0])
				}
			}
		}
		if strings.HasSuffix(x.st, "16") {
			d.aux = append(d.aux, row)
			continue
		}
		d.extra = append(d.extra, row)
	}
	d.ok = true
	return d
}

// codecTypeOf: the named codec type of a folded codec value, and the struct value itself.
func codecTypeOf(v cpVal) (types.Type, cpVal) {
	iv, ok := v.(cpIface)
	if !ok {
		return nil, nil
	}
	T, val := iv.T, iv.V
	if pt, isP := T.Underlying().(*types.Pointer); isP {
		T = pt.Elem()
		if pp, okP := val.(cpPtr); okP && pp.C != nil {
			val = pp.C.V
		} else {
			val = nil
		}
	}
	return T, val
}

// btWidthByFold decides BT-WIDTH and BT-FIXED on the folded dispatch table.
func btWidthByFold(c *Ctx) bool {
	P := c.P
	d := dispatchByFold(P)
	if !d.ok {
		if d.why != "" {
			c.Note("BT-WIDTH: %s; falling back on the builders' guard tables", d.why)
		}
		return false
	}
	e := getBT(P)
	type agg struct {
		kinds map[string]bool
		bad   []string
		why   map[string]string
		pos   string
		contr string
	}
	byCodec := map[string]*agg{}
	tab := map[string]string{}
	for _, row := range d.rows {
		var names []string
		for _, cv := range row.codecs {
			T, val := codecTypeOf(cv)
			if T == nil {
				return false
			}
			name := typeKey(T)
			names = append(names, name)
			ct := e.byType[name]
			a := byCodec[name]
			if a == nil {
				a = &agg{kinds: map[string]bool{}, why: map[string]string{}}
				byCodec[name] = a
			}
			a.kinds[row.tname] = true
			if ct == nil {
				a.bad = append(a.bad, row.tname)
				a.why[row.tname] = "returned type is not a known codec type"
				continue
			}
			contract := e.typedContract(ct)
			a.contr = contract.String()
			switch contract.Kind {
			case CNone, CSub:
				continue // touches nothing / forwards: judged by BT-SUB on the builders
			case CUnknown, CConflict, CMapHeader, CDyn:
				a.bad = append(a.bad, row.tname)
				a.why[row.tname] = "the codec's view of the destination is not understood: " + contract.String()
				continue
			}
			allowed, elemK, keyK, lenEq, ok := P.kindsFor(contract)
			if !ok {
				a.bad = append(a.bad, row.tname)
				a.why[row.tname] = "no kind table for contract " + contract.String()
				continue
			}
			k := reflect.Kind(row.rt.Kind)
			switch {
			case !allowed.has(uint(k)):
				a.bad = append(a.bad, row.tname)
				a.why[row.tname] = fmt.Sprintf("for a Go %s and schema %s the dispatcher returns %s, whose methods use the destination as %s: a store of the wrong width or type into the field", row.tname, row.st, name, contract)
			case elemK != 0 && (row.rt.Elem == nil || !elemK.has(uint(row.rt.Elem.Kind))):
				a.bad = append(a.bad, row.tname)
				a.why[row.tname] = fmt.Sprintf("for a Go %s the element kind is not restricted to %s (%s)", row.tname, elemK, contract)
			case keyK != 0 && (row.rt.Key == nil || !keyK.has(uint(row.rt.Key.Kind))):
				a.bad = append(a.bad, row.tname)
				a.why[row.tname] = fmt.Sprintf("for a Go %s the map key kind is not restricted to %s (%s)", row.tname, keyK, contract)
			case lenEq:
				// a fixed codec: only where the array length equals the schema's size, which is the size it carries
				sz, _ := cpFieldByName(val, "Size")
				si, isInt := sz.(cpInt)
				want := int64(4)
				if row.st == "fixed/5" {
					want = 5
				}
				if !isInt || si.V != want || want != 4 /* the modelled array has length 4 */ {
					a.bad = append(a.bad, row.tname+"@"+row.st)
					a.why[row.tname+"@"+row.st] = fmt.Sprintf("a fixed codec is built for a byte array of length 4 under schema size %d (the codec carries size %v): the array length is not held equal to the size", want, sz)
				}
			}
		}
		sort.Strings(names)
		if len(names) == 0 {
			names = []string{"reject"}
		}
		tab[row.st+" x "+row.tname] = strings.Join(dedup(names), "|")
	}
	c.Table("dispatch_table_by_fold", tab)
	var cnames []string
	for n := range byCodec {
		cnames = append(cnames, n)
	}
	sort.Strings(cnames)
	pos := P.pos(d.root.Pos())
	// BT-FIXED: the fixed codec exists only for a byte array of the schema's size
	{
		okFixed, seenFixed, whyFixed := true, false, ""
		for _, row := range d.rows {
			if !strings.HasPrefix(row.st, "fixed") {
				continue
			}
			for _, cv := range row.codecs {
				T, val := codecTypeOf(cv)
				if T == nil {
					continue
				}
				seenFixed = true
				sz, _ := cpFieldByName(val, "Size")
				si, isInt := sz.(cpInt)
				if row.tname != "array/byte" || row.st != "fixed" || !isInt || si.V != 4 {
					okFixed = false
					whyFixed = fmt.Sprintf("under schema %s a %s gets %s carrying size %v: a fixed codec is built without the array being a byte array whose length equals the schema's size", row.st, row.tname, typeKey(T), sz)
				}
			}
		}
		c.Rule("BT-FIXED", "", 0)
		c.Check(okFixed && seenFixed, fnKey(d.root)+"/fixed/len", pos, "a fixed codec comes out only for [4]byte under size 4 (not under size 5, not for any other kind) and carries that size", whyFixed)
		c.Rule("BT-WIDTH", "", 0)
	}
	for _, n := range cnames {
		a := byCodec[n]
		key := fmt.Sprintf("%s/return[%s]", fnKey(d.root), n)
		var ks []string
		for k := range a.kinds {
			ks = append(ks, k)
		}
		sort.Strings(ks)
		if len(a.bad) == 0 {
			c.OK(key, pos, fmt.Sprintf("built exactly for Go types {%s}, all within what %s allows (dispatcher folded for every schema type x Go kind)", strings.Join(ks, ", "), a.contr))
			continue
		}
		sort.Strings(a.bad)
		for _, b := range dedup(a.bad) {
			c.Bad(fmt.Sprintf("%s/kind=%s", key, b), pos, a.why[b])
		}
	}
	return true
}

// btArrMapFieldsByFold decides the construction clauses of BT-ARR and BT-MAP
// on the folded dispatch table: the array codec built for []int64 under an
// array-of-long schema carries the slice's own element type and the very
// codec the dispatcher builds for (long, int64); the map codec built for
// map[string]int64 carries the map type itself and that same value codec.
func btArrMapFieldsByFold(c *Ctx) bool {
	P := c.P
	d := dispatchByFold(P)
	if !d.ok {
		return false
	}
	find := func(st, tname string) *dispRow {
		for _, r := range d.rows {
			if r.st == st && r.tname == tname {
				return r
			}
		}
		return nil
	}
	leaf := find("long", "int64")
	arr, mp := find("array", "slice/other"), find("map", "map/string-key")
	if leaf == nil || arr == nil || mp == nil || len(leaf.codecs) != 1 {
		return false
	}
	leafT, _ := codecTypeOf(leaf.codecs[0])
	if leafT == nil {
		return false
	}
	pos := P.pos(d.root.Pos())
	judge := func(row *dispRow, wantType *cpRType, what string) (bool, string) {
		if len(row.codecs) == 0 {
			return false, "no " + what + " codec comes out for the plain case"
		}
		for _, cv := range row.codecs {
			T, val := codecTypeOf(cv)
			st, ok := val.(cpStruct)
			if T == nil || !ok {
				return false, "the " + what + " codec's fields are not known"
			}
			tst := T.Underlying().(*types.Struct)
			okType, okCodec := false, false
			for i := 0; i < tst.NumFields(); i++ {
				cell := st.F[i]
				if cell == nil {
					continue
				}
				if isReflectType(tst.Field(i).Type()) {
					if rt, isRT := cell.V.(*cpRType); isRT && rt == wantType {
						okType = true
					}
				}
				if isCodecIface(P, tst.Field(i).Type()) {
					if sT, _ := codecTypeOf(cell.V); sT != nil && types.Identical(sT, leafT) {
						okCodec = true
					} else if os.Getenv("AVROCHECK_DEBUG") != "" {
						fmt.Fprintf(os.Stderr, "BT-ARR/MAP %s: element codec %v (%T), leaf %v\n", what, sT, cell.V, leafT)
					}
				}
			}
			if !okType {
				return false, "the " + what + " codec does not carry the run-time type it is built for"
			}
			if !okCodec {
				return false, "the " + what + " codec's element codec is not the one built for the element type"
			}
		}
		return true, ""
	}
	okA, whyA := judge(arr, arr.rt.Elem, "array")
	okM, whyM := judge(mp, mp.rt, "map")
	// once more with an element type whose codec is not the one built when there is no Go type at all: an element
	// codec built for the nil type (a skip-only codec) stores a value of the schema's width into the element's slot
	findX := func(st string) *dispRow {
		for _, r := range d.aux {
			if r.st == st+"/extra" {
				return r
			}
		}
		return nil
	}
	if l16, a16, m16 := findX("long16"), findX("array16"), findX("map16"); l16 != nil && a16 != nil && m16 != nil && len(l16.codecs) == 1 {
		if t16, _ := codecTypeOf(l16.codecs[0]); t16 != nil && !types.Identical(t16, leafT) {
			leafT = t16
			if okA {
				okA, whyA = judge(a16, a16.rt.Elem, "array ([]int16)")
			}
			if okM {
				okM, whyM = judge(m16, m16.rt, "map (map[string]int16)")
			}
		}
	}
	c.Rule("BT-ARR", "", 0)
	c.Check(okA, fnKey(d.root)+"/arrayCodec-fields", pos, "for []int64 under array<long>: itemType is the slice's element type and itemCodec is the codec built for (long, int64)", "itemType and the type itemCodec was built for are not the same element type: "+whyA)
	c.Rule("BT-MAP", "", 0)
	c.Check(okM, fnKey(d.root)+"/MapCodec-fields", pos, "for map[string]int64 under map<long>: rtype is the map type and valueCodec is the codec built for (long, int64)", "the map codec's value codec or runtime type does not come from the map type it is built for: "+whyM)
	return true
}
