package main

import (
	"fmt"
	"sort"
	"strings"

	"golang.org/x/tools/go/ssa"
)

// The timestamp parser decided by folding (E-CP) on symbolic input strings of the lengths RFC 3339 allows
// without a fraction: 10 ("2006-01-02"), 20 ("2006-01-02T15:04:05Z") and 25 ("...+07:00"), and on the two
// lengths that leave one byte over (21, 26). The bytes are unknown but named by their offset, every value
// carries the set of offsets it was computed from, and every comparison of a byte with a constant that a
// path branched on is kept in the outcome. The questions are asked of the outcomes, so it does not matter
// through which helpers, in which order or with which spelling the parser gets there.
type ptFold struct {
	deep    *ptDeep
	ok      bool
	why     string
	pos     string
	problem map[string]string // obligation key suffix -> what is wrong ("" = holds)
}

func ptSuccess(o cpOutcome) bool {
	if o.Failed != "" || o.Panics || len(o.Results) != 2 {
		return false
	}
	_, isNil := o.Results[1].(cpNil)
	return isNil
}

// byteIs: what the path knows about in[pos] == ch: +1 equal, -1 different, 0 nothing (or not enough).
func byteIs(o cpOutcome, pos int64, ch int64) int {
	s, ok := o.Bytes[fmt.Sprintf("in[%d]", pos)]
	if !ok {
		return 0
	}
	if !s.has(int(ch)) {
		return -1
	}
	if s.count() == 1 {
		return 1
	}
	return 0
}

func ptDateCall(o cpOutcome) *cpCall {
	var last *cpCall
	for i := range o.Calls {
		if o.Calls[i].Callee == "time.Date" {
			last = &o.Calls[i]
		}
	}
	return last
}

func parseTimeByFold(P *Program, fn *ssa.Function) *ptFold {
	pf := &ptFold{problem: map[string]string{}, pos: P.pos(fn.Pos())}
	saveT, saveO, saveF := cpTolerant, cpMaxOutcomes, cpMaxForks
	cpTolerant, cpMaxOutcomes, cpMaxForks = true, 8192, 200
	defer func() { cpTolerant, cpMaxOutcomes, cpMaxForks = saveT, saveO, saveF }()
	opaque := func(g *ssa.Function) bool {
		// the zone cache is another rule's business (TZ-KEY); its locking is not modelled
		for _, cs := range callsIn(g) {
			if cs.Static != nil && qualName(cs.Static) == "time.FixedZone" {
				return true
			}
		}
		return false
	}
	fold := func(n int64) ([]cpOutcome, bool) {
		outs, _, ok, why := cpFoldOpt(P, fn, []cpVal{cpStrSym{ID: "in", Off: 0, Len: n}}, opaque)
		if !ok {
			pf.why = fmt.Sprintf("length %d: %s", n, why)
		}
		return outs, ok
	}
	set := func(k, v string) {
		if old, seen := pf.problem[k]; !seen || old == "" {
			pf.problem[k] = v
		}
	}
	depsOf := func(lo, hi int64) string {
		s := ","
		for i := lo; i < hi; i++ {
			s += fmt.Sprintf("%d,", i)
		}
		return s
	}
	checkForm := func(n int64, form string, dateOnly bool) bool {
		outs, ok := fold(n)
		if !ok {
			return false
		}
		var succ []cpOutcome
		for _, o := range outs {
			if o.Failed != "" && (n == 10 || (byteIs(o, 19, '.') <= 0 && byteIs(o, 19, ',') <= 0)) {
				pf.why = fmt.Sprintf("length %d: a path without a fraction is outside the model: %s", n, o.Failed)
				return false
			}
			if ptSuccess(o) {
				// a fraction is not among the questions here
				if n != 10 && (byteIs(o, 19, '.') > 0 || byteIs(o, 19, ',') > 0) {
					continue
				}
				succ = append(succ, o)
			}
		}
		if len(succ) == 0 {
			pf.why = fmt.Sprintf("length %d: no accepting path found", n)
			return false
		}
		for _, o := range succ {
			d := ptDateCall(o)
			if d == nil || len(d.Args) != 8 {
				pf.why = fmt.Sprintf("length %d: an accepting path does not end in time.Date", n)
				return false
			}
			for _, f := range rfc3339Fields {
				if dateOnly && !f.dateOnly {
					continue
				}
				k := form + "/" + f.name
				got := cpDeps(d.Args[f.dateArg])
				if got == depsOf(f.lo, f.hi) {
					set(k, "")
				} else {
					set(k, fmt.Sprintf("for a %d-byte input the %s handed to time.Date is computed from the bytes at offsets [%s], not from in[%d:%d]", n, f.name, strings.Trim(got, ","), f.lo, f.hi))
				}
			}
			for _, s := range rfc3339Seps {
				if dateOnly && !s.dateOnly {
					continue
				}
				k := fmt.Sprintf("%s/sep@%d", form, s.pos)
				if byteIs(o, s.pos, s.ch) > 0 {
					set(k, "")
				} else {
					set(k, fmt.Sprintf("a %d-byte input is accepted on a path that never found in[%d] equal to %q", n, s.pos, rune(s.ch)))
				}
			}
			if dateOnly {
				bad := ""
				for _, i := range []int{3, 4, 5, 6} {
					if z, isK := d.Args[i].(cpInt); !isK || z.V != 0 {
						bad = "the time of day of a ten-character date is not the constant zero"
					}
				}
				if u, isU := d.Args[7].(cpUnk); !isU || u.ID != "*global:time.UTC" {
					bad = "the zone of a ten-character date is not time.UTC"
				}
				set("date/midnight-utc", bad)
			}
		}
		return true
	}
	if !checkForm(10, "date", true) || !checkForm(20, "date-time", false) || !checkForm(25, "date-time", false) {
		return pf
	}
	// nothing left over: with one byte more than the form needs, and no fraction, nothing is accepted
	set("date-time/nothing-left", "")
	for _, n := range []int64{21, 26} {
		outs, ok := fold(n)
		if !ok {
			return pf
		}
		for _, o := range outs {
			if byteIs(o, 19, '.') > 0 || byteIs(o, 19, ',') > 0 {
				continue
			}
			if o.Failed != "" {
				pf.why = fmt.Sprintf("length %d: a path without a fraction is outside the model: %s", n, o.Failed)
				return pf
			}
			if ptSuccess(o) {
				var as []string
				for k, v := range o.Decided {
					if strings.HasPrefix(k, "cmp:in[19]") || strings.HasPrefix(k, "cmp:in[2") {
						as = append(as, fmt.Sprintf("%s=%v", strings.TrimPrefix(k, "cmp:"), v))
					}
				}
				sort.Strings(as)
				set("date-time/nothing-left", fmt.Sprintf("a %d-byte input without a fraction is accepted although one byte is left over after the zone (path: %s)", n, strings.Join(as, " ")))
			}
		}
	}
	pf.ok = true
	pf.deep = parseTimeDeep(P, fn, fold)
	return pf
}

// ptPanics: the parser folded over every input length up to n, all byte values at once: which index, slice
// and lookup instructions were executed, and at which of them some path ended in a run-time panic.
type ptPanics struct {
	ok      bool
	why     string
	n       int64
	paths   int
	panicAt map[ssa.Instruction]bool
	touched map[ssa.Instruction]bool
	unsure  map[ssa.Instruction]bool // executed with an offset or a length the fold does not know exactly
}

func parseNoPanic(P *Program, fn *ssa.Function, n int64) *ptPanics {
	pp := &ptPanics{n: n, panicAt: map[ssa.Instruction]bool{}, touched: map[ssa.Instruction]bool{}, unsure: map[ssa.Instruction]bool{}}
	saveT, saveO, saveF := cpTolerant, cpMaxOutcomes, cpMaxForks
	cpTolerant, cpMaxOutcomes, cpMaxForks = true, 8192, 300
	cpTouch, cpPanicAt, cpUnsure = pp.touched, pp.panicAt, pp.unsure
	defer func() {
		cpTolerant, cpMaxOutcomes, cpMaxForks = saveT, saveO, saveF
		cpTouch, cpPanicAt, cpUnsure = nil, nil, nil
	}()
	opaque := func(g *ssa.Function) bool {
		for _, cs := range callsIn(g) {
			if cs.Static != nil && qualName(cs.Static) == "time.FixedZone" {
				return true
			}
		}
		return false
	}
	for l := int64(0); l <= n; l++ {
		outs, _, ok, why := cpFoldOpt(P, fn, []cpVal{cpStrSym{ID: "in", Off: 0, Len: l}}, opaque)
		if !ok {
			pp.why = fmt.Sprintf("length %d: %s", l, why)
			return pp
		}
		for _, o := range outs {
			if o.Failed != "" {
				pp.why = fmt.Sprintf("length %d: a path is outside the model: %s", l, o.Failed)
				return pp
			}
		}
		pp.paths += len(outs)
	}
	pp.ok = true
	return pp
}
