#!/usr/bin/env python3
"""seed_eval.py <PROP> <worktree> <name> [--keep]

Evaluates a seeded change produced in a scratch worktree of /repo:
  1. extracts the source patch (tracked changes) and the demo test (untracked *_test.go);
  2. in a fresh scratch copy of /repo HEAD: suite passes with the patch, demo fails with it,
     demo passes without it;
  3. applies the patch to /repo, runs every claimed property's quick check with output
     redirected to a temp dir (committed evidence is not touched), undoes the patch at once;
  4. with --keep writes /verif/seeded/<name>/{patch.diff,demo test,meta.json}.
"""
import json, os, shutil, subprocess, sys, tempfile

prop, wt, name = sys.argv[1:4]
keep = '--keep' in sys.argv
ENV = dict(os.environ)
for k in ('GOTOOLCHAIN', 'GOSUMDB', 'GOWORK'):
    ENV.pop(k, None)
ENV.update(GOFLAGS='-mod=mod', GOPROXY='off')


def sh(cmd, cwd=None, env=None):
    p = subprocess.run(cmd, shell=True, cwd=cwd, env=env or ENV, capture_output=True, text=True)
    return p.returncode, p.stdout + p.stderr


rc, untracked = sh('git ls-files --others --exclude-standard', cwd=wt)
newsrc = [f for f in untracked.split() if f.endswith('.go') and not f.endswith('_test.go')]
if newsrc:
    sh('git add -N ' + ' '.join(newsrc), cwd=wt)
rc, patch = sh('git diff', cwd=wt)
rc, untracked = sh('git ls-files --others --exclude-standard', cwd=wt)
demos = [f for f in untracked.split() if f.endswith('_test.go')]
if not patch.strip() or not demos:
    print('no patch or no demo test in', wt)
    sys.exit(2)

tmp = tempfile.mkdtemp(prefix='seedeval-')
res = {'property': prop, 'name': name, 'demo_files': demos}
try:
    scratch = os.path.join(tmp, 'repo')
    sh('git -C /repo worktree add -q --detach %s HEAD' % scratch)
    pf = os.path.join(tmp, 'patch.diff')
    open(pf, 'w').write(patch)
    for d in demos:
        os.makedirs(os.path.dirname(os.path.join(scratch, d)) or scratch, exist_ok=True)
        shutil.copy(os.path.join(wt, d), os.path.join(scratch, d))
    demo_pkgs = sorted({'./' + (os.path.dirname(d) or '.') for d in demos})
    run_demo = '/usr/bin/go test -vet=off -count=1 -run TestSeeded %s' % ' '.join(demo_pkgs)
    rc0, out0 = sh(run_demo, cwd=scratch)
    res['demo_passes_without_patch'] = rc0 == 0
    rc, out = sh('git apply %s' % pf, cwd=scratch)
    if rc != 0:
        print('patch does not apply to /repo HEAD:', out)
        sys.exit(2)
    rc1, out1 = sh(run_demo, cwd=scratch)
    res['demo_fails_with_patch'] = rc1 != 0
    # the suite without the demo
    for d in demos:
        os.rename(os.path.join(scratch, d), os.path.join(scratch, d) + '.off')
    rc2, out2 = sh('/usr/bin/go test -vet=off -count=1 ./...', cwd=scratch)
    res['suite_passes_with_patch'] = rc2 == 0
    res['demo_output_tail'] = out1[-600:]
    sh('git -C /repo worktree remove --force %s' % scratch)

    # checks against the patched /repo
    manifest = json.load(open('/verif/MANIFEST.json'))
    out_dir = os.path.join(tmp, 'out')
    os.makedirs(out_dir)
    rc, o = sh('git -C /repo apply %s' % pf)
    fired = {}
    try:
        if rc != 0:
            print('cannot apply to /repo:', o)
            sys.exit(2)
        procs = {}
        for c in manifest['checks']:
            pid = c['property_id']
            procs[pid] = subprocess.Popen('./check %s quick -out %s' % (pid, out_dir), shell=True, cwd='/verif', stdout=subprocess.PIPE, stderr=subprocess.STDOUT, text=True)
        for pid, p in procs.items():
            o, _ = p.communicate()
            lines = [l for l in o.splitlines() if l.startswith('VIOLATED') or l.startswith('UNDECIDED') or 'could not load' in l]
            if p.returncode != 0 or lines:
                fired[pid] = lines[:6]
    finally:
        sh('git -C /repo checkout -- .')
        rc, st = sh('git -C /repo status --porcelain')
        assert st.strip() == '', 'repo not clean: ' + st
    res['checks_fired'] = fired
    res['detected_by_own_property'] = prop in fired
    res['detected_by_any'] = bool(fired)
    print(json.dumps(res, indent=1))
    if keep:
        dst = os.path.join('/verif/seeded', name)
        os.makedirs(dst, exist_ok=True)
        shutil.copy(pf, os.path.join(dst, 'patch.diff'))
        for d in demos:
            shutil.copy(os.path.join(wt, d), os.path.join(dst, os.path.basename(d) + '.txt'))
        json.dump(res, open(os.path.join(dst, 'eval.json'), 'w'), indent=1)
finally:
    sh('git -C /repo worktree prune')
    shutil.rmtree(tmp, ignore_errors=True)
