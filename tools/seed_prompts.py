#!/usr/bin/env python3
"""seed_prompts.py <round-dir> <round-number> <focus text>

Writes <round-dir>/Cxx.prompt for the twenty properties and creates a scratch worktree of /repo HEAD at
<round-dir>/Cxx for each (outside /repo and /verif). The prompt gives a sub-agent the property text, the names
of the ideas already used (from seeded/*/meta.json: name and what it needs to manifest, nothing else from
/verif) and the deliverables wanted."""
import json, os, sys, glob, subprocess
rd, rn, focus = sys.argv[1], sys.argv[2], sys.argv[3]
os.makedirs(rd, exist_ok=True)
props = [json.loads(l) for l in open('/verif/properties.jsonl')]
used = {}
for f in sorted(glob.glob('/verif/seeded/*/meta.json')):
    m = json.load(open(f))
    p = m.get('property')
    nm = m['name'].split('-', 1)[1].replace('-', ' ')
    used.setdefault(p, []).append('- %s (needs: %s)' % (nm, (m.get('needs_to_manifest') or '')[:80].replace('\n', ' ')))
for p in props:
    pid = p['id']
    wt = '%s/%s' % (rd, pid)
    subprocess.run('git -C /repo worktree remove --force %s; git -C /repo worktree add -q --detach %s HEAD' % (wt, wt), shell=True, capture_output=True)
    os.makedirs(wt + '-out', exist_ok=True)
    txt = '''You are helping to evaluate a verification effort for the Go library philpearl/avro (a small Apache Avro encoder/decoder that maps Avro records onto Go structs via unsafe pointers, with object-container file read/write and schema generation). Your job is to play the part of a maintainer who, with good intentions, makes a change that subtly BREAKS one specific property of the library while everything still compiles and the existing test suite still passes.

Your private scratch copy of the repository is the git worktree at {wt} (work only there; never touch /repo, and do not read anything under /verif — nothing there is for you). Put your deliverables in {wt}-out/.
IMPORTANT: this worktree shares its git repository with other people's worktrees, so NEVER use `git stash`. To test with and without your change use:  git diff > {wt}-mine.diff ; git apply -R {wt}-mine.diff ; ...test... ; git apply {wt}-mine.diff

THE PROPERTY YOU MUST BREAK ({pid}: {title})
Statement: {statement}
Quantified over: {quant}
Why the existing tests cannot settle it: {why}
Where the mechanism lives: {mech}

WHAT I NEED FROM YOU
1. A change to the library's non-test Go source that breaks the property for some input, history, interleaving or configuration, but only when something specific happens. It must NOT be something ordinary use would expose at once, and it must look like plausible, well-meant maintenance with sensible comments — not sabotage, not a deleted check with nothing in its place. {rn_minus} rounds of such changes have been made already (listed below), so the obvious places are used up. For this round aim in particular for: {focus}
2. It must compile, be gofmt-clean, and the existing test suite must pass unchanged:  cd {wt} && GOFLAGS=-mod=mod GOPROXY=off go test -vet=off -count=1 ./...   (the sandbox has no network; that command works as it stands; all three packages must say ok).
3. A demonstration: a new test file named zz_seeded_test.go in the package directory it belongs to (".", "time" or "null"), with the right package clause, test function names starting with TestSeeded, that FAILS with your change and PASSES on the unchanged code. Verify both yourself. The demonstration should fail because the property's observable behaviour is wrong, not because of some unrelated assertion.
4. Deliverables in {wt}-out/: patch.diff (output of `git diff` for the library source only — NOT including the demonstration test file; if you add a new source file use `git add -N <file>` first), the demonstration file zz_seeded_test.go (a copy), and notes.json with keys: "summary", "mechanism", "needs_to_manifest", "package_dir_of_demo" (".", "time" or "null"), "files_touched".

IDEAS ALREADY USED FOR THIS PROPERTY IN EARLIER ROUNDS (do something with a DIFFERENT mechanism):
{used}

When you are done, reply with a short summary of the change and confirm the three verifications (suite passes with the change; demo fails with it; demo passes without it).
'''.format(wt=wt, pid=pid, title=p['title'], statement=p['statement'], quant=p['quantifier']['text'], why=p['why_tests_cant'],
           mech=json.dumps(p['anchors'].get('mechanism', '')), rn_minus=int(rn) - 1, focus=focus, used='\n'.join(used.get(pid, [])))
    open('%s/%s.prompt' % (rd, pid), 'w').write(txt)
print('wrote', len(props), 'prompts in', rd)
