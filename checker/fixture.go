package main

// Tiny positive fixtures for rules whose expected hit count on the real tree
// is zero: built in memory from source text (no imports), so every run
// re-confirms that the rule can still match.

import (
	"go/ast"
	"go/parser"
	"go/token"
	"go/types"

	"golang.org/x/tools/go/ssa"
	"golang.org/x/tools/go/ssa/ssautil"
)

func buildFixture(src string) *ssa.Package {
	fset := token.NewFileSet()
	f, err := parser.ParseFile(fset, "fixture.go", src, 0)
	if err != nil {
		return nil
	}
	pkg := types.NewPackage("fx", "fx")
	sp, _, err := ssautil.BuildPackage(&types.Config{}, fset, pkg, []*ast.File{f}, ssa.InstantiateGenerics)
	if err != nil {
		return nil
	}
	return sp
}
