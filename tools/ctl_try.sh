#!/bin/sh
# ctl_try.sh <patch> <prop>...  — run quick checks against a scratch worktree with the patch applied
# (does not touch /repo's working tree; the worktree is removed afterwards)
P=$(realpath $1); shift
D=$(mktemp -d /tmp/ctltry-XXXXXX); rmdir $D
git -C /repo worktree add -q --detach $D HEAD || exit 2
git -C $D apply $P || { git -C /repo worktree remove --force $D; exit 2; }
O=$(mktemp -d /tmp/ctlout-XXXXXX)
for p in "$@"; do
  (cd /verif && VERIF_REPO=$D ./check $p quick -out $O 2>&1 | grep -E "^(VIOLATED|UNDECIDED)|could not load|panicked" | sed "s/^/$p /" | cut -c1-400) &
done
wait
rm -rf $O
git -C /repo worktree remove --force $D
