#!/usr/bin/env python3
"""kf.py add <property> <rule> <construct> <status> <commit-or-> <what...>  — append to known_findings.json"""
import json, sys
p = '/verif/known_findings.json'
d = json.load(open(p))
prop, rule, construct, status, commit = sys.argv[1:6]
what = ' '.join(sys.argv[6:])
e = {"property": prop, "rule": rule, "construct": construct, "status": status, "what": what}
if commit != '-':
    e["commit"] = commit
    e["what"] = "fixed: property=%s %s %s" % (prop, commit, what)
d["findings"].append(e)
json.dump(d, open(p, 'w'), indent=1)
