package main

// Thorough-tier self-validation: seeded faults (canaries). Each canary is a
// small search/replace edit applied to a scratch copy of the CURRENT /repo in
// a fresh temporary directory (outside /repo and /verif, removed at once).
// The mutated copy must still load and type-check, and the named rule must
// report a violation. Canaries never change the verdict on the real tree
// except to fail the run when a rule has gone blind.

import (
	"bytes"
	"encoding/json"
	"fmt"
	"io/fs"
	"os"
	"os/exec"
	"path/filepath"
	"regexp"
	"sort"
	"strings"
	"sync"
)

type Canary struct {
	Props  []string // properties whose thorough run includes it
	Name   string
	File   string // relative to repo root
	Old    string
	New    string
	Rule   string // rule expected to report
	Substr string // substring expected in the reported construct (may be empty)
	// Negative control: the edit preserves behaviour; the property's check
	// must stay silent.
	Negative bool
	// Edits lets a canary touch several places.
	More []Edit
	// Patch: instead of a text edit, a unified diff (path relative to the verification directory) applied to
	// the scratch copy with `git apply` (the independently seeded changes under seeded/).
	Patch string
}

type Edit struct{ File, Old, New string }

type canaryResult struct {
	Name    string `json:"name"`
	Rule    string `json:"rule"`
	Outcome string `json:"outcome"` // fired | silent(negative ok) | MISSED | skipped | invalid | FALSE-ALARM
	Detail  string `json:"detail,omitempty"`
}

func copyTree(src, dst string) error {
	return filepath.WalkDir(src, func(path string, d fs.DirEntry, err error) error {
		if err != nil {
			return err
		}
		rel, _ := filepath.Rel(src, path)
		if d.IsDir() {
			if d.Name() == ".git" {
				return filepath.SkipDir
			}
			return os.MkdirAll(filepath.Join(dst, rel), 0o755)
		}
		if !d.Type().IsRegular() {
			return nil
		}
		b, err := os.ReadFile(path)
		if err != nil {
			return err
		}
		return os.WriteFile(filepath.Join(dst, rel), b, 0o644)
	})
}

var ruleNameRe = regexp.MustCompile(`[A-Z][A-Z0-9]*(?:-[A-Z0-9]+)+`)

var violLine = regexp.MustCompile(`(?m)^(VIOLATED|UNDECIDED) (\S+) (.*?) at `)

func runOneCanary(cn Canary, prop, repo, verif string) canaryResult {
	res := canaryResult{Name: cn.Name, Rule: cn.Rule}
	tmp, err := os.MkdirTemp("", "avrocanary-")
	if err != nil {
		res.Outcome, res.Detail = "invalid", err.Error()
		return res
	}
	defer os.RemoveAll(tmp)
	work := filepath.Join(tmp, "repo")
	out := filepath.Join(tmp, "out")
	os.MkdirAll(out, 0o755)
	if err := copyTree(repo, work); err != nil {
		res.Outcome, res.Detail = "invalid", err.Error()
		return res
	}
	edits := append([]Edit{{cn.File, cn.Old, cn.New}}, cn.More...)
	if cn.Patch != "" {
		edits = nil
		ap := exec.Command("git", "apply", filepath.Join(verif, cn.Patch))
		ap.Dir = work
		// the scratch copy is not a repository, and must not be taken for part of one
		ap.Env = append(os.Environ(), "GIT_CEILING_DIRECTORIES="+tmp)
		if o, err := ap.CombinedOutput(); err != nil {
			res.Outcome, res.Detail = "skipped", "the patch no longer applies: "+firstLine(string(o))
			return res
		}
	}
	for _, e := range edits {
		p := filepath.Join(work, e.File)
		b, err := os.ReadFile(p)
		if err != nil || !bytes.Contains(b, []byte(e.Old)) {
			res.Outcome, res.Detail = "skipped", "the fragment to mutate no longer exists in "+e.File
			return res
		}
		b = bytes.Replace(b, []byte(e.Old), []byte(e.New), 1)
		os.WriteFile(p, b, 0o644)
	}
	self, _ := os.Executable()
	cmd := exec.Command(self, "-repo", work, "-verif", verif, "-out", out, "-property", prop, "-tier", "quick")
	cmd.Env = append(os.Environ(), "GOFLAGS=-mod=mod")
	var buf bytes.Buffer
	cmd.Stdout = &buf
	cmd.Stderr = &buf
	runErr := cmd.Run()
	s := buf.String()
	if strings.Contains(s, "checker could not load") {
		res.Outcome, res.Detail = "invalid", "mutated copy does not type-check: "+firstLine(s)
		return res
	}
	fired := false
	var others []string
	for _, m := range violLine.FindAllStringSubmatch(s, -1) {
		if contains(strings.Split(cn.Rule, "|"), m[2]) && strings.Contains(m[3], cn.Substr) {
			fired = true
		} else {
			others = append(others, m[2]+" "+m[3])
		}
	}
	if cn.Negative {
		if runErr == nil && !strings.Contains(s, "VIOLATION ") {
			res.Outcome = "silent (negative control ok)"
		} else {
			res.Outcome, res.Detail = "FALSE-ALARM", strings.Join(others, "; ")
		}
		return res
	}
	if fired {
		res.Outcome = "fired"
		if len(others) > 0 {
			sort.Strings(others)
			res.Detail = "also: " + strings.Join(others, "; ")
		}
		return res
	}
	res.Outcome = "MISSED"
	if len(others) > 0 {
		res.Detail = "other rules fired: " + strings.Join(others, "; ")
	} else {
		res.Detail = "no rule fired"
	}
	return res
}

func firstLine(s string) string {
	if i := strings.IndexByte(s, '\n'); i >= 0 {
		return s[:i]
	}
	return s
}

func runCanaries(c *Ctx, repo, verif string, seed int, extra map[string]any) {
	var mine []Canary
	for _, cn := range canaries {
		for _, p := range cn.Props {
			if p == c.Property {
				mine = append(mine, cn)
			}
		}
	}
	mine = append(mine, seededCanaries(verif, c.Property)...)
	if len(mine) == 0 {
		return
	}
	// VERIF_SEED only permutes the order.
	if seed != 0 {
		n := len(mine)
		for i := range mine {
			j := (i*7 + seed) % n
			if j < 0 {
				j += n
			}
			mine[i], mine[j] = mine[j], mine[i]
		}
	}
	results := make([]canaryResult, len(mine))
	sem := make(chan struct{}, 8)
	var wg sync.WaitGroup
	for i, cn := range mine {
		wg.Add(1)
		go func(i int, cn Canary) {
			defer wg.Done()
			sem <- struct{}{}
			defer func() { <-sem }()
			results[i] = runOneCanary(cn, c.Property, repo, verif)
		}(i, cn)
	}
	wg.Wait()
	sort.Slice(results, func(i, j int) bool { return results[i].Name < results[j].Name })
	c.Rule("CANARY", "self-validation: each seeded fault applied to a scratch copy of the current tree is reported by the rule that should see it; behaviour-preserving edits stay silent", 0)
	nf := 0
	for _, r := range results {
		key := "canary/" + r.Name
		switch {
		case r.Outcome == "fired" || strings.HasPrefix(r.Outcome, "silent"):
			nf++
			c.OK(key, "-", fmt.Sprintf("%s: %s %s", r.Rule, r.Outcome, r.Detail))
		case r.Outcome == "skipped" || r.Outcome == "invalid":
			o := c.ob(Discharged, key, "-", fmt.Sprintf("%s: %s (%s)", r.Rule, r.Outcome, r.Detail), false)
			o.Info = true
		default:
			c.Unk(key, "-", fmt.Sprintf("rule %s has gone blind or noisy on its canary: %s %s", r.Rule, r.Outcome, r.Detail))
		}
	}
	extra["canaries"] = results
	extra["canaries_fired"] = nf
	fmt.Printf("canaries: %d run, %d as expected\n", len(results), nf)
}

// seededCanaries: the independently produced breaking changes kept under seeded/ (DESIGN section 14), each
// as a canary of the property it was written against: applied to a scratch copy, one of the rules recorded
// as catching it must report.
func seededCanaries(verif, prop string) []Canary {
	metas, _ := filepath.Glob(filepath.Join(verif, "seeded", "*", "meta.json"))
	sort.Strings(metas)
	var out []Canary
	for _, m := range metas {
		b, err := os.ReadFile(m)
		if err != nil {
			continue
		}
		var meta struct {
			Property string `json:"property"`
			Name     string `json:"name"`
			CaughtBy string `json:"caught_by"`
		}
		if json.Unmarshal(b, &meta) != nil || meta.Property != prop || meta.CaughtBy == "" {
			continue
		}
		dir := filepath.Base(filepath.Dir(m))
		if _, err := os.Stat(filepath.Join(verif, "seeded", dir, "patch.diff")); err != nil {
			continue
		}
		rules := ruleNameRe.FindAllString(meta.CaughtBy, -1)
		if len(rules) == 0 {
			continue
		}
		out = append(out, Canary{Props: []string{prop}, Name: "seeded/" + dir, Rule: strings.Join(rules, "|"), Patch: filepath.Join("seeded", dir, "patch.diff")})
	}
	return out
}
