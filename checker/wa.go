package main

// E-WA: wire-effect automata. Each of a codec's Read, Skip and Write is
// abstracted to an NFA over wire tokens, built from the SSA CFG with module
// callees that receive the buffer inlined (bounded depth).
//
// Tokens: V varint; Vs one-byte varint written from a value in {0,1};
// B<k> k bytes; BSize the receiver's Size bytes; L bytes whose count is a
// varint of the same method (always optional: the count may be zero);
// S(<field>) the sub-codec held in a receiver field; ?<...> a use of the
// buffer the analysis does not understand.

import (
	"fmt"
	"go/token"
	"go/types"
	"sort"
	"strings"

	"golang.org/x/tools/go/ssa"
)

type waFrame struct {
	fn        *ssa.Function
	parent    *waFrame
	bind      map[ssa.Value]ssa.Value // callee parameter -> caller value
	recvConst map[string]int64
	depth     int
}

type waBuilder struct {
	P        *Program
	n        *NFA
	mode     string // Read | Skip | Write
	cutNeg   bool
	problems []string
	// NegEdges seen (for WA-NEG) in the top frame
	negIfs []*ssa.If
	small  map[string]bool // cache: "Type.field" is only ever stored 0/1
}

func isReadBufPtr(t types.Type) bool  { return typeKey(t) == "*avro.ReadBuf" }
func isWriteBufPtr(t types.Type) bool { return typeKey(t) == "*avro.WriteBuf" }

// resolve follows parameter bindings up the inlining stack and strips
// value-preserving conversions.
func (f *waFrame) resolve(v ssa.Value) (ssa.Value, *waFrame) {
	fr := f
	for i := 0; i < 32; i++ {
		v = stripConv(v)
		if fr.bind != nil {
			if b, ok := fr.bind[v]; ok && fr.parent != nil {
				v, fr = b, fr.parent
				continue
			}
		}
		return v, fr
	}
	return v, fr
}

func isVarintResult(v ssa.Value) bool {
	ex, ok := v.(*ssa.Extract)
	if !ok || ex.Index != 0 {
		return false
	}
	call, ok := ex.Tuple.(*ssa.Call)
	if !ok || call.Call.StaticCallee() == nil {
		return false
	}
	return qualNameShort(call.Call.StaticCallee()) == "(*ReadBuf).Varint"
}

// lengthToken classifies the byte count n of a Next/skip/unsafe.Slice.
func (w *waBuilder) lengthToken(fr *waFrame, n ssa.Value) string {
	v, vf := fr.resolve(n)
	if k, ok := (Folder{w.P}).FoldInt(v); ok {
		return fmt.Sprintf("B%d", k)
	}
	if isVarintResult(v) {
		return "L"
	}
	// possibly negated / phi of a varint result: still "that varint's value" only if it is the value itself
	if f, ok := recvFieldOf(vf.fn, v); ok {
		if k, has := vf.recvConst[f]; has {
			return fmt.Sprintf("B%d", k)
		}
		return "B" + f
	}
	return "?len(" + strings.ReplaceAll(v.String(), " ", "") + ")"
}

// smallField: every store to field `name` of struct type T in the module is a
// constant in {0,1} or a copy of a field with the same property.
func (w *waBuilder) smallField(T types.Type, name string) bool {
	key := typeKey(T) + "." + name
	if v, ok := w.small[key]; ok {
		return v
	}
	w.small[key] = true // assume during recursion
	ok := true
	n := 0
	for _, fn := range w.P.ModuleFuncs() {
		for _, b := range fn.Blocks {
			for _, in := range b.Instrs {
				st, isSt := in.(*ssa.Store)
				if !isSt {
					continue
				}
				fa, isFA := st.Addr.(*ssa.FieldAddr)
				if !isFA || fieldName(fa.X.Type(), fa.Field) != name {
					continue
				}
				if !types.Identical(types.Unalias(fa.X.Type().Underlying().(*types.Pointer).Elem()), types.Unalias(T)) {
					continue
				}
				n++
				if !w.smallValue(st.Val, fn) {
					ok = false
				}
			}
		}
	}
	w.small[key] = ok
	return ok
}

// smallValue: v evaluates to 0 or 1 for every assignment of its small-field
// leaves in {0,1}.
func (w *waBuilder) smallValue(v ssa.Value, fn *ssa.Function) bool {
	vals, ok := w.evalSmall(v, map[string]int64{}, 0)
	if !ok {
		return false
	}
	for _, x := range vals {
		if x != 0 && x != 1 {
			return false
		}
	}
	return true
}

// evalSmall enumerates the possible values of v when each small field leaf
// ranges over {0,1}. Leaves are identified by access path.
func (w *waBuilder) evalSmall(v ssa.Value, env map[string]int64, depth int) ([]int64, bool) {
	leaves := map[string]bool{}
	if !w.collectLeaves(v, leaves, 0) {
		return nil, false
	}
	var names []string
	for l := range leaves {
		names = append(names, l)
	}
	sort.Strings(names)
	if len(names) > 4 {
		return nil, false
	}
	var out []int64
	for mask := 0; mask < 1<<len(names); mask++ {
		e := map[string]int64{}
		for i, nm := range names {
			e[nm] = int64(mask >> i & 1)
		}
		x, ok := w.evalWith(v, e, 0)
		if !ok {
			return nil, false
		}
		out = append(out, x)
	}
	return out, true
}

func (w *waBuilder) collectLeaves(v ssa.Value, leaves map[string]bool, d int) bool {
	if d > 12 {
		return false
	}
	switch x := v.(type) {
	case *ssa.Const:
		_, ok := constInt(x)
		return ok
	case *ssa.Convert:
		return w.collectLeaves(x.X, leaves, d+1)
	case *ssa.ChangeType:
		return w.collectLeaves(x.X, leaves, d+1)
	case *ssa.BinOp:
		switch x.Op {
		case token.ADD, token.SUB, token.MUL, token.XOR, token.AND, token.OR:
			return w.collectLeaves(x.X, leaves, d+1) && w.collectLeaves(x.Y, leaves, d+1)
		}
		return false
	case *ssa.UnOp:
		if x.Op == token.MUL {
			if fa, ok := x.X.(*ssa.FieldAddr); ok {
				T := fa.X.Type().Underlying().(*types.Pointer).Elem()
				if w.smallField(T, fieldName(fa.X.Type(), fa.Field)) {
					leaves[accessPath(x)] = true
					return true
				}
			}
		}
		return false
	case *ssa.Field:
		if w.smallField(x.X.Type(), fieldNameT(x.X.Type(), x.Field)) {
			leaves[accessPath(x)] = true
			return true
		}
	case *ssa.Parameter:
		if w.smallParam(x) {
			leaves[accessPath(x)] = true
			return true
		}
	}
	return false
}

// smallParam: p is a parameter of a module function that is only ever called
// statically, and every call site passes a value in {0,1}.
func (w *waBuilder) smallParam(p *ssa.Parameter) bool {
	fn := p.Parent()
	if fn == nil {
		return false
	}
	key := "param:" + fn.String() + "." + p.Name()
	if v, ok := w.small[key]; ok {
		return v
	}
	w.small[key] = true // assume during recursion
	idx := -1
	for i, q := range fn.Params {
		if q == p {
			idx = i
		}
	}
	ok := idx >= 0
	n := 0
	for _, g := range w.P.ModuleFuncs() {
		if !ok {
			break
		}
		for _, b := range g.Blocks {
			for _, in := range b.Instrs {
				var rands [16]*ssa.Value
				call, isCall := in.(ssa.CallInstruction)
				for _, r := range in.Operands(rands[:0]) {
					if r == nil || *r != ssa.Value(fn) {
						continue
					}
					if !isCall || call.Common().StaticCallee() != fn || call.Common().Value != ssa.Value(fn) {
						ok = false // address taken
						continue
					}
				}
				if isCall && call.Common().StaticCallee() == fn && call.Common().Value == ssa.Value(fn) {
					if _, isGo := in.(*ssa.Call); !isGo {
						ok = false
						continue
					}
					args := call.Common().Args
					if idx >= len(args) || !w.smallValue(args[idx], g) {
						ok = false
					}
					n++
				}
			}
		}
	}
	if n == 0 {
		ok = false
	}
	w.small[key] = ok
	return ok
}

func (w *waBuilder) evalWith(v ssa.Value, env map[string]int64, d int) (int64, bool) {
	switch x := v.(type) {
	case *ssa.Const:
		return constInt(x)
	case *ssa.Convert:
		return w.evalWith(x.X, env, d+1)
	case *ssa.ChangeType:
		return w.evalWith(x.X, env, d+1)
	case *ssa.BinOp:
		a, ok1 := w.evalWith(x.X, env, d+1)
		b, ok2 := w.evalWith(x.Y, env, d+1)
		if !ok1 || !ok2 {
			return 0, false
		}
		switch x.Op {
		case token.ADD:
			return a + b, true
		case token.SUB:
			return a - b, true
		case token.MUL:
			return a * b, true
		case token.XOR:
			return a ^ b, true
		case token.AND:
			return a & b, true
		case token.OR:
			return a | b, true
		}
	case *ssa.UnOp, *ssa.Field, *ssa.Parameter:
		if val, ok := env[accessPath(v)]; ok {
			return val, true
		}
	}
	return 0, false
}

// build adds fn's automaton starting at state `from`; returns the states at
// which fn returns successfully.
func (w *waBuilder) build(fr *waFrame, from int) []int {
	fn := fr.fn
	if fn == nil || fn.Blocks == nil {
		w.problems = append(w.problems, "no body for "+fnKey(fn))
		return nil
	}
	if fr.depth > 5 {
		w.problems = append(w.problems, "inlining bound exceeded at "+fnKey(fn))
		return nil
	}
	entry := map[*ssa.BasicBlock]int{}
	var exits []int
	var visit func(b *ssa.BasicBlock) int
	visit = func(b *ssa.BasicBlock) int {
		if s, ok := entry[b]; ok {
			return s
		}
		s := w.n.newState()
		entry[b] = s
		cur := []int{s}
		emit := func(label string) {
			ns := w.n.newState()
			for _, c := range cur {
				w.n.add(c, label, ns)
			}
			cur = []int{ns}
		}
		for _, in := range b.Instrs {
			ci, ok := in.(ssa.CallInstruction)
			if !ok {
				continue
			}
			if _, isDefer := in.(*ssa.Defer); isDefer {
				continue
			}
			cc := ci.Common()
			// does the call receive the buffer?
			hasBuf := false
			for _, a := range cc.Args {
				if isReadBufPtr(a.Type()) || isWriteBufPtr(a.Type()) {
					hasBuf = true
				}
			}
			if cc.IsInvoke() {
				if !hasBuf {
					continue
				}
				if isCodecIface(w.P, cc.Value.Type()) {
					switch cc.Method.Name() {
					case "Read", "Skip", "Write":
						rv, rf := fr.resolve(cc.Value)
						path := codecFieldPath(rf.fn, rv)
						if path == "" {
							path = "?" + strings.ReplaceAll(rv.String(), " ", "")
						}
						emit("S(" + path + ")")
					case "New", "Omit":
					}
					continue
				}
				emit("?invoke:" + cc.Method.Name())
				continue
			}
			callee := cc.StaticCallee()
			if callee == nil {
				if hasBuf {
					emit("?dynamic-call")
				}
				continue
			}
			if !hasBuf {
				continue
			}
			q := qualNameShort(callee)
			switch q {
			case "(*ReadBuf).Varint":
				emit("V")
				continue
			case "(*ReadBuf).ReadByte":
				emit("B1")
				continue
			case "(*ReadBuf).Next", "(*ReadBuf).NextAsString":
				t := w.lengthToken(fr, cc.Args[1])
				if t == "L" {
					// optional: the count may be zero
					ns := w.n.newState()
					for _, c := range cur {
						w.n.add(c, "L", ns)
						w.n.add(c, "", ns)
					}
					cur = []int{ns}
				} else {
					emit(t)
				}
				continue
			case "(*ReadBuf).Alloc", "(*ReadBuf).Len":
				continue
			case "(*WriteBuf).Varint":
				v, vf := fr.resolve(cc.Args[1])
				_ = vf
				if w.smallValue(cc.Args[1], fn) || w.smallValue(v, fn) {
					emit("Vs")
				} else {
					emit("V")
				}
				continue
			case "(*WriteBuf).Byte":
				emit("B1")
				continue
			case "(*WriteBuf).Write":
				t := w.writeToken(fr, cc.Args[1])
				if t == "L" {
					ns := w.n.newState()
					for _, c := range cur {
						w.n.add(c, "L", ns)
						w.n.add(c, "", ns)
					}
					cur = []int{ns}
				} else {
					emit(t)
				}
				continue
			case "(*WriteBuf).Len", "(*WriteBuf).Bytes":
				continue
			}
			if !w.P.isModuleFunc(callee) || callee.Blocks == nil {
				emit("?call:" + q)
				continue
			}
			// inline
			sub := &waFrame{fn: callee, parent: fr, bind: map[ssa.Value]ssa.Value{}, recvConst: map[string]int64{}, depth: fr.depth + 1}
			for i, p := range callee.Params {
				if i < len(cc.Args) {
					sub.bind[p] = cc.Args[i]
				}
			}
			if callee.Signature.Recv() != nil && len(cc.Args) > 0 {
				sub.recvConst = newContractEnv(w.P).literalRecvConsts(cc.Args[0])
				// receiver that is (a field of) our own receiver with known constants
				if recvIsOurs(fn, cc.Args[0]) {
					for k, v := range fr.recvConst {
						sub.recvConst[k] = v
					}
				}
			}
			var outs []int
			for _, c := range cur {
				outs = append(outs, w.build(sub, c)...)
			}
			ns := w.n.newState()
			for _, o := range outs {
				w.n.add(o, "", ns)
			}
			cur = []int{ns}
		}
		last := b.Instrs[len(b.Instrs)-1]
		switch x := last.(type) {
		case *ssa.Return:
			if w.returnAccepting(x) {
				exits = append(exits, cur...)
			}
		case *ssa.Panic:
		case *ssa.If:
			negTrue := false
			if cmp, ok := asCmp(x.Cond, true); ok && cmp.Op == token.LSS {
				if k, isK := constInt(cmp.Y); isK && k == 0 {
					v, _ := fr.resolve(cmp.X)
					if isVarintResult(v) && inBlockLoop(x, v) {
						negTrue = true
						w.negIfs = append(w.negIfs, x)
					}
				}
			}
			for i, s := range b.Succs {
				if w.cutNeg && negTrue && i == 0 {
					continue
				}
				t := visit(s)
				for _, c := range cur {
					w.n.add(c, "", t)
				}
			}
		default:
			for _, s := range b.Succs {
				t := visit(s)
				for _, c := range cur {
					w.n.add(c, "", t)
				}
			}
		}
		return s
	}
	s0 := visit(fn.Blocks[0])
	w.n.add(from, "", s0)
	return exits
}

func (w *waBuilder) returnAccepting(r *ssa.Return) bool {
	ev := errOperand(r)
	if ev == nil {
		return true // no error result (Write) or not an error-returning function
	}
	if isNilConst(ev) {
		return true
	}
	if isFreshError(ev) {
		return false
	}
	if nn, _ := knownNonNil(r.Block(), ev); nn {
		return false
	}
	return true
}

// writeToken classifies the bytes handed to WriteBuf.Write.
func (w *waBuilder) writeToken(fr *waFrame, bs ssa.Value) string {
	v, vf := fr.resolve(bs)
	switch x := v.(type) {
	case *ssa.Call:
		if bi, ok := x.Call.Value.(*ssa.Builtin); ok && bi.Name() == "Slice" {
			return w.lengthToken(vf, x.Call.Args[1])
		}
	case *ssa.UnOp:
		if x.Op == token.MUL {
			return "L" // a []byte loaded from the value being written
		}
	case *ssa.Slice:
		if k, ok := (Folder{w.P}).FoldInt(x.High); ok && x.Low == nil {
			return fmt.Sprintf("B%d", k)
		}
	}
	// []byte(s) conversion of a string (stripConv removed it): a string value
	if b, ok := v.Type().Underlying().(*types.Basic); ok && b.Info()&types.IsString != 0 {
		return "L"
	}
	if _, ok := v.Type().Underlying().(*types.Slice); ok {
		if _, isParam := v.(*ssa.Parameter); isParam {
			return "L"
		}
	}
	return "?bytes(" + strings.ReplaceAll(v.String(), " ", "") + ")"
}

// methodAutomaton builds the automaton of one codec method.
func methodAutomaton(P *Program, fn *ssa.Function, mode string, cutNeg bool) (*NFA, []string, []*ssa.If) {
	w := &waBuilder{P: P, n: newNFA(), mode: mode, cutNeg: cutNeg, small: map[string]bool{}}
	fr := &waFrame{fn: fn, recvConst: map[string]int64{}}
	exits := w.build(fr, w.n.start)
	for _, e := range exits {
		w.n.accept[e] = true
	}
	for l := range w.n.alphabet() {
		if strings.HasPrefix(l, "?") {
			w.problems = append(w.problems, "token not understood: "+l)
		}
	}
	return w.n, w.problems, w.negIfs
}

// inBlockLoop: the test is on the count of a block loop, i.e. it sits in a
// loop that also contains the read of the varint it tests (arrays and maps),
// as opposed to a one-off length or selector check.
func inBlockLoop(iff *ssa.If, v ssa.Value) bool {
	ex, ok := v.(*ssa.Extract)
	if !ok {
		return false
	}
	call, ok := ex.Tuple.(*ssa.Call)
	if !ok || call.Parent() != iff.Parent() {
		return false
	}
	l := innermostLoop(iff.Parent(), iff.Block())
	for l != nil {
		if l.Blocks[call.Block()] {
			return true
		}
		// try enclosing loops
		var outer *Loop
		for _, l2 := range loopsOf(iff.Parent()) {
			if l2 != l && l2.Blocks[l.Header] && len(l2.Blocks) > len(l.Blocks) && (outer == nil || len(l2.Blocks) < len(outer.Blocks)) {
				outer = l2
			}
		}
		l = outer
	}
	return false
}
