package main

// The container reader traced by folding (E-CP): ReadFile is folded with the
// reader, the target and the callback unknown, the header reader, the schema
// and codec construction, the buffer's methods and the decompressors opaque,
// and every loop cut after two turns. Each outcome is a linear trace of the
// calls made and the decisions taken up to a return or a cut. The trace says,
// however ReadFile is split into helpers, which decompressor is in place for
// which codec name and in what order a block's steps happen.

import (
	"fmt"
	"go/token"
	"go/types"
	"sort"
	"strings"

	"golang.org/x/tools/go/ssa"
)

type rfOutcome struct {
	calls   []cpCall
	decided map[string]bool
	atoms   []cpAtom
	bufs    map[string]cpBufInfo
	result  cpVal // nil when the path was cut
	cut     bool
}

type rfTrace struct {
	ok      bool
	why     string
	outs    []rfOutcome
	visited map[*ssa.Function]bool // the functions folded through
	// globalCells: the cells reachable from package-level variables when the fold starts (what lives there is
	// shared by every call of ReadFile)
	globalCells map[*cpCell]bool
}

var rfTraceCache = map[*Program]*rfTrace{}

func readFileTrace(P *Program, s rfAnchorSet) *rfTrace {
	if t, ok := rfTraceCache[P]; ok {
		return t
	}
	t := &rfTrace{}
	rfTraceCache[P] = t
	rf := P.Func(P.Avro, "ReadFile")
	if rf == nil || len(rf.Params) != 3 {
		t.why = "ReadFile(r, out, cb) not found"
		return t
	}
	opaque := func(g *ssa.Function) bool {
		o := g
		if g.Origin() != nil {
			o = g.Origin()
		}
		if o == rf {
			return false
		}
		if o == s.headerFn {
			return true
		}
		if token.IsExported(o.Name()) {
			// the read buffer's and the bank's own methods are folded: what they leave in the buffer is read off the state
			if rv := o.Signature.Recv(); rv != nil {
				switch typeKey(derefType(rv.Type())) {
				case "avro.ReadBuf", "avro.ResourceBank":
					return false
				}
			}
			return true
		}
		switch o.Name() {
		case "decompress", "compress":
			return true
		}
		return o.Blocks == nil
	}
	e := &cpEngine{P: P, MaxOut: 30000, MaxSteps: 60000, MaxForks: 64, MaxDepth: 8, opaque: opaque, visited: map[*ssa.Function]bool{}, LoopCut: 2, trackAtoms: true, havocSlices: true, foldAll: true, forkLookups: true}
	e.keepField = func(t types.Type, i int) bool {
		if typeKey(t) != "avro.ReadBuf" {
			return false
		}
		st, ok := t.Underlying().(*types.Struct)
		return ok && i < st.NumFields() && (st.Field(i).Name() == s.fBank || st.Field(i).Name() == s.fBuf)
	}
	e.globals = cpInitGlobals(P)
	t.globalCells = map[*cpCell]bool{}
	for _, gc := range e.globals {
		cpReachableCells(gc, t.globalCells, 0)
	}
	e.pending = [][]bool{nil}
	for len(e.pending) > 0 {
		d := e.pending[len(e.pending)-1]
		e.pending = e.pending[:len(e.pending)-1]
		e.decisions, e.taken, e.steps, e.calls, e.uid, e.decided = d, nil, 0, nil, 0, map[string]bool{}
		e.bytes, e.constraints, e.onceDone, e.varintBufs = nil, nil, nil, nil
		e.atoms, e.atomInfo, e.bufInfo = nil, nil, nil
		var res []cpVal
		why := ""
		func() {
			defer func() {
				if x := recover(); x != nil {
					if a, ok := x.(cpAbort); ok {
						why = a.why
						return
					}
					panic(x)
				}
			}()
			res = e.call(rf, []cpVal{cpUnk{ID: "arg:r"}, cpUnk{ID: "arg:out"}, cpUnk{ID: "arg:cb"}}, 0)
		}()
		o := rfOutcome{calls: e.calls, decided: e.decided, atoms: e.atoms, bufs: e.bufInfo}
		switch {
		case why == "cut":
			o.cut = true
		case why == "panic-instr":
			o.result = cpStr{"panic"}
		case why != "":
			t.why = "folding ReadFile: " + why
			return t
		default:
			if len(res) == 1 {
				o.result = res[0]
			}
		}
		t.outs = append(t.outs, o)
		if len(t.outs) > 30000 {
			t.why = "too many outcomes"
			return t
		}
	}
	t.ok = true
	t.visited = e.visited
	return t
}

// rfCodecTable: for each outcome that reaches a decompress call, which concrete type receives it, under
// which decisions about the codec entry.
func rfCodecTable(t *rfTrace) (table map[string]map[string]bool, problems []string) {
	table = map[string]map[string]bool{}
	for _, o := range t.outs {
		var dc *cpCall
		for i := range o.calls {
			if strings.HasSuffix(o.calls[i].Callee, ".decompress") || o.calls[i].Callee == "invoke:decompress" {
				dc = &o.calls[i]
				break
			}
		}
		if dc == nil || len(dc.Args) == 0 {
			continue
		}
		recv := "?"
		switch x := dc.Args[0].(type) {
		case cpIface:
			recv = typeKey(x.T)
		case cpNil:
			recv = "nil"
		case cpPtr:
			if x.C != nil && x.C.T != nil {
				recv = "*" + typeKey(x.C.T)
			}
		case cpStruct:
			recv = typeKey(x.T)
		}
		// the decisions about names: "cmp:<id>==name"
		var names []string
		for id, truth := range o.decided {
			if !strings.HasPrefix(id, "cmp:") || !truth {
				continue
			}
			if i := strings.LastIndex(id, "=="); i > 0 {
				n := id[i+2:]
				if n != "nil" && n != "" && !strings.ContainsAny(n, "#:") {
					names = append(names, n)
				}
			}
		}
		sort.Strings(names)
		k := strings.Join(names, "+")
		if k == "" {
			k = "(no name matched)"
		}
		if table[k] == nil {
			table[k] = map[string]bool{}
		}
		table[k][recv] = true
	}
	return table, problems
}

func rfDebug(P *Program) {
	t := readFileTrace(P, rfAnchors(P))
	fmt.Printf("ReadFile trace ok=%v why=%q outcomes=%d\n", t.ok, t.why, len(t.outs))
	nCut, nRet := 0, 0
	for _, o := range t.outs {
		if o.cut {
			nCut++
		} else {
			nRet++
		}
	}
	fmt.Printf("  cut=%d returned=%d\n", nCut, nRet)
	freq := map[string]int{}
	for _, o := range t.outs {
		for _, a := range o.atoms {
			id := a.ID
			if i := strings.Index(id, "#"); i > 0 {
				id = id[:i]
			}
			freq[id]++
		}
	}
	for id, n := range freq {
		fmt.Printf("  atom %-40s %d\n", id, n)
	}
	v := rfTraceVerdict(P)
	fmt.Printf("verdict ok=%v why=%q traces=%d cut=%d\n", v.ok, v.why, v.nTraces, v.nCut)
	for cl, n := range v.checked {
		fmt.Printf("  checked %-8s %d\n", cl, n)
	}
	for cl, ps := range v.problems {
		for _, p := range ps {
			fmt.Printf("  PROBLEM %-8s %s\n", cl, p)
		}
	}
	tab, _ := rfCodecTable(t)
	for k, v := range tab {
		fmt.Printf("  codec %q -> %v\n", k, v)
	}
	// one full success trace
	for _, o := range t.outs {
		if o.cut || o.result == nil {
			continue
		}
		if _, isNil := o.result.(cpNil); !isNil {
			continue
		}
		n := 0
		for _, cl := range o.calls {
			if strings.Contains(cl.Callee, "cb") || cl.Callee == "dynamic" {
				n++
			}
		}
		if n == 1 {
			fmt.Println("  a success trace with one callback:")
			for _, cl := range o.calls {
				fmt.Printf("     %s(", cl.Callee)
				for _, a := range cl.Args {
					fmt.Printf("%.80v, ", a)
				}
				fmt.Printf(") -> %.120v\n", cl.Result)
			}
			for _, a := range o.atoms {
				fmt.Printf("     atom@%d %s: %.60v %s %.60v = %v\n", a.NCalls, a.ID, a.X, a.Op, a.Y, a.Truth)
			}
			for id, b := range o.bufs {
				fmt.Printf("     buf %s len=%v of=%s\n", id, b.Len, b.Of)
			}
			break
		}
	}
}

func derefType(t types.Type) types.Type {
	if p, ok := t.Underlying().(*types.Pointer); ok {
		return p.Elem()
	}
	return t
}

// cpReachableCells adds c and every cell reachable from what it holds.
func cpReachableCells(c *cpCell, out map[*cpCell]bool, d int) {
	if c == nil || out[c] || d > 8 {
		return
	}
	out[c] = true
	var walk func(v cpVal, d int)
	walk = func(v cpVal, d int) {
		if d > 8 {
			return
		}
		switch x := v.(type) {
		case cpPtr:
			cpReachableCells(x.C, out, d+1)
		case cpIface:
			walk(x.V, d+1)
		case cpStruct:
			for _, fc := range x.F {
				cpReachableCells(fc, out, d+1)
			}
		case cpSlice:
			for _, ec := range x.Elems {
				cpReachableCells(ec, out, d+1)
			}
		case cpArr:
			for _, ec := range x.Elems {
				cpReachableCells(ec, out, d+1)
			}
		case cpMap:
			if x.O != nil {
				for _, ent := range x.O.M {
					walk(ent.V, d+1)
				}
			}
		case cpClosure:
			for _, b := range x.Bind {
				walk(b, d+1)
			}
		}
	}
	walk(c.V, d)
}
