package main

import (
	"fmt"
	"go/token"
	"go/types"

	"golang.org/x/tools/go/ssa"
)

// TL-DIV: an integer division or remainder panics when the divisor is zero. On every path of the module a
// divisor is a non-zero constant, or the division is dominated by a test that excludes zero; a divisor
// that is configuration (a struct field, a parameter) with no such test is reported: the values it can
// take are decided elsewhere, if at all, and a table with a hole in it turns into a run-time panic for
// well-formed input.

func divisorExcludesZero(b *ssa.BasicBlock, d ssa.Value) bool {
	d0 := stripConv(d)
	for _, cmp := range cmpFactsAt(b) {
		x, y, op := cmp.X, cmp.Y, cmp.Op
		if stripConv(y) == d0 {
			x, y, op = y, x, swapTok(op)
		}
		if stripConv(x) != d0 {
			continue
		}
		k, ok := constInt(y)
		if !ok {
			continue
		}
		switch op {
		case token.NEQ:
			if k == 0 {
				return true
			}
		case token.GTR:
			if k >= 0 {
				return true
			}
		case token.GEQ:
			if k >= 1 {
				return true
			}
		case token.EQL:
			if k != 0 {
				return true
			}
		case token.LSS:
			if k <= 0 {
				return true
			}
		case token.LEQ:
			if k <= -1 {
				return true
			}
		}
	}
	return false
}

func swapTok(op token.Token) token.Token {
	switch op {
	case token.LSS:
		return token.GTR
	case token.GTR:
		return token.LSS
	case token.LEQ:
		return token.GEQ
	case token.GEQ:
		return token.LEQ
	}
	return op
}

func ruleTLDiv(c *Ctx) {
	c.Rule("TL-DIV", "no integer division or remainder can see a zero divisor", 1)
	P := c.P
	nConst, n := 0, 0
	for _, fn := range P.ModuleFuncs() {
		if isGenericBody(fn) {
			continue
		}
		for _, b := range fn.Blocks {
			for _, in := range b.Instrs {
				bo, ok := in.(*ssa.BinOp)
				if !ok || (bo.Op != token.QUO && bo.Op != token.REM) {
					continue
				}
				bt, ok := bo.Type().Underlying().(*types.Basic)
				if !ok || bt.Info()&types.IsInteger == 0 {
					continue
				}
				if k, isK := (Folder{P}).FoldInt(bo.Y); isK {
					if k == 0 {
						n++
						c.Bad(fmt.Sprintf("%s/div#%d", fnKey(fn), n), P.pos(bo.Pos()), "division by the constant zero")
					} else {
						nConst++
					}
					continue
				}
				n++
				key := fmt.Sprintf("%s/div#%d", fnKey(fn), n)
				if divisorExcludesZero(b, bo.Y) {
					c.OK(key, P.pos(bo.Pos()), "dominated by a test that excludes a zero divisor")
					continue
				}
				if ok, why := divisorFieldNonZero(P, bo.Y); ok {
					c.OK(key, P.pos(bo.Pos()), why)
					continue
				}
				c.Bad(key, P.pos(bo.Pos()), fmt.Sprintf("the divisor %s is not a constant and no test excludes zero before %s: if it can be zero (a table lookup that misses, an unset field) this panics at run time", describeValue(bo.Y), bo.String()))
			}
		}
	}
	c.OKTrivial("module/constant-divisors", "-", fmt.Sprintf("%d divisions and remainders have a non-zero constant divisor", nConst))
}

func describeValue(v ssa.Value) string {
	v = stripConv(v)
	if ap := accessPath(v); ap != "" {
		return ap
	}
	return v.String()
}

// divisorFieldNonZero: the divisor is (an expression dividing a non-zero constant by, or a conversion of) a
// struct field that, anywhere in the module, is only ever stored non-zero constants, every value of the
// struct type made in the module being initialised with one where it is made.
func divisorFieldNonZero(P *Program, d ssa.Value) (bool, string) {
	d = stripConv(d)
	if bo, ok := d.(*ssa.BinOp); ok && bo.Op == token.QUO {
		// k / f with |k| >= |f| for every value f takes is checked below through the values themselves
		k, isK := (Folder{P}).FoldInt(bo.X)
		if !isK || k == 0 {
			return false, ""
		}
		vals, ok := fieldValues(P, bo.Y)
		if !ok {
			return false, ""
		}
		for _, v := range vals {
			if v == 0 || k/v == 0 {
				return false, ""
			}
		}
		return true, fmt.Sprintf("the divisor is %d divided by a field that only ever holds %v", k, vals)
	}
	vals, ok := fieldValues(P, d)
	if !ok {
		return false, ""
	}
	for _, v := range vals {
		if v == 0 {
			return false, ""
		}
	}
	return true, fmt.Sprintf("the divisor is a field that only ever holds %v, set where the value is made", vals)
}

func fieldValues(P *Program, v ssa.Value) ([]int64, bool) {
	ld, ok := stripConv(v).(*ssa.UnOp)
	if !ok || ld.Op != token.MUL {
		return nil, false
	}
	fa, ok := ld.X.(*ssa.FieldAddr)
	if !ok {
		return nil, false
	}
	pt, ok := fa.X.Type().Underlying().(*types.Pointer)
	if !ok {
		return nil, false
	}
	T := pt.Elem()
	set := map[int64]bool{}
	var add func(x ssa.Value, d int) bool
	add = func(x ssa.Value, d int) bool {
		if d > 4 {
			return false
		}
		if k, ok := (Folder{P}).FoldInt(x); ok {
			set[k] = true
			return true
		}
		if ph, ok := x.(*ssa.Phi); ok {
			for _, e := range ph.Edges {
				if !add(e, d+1) {
					return false
				}
			}
			return true
		}
		return false
	}
	for _, fn := range P.ModuleFuncs() {
		for _, b := range fn.Blocks {
			for _, in := range b.Instrs {
				switch x := in.(type) {
				case *ssa.Store:
					if a, ok := x.Addr.(*ssa.FieldAddr); ok && a.Field == fa.Field {
						if p, ok := a.X.Type().Underlying().(*types.Pointer); ok && types.Identical(p.Elem(), T) {
							if !add(x.Val, 0) {
								return nil, false
							}
						}
					}
					// a whole value of the type stored somewhere: only copies of initialised ones are fine
				case *ssa.Alloc:
					if !types.Identical(x.Type().Underlying().(*types.Pointer).Elem(), T) {
						continue
					}
					if _, isParamCopy := paramSpill(x); isParamCopy {
						continue
					}
					init := false
					for _, r := range referrersOf(x) {
						if a, ok := r.(*ssa.FieldAddr); ok && a.Field == fa.Field && a.Block() == x.Block() {
							for _, rr := range referrersOf(a) {
								if _, ok := rr.(*ssa.Store); ok {
									init = true
								}
							}
						}
						if st, ok := r.(*ssa.Store); ok && st.Addr == ssa.Value(x) {
							init = true // a copy of another value of the type
						}
					}
					if !init {
						return nil, false
					}
				}
				for _, op := range in.Operands(nil) {
					if k, ok := (*op).(*ssa.Const); ok && k.Value == nil && types.Identical(k.Type(), T) {
						return nil, false // the zero value of the type
					}
				}
			}
		}
	}
	if len(set) == 0 {
		return nil, false
	}
	var out []int64
	for k := range set {
		out = append(out, k)
	}
	sortInt64(out)
	return out, true
}

// paramSpill: the alloc is the spill slot of a value parameter or receiver (its first store is the parameter).
func paramSpill(a *ssa.Alloc) (*ssa.Parameter, bool) {
	for _, r := range referrersOf(a) {
		if st, ok := r.(*ssa.Store); ok && st.Addr == ssa.Value(a) {
			if p, ok := st.Val.(*ssa.Parameter); ok {
				return p, true
			}
		}
	}
	return nil, false
}

func sortInt64(xs []int64) {
	for i := 1; i < len(xs); i++ {
		for j := i; j > 0 && xs[j] < xs[j-1]; j-- {
			xs[j], xs[j-1] = xs[j-1], xs[j]
		}
	}
}
