package main

// Rules added with seed round 16.

import (
	"fmt"
	"go/token"
	"go/types"
	"sort"
	"strings"

	"golang.org/x/tools/go/ssa"
)

// ---------- SCH-TREE

// schemaNodeTypes: the named types a schema in memory is made of: Schema and every named type of its package
// reachable from it through fields, pointers, slices and arrays.
func schemaNodeTypes(P *Program) map[*types.Named]bool {
	out := map[*types.Named]bool{}
	root, _ := types.Unalias(P.NamedType(P.Avro, "Schema")).(*types.Named)
	if root == nil {
		return out
	}
	var walk func(t types.Type)
	walk = func(t types.Type) {
		switch t := types.Unalias(t).(type) {
		case *types.Named:
			if t.Obj().Pkg() != root.Obj().Pkg() || out[t] {
				return
			}
			if _, isS := t.Underlying().(*types.Struct); !isS {
				return
			}
			out[t] = true
			walk(t.Underlying())
		case *types.Struct:
			for i := 0; i < t.NumFields(); i++ {
				walk(t.Field(i).Type())
			}
		case *types.Pointer:
			walk(t.Elem())
		case *types.Slice:
			walk(t.Elem())
		case *types.Array:
			walk(t.Elem())
		}
	}
	walk(root)
	return out
}

// carriesSchemaLink: a value of type t can hold a reference to (or a copy of) a schema node.
func carriesSchemaLink(t types.Type, nodes map[*types.Named]bool, d int) bool {
	if d > 6 {
		return false
	}
	switch t := types.Unalias(t).(type) {
	case *types.Named:
		if nodes[t] {
			return true
		}
		return carriesSchemaLink(t.Underlying(), nodes, d+1)
	case *types.Struct:
		for i := 0; i < t.NumFields(); i++ {
			if carriesSchemaLink(t.Field(i).Type(), nodes, d+1) {
				return true
			}
		}
	case *types.Pointer:
		return carriesSchemaLink(t.Elem(), nodes, d+1)
	case *types.Slice:
		return carriesSchemaLink(t.Elem(), nodes, d+1)
	case *types.Array:
		return carriesSchemaLink(t.Elem(), nodes, d+1)
	}
	return false
}

func isSchemaNode(t types.Type, nodes map[*types.Named]bool) bool {
	n, ok := types.Unalias(t).(*types.Named)
	return ok && nodes[n]
}

// ruleSchTree: a schema in memory is a finite tree, which is what lets every recursion over it (decoder
// construction, serialisation) terminate. Nodes are linked only while they are being made: a store of a value
// that can carry a link to a schema node, into a schema node the storing function did not make itself, stores
// something that function made itself (new, a composite literal, make, the zero value). Storing a node taken
// from elsewhere — a table of named types, another part of the same schema — into an existing node is how a
// schema comes to contain itself.
func ruleSchTree(c *Ctx) {
	c.Rule("SCH-TREE", "schema nodes are linked only while they are made: what is stored into a schema node that the storing function did not make is a node that function made itself, so no schema in memory contains itself and the recursions over it end", 1)
	P := c.P
	nodes := schemaNodeTypes(P)
	if !c.Anchor(len(nodes) >= 2, "the schema node types (Schema and what it is made of)") {
		return
	}
	// is the address inside a schema node, and is that node made by this function?
	var rootOf func(v ssa.Value, d int) (root ssa.Value, inNode bool)
	rootOf = func(v ssa.Value, d int) (ssa.Value, bool) {
		in := false
		if pt, ok := v.Type().Underlying().(*types.Pointer); ok && isSchemaNode(pt.Elem(), nodes) {
			in = true
		}
		if d > 12 {
			return v, in
		}
		switch x := v.(type) {
		case *ssa.FieldAddr:
			r, i := rootOf(x.X, d+1)
			return r, in || i
		case *ssa.IndexAddr:
			if sl, ok := x.X.Type().Underlying().(*types.Slice); ok && isSchemaNode(sl.Elem(), nodes) {
				in = true
			}
			r, i := rootOf(x.X, d+1)
			return r, in || i
		case *ssa.Slice:
			r, i := rootOf(x.X, d+1)
			return r, in || i
		case *ssa.ChangeType:
			r, i := rootOf(x.X, d+1)
			return r, in || i
		}
		return v, in
	}
	var fresh func(v ssa.Value, fn *ssa.Function, d int) bool
	fresh = func(v ssa.Value, fn *ssa.Function, d int) bool {
		if d > 5 {
			return false
		}
		switch x := v.(type) {
		case *ssa.Const:
			return true
		case *ssa.Alloc:
			// a node made here; what is put into it must be made here too
			for _, r := range referrersOf(x) {
				switch r := r.(type) {
				case *ssa.Store:
					if r.Addr == ssa.Value(x) && carriesSchemaLink(r.Val.Type(), nodes, 0) && !fresh(r.Val, fn, d+1) {
						return false
					}
				case *ssa.FieldAddr:
					for _, rr := range referrersOf(r) {
						if st, ok := rr.(*ssa.Store); ok && st.Addr == ssa.Value(r) && carriesSchemaLink(st.Val.Type(), nodes, 0) && !fresh(st.Val, fn, d+1) {
							return false
						}
					}
				}
			}
			return true
		case *ssa.MakeSlice:
			return true
		case *ssa.Slice:
			return fresh(x.X, fn, d+1)
		case *ssa.ChangeType:
			return fresh(x.X, fn, d+1)
		case *ssa.UnOp:
			if x.Op == token.MUL {
				if a, ok := x.X.(*ssa.Alloc); ok {
					return fresh(a, fn, d+1)
				}
			}
			return false
		case *ssa.Phi:
			for _, e := range x.Edges {
				if !fresh(e, fn, d+1) {
					return false
				}
			}
			return true
		case *ssa.Extract:
			if call, ok := x.Tuple.(*ssa.Call); ok {
				return freshCallResult(P, call, x.Index, nodes, fresh, d)
			}
			return false
		case *ssa.Call:
			return freshCallResult(P, x, 0, nodes, fresh, d)
		}
		return false
	}
	type site struct {
		key, pos string
		ok       bool
		why      string
	}
	var sites []site
	perFn := map[string]int{}
	for _, fn := range P.ModuleFuncs() {
		for _, b := range fn.Blocks {
			for _, in := range b.Instrs {
				st, ok := in.(*ssa.Store)
				if !ok || !carriesSchemaLink(st.Val.Type(), nodes, 0) {
					continue
				}
				root, inNode := rootOf(st.Addr, 0)
				if !inNode {
					continue
				}
				switch root.(type) {
				case *ssa.Alloc, *ssa.MakeSlice:
					continue // a node (or a list of nodes) this function is making
				}
				perFn[fnKey(fn)]++
				key := fmt.Sprintf("%s/store-into-node#%d", fnKey(fn), perFn[fnKey(fn)])
				if fresh(st.Val, fn, 0) {
					sites = append(sites, site{key, P.pos(st.Pos()), true, "what is stored into the existing schema node is made in this function (new, composite literal, make or zero)"})
				} else {
					sites = append(sites, site{key, P.pos(st.Pos()), false, fmt.Sprintf("a schema node reached through %s is overwritten with, or linked to, a node this function did not make (%s): a schema may come to contain itself, and decoder construction over it never ends", describeVal(root), describeVal(st.Val))})
				}
			}
		}
	}
	sort.Slice(sites, func(i, j int) bool { return sites[i].key < sites[j].key })
	for _, s := range sites {
		if s.ok {
			c.OK(s.key, s.pos, s.why)
		} else {
			c.Bad(s.key, s.pos, s.why)
		}
	}
}

// freshCallResult: result idx of the call is made by the callee itself on every return (a module function, looked
// into two levels deep), or is what append returns for a list and items made here.
func freshCallResult(P *Program, call *ssa.Call, idx int, nodes map[*types.Named]bool, fresh func(ssa.Value, *ssa.Function, int) bool, d int) bool {
	if b, ok := call.Call.Value.(*ssa.Builtin); ok && b.Name() == "append" {
		for _, a := range call.Call.Args {
			if !fresh(a, call.Parent(), d+1) {
				return false
			}
		}
		return true
	}
	g := call.Call.StaticCallee()
	if g == nil || g.Blocks == nil || !P.isModuleFunc(g) || d > 2 {
		return false
	}
	rets := returnsOf(g)
	if len(rets) == 0 {
		return false
	}
	for _, r := range rets {
		if idx >= len(r.Results) || !fresh(r.Results[idx], g, d+2) {
			return false
		}
	}
	return true
}

func describeVal(v ssa.Value) string {
	switch x := v.(type) {
	case *ssa.Parameter:
		return "parameter " + x.Name()
	case *ssa.Extract:
		if _, ok := x.Tuple.(*ssa.Lookup); ok {
			return "a map lookup"
		}
		if call, ok := x.Tuple.(*ssa.Call); ok {
			return "a result of " + describeVal(call)
		}
	case *ssa.Lookup:
		return "a map lookup"
	case *ssa.Call:
		if g := x.Call.StaticCallee(); g != nil {
			return "the result of " + qualName(g)
		}
		return "the result of a call"
	case *ssa.UnOp:
		if x.Op == token.MUL {
			return "a load of " + accessPath(x.X)
		}
	}
	if p := accessPath(v); p != "" {
		return p
	}
	return v.Name()
}

// ---------- BT-NILTYP

// ruleBTNilTyp: a schema field the target struct lacks is built for with no Go type at all (the record builder
// passes a nil reflect.Type), and the codec that comes out is used to skip the field. The dispatcher is folded
// for every schema type and the nil type: no way through it ends in a run-time panic (a method called on the nil
// type), and a codec comes out — so decoder construction for a file with more fields than the struct returns a
// decoder, not a crash or a refusal.
func ruleBTNilTyp(c *Ctx) {
	c.Rule("BT-NILTYP", "for every schema type the dispatcher, folded with no Go type (a field the struct lacks), returns a codec on some path and panics on none", 10)
	P := c.P
	root := P.Func(P.Avro, "buildCodec")
	schemaNT := P.NamedType(P.Avro, "Schema")
	if !c.Anchor(root != nil && schemaNT != nil && len(root.Params) == 3, "root dispatcher buildCodec(schema, typ, omit)") {
		return
	}
	schemaT := types.Type(schemaNT)
	sst := schemaT.Underlying().(*types.Struct)
	var objT, fieldT types.Type
	for i := 0; i < sst.NumFields(); i++ {
		if sst.Field(i).Name() == "Object" {
			if pt, ok := sst.Field(i).Type().Underlying().(*types.Pointer); ok {
				objT = pt.Elem()
			}
		}
	}
	if !c.Anchor(objT != nil, "Schema.Object") {
		return
	}
	ost := objT.Underlying().(*types.Struct)
	for i := 0; i < ost.NumFields(); i++ {
		if ost.Field(i).Name() == "Fields" {
			if sl, ok := ost.Field(i).Type().Underlying().(*types.Slice); ok {
				fieldT = sl.Elem()
			}
		}
	}
	sch := func(t string, extra map[string]cpVal, obj map[string]cpVal) cpVal {
		f := map[string]cpVal{"Type": cpStr{t}}
		for k, v := range extra {
			f[k] = v
		}
		if obj != nil {
			f["Object"] = cpPtrTo(cpStructOf(objT, obj), objT)
		}
		return cpStructOf(schemaT, f)
	}
	long := sch("long", nil, nil)
	type kase struct {
		st string
		s  cpVal
	}
	var cases []kase
	for _, st := range []string{"null", "boolean", "int", "long", "float", "double", "bytes", "string"} {
		cases = append(cases, kase{st, sch(st, nil, nil)})
	}
	cases = append(cases,
		kase{"fixed", sch("fixed", nil, map[string]cpVal{"Size": cpInt{4}, "Name": cpStr{"F"}})},
		kase{"array", sch("array", nil, map[string]cpVal{"Items": long})},
		kase{"array<bytes>", sch("array", nil, map[string]cpVal{"Items": sch("bytes", nil, nil)})},
		kase{"map", sch("map", nil, map[string]cpVal{"Values": long})},
		kase{"union", sch("union", map[string]cpVal{"Union": cpSlice{Elems: []*cpCell{{V: sch("null", nil, nil), T: schemaT}, {V: sch("string", nil, nil), T: schemaT}}}}, nil)},
		kase{"union[null,bytes]", sch("union", map[string]cpVal{"Union": cpSlice{Elems: []*cpCell{{V: sch("null", nil, nil), T: schemaT}, {V: sch("bytes", nil, nil), T: schemaT}}}}, nil)},
	)
	if fieldT != nil {
		mkField := func(name string, t cpVal) *cpCell {
			return &cpCell{V: cpStructOf(fieldT, map[string]cpVal{"Name": cpStr{name}, "Type": t}), T: fieldT}
		}
		cases = append(cases, kase{"record", sch("record", nil, map[string]cpVal{"Name": cpStr{"R"}, "Fields": cpSlice{Elems: []*cpCell{mkField("a", long), mkField("b", sch("bytes", nil, nil)), mkField("c", sch("float", nil, nil))}}})})
	}
	old := cpMaxOutcomes
	cpMaxOutcomes, cpNilInvokePanics = 256, true
	defer func() { cpMaxOutcomes, cpNilInvokePanics = old, false }()
	for _, k := range cases {
		key := fmt.Sprintf("%s/nil-type[%s]", fnKey(root), k.st)
		pos := P.pos(root.Pos())
		cpPanicAt = map[ssa.Instruction]bool{}
		outs, _, ok, why := cpFoldOpt(P, root, []cpVal{k.s, cpNil{}, cpUnk{ID: "arg:omit"}}, nil)
		at := ""
		for in := range cpPanicAt {
			if p := P.pos(in.Pos()); at == "" || p < at {
				at = p
			}
		}
		cpPanicAt = nil
		if !ok {
			c.Unk(key, pos, "the dispatcher could not be folded for schema "+k.st+" and no Go type: "+why)
			continue
		}
		panics, built := "", false
		for _, o := range outs {
			if o.Panics {
				panics = at
				if panics == "" {
					panics = "(position unknown)"
				}
				continue
			}
			if len(o.Results) == 2 {
				if _, isNil := o.Results[1].(cpNil); isNil {
					built = true
				}
			}
		}
		switch {
		case panics != "":
			c.Bad(key, pos, fmt.Sprintf("for schema %s and no Go type (a field the struct lacks) decoder construction ends in a run-time panic at %s", k.st, panics))
		case !built:
			c.Bad(key, pos, fmt.Sprintf("for schema %s and no Go type no codec comes out: a file with such a field cannot be read into a struct that lacks it", k.st))
		default:
			c.OK(key, pos, fmt.Sprintf("folded for schema %s and the nil type: %d outcomes, none panics, a codec comes out", k.st, len(outs)))
		}
	}
}

// ---------- VAR-RD

// ruleVarRd: varints are decoded by the read buffer's own decoder and nowhere else. Outside the read buffer's
// methods a byte obtained from ReadByte is a whole value (a boolean, a one-byte union selector): it is never
// widened and shifted left, which is how a multi-byte length is put together by hand. A hand-made decoder has to
// get right what the buffer's decoder gets right (the continuation bit, ten bytes, the overflow rule) — and a
// codec with its own is a second place where "what length did the writer mean" can come out differently.
func ruleVarRd(c *Ctx) {
	c.Rule("VAR-RD", "outside the read buffer a byte read from the input is never shifted into a wider number: lengths, counts and integers are decoded by the buffer's Varint alone", 2)
	P := c.P
	rbT := P.NamedType(P.Avro, "ReadBuf")
	if !c.Anchor(rbT != nil, "avro.ReadBuf") {
		return
	}
	isRB := func(fn *ssa.Function) bool {
		if fn.Signature.Recv() == nil {
			return false
		}
		return types.Identical(types.Unalias(derefType(fn.Signature.Recv().Type())), types.Unalias(rbT))
	}
	n := 0
	for _, fn := range P.ModuleFuncs() {
		if isRB(fn) {
			continue
		}
		for _, cs := range callsIn(fn) {
			if cs.Static == nil || qualNameShort(cs.Static) != "(*ReadBuf).ReadByte" || cs.Value() == nil {
				continue
			}
			n++
			key := fmt.Sprintf("%s/byte#%d", fnKey(fn), n)
			b := extractOf(cs.Value(), 0)
			bad := ""
			if b != nil {
				seen := map[ssa.Value]bool{}
				var walk func(v ssa.Value, d int)
				walk = func(v ssa.Value, d int) {
					if seen[v] || d > 6 || bad != "" {
						return
					}
					seen[v] = true
					for _, r := range referrersOf(v) {
						switch x := r.(type) {
						case *ssa.Convert:
							walk(x, d+1)
						case *ssa.ChangeType:
							walk(x, d+1)
						case *ssa.Phi:
							walk(x, d+1)
						case *ssa.BinOp:
							if x.Op == token.SHL && x.X == v {
								bad = P.pos(x.Pos())
								return
							}
							if x.Op == token.AND || x.Op == token.AND_NOT {
								walk(x, d+1)
							}
						}
					}
				}
				walk(b, 0)
			}
			if bad != "" {
				c.Bad(key, P.pos(cs.Instr.Pos()), "a byte read here is shifted left into a wider number at "+bad+": a multi-byte integer is being decoded by hand, outside the read buffer's Varint")
			} else {
				c.OK(key, P.pos(cs.Instr.Pos()), "the byte is used as a whole value (compared, halved, masked, stored), never shifted into a wider number")
			}
		}
	}
}

// ---------- JS-STRICT

// ruleJSStrict: schema documents are parsed and written with the JSON library's default strictness. Every call
// of the library's Unmarshal*/Marshal* functions in the module passes no options at all: the defaults refuse a
// repeated member name and invalid UTF-8, and an option that relaxes either travels with the decoder into every
// nested value, so a malformed document would parse — the last of two "type" members winning, two different
// bad names becoming the same replacement character.
func ruleJSStrict(c *Ctx) {
	c.Rule("JS-STRICT", "the JSON library is called with no options: repeated member names and invalid UTF-8 in a schema document are refused, as by default", 4)
	P := c.P
	n := 0
	for _, fn := range P.ModuleFuncs() {
		for _, cs := range callsIn(fn) {
			if cs.Static == nil || cs.Static.Pkg == nil {
				continue
			}
			pp := cs.Static.Pkg.Pkg.Path()
			if !(strings.HasSuffix(pp, "go-json-experiment/json") || pp == "encoding/json/v2" || strings.HasSuffix(pp, "/jsontext") || pp == "encoding/json/jsontext") {
				continue
			}
			sig := cs.Static.Signature
			if !sig.Variadic() || sig.Recv() != nil {
				continue
			}
			n++
			key := fmt.Sprintf("%s/json-call#%d[%s]", fnKey(fn), n, cs.Static.Name())
			last := cs.Common.Args[len(cs.Common.Args)-1]
			if isNilConst(last) {
				c.OK(key, P.pos(cs.Instr.Pos()), cs.Static.Name()+" is called with no options")
			} else {
				c.Bad(key, P.pos(cs.Instr.Pos()), cs.Static.Name()+" is called with options: the library's defaults (repeated member names and invalid UTF-8 refused, at every depth) are what keeps a malformed schema document from being accepted; an option set here travels into every nested value")
			}
		}
	}
}

// ---------- ARR-ITEM

// ruleArrItem: the items of an array and the values of a map are decoded by their own codec and by nothing
// else. In the Read method of the array and map codecs (and the helpers of those types it hands the buffer to)
// the read buffer is used for three things only: Varint (counts and block sizes), allocation, and as the
// argument of a sub-codec's Read, Skip or New. A bulk path that takes the items' bytes from the buffer itself
// bypasses whatever codec was built — or registered — for the item type.
func ruleArrItem(c *Ctx) {
	c.Rule("ARR-ITEM", "the array and map codecs consume item and value bytes only through the item codec's own Read: the buffer itself is asked for counts, block sizes and allocations only", 2)
	P := c.P
	bt := getBT(P)
	for _, name := range []string{"avro.arrayCodec", "avro.MapCodec"} {
		ct := bt.byType[name]
		if ct == nil || ct.M["Read"] == nil {
			c.Anchor(false, name+".Read")
			continue
		}
		root := ct.M["Read"]
		var fns []*ssa.Function
		seen := map[*ssa.Function]bool{}
		var gather func(f *ssa.Function, d int)
		gather = func(f *ssa.Function, d int) {
			if seen[f] || d > 2 {
				return
			}
			seen[f] = true
			fns = append(fns, f)
			for _, cs := range callsIn(f) {
				g := cs.Static
				if g == nil || !P.isModuleFunc(g) || g.Blocks == nil || g.Signature.Recv() == nil {
					continue
				}
				// helpers of the codec type itself that are handed the buffer
				if !types.Identical(types.Unalias(derefType(g.Signature.Recv().Type())), types.Unalias(derefType(root.Signature.Recv().Type()))) {
					continue
				}
				for _, a := range cs.Common.Args {
					if isReadBufPtr(a.Type()) {
						gather(g, d+1)
					}
				}
			}
		}
		gather(root, 0)
		bad := ""
		n := 0
		for _, f := range fns {
			for _, b := range f.Blocks {
				for _, in := range b.Instrs {
					// direct access to the buffer's fields
					if fa, ok := in.(*ssa.FieldAddr); ok && isReadBufPtr(fa.X.Type()) {
						bad = "reads the buffer's own fields at " + P.pos(fa.Pos())
					}
				}
			}
			for _, cs := range callsIn(f) {
				g := cs.Static
				if g == nil || g.Signature.Recv() == nil || len(cs.Common.Args) == 0 || !isReadBufPtr(cs.Common.Args[0].Type()) {
					continue
				}
				n++
				switch {
				case g.Name() == "Varint":
				case strings.HasPrefix(g.Name(), "Alloc"), g.Name() == "ExtractResourceBank":
				case g.Name() == "Len":
				default:
					bad = fmt.Sprintf("calls %s at %s", qualNameShort(g), P.pos(cs.Instr.Pos()))
				}
			}
		}
		key := ct.Name + ".Read/items-through-their-codec"
		if bad != "" {
			c.Bad(key, P.pos(root.Pos()), "the codec "+bad+": item bytes are taken from the buffer directly, past the codec built (or registered) for the item type")
		} else {
			c.OK(key, P.pos(root.Pos()), fmt.Sprintf("%d uses of the buffer's own methods, all Varint or allocation; everything else goes through sub-codec calls", n))
		}
	}
}
