package main

import (
	"fmt"
	"go/token"
	"go/types"
	"sort"

	"golang.org/x/tools/go/ssa"
)

// E-CP's model of the bytes of a symbolic input string (cpStrSym).
//
// A byte in[k] is unknown, but it has only 256 values. Everything a byte-wise parser computes from one
// byte — c-'0', int(c-'0')*1000, c >= '0' — is a function of that byte that can be tabulated exactly,
// wrap-around of narrow unsigned arithmetic included; sums of such tables over different bytes stay exact
// as long as they are formed in 64 bits. So:
//
//   cpBF   value = F[b] for the byte b = in[k]                      (a table of 256 integers)
//   cpAff  value = Σ F_i[b_i] + Add over distinct bytes b_i           (a sum of tables)
//
// and along one path the fold keeps, per byte, the set of values that are still possible. A comparison of
// a cpBF with a constant splits that set exactly: if one side is empty the comparison is decided, otherwise
// the path forks and each side continues with its half. (So `c == '.'` followed by `c == ','` never
// explores the impossible both-true path, and `a < 0` on a value that was formed in uint8 is simply false.)
// A comparison of a sum of several bytes with a constant is decided when it has the same truth for all
// combinations still possible, and otherwise forks and is recorded as a constraint of the path.
//
// Nothing here enumerates inputs: tables are indexed by the 256 values of one byte, and the rules that
// read the outcomes compare tables with tables.

type cpByteSet [4]uint64

func (s cpByteSet) has(b int) bool { return s[b>>6]&(1<<uint(b&63)) != 0 }
func (s *cpByteSet) add(b int)     { s[b>>6] |= 1 << uint(b&63) }
func (s cpByteSet) count() int {
	n := 0
	for b := 0; b < 256; b++ {
		if s.has(b) {
			n++
		}
	}
	return n
}
func (s cpByteSet) and(t cpByteSet) cpByteSet {
	return cpByteSet{s[0] & t[0], s[1] & t[1], s[2] & t[2], s[3] & t[3]}
}
func (s cpByteSet) minus(t cpByteSet) cpByteSet {
	return cpByteSet{s[0] &^ t[0], s[1] &^ t[1], s[2] &^ t[2], s[3] &^ t[3]}
}
func (s cpByteSet) empty() bool { return s == cpByteSet{} }
func cpAllBytes() cpByteSet     { return cpByteSet{^uint64(0), ^uint64(0), ^uint64(0), ^uint64(0)} }
func cpByteRange(lo, hi int) cpByteSet {
	var s cpByteSet
	for b := lo; b <= hi; b++ {
		s.add(b)
	}
	return s
}
func (s cpByteSet) String() string {
	out := ""
	for b := 0; b < 256; b++ {
		if !s.has(b) {
			continue
		}
		e := b
		for e+1 < 256 && s.has(e+1) {
			e++
		}
		if out != "" {
			out += ","
		}
		show := func(x int) string {
			if x >= 33 && x < 127 {
				return fmt.Sprintf("%q", rune(x))
			}
			return fmt.Sprintf("0x%02x", x)
		}
		if e == b {
			out += show(b)
		} else {
			out += show(b) + "-" + show(e)
		}
		b = e
	}
	return "{" + out + "}"
}

type cpBF struct {
	ID   string
	F    *[256]int64
	Deps string
}

type cpAff struct {
	Terms []cpBF // distinct IDs, sorted by ID
	Add   int64
	Deps  string
}

// cpConstraint: on this path `Aff Op K` was assumed to be Truth.
type cpConstraint struct {
	Aff      cpAff
	Op       token.Token
	K        int64
	Truth    bool
	Unsigned bool
}

// cpStrIter is the state of a `range` over a symbolic string.
type cpStrIter struct {
	S    cpStrSym
	Next *int64
}

func cpByteIdent(id string, pos int64) cpBF {
	var f [256]int64
	for b := range f {
		f[b] = int64(b)
	}
	return cpBF{ID: id, F: &f, Deps: fmt.Sprintf(",%d,", pos)}
}

func (e *cpEngine) byteSet(id string) cpByteSet {
	if s, ok := e.bytes[id]; ok {
		return s
	}
	return cpAllBytes()
}

func asAff(v cpVal) (cpAff, bool) {
	switch x := v.(type) {
	case cpBF:
		return cpAff{Terms: []cpBF{x}, Deps: x.Deps}, true
	case cpAff:
		return x, true
	case cpInt:
		return cpAff{Add: x.V}, true
	}
	return cpAff{}, false
}

func isByteSym(v cpVal) bool {
	switch v.(type) {
	case cpBF, cpAff:
		return true
	}
	return false
}

func normAff(a cpAff) cpVal {
	if len(a.Terms) == 0 {
		return cpInt{a.Add}
	}
	if len(a.Terms) == 1 {
		t := a.Terms[0]
		if a.Add == 0 {
			return t
		}
		var f [256]int64
		for b := range f {
			f[b] = t.F[b] + a.Add
		}
		return cpBF{ID: t.ID, F: &f, Deps: t.Deps}
	}
	return a
}

func affCombine(a, b cpAff, sign int64) cpAff {
	out := cpAff{Add: a.Add + sign*b.Add, Deps: cpJoinDeps(a.Deps, b.Deps)}
	byID := map[string]*[256]int64{}
	deps := map[string]string{}
	for _, t := range a.Terms {
		f := *t.F
		byID[t.ID] = &f
		deps[t.ID] = t.Deps
	}
	for _, t := range b.Terms {
		if f, ok := byID[t.ID]; ok {
			for i := range f {
				f[i] += sign * t.F[i]
			}
		} else {
			var f [256]int64
			for i := range f {
				f[i] = sign * t.F[i]
			}
			byID[t.ID] = &f
			deps[t.ID] = t.Deps
		}
	}
	var ids []string
	for id := range byID {
		ids = append(ids, id)
	}
	sort.Strings(ids)
	for _, id := range ids {
		out.Terms = append(out.Terms, cpBF{ID: id, F: byID[id], Deps: deps[id]})
	}
	return out
}

func isWide64(t types.Type) bool {
	b, ok := t.Underlying().(*types.Basic)
	if !ok {
		return false
	}
	switch b.Kind() {
	case types.Int, types.Int64, types.Uint, types.Uint64, types.Uintptr, types.UntypedInt:
		return true
	}
	return false
}

// byteBinop: a binary operation with a byte function or a sum of them on at least one side.
func (e *cpEngine) byteBinop(x *ssa.BinOp, a, b cpVal) (cpVal, bool) {
	if !isByteSym(a) && !isByteSym(b) {
		return nil, false
	}
	deps := cpJoinDeps(cpDeps(a), cpDeps(b))
	isCmp := false
	switch x.Op {
	case token.EQL, token.NEQ, token.LSS, token.LEQ, token.GTR, token.GEQ:
		isCmp = true
	}
	// one byte against a constant: tabulate with the constant semantics of the operator, type and all
	if af, ok := a.(cpBF); ok {
		if bk, ok := b.(cpInt); ok {
			return e.tabulate(x, af, func(v int64) cpVal { return e.binop(x, cpInt{v}, bk) }, isCmp), true
		}
	}
	if bf, ok := b.(cpBF); ok {
		if ak, ok := a.(cpInt); ok {
			return e.tabulate(x, bf, func(v int64) cpVal { return e.binop(x, ak, cpInt{v}) }, isCmp), true
		}
	}
	// two functions of the same byte
	if af, ok := a.(cpBF); ok {
		if bf, ok := b.(cpBF); ok && af.ID == bf.ID {
			known := e.byteSet(af.ID)
			var f [256]int64
			var trueSet cpByteSet
			for v := 0; v < 256; v++ {
				if !known.has(v) {
					continue
				}
				switch r := e.binop(x, cpInt{af.F[v]}, cpInt{bf.F[v]}).(type) {
				case cpInt:
					f[v] = r.V
				case cpBool:
					if r.V {
						trueSet.add(v)
					}
				default:
					return e.freshDeps("binop", deps), true
				}
			}
			if isCmp {
				return e.splitByte(af.ID, trueSet), true
			}
			return cpBF{ID: af.ID, F: &f, Deps: af.Deps}, true
		}
	}
	aa, okA := asAff(a)
	ba, okB := asAff(b)
	if !okA || !okB {
		return e.freshDeps("binop", deps), true
	}
	wide := isWide64(x.X.Type())
	switch x.Op {
	case token.ADD:
		if wide {
			return normAff(affCombine(aa, ba, 1)), true
		}
	case token.SUB:
		if wide {
			return normAff(affCombine(aa, ba, -1)), true
		}
	case token.OR, token.XOR:
		// x | y (and x ^ y) of values whose bits cannot overlap is their sum: the base-128 accumulation
		// "x |= uint64(b&0x7f) << s" stays an exact sum of per-byte tables
		if wide && e.affBitsDisjoint(aa, ba) {
			return normAff(affCombine(aa, ba, 1)), true
		}
	case token.MUL:
		if wide {
			if k, ok := b.(cpInt); ok {
				return normAff(affScale(aa, k.V)), true
			}
			if k, ok := a.(cpInt); ok {
				return normAff(affScale(ba, k.V)), true
			}
		}
	}
	if isCmp && wide {
		unsigned := false
		if bt, ok := x.X.Type().Underlying().(*types.Basic); ok && bt.Info()&types.IsUnsigned != 0 {
			unsigned = true
		}
		if k, ok := b.(cpInt); ok && !unsigned {
			return e.splitAff(aa, x.Op, k.V, false), true
		}
		if k, ok := a.(cpInt); ok && !unsigned {
			return e.splitAff(ba, swapTok(x.Op), k.V, false), true
		}
		d := affCombine(aa, ba, -1) // a - b  (op)  0
		if len(d.Terms) == 0 {
			return e.binop(x, cpInt{d.Add}, cpInt{0}), true
		}
		if !unsigned {
			return e.splitAff(d, x.Op, 0, false), true
		}
		// unsigned comparisons do not survive the subtraction; only "sum against constant" is kept
		if k, ok := b.(cpInt); ok {
			return e.splitAff(aa, x.Op, k.V, true), true
		}
	}
	return e.freshDeps("binop", deps), true
}

func affScale(a cpAff, k int64) cpAff {
	out := cpAff{Add: a.Add * k, Deps: a.Deps}
	for _, t := range a.Terms {
		var f [256]int64
		for i := range f {
			f[i] = t.F[i] * k
		}
		out.Terms = append(out.Terms, cpBF{ID: t.ID, F: &f, Deps: t.Deps})
	}
	return out
}

// tabulate applies op to every value the byte can still take.
func (e *cpEngine) tabulate(x ssa.Value, bf cpBF, op func(int64) cpVal, isCmp bool) cpVal {
	known := e.byteSet(bf.ID)
	var f [256]int64
	var trueSet cpByteSet
	for v := 0; v < 256; v++ {
		if !known.has(v) {
			continue
		}
		switch r := op(bf.F[v]).(type) {
		case cpInt:
			f[v] = r.V
		case cpBool:
			if r.V {
				trueSet.add(v)
			}
		default:
			return e.freshDeps("binop", bf.Deps)
		}
	}
	if isCmp {
		return e.splitByte(bf.ID, trueSet)
	}
	return cpBF{ID: bf.ID, F: &f, Deps: bf.Deps}
}

// splitByte: a condition that holds exactly for the values in trueSet of the byte.
func (e *cpEngine) splitByte(id string, trueSet cpByteSet) cpVal {
	known := e.byteSet(id)
	t := known.and(trueSet)
	f := known.minus(trueSet)
	switch {
	case t.empty():
		return cpBool{false}
	case f.empty():
		return cpBool{true}
	}
	if e.bytes == nil {
		e.bytes = map[string]cpByteSet{}
	}
	if e.decide0() {
		e.bytes[id] = t
		return cpBool{true}
	}
	e.bytes[id] = f
	return cpBool{false}
}

// affEval: does `aff op k` hold for all / for no combination of the byte values still possible?
func (e *cpEngine) affTruth(a cpAff, op token.Token, k int64, unsigned bool, sets map[string]cpByteSet) (all, none, decided bool) {
	total := 1
	doms := make([][]int, len(a.Terms))
	for i, t := range a.Terms {
		s, ok := sets[t.ID]
		if !ok {
			s = e.byteSet(t.ID)
		}
		for v := 0; v < 256; v++ {
			if s.has(v) {
				doms[i] = append(doms[i], v)
			}
		}
		total *= len(doms[i])
		if total > 2000000 || total == 0 {
			return false, false, false
		}
	}
	all, none = true, true
	idx := make([]int, len(a.Terms))
	for {
		sum := a.Add
		for i, t := range a.Terms {
			sum += t.F[doms[i][idx[i]]]
		}
		if cmpHolds(sum, op, k, unsigned) {
			none = false
		} else {
			all = false
		}
		if !all && !none {
			return false, false, true
		}
		j := 0
		for ; j < len(idx); j++ {
			idx[j]++
			if idx[j] < len(doms[j]) {
				break
			}
			idx[j] = 0
		}
		if j == len(idx) {
			break
		}
	}
	return all, none, true
}

func cmpHolds(v int64, op token.Token, k int64, unsigned bool) bool {
	c := 0
	if unsigned {
		switch {
		case uint64(v) < uint64(k):
			c = -1
		case uint64(v) > uint64(k):
			c = 1
		}
	} else {
		switch {
		case v < k:
			c = -1
		case v > k:
			c = 1
		}
	}
	switch op {
	case token.EQL:
		return c == 0
	case token.NEQ:
		return c != 0
	case token.LSS:
		return c < 0
	case token.LEQ:
		return c <= 0
	case token.GTR:
		return c > 0
	case token.GEQ:
		return c >= 0
	}
	return false
}

func (e *cpEngine) splitAff(a cpAff, op token.Token, k int64, unsigned bool) cpVal {
	if len(a.Terms) == 1 {
		t := a.Terms[0]
		var trueSet cpByteSet
		for v := 0; v < 256; v++ {
			if cmpHolds(t.F[v]+a.Add, op, k, unsigned) {
				trueSet.add(v)
			}
		}
		return e.splitByte(t.ID, trueSet)
	}
	all, none, decided := e.affTruth(a, op, k, unsigned, nil)
	if decided && all {
		return cpBool{true}
	}
	if decided && none {
		return cpBool{false}
	}
	t := e.decide0()
	e.constraints = append(e.constraints, cpConstraint{Aff: a, Op: op, K: k, Truth: t, Unsigned: unsigned})
	return cpBool{t}
}

// byteConvert: an integer conversion of a byte function (exact, per value) or of a sum (kept only when
// nothing can be cut off).
func (e *cpEngine) byteConvert(x *ssa.Convert, a cpVal) (cpVal, bool) {
	tb, ok := x.Type().Underlying().(*types.Basic)
	if !ok || tb.Info()&types.IsInteger == 0 {
		return nil, false
	}
	switch y := a.(type) {
	case cpBF:
		known := e.byteSet(y.ID)
		var f [256]int64
		for v := 0; v < 256; v++ {
			if known.has(v) {
				f[v] = e.wrap(cpInt{y.F[v]}, x.Type()).(cpInt).V
			}
		}
		return cpBF{ID: y.ID, F: &f, Deps: y.Deps}, true
	case cpAff:
		if isWide64(x.Type()) && isWide64(x.X.Type()) {
			return y, true
		}
		return e.freshDeps("conv", y.Deps), true
	}
	return nil, false
}

func (e *cpEngine) byteNeg(a cpVal) (cpVal, bool) {
	aa, ok := asAff(a)
	if !ok || !isByteSym(a) {
		return nil, false
	}
	return normAff(affScale(aa, -1)), true
}

// strIterNext: one step of a `range` over a symbolic string. An ASCII byte is one rune, the byte itself. For
// any other byte the decoder takes one to four bytes and yields some rune >= 0x80 (or U+FFFD for one byte):
// the width forks over what the remaining length allows and the rune is unknown — an over-approximation
// (the continuation bytes are not constrained), so every real behaviour is among the paths explored.
func (e *cpEngine) strIterNext(it cpStrIter) cpVal {
	i := *it.Next
	if i >= it.S.Len {
		return cpTuple{Vs: []cpVal{cpBool{false}, cpInt{0}, cpInt{0}}}
	}
	pos := it.S.Off + i
	id := fmt.Sprintf("%s[%d]", it.S.ID, pos)
	if b, ok := e.splitByte(id, cpByteRange(0, 127)).(cpBool); ok && b.V {
		*it.Next = i + 1
		return cpTuple{Vs: []cpVal{cpBool{true}, cpInt{i}, cpByteIdent(id, pos)}}
	}
	w := int64(1)
	for w < 4 && i+w < it.S.Len && e.decide0() {
		w++
	}
	*it.Next = i + w
	if w == 1 {
		// either an invalid byte (U+FFFD) or ... nothing else has width one
		return cpTuple{Vs: []cpVal{cpBool{true}, cpInt{i}, cpInt{0xFFFD}}}
	}
	return cpTuple{Vs: []cpVal{cpBool{true}, cpInt{i}, cpRng{Lo: 0x80, Hi: 0x10FFFF}}}
}

// cpRng: an integer known only to lie in [Lo, Hi] (the rune of a multi-byte sequence). Comparisons with
// constants outside the interval are decided; everything else about it is unknown.
type cpRng struct{ Lo, Hi int64 }

func (e *cpEngine) rngBinop(x *ssa.BinOp, a, b cpVal) (cpVal, bool) {
	ar, aIs := a.(cpRng)
	br, bIs := b.(cpRng)
	if !aIs && !bIs {
		return nil, false
	}
	op := x.Op
	var r cpRng
	var k int64
	switch {
	case aIs:
		kv, ok := b.(cpInt)
		if !ok {
			return e.fresh("binop"), true
		}
		r, k = ar, kv.V
	default:
		kv, ok := a.(cpInt)
		if !ok {
			return e.fresh("binop"), true
		}
		r, k, op = br, kv.V, swapTok(op)
	}
	switch op {
	case token.EQL, token.NEQ, token.LSS, token.LEQ, token.GTR, token.GEQ:
		lo, hi := cmpHolds(r.Lo, op, k, false), cmpHolds(r.Hi, op, k, false)
		if (k < r.Lo || k > r.Hi) && lo == hi {
			return cpBool{lo}, true
		}
	}
	return e.fresh("binop"), true
}

// affBitsDisjoint: over the values the bytes can still take on this path, no bit is set in two of the
// terms (or constants) of a and b.
func (e *cpEngine) affBitsDisjoint(a, b cpAff) bool {
	var masks []uint64
	add := func(x cpAff) {
		if x.Add != 0 {
			masks = append(masks, uint64(x.Add))
		}
		for _, t := range x.Terms {
			known := e.byteSet(t.ID)
			m := uint64(0)
			for v := 0; v < 256; v++ {
				if known.has(v) {
					m |= uint64(t.F[v])
				}
			}
			masks = append(masks, m)
		}
	}
	add(a)
	add(b)
	seen := uint64(0)
	for _, m := range masks {
		if seen&m != 0 {
			return false
		}
		seen |= m
	}
	return true
}
