#!/usr/bin/env python3
"""refactor_eval.py <patch>...

For each behaviour-preserving patch: apply it to /repo, run the unedited suite and every
claimed property's quick check (evidence redirected to a temp dir), undo it at once.
Any check that fails on such a patch is a false alarm of the machinery."""
import json, os, shutil, subprocess, sys, tempfile

ENV = dict(os.environ)
for k in ('GOTOOLCHAIN', 'GOSUMDB', 'GOWORK'):
    ENV.pop(k, None)
ENV.update(GOFLAGS='-mod=mod', GOPROXY='off')


def sh(cmd, cwd=None, env=None):
    p = subprocess.run(cmd, shell=True, cwd=cwd, env=env or ENV, capture_output=True, text=True)
    return p.returncode, p.stdout + p.stderr


manifest = json.load(open('/verif/MANIFEST.json'))
summary = {}
for pf in sys.argv[1:]:
    tmp = tempfile.mkdtemp(prefix='rfeval-')
    try:
        rc, o = sh('git -C /repo apply %s' % pf)
        if rc != 0:
            summary[pf] = {'error': 'does not apply: ' + o[:200]}
            continue
        try:
            rc, o = sh('/usr/bin/go test -vet=off -count=1 ./...', cwd='/repo')
            suite_ok = rc == 0
            procs = {}
            for c in manifest['checks']:
                pid = c['property_id']
                procs[pid] = subprocess.Popen('./check %s quick -out %s' % (pid, tmp), shell=True, cwd='/verif', stdout=subprocess.PIPE, stderr=subprocess.STDOUT, text=True)
            fired = {}
            for pid, p in procs.items():
                out, _ = p.communicate()
                lines = [l for l in out.splitlines() if l.startswith('VIOLATED') or l.startswith('UNDECIDED') or 'could not load' in l or 'panicked' in l]
                if p.returncode != 0 or lines:
                    fired[pid] = lines[:8]
        finally:
            sh('git -C /repo checkout -- .')
            sh('git -C /repo clean -fdq')
            rc, st = sh('git -C /repo status --porcelain')
            assert st.strip() == '', 'repo not clean: ' + st
        summary[pf] = {'suite_ok': suite_ok, 'false_alarms': fired}
    finally:
        shutil.rmtree(tmp, ignore_errors=True)
for pf, r in summary.items():
    print('==', pf, 'suite_ok=%s' % r.get('suite_ok'), r.get('error', ''))
    for pid, lines in r.get('false_alarms', {}).items():
        for l in lines:
            print('   ', pid, l[:260])
