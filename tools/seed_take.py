#!/usr/bin/env python3
"""seed_take.py <PROP> <out-dir> <name> [round-label]

Takes a seeded change delivered by a sub-agent (<out-dir>/patch.diff, zz_seeded_test.go, notes.json),
confirms it independently in fresh scratch worktrees of /repo HEAD — the suite passes with the patch,
the demonstration fails with it and passes without it (with -race when the plain run does not fail) —
runs every property's quick check against the patched worktree (VERIF_REPO; /repo itself is not
touched), and keeps it as /verif/seeded/<name>/ (patch.diff, demonstration as *_test.go.txt, meta.json,
eval.json). Exits 1 when the change could not be confirmed (nothing is kept)."""
import json, os, shutil, subprocess, sys, tempfile

prop, outd, name = sys.argv[1:4]
label = sys.argv[4] if len(sys.argv) > 4 else 'round 9'
ENV = dict(os.environ)
for k in ('GOTOOLCHAIN', 'GOSUMDB', 'GOWORK'):
    ENV.pop(k, None)
ENV.update(GOFLAGS='-mod=mod', GOPROXY='off')


def sh(cmd, cwd=None, env=None):
    p = subprocess.run(cmd, shell=True, cwd=cwd, env=env or ENV, capture_output=True, text=True, errors='replace')
    return p.returncode, p.stdout + p.stderr


pf = os.path.join(outd, 'patch.diff')
demo = os.path.join(outd, 'zz_seeded_test.go')
notes = {}
try:
    notes = json.load(open(os.path.join(outd, 'notes.json')))
except Exception as ex:
    print('no notes.json:', ex)
if not os.path.exists(pf) or not os.path.exists(demo):
    print('missing patch.diff or zz_seeded_test.go in', outd)
    sys.exit(1)
pkg = None
for l in open(demo):
    if l.startswith('package '):
        pkg = l.split()[1].split('_')[0]
        break
pkgdir = {'avro': '.', 'time': 'time', 'null': 'null'}.get(pkg, notes.get('package_dir_of_demo', '.'))
res = {'property': prop, 'name': name, 'package_dir_of_demo': pkgdir}
wt = tempfile.mkdtemp(prefix='take-', dir='/tmp'); os.rmdir(wt)
od = tempfile.mkdtemp(prefix='takeout-', dir='/tmp')
try:
    rc, o = sh('git -C /repo worktree add -q --detach %s HEAD' % wt)
    assert rc == 0, o
    # the patch must touch library source only
    rc, o = sh('git apply --numstat %s' % pf, cwd=wt)
    touched = [l.split('\t')[-1] for l in o.strip().splitlines() if l.strip()]
    res['files_touched'] = touched
    if any(t.endswith('_test.go') for t in touched):
        print('patch touches test files:', touched); sys.exit(1)
    shutil.copy(demo, os.path.join(wt, pkgdir, 'zz_seeded_test.go'))
    run = '/usr/bin/go test -vet=off -count=1 -run TestSeeded ./%s' % pkgdir
    rc0, out0 = sh(run, cwd=wt)
    res['demo_passes_without_patch'] = rc0 == 0
    rc, o = sh('git apply %s' % pf, cwd=wt)
    if rc != 0:
        print('patch does not apply to /repo HEAD:', o[:300]); sys.exit(1)
    rc1, out1 = sh(run, cwd=wt)
    res['demo_mode'] = 'plain'
    if rc1 == 0:
        rc1, out1 = sh(run.replace('-count=1', '-count=1 -race'), cwd=wt)
        res['demo_mode'] = '-race'
        if rc1 != 0:
            # and without the patch under -race too
            sh('git apply -R %s' % pf, cwd=wt)
            rc0r, _ = sh(run.replace('-count=1', '-count=1 -race'), cwd=wt)
            res['demo_passes_without_patch'] = res['demo_passes_without_patch'] and rc0r == 0
            sh('git apply %s' % pf, cwd=wt)
    res['demo_fails_with_patch'] = rc1 != 0
    res['demo_output_tail'] = out1[-700:]
    os.remove(os.path.join(wt, pkgdir, 'zz_seeded_test.go'))
    rc2, out2 = sh('/usr/bin/go test -vet=off -count=1 ./...', cwd=wt)
    res['suite_passes_with_patch'] = rc2 == 0
    rcf, outf = sh('gofmt -l .', cwd=wt)
    res['gofmt_clean'] = outf.strip() == ''
    ok = res['demo_passes_without_patch'] and res['demo_fails_with_patch'] and res['suite_passes_with_patch']
    if not ok:
        print(json.dumps(res, indent=1))
        print('NOT CONFIRMED')
        sys.exit(1)
    # every property's quick check against the patched worktree, one process
    env = dict(os.environ, VERIF_REPO=wt)
    rc, o = sh('./check all quick -out %s' % od, cwd='/verif', env=env)
    fired, cur = {}, []
    for l in o.splitlines():
        if l.startswith('VIOLATED') or l.startswith('UNDECIDED') or 'could not load' in l or 'panicked' in l:
            cur.append(l)
        elif l.startswith('property C') and ' tier ' in l:
            if cur:
                fired[l.split()[1]] = [x[:300] for x in cur[:12]]
            cur = []
    res['checks_fired'] = fired
    own = [l for l in fired.get(prop, []) if 'rule-instances' not in l]
    res['detected_by_own_property'] = bool(own)
    caught = []
    for l in own:
        r = l.split()[1]
        if r not in caught:
            caught.append(r)
    d = '/verif/seeded/' + name
    os.makedirs(d, exist_ok=True)
    shutil.copy(pf, d + '/patch.diff')
    shutil.copy(demo, d + '/zz_seeded_test.go.txt')
    json.dump(res, open(d + '/eval.json', 'w'), indent=1)
    meta = {
        "property": prop, "name": name, "breaks": prop,
        "summary": notes.get('summary', ''),
        "mechanism": notes.get('mechanism', ''),
        "needs_to_manifest": notes.get('needs_to_manifest', ''),
        "caught_by": ', '.join(caught) or '(not caught)',
        "caught_by_first": ', '.join(caught) or '(not caught)',
        "verified": {k: res[k] for k in ('suite_passes_with_patch', 'demo_fails_with_patch', 'demo_passes_without_patch')},
        "demo_mode": res['demo_mode'],
        "what_was_run": [
            "fresh scratch worktree of /repo HEAD: go test -run TestSeeded ./%s without the patch (passes); git apply patch.diff; the same with the patch (fails%s); demonstration removed, go test -vet=off -count=1 ./... (suite passes)" % (pkgdir, ', under -race' if res['demo_mode'] == '-race' else ''),
            "VERIF_REPO=<that worktree> ./check all quick -out <tmp> (every property's quick check against the patched tree; /repo itself untouched)"],
        "demo": "zz_seeded_test.go.txt in this directory; copy it into %s/ of the patched tree as zz_seeded_test.go" % pkgdir,
        "detected_by_own_property": res['detected_by_own_property'],
        "properties_whose_check_fails": sorted(fired.keys()),
        "origin": label + ": produced independently by a sub-agent that saw only the property text, the names of ideas already used, and a scratch worktree",
        "missed_initially": not res['detected_by_own_property'],
    }
    json.dump(meta, open(d + '/meta.json', 'w'), indent=1)
    print('%-60s own=%s by=%s others=%s mode=%s' % (name, res['detected_by_own_property'], meta['caught_by'], ','.join(k for k in sorted(fired) if k != prop), res['demo_mode']))
finally:
    sh('git -C /repo worktree remove --force %s' % wt)
    shutil.rmtree(od, ignore_errors=True)
