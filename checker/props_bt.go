package main

import "golang.org/x/tools/go/ssa"

func init() {
	register("C05",
		"Decides C05's structural content as tables and contracts extracted from the source: for every codec builder, every accepting path pairs the Go kinds it admits with a codec whose Read/Write/Omit view the destination as exactly that kind (BT-WIDTH, with element, key and fixed-length side conditions BT-FIXED), wrapper codecs wrap a codec built for the same type (BT-SUB), record offsets and field types come from the same struct field (BT-REC), array/map codecs use one element type for codec, stride and allocation (BT-ARR, BT-MAP), every &x handed to another codec's method and every local reinterpretation is layout-compatible (PC-ARG, PC-CAST), registered builders return codecs for exactly the registered type (PC-REG); what a codec's New allocates for a pointer target or map value has the size and pointer layout of what its Read stores (PC-NEW). "+
			"Not decided: values; arithmetic overflow of offsets; behaviour of user-registered codecs.",
		func(c *Ctx) {
			ruleBTWidth(c, true)
			ruleBTRec(c)
			ruleALBump(c)
			ruleBTPure(c)
			ruleRecList(c)
			ruleBTArrMap(c)
			rulePCArg(c, nil, 18, 3)
			rulePCReg(c)
			ruleArrBound(c)
			ruleDstFresh(c)
			rulePCNew(c)
			ruleRegExact(c)
			c.Assume = append(c.Assume, "reflect.Int is 64 bits wide (linux/amd64); on a 32-bit target the Int -> Int64Codec row would be a finding")
		})
}

func init() {
	register("C11",
		"Decides the structural preconditions of GC visibility: every runtime allocation/clear/copy/map call gets the real run-time type (GC-TYPED); no pointer is parked in a uintptr across a call or stored as an integer (GC-UINTPTR); the shadow structs and the stack map iterator match the layouts of the toolchain go.mod declares, and all ten linkname pulls resolve there with matching shapes (GC-SHADOW, GC-ITER, GC-LINKSIG); ReadFile's target is the caller's typed memory or a typed allocation (GC-TARGET); every codec's New returns a typed allocation layout-compatible with what its Read expects, or the sub-codec's New when Read forwards the pointer (PC-NEW); element storage is allocated with the element's own type (BT-ARR, BT-MAP).  Arena slots are cleared with their own type when handed out and Close only resets lengths (AL-CLR, AL-CLOSE, AL-BUMP): a slot never carries pointers of an earlier use into a new value.  The capacity a grown slice advertises is the number of elements allocated for it (ARR-BOUND). "+
			"Not decided: equality of results under concurrent collection as a schedule property.",
		func(c *Ctx) {
			ruleGCTyped(c)
			ruleALKey(c)
			ruleALFinal(c)
			ruleDstFresh(c)
			ruleGCUintptr(c)
			ruleGCLink(c)
			ruleGCTarget(c)
			rulePCNew(c)
			ruleBTArrMap(c)
			ruleALBump(c)
			ruleArrBound(c)
			ruleODBank(c, findReadFile(c.P))
			ruleALOwner(c)
			ruleALStr(c)
		})
}

func isTimePkgFunc(P *Program) func(fn *ssa.Function) bool {
	return func(fn *ssa.Function) bool {
		for f := fn; f != nil; f = f.Parent() {
			if f.Pkg == P.Time {
				return true
			}
		}
		return false
	}
}

func init() {
	register("C19",
		"Decides necessary conditions of C19 in the time codecs: the builder's logical-type table gives the specification's nanoseconds per unit (TS-MULT); the reader computes time.Unix(0, l*mult) (TS-READ); on every path of the writer the unit the time is converted to equals every multiplier the builder can have assigned on that path (TS-UNIT) and the multiplier is consulted by both sides (E-FU); every &x handed to the embedded int codecs is a variable of exactly the codec's width (PC-ARG), so a negative day count is sign-correct.  The time codecs omit only the zero time, never an instant whose stored integer happens to be 0 (OM-ZERO).  What a time codec allocates for a pointer or map value is a time.Time, what its Read fills in (PC-NEW).  No product is formed in a 32-bit type and widened afterwards (TS-WIDE), and no 64-bit count of seconds is narrowed before the division that brings it into range (TS-NARROW). "+
			"Not decided: the day/instant arithmetic itself (floor versus truncation before 1970, overflow of l*mult).",
		func(c *Ctx) {
			ruleTSMult(c)
			ruleEFU(c, "time.", 1)
			rulePCArg(c, isTimePkgFunc(c.P), 5, 0)
			ruleTSNoDur(c)
			ruleTSUTC(c)
			c.Note("not decided: DateCodec.Write divides Unix seconds by 86400 truncating toward zero (wrong before 1970 for non-midnight times); overflow of l*mult")
			ruleOMZero(c)
			rulePCNew(c)
			ruleTSWide(c)
			ruleTSNarrow(c)
			ruleTSFloor(c)
			ruleTSTotal(c)
			ruleCDPure(c)
			ruleValFold(c)
		})

	register("C20",
		"Decides the structural clauses of C20: in the dispatcher every built-in per-type builder is reached only on the not-found edge of registry[typ] (pointer kinds first recurse on the element type; union/null schemas resolve structurally and build their branches through the dispatcher again), the registered builder is called with the dispatcher's own arguments (BT-REG); every sub-codec in every builder is built through the dispatcher (who-may-call); schema generation returns the registered schema before its kind switch and recurses only through schemaForType, and looks up a record field's type whatever its kind, tag and whether it is embedded (SG-REG); a record field's codec is built for the struct field's own type, an embedded struct being the field named after its type (BT-REC); Register/RegisterSchema unconditionally overwrite (REG-OVERWRITE); each of the library's six registrations pairs a builder with a schema whose branch type the builder accepts (REG-PAIR), returns codecs for exactly the registered type (PC-REG) and every codec's New matches its Read so registered types work as map values and pointer targets (PC-NEW); the registered null.* codecs omit exactly the invalid wrappers (OM-VALID) and, like every codec, hand out no view of the block buffer (AL-BUF). "+
			"Not decided: round trip of values through a custom codec.",
		func(c *Ctx) {
			ruleBTReg(c)
			ruleBTPure(c)
			ruleWASel(c)
			ruleSGReg(c)
			ruleArrItem(c)
			ruleBTRec(c)
			ruleRegOverwrite(c)
			ruleRegArg(c)
			ruleRegEntry(c)
			ruleDstFresh(c)
			ruleRegPair(c)
			rulePCReg(c)
			rulePCNew(c)
			ruleSGNull(c)
			ruleOMValid(c)
			ruleALBuf(c)
			ruleRegExact(c)
			ruleRegAlways(c)
			ruleOMZero(c)
		})
}
