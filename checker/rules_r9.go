package main

// Rules added after the ninth round of independently seeded changes:
//
//	REG-EXACT  the registries are consulted by exact key only (C05, C20, C15)
//	REG-ALWAYS the library's own RegisterCodecs registers on every call (C20)
//	ENC-SIZE   the flush threshold is the block size the caller asked for (C09)
//	WA-IDX     the address of an item written by the array codec depends on every enclosing loop (C01, C02, C13)
//	JS-TAG     option clause: no struct-tag option that changes which JSON names match (C14)
//	TS-TOTAL   the time codecs' Read refuses only what cannot be represented (C19)

import (
	"fmt"
	"go/token"
	"go/types"
	"reflect"
	"strings"

	"golang.org/x/tools/go/ssa"
)

// ---------- REG-EXACT

// ruleRegExact: a builder (or schema) registered for a Go type governs that type "and nothing else". That
// holds only if the registries are read by exact-key lookup: ranging over a registry, or handing the map to
// a function that does, is how a "similar enough" type ends up with a codec built for another type.
func ruleRegExact(c *Ctx) {
	c.Rule("REG-EXACT", "the codec and schema registries are read by exact-key lookup only: nothing ranges over them or hands the map itself to other code, so a registration governs its own type and nothing else", 2)
	P := c.P
	n := 0
	for _, fn := range P.ModuleFuncs() {
		for _, b := range fn.Blocks {
			for _, in := range b.Instrs {
				ld, ok := in.(*ssa.UnOp)
				if !ok || ld.Op != token.MUL {
					continue
				}
				g, ok := ld.X.(*ssa.Global)
				if !ok || (globalKey(g) != registryKey && globalKey(g) != schemaRegistryKey) {
					continue
				}
				n++
				key := fmt.Sprintf("%s/%s-access#%d", fnKey(fn), g.Name(), n)
				bad := ""
				for _, r := range referrersOf(ld) {
					switch x := r.(type) {
					case *ssa.DebugRef, *ssa.Lookup, *ssa.MapUpdate:
					case *ssa.Range:
						bad = "the registry is ranged over: a type that was not registered can be matched to another type's entry"
					case *ssa.Call:
						if bi, isB := x.Call.Value.(*ssa.Builtin); isB && (bi.Name() == "len" || bi.Name() == "delete") {
							break
						}
						bad = "the registry map itself is handed to " + x.Call.Value.Name() + ": what that code matches entries by is not an exact-key lookup the rule can see"
					default:
						bad = "the registry map is used other than by lookup or store (" + strings.TrimSpace(r.String()) + ")"
					}
				}
				c.Check(bad == "", key, P.pos(ld.Pos()), "exact-key lookup or store", bad)
			}
		}
	}
}

// ---------- REG-ALWAYS

// ruleRegAlways: "the most recent registration for a type wins" includes the library's own: calling
// time.RegisterCodecs / null.RegisterCodecs after a user registration puts the library's codec back. So every
// registration the package makes is made by RegisterCodecs itself, on every call, unconditionally.
func ruleRegAlways(c *Ctx) {
	c.Rule("REG-ALWAYS", "RegisterCodecs of the time and null packages registers unconditionally on every call (no once-only guard, no registration tucked away in a closure or an initialiser): called again, it is the most recent registration", 2)
	P := c.P
	isReg := func(g *ssa.Function) bool {
		if g == nil || g.Pkg != P.Avro {
			return false
		}
		return g.Name() == "Register" || g.Name() == "RegisterSchema"
	}
	for _, pkg := range []*ssa.Package{P.Time, P.Null} {
		if pkg == nil {
			continue
		}
		rc := pkg.Func("RegisterCodecs")
		pname := pkg.Pkg.Name()
		if !c.Anchor(rc != nil && rc.Blocks != nil, pname+".RegisterCodecs") {
			continue
		}
		key := pname + ".RegisterCodecs/unconditional"
		pos := P.pos(rc.Pos())
		var bad []string
		n := 0
		// uncond: the instruction is reached on every call of its function — no branch other than loop tests
		// (a loop over a table of registrations, the exit of an earlier loop) decides it
		uncond := func(fn *ssa.Function, in ssa.Instruction) string {
			anyHead := map[*ssa.BasicBlock]bool{}
			inLoop := false
			for _, l := range loopsOf(fn) {
				anyHead[l.Header] = true
				if l.Blocks[in.Block()] {
					inLoop = true
				}
			}
			for _, f := range factsAt(in.Block()) {
				if f.If != nil && !anyHead[f.If.Block()] {
					return fmt.Sprintf("happens only under a condition (tested at %s)", P.pos(firstPos(f.If.Block())))
				}
			}
			if !inLoop {
				for _, r := range returnsOf(fn) {
					if !dominatesInstr(in, r) {
						return "does not happen on every path through " + fn.Name()
					}
				}
			}
			return ""
		}
		// always: fn runs, unconditionally, every time RegisterCodecs is called: it is RegisterCodecs, or a named
		// function all of whose call sites are unconditional sites in such a function
		var always func(fn *ssa.Function, d int) string
		always = func(fn *ssa.Function, d int) string {
			if fn == rc {
				return ""
			}
			if d > 3 || fn.Parent() != nil || fn.Synthetic != "" {
				return fmt.Sprintf("is made in %s, which is not RegisterCodecs or a plain function RegisterCodecs always calls", fnKey(fn))
			}
			sites := 0
			for _, g := range P.ModuleFuncs() {
				for _, cs := range callsIn(g) {
					if cs.Static != fn {
						continue
					}
					sites++
					if w := uncond(g, cs.Instr); w != "" {
						return fmt.Sprintf("is made in %s, whose call at %s %s", fnKey(fn), P.pos(cs.Instr.Pos()), w)
					}
					if w := always(g, d+1); w != "" {
						return w
					}
				}
			}
			if sites == 0 {
				return fmt.Sprintf("is made in %s, which nothing calls directly", fnKey(fn))
			}
			return ""
		}
		for _, fn := range P.ModuleFuncs() {
			top := fn
			for top.Parent() != nil {
				top = top.Parent()
			}
			if top.Pkg != pkg {
				continue
			}
			for _, cs := range callsIn(fn) {
				if !isReg(cs.Static) {
					continue
				}
				n++
				if w := uncond(fn, cs.Instr); w != "" {
					bad = append(bad, fmt.Sprintf("%s at %s %s", cs.Static.Name(), P.pos(cs.Instr.Pos()), w))
					continue
				}
				if w := always(fn, 0); w != "" {
					bad = append(bad, fmt.Sprintf("%s at %s %s", cs.Static.Name(), P.pos(cs.Instr.Pos()), w))
				}
			}
		}
		switch {
		case n == 0:
			c.Bad(key, pos, "the package registers nothing")
		case len(bad) > 0:
			c.Bad(key, pos, strings.Join(dedup(bad), "; ")+": a second call of RegisterCodecs after a user's registration does not put the library's codec back")
		default:
			c.OK(key, pos, fmt.Sprintf("%d registrations, each on every path of RegisterCodecs itself", n))
		}
	}
}

// ---------- ENC-SIZE

// ruleENCSize: "a block is emitted as soon as the buffered encodings reach the configured block size": the
// threshold Encode compares with (ENC-2) is the number the caller configured. Wherever the encoder's
// threshold field is stored, the value is the constructor's own parameter, as it stands.
func ruleENCSize(c *Ctx) {
	c.Rule("ENC-SIZE", "the flush threshold the encoder compares the buffered bytes with is the block size the caller passed to the constructor, unchanged", 1)
	P := c.P
	enc := findEncoder(P)
	if !c.Anchor(enc.ctor != nil && enc.encode != nil, "encoder constructor and Encode") {
		return
	}
	field := encFieldRoles["approxBlockSize"]
	if !c.Anchor(field != "", "the encoder's threshold field (the int field that is not the record counter)") {
		return
	}
	// the constructor's int parameter
	var param *ssa.Parameter
	nInt := 0
	for _, p := range enc.ctor.Params {
		if b, ok := p.Type().Underlying().(*types.Basic); ok && b.Kind() == types.Int {
			param = p
			nInt++
		}
	}
	if !c.Anchor(nInt == 1, "the constructor's block-size parameter") {
		return
	}
	n := 0
	for _, fn := range P.ModuleFuncs() {
		for _, b := range fn.Blocks {
			for _, in := range b.Instrs {
				stx, ok := in.(*ssa.Store)
				if !ok || !isEncoderField(stx.Addr, "approxBlockSize") {
					continue
				}
				n++
				key := fmt.Sprintf("%s/store-%s#%d", fnKey(fn), field, n)
				top := fn
				for top.Parent() != nil {
					top = top.Parent()
				}
				same := stx.Val == ssa.Value(param)
				if o := enc.ctor.Origin(); !same && o != nil {
					same = false
				}
				c.Check((fn == enc.ctor || fn.Origin() == enc.ctor || top == enc.ctor) && same, key, P.pos(stx.Pos()), "the threshold is the constructor's block-size parameter itself", "the threshold stored is not the block size the caller passed (it is "+strings.TrimSpace(stx.Val.String())+"): blocks are emitted at a size the caller did not configure")
			}
		}
	}
	if n == 0 {
		c.Bad(fnKey(enc.ctor)+"/store-"+field, P.pos(enc.ctor.Pos()), "the threshold field is never set")
	}
}

// ---------- WA-IDX

// ruleWAIdx: the array codec writes item k of the slice from address Data + k*stride. If the item write sits
// inside nested loops (an outer loop over blocks, an inner one over the items of a block), the address has to
// depend on the state of every one of them — an address computed from the inner counter alone names the
// same items again in every block.
func ruleWAIdx(c *Ctx) {
	c.Rule("WA-IDX", "the address of each item the array codec writes depends on every loop the write sits in: no block re-reads the items of the first", 1)
	P := c.P
	bt := getBT(P)
	for _, ct := range bt.Codecs {
		if !strings.HasSuffix(ct.Name, "arrayCodec") {
			continue
		}
		// (Read addresses items through the slice header's own length, which ARR-BOUND follows)
		for _, m := range []string{"Write"} {
			fn := ct.M[m]
			if fn == nil || !ct.Declared[m] {
				continue
			}
			key := ct.Name + "." + m + "/item-address"
			pos := P.pos(fn.Pos())
			// item calls: Codec interface calls with a pointer argument, inside at least one loop
			n := 0
			var bad []string
			for _, cs := range callsIn(fn) {
				if !cs.Common.IsInvoke() || !isCodecIface(P, cs.Common.Value.Type()) || cs.Common.Method.Name() != m {
					continue
				}
				arg := cs.Common.Args[len(cs.Common.Args)-1]
				if !isUnsafePointer(arg.Type()) {
					continue
				}
				var loops []*Loop
				for _, l := range loopsOf(fn) {
					if l.Blocks[cs.Block] {
						loops = append(loops, l)
					}
				}
				if len(loops) == 0 {
					continue
				}
				n++
				deps := map[ssa.Value]bool{}
				var walk func(v ssa.Value, d int)
				walk = func(v ssa.Value, d int) {
					if v == nil || deps[v] || d > 12 {
						return
					}
					deps[v] = true
					switch x := v.(type) {
					case *ssa.Phi:
						for _, e := range x.Edges {
							walk(e, d+1)
						}
					case *ssa.UnOp:
						if x.Op == token.MUL {
							// a load: what was stored there in this function counts (the slice header's length used as the index)
							for _, st := range storesToPath(fn, accessPath(x)) {
								walk(st.Val, d+1)
							}
						}
						walk(x.X, d+1)
					case ssa.Instruction:
						for _, op := range x.Operands(nil) {
							if *op != nil {
								walk(*op, d+1)
							}
						}
					}
				}
				walk(arg, 0)
				for _, l := range loops {
					dep := false
					for v := range deps {
						if in, ok := v.(ssa.Instruction); ok && in.Block() != nil && l.Blocks[in.Block()] {
							switch x := v.(type) {
							case *ssa.Phi:
								if x.Block() == l.Header {
									dep = true
								}
							case *ssa.UnOp:
								// a load inside the loop of something the loop stores (a counter kept in memory)
								if x.Op == token.MUL {
									for _, st := range storesToPath(fn, accessPath(x)) {
										if l.Blocks[st.Block()] {
											dep = true
										}
									}
								}
							}
						}
					}
					if !dep {
						bad = append(bad, fmt.Sprintf("the item %s at %s sits in the loop headed at %s but its address does not change with that loop: every turn of it handles the same items again", m, P.pos(cs.Instr.Pos()), P.pos(firstPos(l.Header))))
					}
				}
			}
			switch {
			case n == 0:
				c.Unk(key, pos, "no item "+m+" inside a loop found")
			case len(bad) > 0:
				c.Bad(key, pos, strings.Join(bad, "; "))
			default:
				c.OK(key, pos, fmt.Sprintf("%d item call(s); each address depends on the counter of every enclosing loop", n))
			}
		}
	}
}

func firstPos(b *ssa.BasicBlock) token.Pos {
	for _, in := range b.Instrs {
		if in.Pos().IsValid() {
			return in.Pos()
		}
	}
	return token.NoPos
}

// ---------- JS-TAG option clause

// ruleJSTagOptions: which JSON member names fill a field of the schema object is decided by the struct tag.
// Options other than omitempty/omitzero change that matching (case:ignore folds case and drops '_' and '-',
// so "logical_type" becomes the logicalType; inline and unknown swallow other members; string changes the
// value syntax): "independent of unknown attributes" then no longer holds.
func ruleJSTagOptions(c *Ctx) {
	c.Rule("JS-TAG-OPT", "the JSON tags of the schema types carry no option that changes which member names match a field or how its value is read (only omitempty/omitzero): an unknown attribute stays unknown", 2)
	P := c.P
	for _, tn := range []string{"SchemaObject", "SchemaRecordField", "Schema"} {
		nt := P.NamedType(P.Avro, tn)
		if nt == nil {
			continue
		}
		st, ok := nt.Underlying().(*types.Struct)
		if !ok {
			continue
		}
		for i := 0; i < st.NumFields(); i++ {
			tag, has := reflect.StructTag(st.Tag(i)).Lookup("json")
			if !has {
				continue
			}
			key := "avro." + tn + "." + st.Field(i).Name() + "/json-tag-options"
			pos := P.pos(st.Field(i).Pos())
			parts := strings.Split(tag, ",")
			var bad, unk []string
			for _, o := range parts[1:] {
				o = strings.TrimSpace(o)
				switch {
				case o == "omitempty" || o == "omitzero" || o == "":
				case strings.HasPrefix(o, "case:ignore") || o == "inline" || o == "unknown" || o == "string" || strings.HasPrefix(o, "format:"):
					bad = append(bad, o)
				case o == "case:strict":
				default:
					unk = append(unk, o)
				}
			}
			switch {
			case len(bad) > 0:
				c.Bad(key, pos, fmt.Sprintf("the tag %q carries %v: member names other than %q now fill this field (or its value is read differently), so an attribute the specification does not know changes the parsed schema, or a legal document with both spellings is rejected as a duplicate", tag, bad, parts[0]))
			case len(unk) > 0:
				c.Unk(key, pos, fmt.Sprintf("the tag %q carries options %v whose effect on matching is not known to the rule", tag, unk))
			default:
				c.OKTrivial(key, pos, "name and omission options only")
			}
		}
	}
}

// ---------- TS-TOTAL

// ruleTSTotal: every long whose instant is representable decodes. A time codec's Read may refuse a value of
// its own accord only where the product with the unit does not fit: a test of the decoded long against
// MaxInt64/mult or MinInt64/mult. Any other refusal is undecided — it has to be shown not to exclude a
// representable instant, which a bit-length estimate, for one, does.
func ruleTSTotal(c *Ctx) {
	c.Rule("TS-TOTAL", "the time codecs' Read refuses a decoded integer of its own accord only where it cannot be represented (a comparison with MaxInt64/mult or MinInt64/mult); it makes up no other error", 2)
	P := c.P
	e := &skEnv{P: P, consuming: readBufConsuming(P)}
	bt := getBT(P)
	for _, ct := range bt.Codecs {
		if !strings.HasPrefix(ct.Name, "time.") {
			continue
		}
		fn := ct.M["Read"]
		if fn == nil || !ct.Declared["Read"] {
			continue
		}
		// the string codec parses text: its refusals are the parser's (C18)
		if k := newContractEnv(P).ParamContract(fn, len(fn.Params)-1, nil); k.Kind != CPtr {
			continue
		}
		if strings.Contains(ct.Name, "String") {
			continue
		}
		key := ct.Name + ".Read/refuses-only-unrepresentable"
		pos := P.pos(fn.Pos())
		var sites []skSite
		for _, s := range e.ownErrorSites(fn) {
			// the embedded integer codec's range check against the wire type's own width is not the time codec's
			if isTimePkgFunc(P)(s.fn) {
				sites = append(sites, s)
			}
		}
		if len(sites) == 0 {
			c.OK(key, pos, "Read makes up no error of its own: every decoded integer becomes a time")
			continue
		}
		var unk []string
		for _, s := range sites {
			for _, a := range s.atoms {
				if a.dead() {
					continue
				}
				cn := e.canon(s.fn, a)
				okForm := false
				if cmp, isC := asCmp(a.cond, a.truth); isC {
					for _, side := range []ssa.Value{cmp.X, cmp.Y} {
						if q, isQ := stripConv(side).(*ssa.BinOp); isQ && q.Op == token.QUO {
							if k, isK := constInt(q.X); isK && (k == 9223372036854775807 || k == -9223372036854775808) {
								if strings.HasSuffix(recvPathOfValue(s.fn, stripConv(q.Y), 0), "mult") {
									okForm = true
								}
							}
						}
					}
				}
				if !okForm {
					unk = append(unk, fmt.Sprintf("Read refuses at %s on %q, which is not a comparison of the decoded value with MaxInt64/mult or MinInt64/mult: it is not shown that only unrepresentable instants are refused", P.pos(a.pos), cn))
				}
			}
			if len(s.atoms) == 0 {
				unk = append(unk, fmt.Sprintf("an error made at %s under no branch the rule can read", P.pos(s.ret.Pos())))
			}
		}
		if len(unk) > 0 {
			c.Unk(key, pos, strings.Join(unk, "; "))
		} else {
			c.OK(key, pos, "refuses only beyond MaxInt64/mult or MinInt64/mult")
		}
	}
}

// ---------- CD-PURE

// ruleCDPure: what a codec's Read, Skip, Write, Omit and New do depends on their receiver, the buffer and the
// destination — not on what an earlier call, or another goroutine, left in a package-level variable. The
// only package state a codec method may reach is what is filled at initialisation and only read afterwards,
// and the maps that the guarded-by table puts under a lock (the zone cache). A "last value" cache, an
// atomically published anchor, a pooled scratch object make the value decoded depend on history.
func ruleCDPure(c *Ctx) {
	c.Rule("CD-PURE", "no codec method (Read, Skip, Write, Omit, New), nor anything it calls in the module, touches package-level state other than tables fixed at initialisation and the locked caches: what is decoded or written does not depend on earlier calls", 27)
	P := c.P
	bt := getBT(P)
	for _, ct := range bt.Codecs {
		key := ct.Name + "/methods-pure"
		bad := ""
		n := 0
		seenF := map[*ssa.Function]bool{}
		var scan func(f *ssa.Function, d int)
		scan = func(f *ssa.Function, d int) {
			if f == nil || seenF[f] || f.Blocks == nil || d > 4 {
				return
			}
			seenF[f] = true
			n++
			for _, blk := range f.Blocks {
				for _, in := range blk.Instrs {
					if g := mutableStateOperand(P, in); g != nil && bad == "" {
						bad = fmt.Sprintf("%s uses the package-level %s at %s", fnKey(f), globalKey(g), P.pos(in.Pos()))
					}
				}
			}
			for _, cs := range callsIn(f) {
				if cs.Static != nil && P.isModuleFunc(cs.Static) {
					scan(cs.Static, d+1)
				}
			}
		}
		for _, m := range codecMethodNames {
			if ct.Declared[m] {
				scan(ct.M[m], 0)
			}
		}
		if n == 0 {
			continue
		}
		c.Check(bad == "", key, P.pos(ct.M["Read"].Pos()), fmt.Sprintf("%d functions reachable from the codec's methods: no package-level state besides initialisation-time tables and locked caches", n), bad+": the result of this call depends on what earlier calls (or other goroutines) left there")
	}
}
