package main

// Timestamp-parser rules (C18): PT-FIELDS, PT-SEP, PT-DATE, PT-REM, TS-FRAC,
// TZ-SIGN, TZ-KEY, FMT-NANO.

import (
	"fmt"
	"go/token"
	"go/types"
	"sort"
	"strings"

	"golang.org/x/tools/go/ssa"
)

// rfc3339Fields: offsets of the fixed-width fields of an RFC 3339 date-time
// and of the separators between them (RFC 3339 section 5.6).
var rfc3339Fields = []struct {
	name     string
	lo, hi   int64
	dateArg  int // position in time.Date's argument list
	dateOnly bool
}{
	{"year", 0, 4, 0, true}, {"month", 5, 7, 1, true}, {"day", 8, 10, 2, true},
	{"hour", 11, 13, 3, false}, {"minute", 14, 16, 4, false}, {"second", 17, 19, 5, false},
}

var rfc3339Seps = []struct {
	pos      int64
	ch       int64
	dateOnly bool
}{{4, '-', true}, {7, '-', true}, {10, 'T', false}, {13, ':', false}, {16, ':', false}}

// evalLinear evaluates an integer SSA expression under an assignment of some
// leaf values.
func evalLinear(v ssa.Value, env map[ssa.Value]int64, d int) (int64, bool) {
	if d > 12 {
		return 0, false
	}
	if x, ok := env[v]; ok {
		return x, true
	}
	switch y := v.(type) {
	case *ssa.Const:
		return constInt(y)
	case *ssa.Convert:
		return evalLinear(y.X, env, d+1)
	case *ssa.ChangeType:
		return evalLinear(y.X, env, d+1)
	case *ssa.BinOp:
		a, ok1 := evalLinear(y.X, env, d+1)
		b, ok2 := evalLinear(y.Y, env, d+1)
		if !ok1 || !ok2 {
			return 0, false
		}
		switch y.Op {
		case token.ADD:
			return a + b, true
		case token.SUB:
			return a - b, true
		case token.MUL:
			return a * b, true
		}
	}
	return 0, false
}

// fieldOfAtoi: v is (a conversion of) the value result of a call of a module
// digit parser applied to in[lo:hi]; returns lo, hi.
func fieldOfAtoi(P *Program, v ssa.Value, in ssa.Value) (lo, hi int64, call *ssa.Call, ok bool) {
	ex, isEx := stripChange(stripConv(v)).(*ssa.Extract)
	if !isEx || ex.Index != 0 {
		return 0, 0, nil, false
	}
	call, isCall := ex.Tuple.(*ssa.Call)
	if !isCall || call.Call.StaticCallee() == nil || !P.isModuleFunc(call.Call.StaticCallee()) || len(call.Call.Args) != 1 {
		return 0, 0, nil, false
	}
	sl, isSl := call.Call.Args[0].(*ssa.Slice)
	if !isSl || sl.X != in {
		return 0, 0, nil, false
	}
	if sl.Low != nil {
		k, ok := constInt(sl.Low)
		if !ok {
			return 0, 0, nil, false
		}
		lo = k
	}
	if sl.High == nil {
		return 0, 0, nil, false
	}
	hi, ok = constInt(sl.High)
	return lo, hi, call, ok
}

func ruleParseTime(c *Ctx) {
	P := c.P
	fn := P.Func(P.Time, "parseTime")
	c.Rule("PT-FIELDS", "the instant is assembled by time.Date from the digit fields at the RFC 3339 offsets, in the right argument order, each parsed without error", 9)
	if !c.Anchor(fn != nil && len(fn.Params) == 1, "time.parseTime(string)") {
		return
	}
	in := fn.Params[0]
	pf := parseTimeByFold(P, fn)
	if pf.ok {
		ptEmitFold(c, fn, pf)
	}
	var dates []*ssa.Call
	for _, cs := range callsIn(fn) {
		if cs.Static != nil && qualName(cs.Static) == "time.Date" && cs.Value() != nil {
			dates = append(dates, cs.Value())
		}
	}
	var full, dateOnly *ssa.Call
	for _, d := range dates {
		// the date-only form passes constants for the time of day
		if _, isK := d.Call.Args[3].(*ssa.Const); isK {
			dateOnly = d
		} else {
			full = d
		}
	}
	if !c.Anchor(full != nil && dateOnly != nil, "the two time.Date calls of parseTime (date-time and date-only)") {
		return
	}
	if !pf.ok {
		c.Note("the parser could not be folded on symbolic inputs (" + pf.why + "); PT-FIELDS, PT-SEP, PT-DATE and PT-REM are decided from the shape of parseTime itself")
		ptStructural(c, fn, in, full, dateOnly)
	}
	ptRest(c, fn, in, full, dateOnly, pf)
}

// ptStructural: PT-FIELDS, PT-SEP, PT-DATE and PT-REM read off the body of parseTime (used when the fold
// cannot decide them).
func ptStructural(c *Ctx, fn *ssa.Function, in *ssa.Parameter, full, dateOnly *ssa.Call) {
	P := c.P
	key := fnKey(fn)
	c.Rule("PT-FIELDS", "the instant is assembled by time.Date from the digit fields at the RFC 3339 offsets, in the right argument order, each parsed without error", 9)
	for _, f := range rfc3339Fields {
		for _, form := range []struct {
			name string
			call *ssa.Call
		}{{"date-time", full}, {"date", dateOnly}} {
			if form.call == dateOnly && !f.dateOnly {
				continue
			}
			k := fmt.Sprintf("%s/%s/%s", key, form.name, f.name)
			lo, hi, ac, ok := fieldOfAtoi(P, form.call.Call.Args[f.dateArg], in)
			errOK := false
			if ok {
				if ev := errValueOfCall(ac); ev != nil {
					_, errOK = knownNonNil(form.call.Block(), ev)
				}
			}
			c.Check(ok && lo == f.lo && hi == f.hi && errOK, k, P.pos(form.call.Pos()), fmt.Sprintf("%s = digits of in[%d:%d], parsed without error", f.name, f.lo, f.hi),
				fmt.Sprintf("the %s handed to time.Date is not the successfully parsed digits of in[%d:%d] (found in[%d:%d], parsed-ok=%v)", f.name, f.lo, f.hi, lo, hi, errOK))
		}
	}
	c.Rule("PT-SEP", "a string is accepted only with the RFC 3339 separators at their fixed offsets", 7)
	for _, s := range rfc3339Seps {
		for _, form := range []struct {
			name string
			call *ssa.Call
		}{{"date-time", full}, {"date", dateOnly}} {
			if form.call == dateOnly && !s.dateOnly {
				continue
			}
			k := fmt.Sprintf("%s/%s/sep@%d", key, form.name, s.pos)
			ok := false
			for _, cmp := range cmpFactsAt(form.call.Block()) {
				if cmp.Op != token.EQL {
					continue
				}
				ix, isIx := cmp.X.(*ssa.Index)
				kk, isK := constInt(cmp.Y)
				if isIx && isK && ix.X == ssa.Value(in) && kk == s.ch {
					if p, ok2 := constInt(ix.Index); ok2 && p == s.pos {
						ok = true
					}
				}
			}
			c.Check(ok, k, P.pos(form.call.Pos()), fmt.Sprintf("in[%d] == %q dominates the result", s.pos, rune(s.ch)), fmt.Sprintf("a result can be produced without in[%d] having been found equal to %q", s.pos, rune(s.ch)))
		}
	}
	c.Rule("PT-DATE", "a ten-character date is midnight UTC of that day", 1)
	{
		okZero := true
		for _, i := range []int{3, 4, 5, 6} {
			if z, ok := constInt(dateOnly.Call.Args[i]); !ok || z != 0 {
				okZero = false
			}
		}
		utc := false
		if ld, ok := dateOnly.Call.Args[7].(*ssa.UnOp); ok {
			if g, ok := ld.X.(*ssa.Global); ok && g.Pkg.Pkg.Path() == "time" && g.Name() == "UTC" {
				utc = true
			}
		}
		lenTen := false
		for _, cmp := range cmpFactsAt(dateOnly.Block()) {
			if cmp.Op == token.EQL && lenArgOf(cmp.X) == ssa.Value(in) {
				if k, ok := constInt(cmp.Y); ok && k == 10 {
					lenTen = true
				}
			}
		}
		c.Check(okZero && utc && lenTen, key+"/date/midnight-utc", P.pos(dateOnly.Pos()), "len(in) == 10 -> time.Date(y, m, d, 0, 0, 0, 0, time.UTC)", "the date-only form is not midnight UTC of a ten-character string")
	}
	c.Rule("PT-REM", "a date-time is accepted only when nothing is left over after the zone", 1)
	{
		ok := false
		for _, cmp := range cmpFactsAt(full.Block()) {
			if cmp.Op == token.EQL && lenArgOf(cmp.X) != nil {
				if k, isK := constInt(cmp.Y); isK && k == 0 {
					ok = true
				}
			}
		}
		c.Check(ok, key+"/date-time/nothing-left", P.pos(full.Pos()), "the result is dominated by len(remaining) == 0", "a date-time can be accepted with unparsed bytes left over")
	}
}

func ptRest(c *Ctx, fn *ssa.Function, in *ssa.Parameter, full, dateOnly *ssa.Call, pf *ptFold) {
	P := c.P
	key := fnKey(fn)
	// what the second stage of the fold decided (values as tables of the input's bytes) replaces the
	// reading of shapes below
	deep := func(k string) (string, bool) {
		if pf == nil || !pf.ok || pf.deep == nil || !pf.deep.ok {
			return "", false
		}
		pr, seen := pf.deep.problem[k]
		return pr, seen
	}
	// ---- TS-FRAC
	c.Rule("TS-FRAC", "the scale factor that is divided once per fraction digit is guarded inside the loop, so more than nine digits cannot drive it to zero and silently erase the fraction", 1)
	if pr, ok := deep("fraction-value"); ok {
		c.Check(pr == "", key+"/fraction-scale", P.pos(fn.Pos()), "for one to twelve fraction digits the nanoseconds are the first nine digits scaled to 10^-9, further digits ignored (folded: the value is compared as a table over the digits)", pr)
	} else {
		found := false
		var scopeLoops []*Loop
		for _, f := range ptScope(P, fn) {
			scopeLoops = append(scopeLoops, loopsOf(f)...)
		}
		for _, l := range scopeLoops {
			for b := range l.Blocks {
				for _, ins := range b.Instrs {
					div, ok := ins.(*ssa.BinOp)
					if !ok || div.Op != token.QUO {
						continue
					}
					k, isK := constInt(div.Y)
					phi, isPhi := div.X.(*ssa.Phi)
					if !isK || k < 2 || !isPhi || phi.Block() != l.Header {
						continue
					}
					// divided value flows back into the phi and is used as a multiplier after the loop
					back := phiFedBy(phi, div)
					usedAsMult := false
					for _, r := range referrersOf(phi) {
						if m, ok := r.(*ssa.BinOp); ok && m.Op == token.MUL && !l.Blocks[m.Block()] {
							usedAsMult = true
						}
					}
					if !back || !usedAsMult {
						continue
					}
					found = true
					// a guard on the scale (or an iteration bound) dominating the division inside the loop
					guarded := false
					for _, cmp := range cmpFactsAt(div.Block()) {
						for _, side := range []ssa.Value{cmp.X, cmp.Y} {
							if side == ssa.Value(phi) {
								guarded = true
							}
							if p2, ok := side.(*ssa.Phi); ok && p2.Block() == l.Header && p2 != phi {
								if _, isK := constInt(map[bool]ssa.Value{true: cmp.Y, false: cmp.X}[side == cmp.X]); isK {
									// a counter compared with a constant
									for _, e := range p2.Edges {
										if bo, ok := e.(*ssa.BinOp); ok && bo.Op == token.ADD && bo.X == ssa.Value(p2) {
											guarded = true
										}
									}
								}
							}
						}
					}
					c.Check(guarded, key+"/fraction-scale", P.pos(div.Pos()), "the division by "+fmt.Sprint(k)+" happens only under a test of the scale (or of a digit counter)", fmt.Sprintf("the scale is divided by %d for every digit with no bound: after nine digits it is 0 and the whole fraction is multiplied away (a timestamp with ten or more fraction digits parses with a zero fraction)", k))
				}
			}
		}
		if !found {
			// the other spelling: digits accumulated under a counter test, the scale looked up afterwards. At most
			// nine digits may accumulate (ten make the fraction exceed a second).
			type acc struct {
				add *ssa.BinOp
				l   *Loop
			}
			var accs []acc
			for _, l := range scopeLoops {
				for b := range l.Blocks {
					for _, ins := range b.Instrs {
						add, ok := ins.(*ssa.BinOp)
						if !ok || add.Op != token.ADD {
							continue
						}
						mul, ok := add.X.(*ssa.BinOp)
						if !ok || mul.Op != token.MUL {
							continue
						}
						ten, isK := constInt(mul.Y)
						phi, isPhi := mul.X.(*ssa.Phi)
						if !isK || ten != 10 || !isPhi || phi.Block() != l.Header {
							continue
						}
						accs = append(accs, acc{add, l})
					}
				}
			}
			if len(accs) == 0 {
				c.Unk(key+"/fraction-scale", P.pos(fn.Pos()), "the way fraction digits are accumulated and scaled is not understood")
			}
			for _, a := range accs {
				// a counter test dominating the accumulation: n < K with n a zero-based counter of the loop
				bound := int64(-1)
				for _, cmp := range cmpFactsAt(a.add.Block()) {
					phi, isPhi := cmp.X.(*ssa.Phi)
					if !isPhi || phi.Block() != a.l.Header {
						continue
					}
					zero, plusOne := false, false
					for _, e := range phi.Edges {
						if z, ok := constInt(e); ok && z == 0 {
							zero = true
						}
						if bo, ok := e.(*ssa.BinOp); ok && bo.Op == token.ADD && bo.X == ssa.Value(phi) {
							if one, ok := constInt(bo.Y); ok && one == 1 {
								plusOne = true
							}
						}
						if ph2, ok := e.(*ssa.Phi); ok {
							for _, e2 := range ph2.Edges {
								if bo, ok := e2.(*ssa.BinOp); ok && bo.Op == token.ADD && bo.X == ssa.Value(phi) {
									if one, ok := constInt(bo.Y); ok && one == 1 {
										plusOne = true
									}
								}
							}
						}
					}
					if !zero || !plusOne {
						continue
					}
					if k, ok := (Folder{P}).FoldInt(cmp.Y); ok {
						switch cmp.Op {
						case token.LSS:
							bound = k
						case token.LEQ:
							bound = k + 1
						}
					}
				}
				switch {
				case bound < 0:
					c.Unk(key+"/fraction-scale", P.pos(a.add.Pos()), "fraction digits accumulate without a recognised bound on their number")
				case bound > 9:
					c.Bad(key+"/fraction-scale", P.pos(a.add.Pos()), fmt.Sprintf("up to %d fraction digits are accumulated; beyond nine the value exceeds a second's worth of nanoseconds and is carried into the seconds", bound))
				default:
					c.OK(key+"/fraction-scale", P.pos(a.add.Pos()), fmt.Sprintf("at most %d fraction digits are accumulated", bound))
				}
			}
		}
	}

	// ---- TZ-SIGN
	c.Rule("TZ-SIGN", "a numeric zone is sign * (hours*3600 + minutes*60) seconds, hours and minutes being the digits around the colon, '+' east and '-' west", 3)
	if _, ok := deep("zone-offset"); ok {
		for _, k := range []struct{ k, good string }{
			{"zone-offset", "the offset handed to the zone lookup is 36000a+3600b+600c+60d of the zone's digits ab:cd, the ':' checked, and the lookup's result is the location of the time returned"},
			{"zone-sign", "'+' gives the positive and '-' the negative offset; nothing else reaches the lookup"},
			{"zone-Z", "'Z' selects time.UTC"}} {
			pr, seen := deep(k.k)
			if !seen {
				c.Unk(key+"/"+k.k, P.pos(fn.Pos()), "the fold gave no answer")
				continue
			}
			c.Check(pr == "", key+"/"+k.k, P.pos(fn.Pos()), k.good+" (folded)", pr)
		}
	} else {
		var gz *ssa.Call
		zfn := fn // the function the zone suffix is parsed in: the parser itself or a helper of it
		for _, f := range ptScope(P, fn) {
			for _, cs := range callsIn(f) {
				if cs.Static != nil && P.isModuleFunc(cs.Static) && cs.Value() != nil && zoneOffsetArg(cs.Value()) != nil {
					// a thin wrapper only forwards its parameter: the call of interest computes the offset
					if _, forwarded := zoneOffsetArg(cs.Value()).(*ssa.Parameter); forwarded && gz != nil {
						continue
					}
					if gz != nil {
						if _, prevForwarded := zoneOffsetArg(gz).(*ssa.Parameter); !prevForwarded {
							continue
						}
					}
					gz = cs.Value()
					zfn = f
				}
			}
		}
		if c.Anchor(gz != nil, "zone lookup call in parseTime") {
			off := zoneOffsetArg(gz)
			// leaves: the two atoi results the offset is computed from
			var leaves []*ssa.Extract
			seenW := map[ssa.Value]bool{}
			var walk func(v ssa.Value, d int)
			walk = func(v ssa.Value, d int) {
				if d > 12 || seenW[v] {
					return
				}
				seenW[v] = true
				switch y := v.(type) {
				case *ssa.BinOp:
					walk(y.X, d+1)
					walk(y.Y, d+1)
				case *ssa.UnOp:
					walk(y.X, d+1)
				case *ssa.Convert:
					walk(y.X, d+1)
				case *ssa.Phi:
					for _, ed := range y.Edges {
						walk(ed, d+1)
					}
				case *ssa.Extract:
					leaves = append(leaves, y)
				}
			}
			walk(off, 0)
			ok := len(leaves) == 2
			detail := ""
			var hrs, mins *ssa.Extract
			var zoneStr ssa.Value
			if ok {
				// which leaf is hours (digits [0:2] of the zone string) and which minutes ([3:5])
				for _, lf := range leaves {
					call, _ := lf.Tuple.(*ssa.Call)
					if call == nil || len(call.Call.Args) != 1 {
						ok = false
						continue
					}
					sl, isSl := call.Call.Args[0].(*ssa.Slice)
					if !isSl {
						ok = false
						continue
					}
					lo := int64(0)
					if sl.Low != nil {
						lo, _ = constInt(sl.Low)
					}
					hi, _ := constInt(sl.High)
					if zoneStr != nil && sl.X != zoneStr {
						ok = false
					}
					zoneStr = sl.X
					switch {
					case lo == 0 && hi == 2:
						hrs = lf
					case lo == 3 && hi == 5:
						mins = lf
					}
					if ev := errValueOfCall(call); ev != nil {
						if _, isNil := knownNonNil(gz.Block(), ev); !isNil {
							ok = false
							detail = "a zone field is used although its digits did not parse"
						}
					}
				}
				if hrs == nil || mins == nil {
					ok = false
					detail = "hours are not the zone's digits [0:2] and minutes [3:5]"
				} else {
					// the colon between them
					colon := false
					for _, cmp := range cmpFactsAt(gz.Block()) {
						if ix, isIx := cmp.X.(*ssa.Index); isIx && cmp.Op == token.EQL && ix.X == zoneStr {
							if p, ok2 := constInt(ix.Index); ok2 && p == 2 {
								if ch, ok3 := constInt(cmp.Y); ok3 && ch == ':' {
									colon = true
								}
							}
						}
					}
					if !colon {
						ok = false
						detail = "the zone's ':' at offset 2 is not checked"
					}
				}
			}
			// the zone's first character: the value compared with '-' (and usually '+') nearest the zone lookup
			var cv ssa.Value
			consts := map[int64]bool{}
			cmpWith := map[ssa.Value]map[int64]bool{}
			var cmpOrder []ssa.Value
			for _, b := range zfn.Blocks {
				for _, in := range b.Instrs {
					bo, isBo := in.(*ssa.BinOp)
					if !isBo || bo.Op != token.EQL && bo.Op != token.NEQ {
						continue
					}
					if k, isK := constInt(bo.Y); isK && (k == '+' || k == '-') {
						x := stripConv(bo.X)
						if cmpWith[x] == nil {
							cmpWith[x] = map[int64]bool{}
							cmpOrder = append(cmpOrder, x)
						}
						cmpWith[x][k] = true
					}
				}
			}
			for _, both := range []bool{true, false} {
				for _, x := range cmpOrder {
					if cv == nil && cmpWith[x]['-'] && (cmpWith[x]['+'] || !both) {
						if in, isIn := x.(ssa.Instruction); isIn && in.Block().Dominates(gz.Block()) {
							cv = x
						}
					}
				}
			}
			if cv != nil {
				for _, b := range zfn.Blocks {
					for _, in := range b.Instrs {
						if bo, isBo := in.(*ssa.BinOp); isBo && stripConv(bo.X) == cv {
							if k, isK := constInt(bo.Y); isK {
								consts[k] = true
							}
						}
					}
				}
			}
			// offset as a function of (first character, hh, mm): comparisons of the first character are decided,
			// a phi takes the value of its only reachable edge
			evalCase := func(k, h, m int64) (val int64, reaches, okE bool) {
				start := zfn.Blocks[0]
				if in, isIn := cv.(ssa.Instruction); isIn {
					start = in.Block()
				}
				edges := reachUnderCase(start, cv, k)
				reaches = gz.Block() == start
				for e := range edges {
					if e[1] == gz.Block().Index {
						reaches = true
					}
				}
				if !reaches {
					return 0, false, true
				}
				var ev func(v ssa.Value, d int) (int64, bool)
				ev = func(v ssa.Value, d int) (int64, bool) {
					if d > 14 {
						return 0, false
					}
					switch y := v.(type) {
					case *ssa.Extract:
						if y == hrs {
							return h, true
						}
						if y == mins {
							return m, true
						}
						return 0, false
					case *ssa.Const:
						return constInt(y)
					case *ssa.Convert:
						return ev(y.X, d+1)
					case *ssa.ChangeType:
						return ev(y.X, d+1)
					case *ssa.UnOp:
						if y.Op == token.SUB {
							a, okA := ev(y.X, d+1)
							return -a, okA
						}
					case *ssa.BinOp:
						a, ok1 := ev(y.X, d+1)
						b, ok2 := ev(y.Y, d+1)
						if !ok1 || !ok2 {
							return 0, false
						}
						switch y.Op {
						case token.ADD:
							return a + b, true
						case token.SUB:
							return a - b, true
						case token.MUL:
							return a * b, true
						}
					case *ssa.Phi:
						n := 0
						var res int64
						for i, ed := range y.Edges {
							if !edges[[2]int{y.Block().Preds[i].Index, y.Block().Index}] {
								continue
							}
							a, okA := ev(ed, d+1)
							if !okA || n > 0 && a != res {
								return 0, false
							}
							res = a
							n++
						}
						return res, n > 0
					}
					return 0, false
				}
				val, okE = ev(off, 0)
				return val, true, okE
			}
			table := map[string]string{}
			okSign := cv != nil
			if cv != nil && hrs != nil && mins != nil {
				fresh := int64('x')
				for consts[fresh] {
					fresh++
				}
				consts[fresh], consts['+'], consts['-'] = true, true, true
				var ks []int64
				for k := range consts {
					ks = append(ks, k)
				}
				sort.Slice(ks, func(i, j int) bool { return ks[i] < ks[j] })
				for _, k := range ks {
					name := fmt.Sprintf("%q", rune(k))
					if k == fresh {
						name = "other"
					}
					switch k {
					case '+', '-':
						sg := int64(1)
						if k == '-' {
							sg = -1
						}
						for _, t := range []struct{ h, m int64 }{{1, 0}, {0, 1}, {2, 30}} {
							got, reaches, okE := evalCase(k, t.h, t.m)
							want := sg * (t.h*3600 + t.m*60)
							table[name] = fmt.Sprintf("offset(hh=%d, mm=%d) = %d", t.h, t.m, got)
							if !reaches || !okE {
								table[name] = "never reaches the zone lookup, or the offset is not an expression of the digits"
								okSign = false
								if k == '+' {
									ok = false
								}
								break
							}
							if got != want {
								if k == '+' || got != -want {
									// wrong magnitude
									ok = false
									detail = fmt.Sprintf("offset(first char %s, hh=%d, mm=%d) evaluates to %d, want %d seconds", name, t.h, t.m, got, want)
								}
								okSign = false
							}
						}
					default:
						_, reaches, _ := evalCase(k, 1, 1)
						table[name] = fmt.Sprintf("reaches the zone lookup: %v", reaches)
						if reaches {
							okSign = false
						}
					}
				}
			} else {
				ok = false
			}
			c.Check(ok, key+"/zone-offset", P.pos(gz.Pos()), "for '+' the offset is hh*3600 + mm*60 with hh, mm the successfully parsed digits around a checked ':'", "the numeric zone offset is not sign*(hh*3600+mm*60) of the zone's own digits: "+detail)
			c.Check(okSign, key+"/zone-sign", P.pos(gz.Pos()), "'+' -> +offset, '-' -> -offset, anything else never reaches the zone lookup", fmt.Sprintf("the zone offset by first character is %v, want '+' -> east (positive), '-' -> west (negative) and nothing else reaching the lookup", table))
			// 'Z' -> UTC
			zOK := false
			for _, s := range sourcesThroughCalls(P, full.Call.Args[7], 0) {
				if ld, ok := s.(*ssa.UnOp); ok {
					if g, ok := ld.X.(*ssa.Global); ok && g.Name() == "UTC" {
						for _, cmp := range cmpFactsAt(ld.Block()) {
							if ch, ok := constInt(cmp.Y); ok && cmp.Op == token.EQL && ch == 'Z' {
								zOK = true
							}
						}
					}
				}
			}
			c.Check(zOK, key+"/zone-Z", P.pos(full.Pos()), "'Z' selects time.UTC", "'Z' does not select time.UTC")
		}
	}

	// ---- TZ-KEY
	ruleTZKey(c)

	// ---- FMT-NANO
	c.Rule("FMT-NANO", "times are written with the full-precision RFC 3339 layout, so formatting then parsing can be the identity", 1)
	{
		bt := getBT(P)
		ct := bt.byType["time.StringCodec"]
		if c.Anchor(ct != nil, "time.StringCodec") {
			ok := false
			for _, cs := range callsIn(ct.M["Write"]) {
				if cs.Static != nil && qualName(cs.Static) == "(time.Time).Format" {
					if s, isS := constString(cs.Common.Args[1]); isS && s == "2006-01-02T15:04:05.999999999Z07:00" {
						ok = true
					}
				}
			}
			c.Check(ok, "time.StringCodec.Write/layout", P.pos(ct.M["Write"].Pos()), "t.Format(time.RFC3339Nano)", "the time is not formatted with time.RFC3339Nano: sub-second precision or the offset is lost on the way out")
		}
	}
}

func allEqual(xs []int64, v int64) bool {
	for _, x := range xs {
		if x != v {
			return false
		}
	}
	return true
}

// reachUnderCase returns the CFG edges (pred index, succ index) reachable from
// start when cv has the value k: branches comparing cv with a constant are
// decided, all others are followed both ways.
func reachUnderCase(start *ssa.BasicBlock, cv ssa.Value, k int64) map[[2]int]bool {
	edges := map[[2]int]bool{}
	seen := map[*ssa.BasicBlock]bool{}
	var visit func(b *ssa.BasicBlock)
	visit = func(b *ssa.BasicBlock) {
		if seen[b] {
			return
		}
		seen[b] = true
		take := []int{}
		for i := range b.Succs {
			take = append(take, i)
		}
		if iff, ok := b.Instrs[len(b.Instrs)-1].(*ssa.If); ok {
			if cmp, ok := asCmp(iff.Cond, true); ok {
				x, y, op := cmp.X, cmp.Y, cmp.Op
				if _, isK := constInt(x); isK {
					x, y, op = y, x, swapOp(op)
				}
				if c0, isK := constInt(y); isK && stripConv(x) == cv {
					var truth bool
					decided := true
					switch op {
					case token.EQL:
						truth = k == c0
					case token.NEQ:
						truth = k != c0
					case token.LSS:
						truth = k < c0
					case token.LEQ:
						truth = k <= c0
					case token.GTR:
						truth = k > c0
					case token.GEQ:
						truth = k >= c0
					default:
						decided = false
					}
					if decided {
						if truth {
							take = []int{0}
						} else {
							take = []int{1}
						}
					}
				}
			}
		}
		for _, i := range take {
			edges[[2]int{b.Index, b.Succs[i].Index}] = true
			visit(b.Succs[i])
		}
	}
	visit(start)
	return edges
}

// ---------- TZ-KEY

// ruleTZKey: the zone cache is a function of its key. The cache is found as the function of the time package
// that returns a *time.Location and looks one up in a package-level map; whatever that function stores in the
// map it stores under the key it looked up, and the zone it stores is built from that key and constants alone
// (name and offset). A cached zone that also depends on anything else the caller passed — a display name
// taken from the text being parsed — makes what one timestamp decodes to depend on which timestamp with the
// same offset was parsed first, by whichever goroutine.
func ruleTZKey(c *Ctx) {
	c.Rule("TZ-KEY", "the zone cache returns, for an offset, a fixed zone built from that same offset and nothing else the caller passed", 1)
	P := c.P
	var gt *ssa.Function
	var lk *ssa.Lookup
	for _, f := range P.ModuleFuncs() {
		if f.Pkg != P.Time || f.Parent() != nil || f.Signature.Results().Len() != 1 || !strings.HasSuffix(typeKey(f.Signature.Results().At(0).Type()), "time.Location") {
			continue
		}
		for _, b := range f.Blocks {
			for _, in := range b.Instrs {
				if x, ok := in.(*ssa.Lookup); ok && gt == nil {
					if _, isMap := x.X.Type().Underlying().(*types.Map); isMap {
						gt, lk = f, x
					}
				}
			}
		}
	}
	if !c.Anchor(gt != nil && lk != nil, "time.getTimezone(offset)") {
		return
	}
	key := lk.Index
	// a value computed from the key and constants alone
	var ofKey func(v ssa.Value, d int) bool
	ofKey = func(v ssa.Value, d int) bool {
		if v == key {
			return true
		}
		if d > 8 {
			return false
		}
		switch x := v.(type) {
		case *ssa.Const:
			return true
		case *ssa.Convert:
			return ofKey(x.X, d+1)
		case *ssa.ChangeType:
			return ofKey(x.X, d+1)
		case *ssa.BinOp:
			return ofKey(x.X, d+1) && ofKey(x.Y, d+1)
		case *ssa.UnOp:
			return x.Op != token.MUL && x.Op != token.ARROW && ofKey(x.X, d+1)
		}
		return false
	}
	okZone, okStore, why := false, false, ""
	var fz *ssa.Call
	for _, b := range gt.Blocks {
		for _, ins := range b.Instrs {
			switch x := ins.(type) {
			case *ssa.Call:
				if sc := x.Call.StaticCallee(); sc != nil && qualName(sc) == "time.FixedZone" {
					fz = x
					okZone = x.Call.Args[1] == key || (ofKey(x.Call.Args[1], 0) && sameValue(stripConv(x.Call.Args[1]), stripConv(key)))
					if !okZone {
						why = "the zone is not built for the offset it is cached under"
					} else if !ofKey(x.Call.Args[0], 0) {
						okZone = false
						why = "the cached zone's name is not a constant or a function of the key: which name an offset's zone carries depends on the first caller to ask for that offset"
					}
				}
			case *ssa.MapUpdate:
				okStore = sameValue(x.Key, key) && fz != nil && x.Value == ssa.Value(fz)
				if !okStore {
					why = "what is stored in the zone cache is not the zone just built, under the key looked up"
				}
			}
		}
	}
	// what is returned is the looked-up value or the freshly built zone
	okRet := true
	for _, r := range returnsOf(gt) {
		for _, s := range phiSources(resolvedResults(r)[0]) {
			switch y := s.(type) {
			case *ssa.Extract:
				if _, isLk := y.Tuple.(*ssa.Lookup); !isLk {
					okRet = false
				}
			case *ssa.Call:
				if y != fz {
					okRet = false
				}
			default:
				okRet = false
			}
		}
	}
	if !okRet && why == "" {
		why = "what the zone lookup returns is neither the cached zone nor the zone it just built"
	}
	if why == "" {
		why = "the zone cache is not keyed by the offset it builds the zone from"
	}
	c.Check(okZone && okStore && okRet, fnKey(gt)+"/key", P.pos(gt.Pos()), "looked up, built (from the key and constants alone) and stored under the same key", why)
}

// ---------- PT-PURE

// rulePTPure: parsing a timestamp depends on the text alone. The only
// package-level state the parser may touch is the locked zone cache, whose
// key is the numeric offset (TZ-KEY).
func rulePTPure(c *Ctx) {
	c.Rule("PT-PURE", "the timestamp parser touches no package-level state besides the locked zone cache", 2)
	P := c.P
	root := P.Func(P.Time, "parseTime")
	if !c.Anchor(root != nil, "time.parseTime") {
		return
	}
	seen := map[*ssa.Function]bool{}
	var fns []*ssa.Function
	var add func(f *ssa.Function)
	add = func(f *ssa.Function) {
		if f == nil || seen[f] || f.Blocks == nil || f.Pkg != P.Time {
			return
		}
		seen[f] = true
		fns = append(fns, f)
		for _, cs := range callsIn(f) {
			if cs.Static != nil {
				add(cs.Static)
			}
		}
	}
	add(root)
	for _, f := range fns {
		bad := ""
		for _, b := range f.Blocks {
			for _, in := range b.Instrs {
				if g := mutableStateOperand(P, in); g != nil {
					bad = "uses the package-level variable " + globalKey(g) + " at " + P.pos(in.Pos())
				}
			}
		}
		c.Check(bad == "", fnKey(f)+"/pure", P.pos(f.Pos()), "no package-level state besides the zone cache", "the timestamp parser "+bad+": what it returns for one text can depend on texts parsed before")
	}
}

// ---------- TS-UTC

// ruleTSUTC: dates and timestamps are defined without reference to any zone.
// time.Unix hands back a time in the process's local zone; calendar
// arithmetic or calendar fields taken from it depend on that zone unless the
// value is moved to UTC first.
func ruleTSUTC(c *Ctx) {
	c.Rule("TS-UTC", "no codec of the time package does calendar arithmetic on, or takes calendar fields from, a time in the process's local zone", 1)
	P := c.P
	zoneDependent := map[string]bool{"AddDate": true, "Date": true, "Clock": true, "Year": true, "Month": true, "Day": true, "Hour": true, "Minute": true, "Second": true, "YearDay": true, "Weekday": true, "ISOWeek": true, "Truncate": false, "Format": true, "Zone": true}
	n := 0
	for _, fn := range P.ModuleFuncs() {
		if fn.Pkg != P.Time || fn.Signature.Recv() == nil {
			continue
		}
		for _, cs := range callsIn(fn) {
			if cs.Static == nil || cs.Static.Pkg == nil || cs.Static.Pkg.Pkg.Path() != "time" || cs.Static.Signature.Recv() == nil || !zoneDependent[cs.Static.Name()] {
				continue
			}
			// where does the receiver come from?
			recv := cs.Common.Args[0]
			if call, ok := recv.(*ssa.Call); ok && call.Call.StaticCallee() != nil {
				switch qualName(call.Call.StaticCallee()) {
				case "time.Unix", "time.UnixMilli", "time.UnixMicro", "time.Now":
					n++
					c.Bad(fmt.Sprintf("%s/local-zone#%d", fnKey(fn), n), P.pos(cs.Instr.Pos()), fmt.Sprintf("(time.Time).%s is applied to the result of %s, which is in the process's local zone: the value decoded or written depends on where the program runs", cs.Static.Name(), qualName(call.Call.StaticCallee())))
				}
			}
		}
	}
	if n == 0 {
		c.OK("time/no-local-zone-arithmetic", "-", "no calendar arithmetic on a local-zone time in the time package's codecs")
	}
}

// phiFedBy reports whether v is an incoming value of phi, directly or through the join phis of conditionals in between.
func phiFedBy(phi *ssa.Phi, v ssa.Value) bool {
	seen := map[*ssa.Phi]bool{}
	var walk func(p *ssa.Phi) bool
	walk = func(p *ssa.Phi) bool {
		if seen[p] {
			return false
		}
		seen[p] = true
		for _, e := range p.Edges {
			if e == v {
				return true
			}
			if q, ok := e.(*ssa.Phi); ok && walk(q) {
				return true
			}
		}
		return false
	}
	return walk(phi)
}

// ptScope: the parser and the same-package functions it calls, transitively
// (the parser may be split into helpers for its parts).
func ptScope(P *Program, fn *ssa.Function) []*ssa.Function {
	var out []*ssa.Function
	seen := map[*ssa.Function]bool{}
	var add func(f *ssa.Function)
	add = func(f *ssa.Function) {
		if f == nil || seen[f] || f.Blocks == nil || f.Pkg != fn.Pkg {
			return
		}
		seen[f] = true
		out = append(out, f)
		for _, cs := range callsIn(f) {
			if cs.Static != nil {
				add(cs.Static)
			}
		}
	}
	add(fn)
	return out
}

// sourcesThroughCalls: phiSources of v, looking into the corresponding
// result of module helpers the value was returned by (two levels).
func sourcesThroughCalls(P *Program, v ssa.Value, depth int) []ssa.Value {
	var out []ssa.Value
	for _, s := range phiSources(v) {
		if ex, ok := s.(*ssa.Extract); ok && depth < 2 {
			if call, ok := ex.Tuple.(*ssa.Call); ok {
				if g := call.Call.StaticCallee(); g != nil && P.isModuleFunc(g) && g.Blocks != nil {
					for _, r := range returnsOf(g) {
						rs := resolvedResults(r)
						if ex.Index < len(rs) {
							out = append(out, sourcesThroughCalls(P, rs[ex.Index], depth+1)...)
						}
					}
					continue
				}
			}
		}
		out = append(out, s)
	}
	return out
}

// zoneOffsetArg: for a call of a module function returning a *time.Location
// with exactly one integer among its (non-receiver) arguments, that argument.
func zoneOffsetArg(call *ssa.Call) ssa.Value {
	g := call.Call.StaticCallee()
	if g == nil || g.Signature.Results().Len() != 1 || !strings.HasSuffix(typeKey(g.Signature.Results().At(0).Type()), "time.Location") {
		return nil
	}
	args := call.Call.Args
	if g.Signature.Recv() != nil && len(args) > 0 {
		args = args[1:]
	}
	if len(args) != 1 {
		return nil
	}
	if b, ok := args[0].Type().Underlying().(*types.Basic); ok && b.Info()&types.IsInteger != 0 {
		return args[0]
	}
	return nil
}

// ptEmitFold turns the answers of the fold into the obligations of PT-FIELDS, PT-SEP, PT-DATE and PT-REM.
func ptEmitFold(c *Ctx, fn *ssa.Function, pf *ptFold) {
	key := fnKey(fn)
	emit := func(k, good string) {
		bad, seen := pf.problem[k]
		switch {
		case !seen:
			c.Unk(key+"/"+k, pf.pos, "the fold gave no answer")
		case bad == "":
			c.OK(key+"/"+k, pf.pos, good+" (folded on symbolic inputs of 10, 20, 21, 25 and 26 bytes)")
		default:
			c.Bad(key+"/"+k, pf.pos, bad)
		}
	}
	c.Rule("PT-FIELDS", "the instant is assembled by time.Date from the digit fields at the RFC 3339 offsets, in the right argument order, each parsed without error", 9)
	for _, f := range rfc3339Fields {
		emit("date-time/"+f.name, fmt.Sprintf("%s depends on exactly in[%d:%d] on every accepting path", f.name, f.lo, f.hi))
		if f.dateOnly {
			emit("date/"+f.name, fmt.Sprintf("%s depends on exactly in[%d:%d] on every accepting path", f.name, f.lo, f.hi))
		}
	}
	c.Rule("PT-SEP", "a string is accepted only with the RFC 3339 separators at their fixed offsets", 7)
	for _, s := range rfc3339Seps {
		emit(fmt.Sprintf("date-time/sep@%d", s.pos), fmt.Sprintf("every accepting path found in[%d] == %q", s.pos, rune(s.ch)))
		if s.dateOnly {
			emit(fmt.Sprintf("date/sep@%d", s.pos), fmt.Sprintf("every accepting path found in[%d] == %q", s.pos, rune(s.ch)))
		}
	}
	c.Rule("PT-DATE", "a ten-character date is midnight UTC of that day", 1)
	emit("date/midnight-utc", "a 10-byte input ends in time.Date(y, m, d, 0, 0, 0, 0, time.UTC)")
	c.Rule("PT-REM", "a date-time is accepted only when nothing is left over after the zone", 1)
	emit("date-time/nothing-left", "no 21- or 26-byte input without a fraction is accepted")
	ptEmitDeep(c, fn, pf)
}

// ptEmitDeep: PT-DIGITS and PT-ACCEPT from the second stage of the fold (rules_ptdeep.go).
func ptEmitDeep(c *Ctx, fn *ssa.Function, pf *ptFold) {
	key := fnKey(fn)
	pd := pf.deep
	emit := func(k, good string) {
		if pd == nil || !pd.ok {
			why := "the fold did not run"
			if pd != nil {
				why = pd.why
			}
			c.Unk(key+"/"+k, pf.pos, "not decided: "+why)
			return
		}
		bad, seen := pd.problem[k]
		switch {
		case !seen:
			c.Unk(key+"/"+k, pf.pos, "the fold gave no answer")
		case bad == "":
			c.OK(key+"/"+k, pf.pos, good)
		default:
			c.Bad(key+"/"+k, pf.pos, bad)
		}
	}
	c.Rule("PT-DIGITS", "a byte of a numeric field is accepted exactly when it is '0'-'9', and the number handed on is the decimal value of the field's digits", 7)
	for _, f := range []string{"year", "month", "day", "hour", "minute", "second", "zone"} {
		emit("digits/"+f, "on every accepting path the bytes of the field are exactly '0'-'9' and the value is their decimal number (tables over all 256 byte values)")
	}
	c.Rule("PT-ACCEPT", "no rejecting path is consistent with a well-formed timestamp whose fields are in range: what the standard library accepts is not refused", 5)
	for _, f := range []string{"date", "date-time-Z", "date-time-offset", "fraction-Z", "fraction-offset"} {
		emit("accepts/"+f, "every rejecting path contradicts well-formedness or an in-range field (month 01-12, day 01-28, hour 00-23, minute, second 00-59, zone 00-23:00-59)")
	}
}
